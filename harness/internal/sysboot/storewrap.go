package sysboot

// A MetaStoreFactory decorator: every call of the real store is announced to an observer BEFORE it is forwarded
// (so an observer with a global clock sees, for correct code, a checkpoint write after the acknowledgement it
// depends on) and again after it returned; the observer may inject an error or ask for the process to be killed
// at either point.

import (
	"context"
	"encoding/binary"
	"errors"
	"sync"

	coreapi "github.com/zilliztech/milvus-cdc/core/api"
	serverapi "github.com/zilliztech/milvus-cdc/server/api"
	"github.com/zilliztech/milvus-cdc/server/model/meta"
)

type PosEntry struct {
	MsgID   uint64 `json:"msg_id"`
	Time    int64  `json:"time"`
	Dropped bool   `json:"dropped"`
}

type StoreEvent struct {
	Seq       int                 `json:"seq"`   // ordinal of the store call in this process
	Phase     string              `json:"phase"` // before | after
	Op        string              `json:"op"`    // get | put | delete | txn | commit
	Kind      string              `json:"kind"`  // task_info | task_position | factory
	Task      string              `json:"task,omitempty"`
	Coll      int64               `json:"coll,omitempty"`
	CollName  string              `json:"coll_name,omitempty"`
	State     int                 `json:"state,omitempty"`
	Reason    string              `json:"reason,omitempty"`
	Positions map[string]PosEntry `json:"positions,omitempty"`
	InTxn     bool                `json:"in_txn,omitempty"`
	Err       string              `json:"err,omitempty"`
}

// StoreDecision: Fail != "" makes the call return that error without reaching the store (phase before only);
// Kill ends the process immediately (SIGKILL to itself) at that point.
type StoreDecision struct {
	Fail string `json:"fail,omitempty"`
	Kill bool   `json:"kill,omitempty"`
}

type StoreObserver func(StoreEvent) StoreDecision

type wrapFactory struct {
	inner serverapi.MetaStoreFactory
	obs   StoreObserver
	kill  func()
	mu    sync.Mutex
	seq   int
}

// WrapStore decorates f. kill is called when the observer asks for it (must not return).
func WrapStore(f serverapi.MetaStoreFactory, obs StoreObserver, kill func()) serverapi.MetaStoreFactory {
	return &wrapFactory{inner: f, obs: obs, kill: kill}
}

func (w *wrapFactory) next() int { w.mu.Lock(); defer w.mu.Unlock(); w.seq++; return w.seq }

// around announces ev (phase before), runs f unless a failure is injected, announces the outcome (phase after).
func (w *wrapFactory) around(ev StoreEvent, f func() error) error {
	ev.Seq = w.next()
	ev.Phase = "before"
	d := w.obs(ev)
	if d.Kill {
		w.kill()
	}
	if d.Fail != "" {
		ev.Phase, ev.Err = "after", "injected: "+d.Fail
		w.obs(ev)
		return errors.New(d.Fail)
	}
	err := f()
	ev.Phase = "after"
	if err != nil {
		ev.Err = err.Error()
	}
	if d2 := w.obs(ev); d2.Kill {
		w.kill()
	}
	return err
}

func (w *wrapFactory) GetTaskInfoMetaStore(ctx context.Context) serverapi.MetaStore[*meta.TaskInfo] {
	return &wrapInfo{w, w.inner.GetTaskInfoMetaStore(ctx)}
}

func (w *wrapFactory) GetTaskCollectionPositionMetaStore(ctx context.Context) serverapi.MetaStore[*meta.TaskCollectionPosition] {
	return &wrapPos{w, w.inner.GetTaskCollectionPositionMetaStore(ctx)}
}

func (w *wrapFactory) GetReplicateStore(ctx context.Context) coreapi.ReplicateStore {
	return w.inner.GetReplicateStore(ctx)
}

func (w *wrapFactory) Txn(ctx context.Context) (any, func(err error) error, error) {
	var txn any
	var commit func(error) error
	err := w.around(StoreEvent{Op: "txn", Kind: "factory"}, func() error {
		var e error
		txn, commit, e = w.inner.Txn(ctx)
		return e
	})
	if err != nil {
		return nil, nil, err
	}
	return txn, func(cause error) error {
		ev := StoreEvent{Op: "commit", Kind: "factory"}
		if cause != nil {
			ev.Reason = "rollback: " + cause.Error()
		}
		reached := false
		e := w.around(ev, func() error { reached = true; return commit(cause) })
		if e != nil && !reached {
			// an injected commit failure never reached the store: roll the real transaction back
			_ = commit(e)
		}
		return e
	}, nil
}

type wrapInfo struct {
	w *wrapFactory
	s serverapi.MetaStore[*meta.TaskInfo]
}

func infoEv(op string, m *meta.TaskInfo, txn any) StoreEvent {
	ev := StoreEvent{Op: op, Kind: "task_info", InTxn: txn != nil}
	if m != nil {
		ev.Task, ev.State, ev.Reason = m.TaskID, int(m.State), m.Reason
	}
	return ev
}

func (i *wrapInfo) Put(ctx context.Context, m *meta.TaskInfo, txn any) error {
	return i.w.around(infoEv("put", m, txn), func() error { return i.s.Put(ctx, m, txn) })
}
func (i *wrapInfo) Get(ctx context.Context, m *meta.TaskInfo, txn any) (out []*meta.TaskInfo, err error) {
	err = i.w.around(infoEv("get", m, txn), func() error { var e error; out, e = i.s.Get(ctx, m, txn); return e })
	return
}
func (i *wrapInfo) Delete(ctx context.Context, m *meta.TaskInfo, txn any) error {
	return i.w.around(infoEv("delete", m, txn), func() error { return i.s.Delete(ctx, m, txn) })
}

type wrapPos struct {
	w *wrapFactory
	s serverapi.MetaStore[*meta.TaskCollectionPosition]
}

func posEv(op string, m *meta.TaskCollectionPosition, txn any) StoreEvent {
	ev := StoreEvent{Op: op, Kind: "task_position", InTxn: txn != nil}
	if m != nil {
		ev.Task, ev.Coll, ev.CollName = m.TaskID, m.CollectionID, m.CollectionName
		if op == "put" {
			ev.Positions = map[string]PosEntry{}
			for ch, p := range m.Positions {
				if p == nil {
					continue
				}
				e := PosEntry{Time: p.Time, Dropped: p.Dropped}
				if d := p.DataPair.GetData(); len(d) == 8 {
					e.MsgID = binary.BigEndian.Uint64(d)
				}
				ev.Positions[ch] = e
			}
		}
	}
	return ev
}

func (p *wrapPos) Put(ctx context.Context, m *meta.TaskCollectionPosition, txn any) error {
	return p.w.around(posEv("put", m, txn), func() error { return p.s.Put(ctx, m, txn) })
}
func (p *wrapPos) Get(ctx context.Context, m *meta.TaskCollectionPosition, txn any) (out []*meta.TaskCollectionPosition, err error) {
	err = p.w.around(posEv("get", m, txn), func() error { var e error; out, e = p.s.Get(ctx, m, txn); return e })
	return
}
func (p *wrapPos) Delete(ctx context.Context, m *meta.TaskCollectionPosition, txn any) error {
	return p.w.around(posEv("delete", m, txn), func() error { return p.s.Delete(ctx, m, txn) })
}
