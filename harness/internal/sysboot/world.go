// Package sysboot assembles the whole CDC service in one process for the system rig: the REAL server.MetaCDC
// (built through the verif constructor), its HTTP handler, store.EtcdMetaStore, reader.EtcdOp, CollectionReader,
// ChannelReader, channel manager, Milvus' mqMsgStream / MqTtMsgStream / msgdispatcher, packer, ChannelWriter,
// MilvusDataHandler and TargetClient (milvus-sdk-go over gRPC) — between an embedded etcd (source catalog and CDC
// metadata under different roots), memq (the source's physical channels) and fakemilvus (the downstream).
package sysboot

import (
	"bytes"
	"context"
	"encoding/json"
	"fmt"
	"io"
	"net/http"
	"net/http/httptest"
	"path/filepath"
	"sync"

	"github.com/milvus-io/milvus/pkg/mq/msgstream"

	"github.com/zilliztech/milvus-cdc/core/config"
	cdcreader "github.com/zilliztech/milvus-cdc/core/reader"
	"github.com/zilliztech/milvus-cdc/core/util"
	"github.com/zilliztech/milvus-cdc/server"
	serverapi "github.com/zilliztech/milvus-cdc/server/api"
	"github.com/zilliztech/milvus-cdc/server/msgpacker"
	"github.com/zilliztech/milvus-cdc/server/store"

	"verifharness/internal/etcdbox"
	"verifharness/internal/fakemilvus"
	"verifharness/internal/memq"
	"verifharness/internal/upstream"
)

var initOnce sync.Once

// InitProcess performs the process-wide initialisation server/main does before starting the server.
func InitProcess() {
	initOnce.Do(func() {
		util.InitMilvusPkgParam()
		config.InitCommonConfig(func(c *config.CommonConfig) {
			c.Retry = config.RetrySettings{RetryTimes: 3, InitBackOff: 1, MaxBackOff: 1}
		})
	})
}

type World struct {
	Dir      string
	SrcRoot  string
	MetaRoot string
	Etcd     *etcdbox.Box
	Broker   *memq.Broker
	Up       *upstream.Producer
	Targets  []*fakemilvus.Server
	Src      *Source
	ownEtcd  bool
	// EtcdEndpoint is the etcd every component connects to (the embedded one, or a supervisor's in attach mode)
	EtcdEndpoint string
}

type WorldOptions struct {
	Dir        string
	Targets    int
	FileBroker bool
	// Attach to an etcd / targets living in another process (child mode): endpoints instead of embedded servers
	EtcdEndpoint string
	MetaRoot     string
}

// NewWorld starts etcd, the broker and the downstream servers and writes the source's base catalog.
func NewWorld(o WorldOptions) (*World, error) {
	InitProcess()
	w := &World{Dir: o.Dir, SrcRoot: "by-dev", MetaRoot: "cdc-verif"}
	if o.MetaRoot != "" {
		w.MetaRoot = o.MetaRoot
	}
	var err error
	w.Etcd, err = etcdbox.Start(filepath.Join(o.Dir, "etcd"))
	if err != nil {
		return nil, err
	}
	w.ownEtcd = true
	w.EtcdEndpoint = w.Etcd.Endpoint
	if o.FileBroker {
		w.Broker = memq.NewFileBroker(filepath.Join(o.Dir, "mq"))
	} else {
		w.Broker = memq.NewMemoryBroker()
	}
	w.Up = upstream.NewProducer(w.Broker.Factory())
	for i := 0; i < o.Targets; i++ {
		t, err := fakemilvus.Start()
		if err != nil {
			w.Close()
			return nil, err
		}
		w.Targets = append(w.Targets, t)
	}
	w.Src = newSource(w)
	if err := w.Src.Init(context.Background()); err != nil {
		w.Close()
		return nil, err
	}
	return w, nil
}

// Attach builds the CDC-side view of a world that lives in another (supervisor) process: etcd by endpoint, the
// source's physical channels through the file broker directory. It has no upstream, no downstream servers.
func Attach(etcdEndpoint, mqDir, metaRoot string) *World {
	InitProcess()
	w := &World{SrcRoot: "by-dev", MetaRoot: metaRoot, EtcdEndpoint: etcdEndpoint, Broker: memq.NewFileBroker(mqDir)}
	return w
}

func (w *World) Close() {
	if w.Up != nil {
		w.Up.Close()
	}
	for _, t := range w.Targets {
		t.Stop()
	}
	if w.Etcd != nil && w.ownEtcd {
		w.Etcd.Close()
	}
}

// ReplicateChan is the source's DDL/RBAC replicate channel name.
func (w *World) ReplicateChan() string { return w.SrcRoot + "-replicate-msg" }

// factoryCreator plugs memq into the repository's FactoryCreator seam.
type factoryCreator struct{ b *memq.Broker }

func (f factoryCreator) NewPmsFactory(cfg *config.PulsarConfig) msgstream.Factory { return f.b.Factory() }
func (f factoryCreator) NewKmsFactory(cfg *config.KafkaConfig) msgstream.Factory  { return f.b.Factory() }

type CDCOptions struct {
	// WrapStore lets a rig wrap the real EtcdMetaStore factory (fault injection / put log)
	WrapStore      func(serverapi.MetaStoreFactory) serverapi.MetaStoreFactory
	SourceChannels int
	Packer         msgpacker.PackerConfig
	TTIntervalMs   int
	ReadChanLen    int
	MaxTaskNum     int
	Broker         *memq.Broker // default: the world's
	EtcdEndpoint   string       // default: the world's
}

type CDC struct {
	Svc     *server.MetaCDC
	Handler http.Handler
	Config  *server.CDCServerConfig
	Store   serverapi.MetaStoreFactory
	Real    *store.EtcdMetaStore
}

func (w *World) ServerConfig(o CDCOptions) *server.CDCServerConfig {
	ep := w.EtcdEndpoint
	if o.EtcdEndpoint != "" {
		ep = o.EtcdEndpoint
	}
	if o.SourceChannels == 0 {
		o.SourceChannels = 4
	}
	if o.TTIntervalMs == 0 {
		o.TTIntervalMs = 1
	}
	if o.ReadChanLen == 0 {
		o.ReadChanLen = 10
	}
	if o.MaxTaskNum == 0 {
		o.MaxTaskNum = 100
	}
	return &server.CDCServerConfig{
		Address: "127.0.0.1:0", MaxTaskNum: o.MaxTaskNum, MaxNameLength: 256,
		MetaStoreConfig: server.CDCMetaStoreConfig{StoreType: "etcd", Etcd: config.EtcdServerConfig{Address: []string{ep}}, RootPath: w.MetaRoot},
		SourceConfig: server.MilvusSourceConfig{
			Etcd:        config.EtcdServerConfig{Address: []string{ep}, RootPath: w.SrcRoot, MetaSubPath: "meta"},
			ReadChanLen: o.ReadChanLen, ChannelNum: o.SourceChannels, TimeTickInterval: o.TTIntervalMs,
			DefaultPartitionName: "_default", ReplicateChan: w.ReplicateChan(),
			Pulsar: config.PulsarConfig{Address: "memq://local"},
		},
		Retry:  config.RetrySettings{RetryTimes: 3, InitBackOff: 1, MaxBackOff: 1},
		Packer: o.Packer,
	}
}

// StartCDC builds a CDC server instance on the world (a second call models a restarted process only as far as
// process-wide singletons allow; real restarts use a child process).
func (w *World) StartCDC(o CDCOptions) (*CDC, error) {
	cfg := w.ServerConfig(o)
	real, err := store.NewEtcdMetaStore(context.Background(), cfg.MetaStoreConfig.Etcd, w.MetaRoot)
	if err != nil {
		return nil, err
	}
	var f serverapi.MetaStoreFactory = real
	if o.WrapStore != nil {
		f = o.WrapStore(real)
	}
	b := w.Broker
	if o.Broker != nil {
		b = o.Broker
	}
	svc, err := server.NewMetaCDCForVerif(cfg, f, factoryCreator{b})
	if err != nil {
		return nil, err
	}
	svc.ReloadTask()
	return &CDC{Svc: svc, Handler: server.NewCDCHandlerForVerif(svc, cfg), Config: cfg, Store: f, Real: real}, nil
}

type Response struct {
	HTTPStatus int
	Raw        []byte
	Code       int
	Message    string
	Data       map[string]any
	JSONOK     bool
}

// Post sends a raw body to the /cdc handler.
func (c *CDC) Post(method string, body []byte) Response {
	req := httptest.NewRequest(method, "/cdc", bytes.NewReader(body))
	rec := httptest.NewRecorder()
	c.Handler.ServeHTTP(rec, req)
	res := rec.Result()
	raw, _ := io.ReadAll(res.Body)
	r := Response{HTTPStatus: res.StatusCode, Raw: raw}
	var m struct {
		Code    int            `json:"code"`
		Message string         `json:"message"`
		Data    map[string]any `json:"data"`
	}
	if json.Unmarshal(raw, &m) == nil {
		r.JSONOK, r.Code, r.Message, r.Data = true, m.Code, m.Message, m.Data
	}
	return r
}

// Do sends {"request_type": t, "request_data": data}.
func (c *CDC) Do(t string, data any) Response {
	b, err := json.Marshal(map[string]any{"request_type": t, "request_data": data})
	if err != nil {
		return Response{Message: fmt.Sprint(err)}
	}
	return c.Post(http.MethodPost, b)
}

var _ = cdcreader.DefaultDatabase
