package sysboot

// The upstream Milvus as CDC sees it: a rootcoord-style catalog in etcd (layout as parsed by
// core/reader/etcd_op.go) and DML/DDL messages plus time ticks on the physical channels.

import (
	"context"
	"encoding/binary"
	"fmt"
	"sync"
	"time"

	"github.com/milvus-io/milvus-proto/go-api/v2/commonpb"
	"github.com/milvus-io/milvus-proto/go-api/v2/msgpb"
	"github.com/milvus-io/milvus-proto/go-api/v2/schemapb"
	"github.com/milvus-io/milvus/pkg/mq/msgstream"
	"google.golang.org/protobuf/proto"

	"github.com/zilliztech/milvus-cdc/core/pb"

	"verifharness/internal/catalog"
)

type SrcShard struct {
	PChannel string `json:"pchannel"`
	VChannel string `json:"vchannel"`
}

type SrcPart struct {
	ID      int64  `json:"id"`
	Name    string `json:"name"`
	Dropped bool   `json:"dropped"`
}

type SrcColl struct {
	ID       int64      `json:"id"`
	DBID     int64      `json:"db_id"`
	DB       string     `json:"db"`
	Name     string     `json:"name"`
	Shards   []SrcShard `json:"shards"`
	Parts    []*SrcPart `json:"parts"`
	CreateTS uint64     `json:"create_ts"`
	Dropped  bool       `json:"dropped"`
}

// Source is safe for concurrent use.
type Source struct {
	sendMu sync.Mutex // serialises (timestamp allocation + append) of data messages against TickAll
	w      *World
	keys   *catalog.Catalog
	mu     sync.Mutex
	nextID int64
	dbs    map[string]int64
	Colls  []*SrcColl
	// clock: hybrid timestamps handed out by Now(); one logical "millisecond" per call group
	ms uint64
}

func newSource(w *World) *Source {
	s := &Source{w: w, keys: catalog.New(w.SrcRoot), nextID: 449_100_000_000_000_000, dbs: map[string]int64{"default": 1}, ms: 1_727_100_000_000}
	return s
}

func (s *Source) put(ctx context.Context, k string, v []byte) error {
	_, err := s.w.Etcd.Client.Put(ctx, k, string(v))
	return err
}

func mustMarshal(m proto.Message) []byte {
	b, err := proto.Marshal(m)
	if err != nil {
		panic(err)
	}
	return b
}

// TS returns a fresh hybrid timestamp (strictly increasing).
func (s *Source) TS() uint64 {
	s.mu.Lock()
	defer s.mu.Unlock()
	s.ms++
	return s.ms << 18
}

// AdvanceMs moves the source clock forward.
func (s *Source) AdvanceMs(d uint64) {
	s.mu.Lock()
	s.ms += d
	s.mu.Unlock()
}

func (s *Source) NowMs() uint64 { s.mu.Lock(); defer s.mu.Unlock(); return s.ms }

// Init writes the default database and the TSO key.
func (s *Source) Init(ctx context.Context) error {
	if err := s.put(ctx, s.keys.DBKey(1), mustMarshal(&pb.DatabaseInfo{Id: 1, Name: "default", State: pb.DatabaseState_DatabaseCreated, CreatedTime: s.TS()})); err != nil {
		return err
	}
	return s.WriteTSO(ctx)
}

// WriteTSO stores the source's current time in the TSO key (nanoseconds, big endian, like the allocator).
func (s *Source) WriteTSO(ctx context.Context) error {
	b := make([]byte, 8)
	binary.BigEndian.PutUint64(b, (s.NowMs()+1000)*uint64(time.Millisecond))
	return s.put(ctx, s.keys.TSOKey(), b)
}

func (s *Source) CreateDatabase(ctx context.Context, name string) (int64, error) {
	s.mu.Lock()
	if id, ok := s.dbs[name]; ok {
		s.mu.Unlock()
		return id, nil
	}
	s.nextID++
	id := s.nextID
	s.dbs[name] = id
	s.mu.Unlock()
	return id, s.put(ctx, s.keys.DBKey(id), mustMarshal(&pb.DatabaseInfo{Id: id, Name: name, State: pb.DatabaseState_DatabaseCreated, CreatedTime: s.TS()}))
}

// CreateCollection writes the collection the way rootcoord does (Creating, fields, default partition, Created)
// with one shard per given physical channel. The start position of each shard is the current end of its topic.
func (s *Source) CreateCollection(ctx context.Context, db, name string, pchannels []string) (*SrcColl, error) {
	dbID, err := s.CreateDatabase(ctx, db)
	if err != nil {
		return nil, err
	}
	s.mu.Lock()
	s.nextID++
	id := s.nextID
	s.mu.Unlock()
	c := &SrcColl{ID: id, DBID: dbID, DB: db, Name: name, CreateTS: s.TS()}
	info := &pb.CollectionInfo{ID: id, DbId: dbID, Schema: &schemapb.CollectionSchema{Name: name, Description: "generated"}, CreateTime: c.CreateTS,
		ShardsNum: int32(len(pchannels)), ConsistencyLevel: commonpb.ConsistencyLevel_Bounded, State: pb.CollectionState_CollectionCreating}
	for i, p := range pchannels {
		v := fmt.Sprintf("%s_%dv%d", p, id, i)
		c.Shards = append(c.Shards, SrcShard{PChannel: p, VChannel: v})
		info.VirtualChannelNames = append(info.VirtualChannelNames, v)
		info.PhysicalChannelNames = append(info.PhysicalChannelNames, p)
		pos := make([]byte, 8)
		binary.BigEndian.PutUint64(pos, s.w.Broker.LastID(p))
		info.StartPositions = append(info.StartPositions, &commonpb.KeyDataPair{Key: p, Data: pos})
	}
	if err := s.put(ctx, s.keys.CollKey(dbID, id), mustMarshal(info)); err != nil {
		return nil, err
	}
	fields := []*schemapb.FieldSchema{
		{FieldID: 0, Name: "RowID", DataType: schemapb.DataType_Int64},
		{FieldID: 1, Name: "Timestamp", DataType: schemapb.DataType_Int64},
		{FieldID: 100, Name: "pk", DataType: schemapb.DataType_Int64, IsPrimaryKey: true},
		{FieldID: 101, Name: "vec", DataType: schemapb.DataType_FloatVector, TypeParams: []*commonpb.KeyValuePair{{Key: "dim", Value: "2"}}},
	}
	for _, f := range fields {
		if err := s.put(ctx, s.keys.FieldKey(id, f.FieldID), mustMarshal(f)); err != nil {
			return nil, err
		}
	}
	if _, err := s.createPartition(ctx, c, "_default"); err != nil {
		return nil, err
	}
	info.State = pb.CollectionState_CollectionCreated
	if err := s.put(ctx, s.keys.CollKey(dbID, id), mustMarshal(info)); err != nil {
		return nil, err
	}
	s.mu.Lock()
	s.Colls = append(s.Colls, c)
	s.mu.Unlock()
	return c, nil
}

func (s *Source) createPartition(ctx context.Context, c *SrcColl, name string) (*SrcPart, error) {
	s.mu.Lock()
	s.nextID++
	id := s.nextID
	s.mu.Unlock()
	p := &SrcPart{ID: id, Name: name}
	if err := s.put(ctx, s.keys.PartKey(c.ID, id), mustMarshal(&pb.PartitionInfo{PartitionID: id, PartitionName: name, PartitionCreatedTimestamp: s.TS(), CollectionId: c.ID, State: pb.PartitionState_PartitionCreated})); err != nil {
		return nil, err
	}
	s.mu.Lock()
	c.Parts = append(c.Parts, p)
	s.mu.Unlock()
	return p, nil
}

func (s *Source) CreatePartition(ctx context.Context, c *SrcColl, name string) (*SrcPart, error) {
	return s.createPartition(ctx, c, name)
}

// DropPartitionMeta marks the partition dropped in the catalog (the drop message is sent separately).
func (s *Source) DropPartitionMeta(ctx context.Context, c *SrcColl, p *SrcPart) error {
	p.Dropped = true
	return s.put(ctx, s.keys.PartKey(c.ID, p.ID), mustMarshal(&pb.PartitionInfo{PartitionID: p.ID, PartitionName: p.Name, CollectionId: c.ID, State: pb.PartitionState_PartitionDropped}))
}

// DropCollectionMeta marks the collection dropped in the catalog.
func (s *Source) DropCollectionMeta(ctx context.Context, c *SrcColl) error {
	c.Dropped = true
	info := &pb.CollectionInfo{ID: c.ID, DbId: c.DBID, Schema: &schemapb.CollectionSchema{Name: c.Name}, CreateTime: c.CreateTS, ShardsNum: int32(len(c.Shards)), State: pb.CollectionState_CollectionDropped}
	for _, sh := range c.Shards {
		info.VirtualChannelNames = append(info.VirtualChannelNames, sh.VChannel)
		info.PhysicalChannelNames = append(info.PhysicalChannelNames, sh.PChannel)
		info.StartPositions = append(info.StartPositions, &commonpb.KeyDataPair{Key: sh.PChannel, Data: make([]byte, 8)})
	}
	return s.put(ctx, s.keys.CollKey(c.DBID, c.ID), mustMarshal(info))
}

// ---------------- messages ----------------

func (s *Source) base(t commonpb.MsgType, uid int64, ts uint64) *commonpb.MsgBase {
	return &commonpb.MsgBase{MsgType: t, MsgID: uid, Timestamp: ts, SourceID: 7}
}

// InsertMsg builds an insert of `rows` rows with unique row ids / primary keys derived from uid.
func (s *Source) InsertMsg(c *SrcColl, shard int, p *SrcPart, uid int64, ts uint64, rows int) *msgstream.InsertMsg {
	tss := make([]uint64, rows)
	ids := make([]int64, rows)
	pks := make([]int64, rows)
	vec := make([]float32, rows*2)
	for i := 0; i < rows; i++ {
		tss[i] = ts
		ids[i] = uid*1000 + int64(i)
		pks[i] = uid*1000 + int64(i)
		vec[2*i], vec[2*i+1] = float32(uid%1000), float32(i)
	}
	return &msgstream.InsertMsg{
		BaseMsg: msgstream.BaseMsg{BeginTimestamp: ts, EndTimestamp: ts, HashValues: []uint32{0}},
		InsertRequest: &msgpb.InsertRequest{Base: s.base(commonpb.MsgType_Insert, uid, ts), ShardName: c.Shards[shard].VChannel, DbName: c.DB, CollectionName: c.Name,
			PartitionName: p.Name, DbID: c.DBID, CollectionID: c.ID, PartitionID: p.ID, SegmentID: 9000 + uid, Timestamps: tss, RowIDs: ids, NumRows: uint64(rows),
			Version: msgpb.InsertDataVersion_ColumnBased,
			FieldsData: []*schemapb.FieldData{
				{Type: schemapb.DataType_Int64, FieldName: "pk", FieldId: 100, Field: &schemapb.FieldData_Scalars{Scalars: &schemapb.ScalarField{Data: &schemapb.ScalarField_LongData{LongData: &schemapb.LongArray{Data: pks}}}}},
				{Type: schemapb.DataType_FloatVector, FieldName: "vec", FieldId: 101, Field: &schemapb.FieldData_Vectors{Vectors: &schemapb.VectorField{Dim: 2, Data: &schemapb.VectorField_FloatVector{FloatVector: &schemapb.FloatArray{Data: vec}}}}},
			}},
	}
}

func (s *Source) DeleteMsg(c *SrcColl, shard int, p *SrcPart, uid int64, ts uint64, pks []int64) *msgstream.DeleteMsg {
	tss := make([]uint64, len(pks))
	for i := range tss {
		tss[i] = ts
	}
	return &msgstream.DeleteMsg{
		BaseMsg: msgstream.BaseMsg{BeginTimestamp: ts, EndTimestamp: ts, HashValues: []uint32{0}},
		DeleteRequest: &msgpb.DeleteRequest{Base: s.base(commonpb.MsgType_Delete, uid, ts), ShardName: c.Shards[shard].VChannel, DbName: c.DB, CollectionName: c.Name,
			PartitionName: p.Name, CollectionID: c.ID, PartitionID: p.ID, Timestamps: tss, NumRows: int64(len(pks)),
			PrimaryKeys: &schemapb.IDs{IdField: &schemapb.IDs_IntId{IntId: &schemapb.LongArray{Data: pks}}}},
	}
}

func (s *Source) DropPartitionMsg(c *SrcColl, p *SrcPart, uid int64, ts uint64) *msgstream.DropPartitionMsg {
	return &msgstream.DropPartitionMsg{
		BaseMsg:              msgstream.BaseMsg{BeginTimestamp: ts, EndTimestamp: ts, HashValues: []uint32{0}},
		DropPartitionRequest: &msgpb.DropPartitionRequest{Base: s.base(commonpb.MsgType_DropPartition, uid, ts), DbName: c.DB, CollectionName: c.Name, PartitionName: p.Name, DbID: c.DBID, CollectionID: c.ID, PartitionID: p.ID},
	}
}

func (s *Source) DropCollectionMsg(c *SrcColl, uid int64, ts uint64) *msgstream.DropCollectionMsg {
	return &msgstream.DropCollectionMsg{
		BaseMsg:               msgstream.BaseMsg{BeginTimestamp: ts, EndTimestamp: ts, HashValues: []uint32{0}},
		DropCollectionRequest: &msgpb.DropCollectionRequest{Base: s.base(commonpb.MsgType_DropCollection, uid, ts), DbName: c.DB, CollectionName: c.Name, DbID: c.DBID, CollectionID: c.ID},
	}
}

// Send appends messages to a physical channel and returns their message ids on the topic.
func (s *Source) Send(pchannel string, msgs ...msgstream.TsMsg) ([]uint64, error) {
	return s.w.Up.Send(pchannel, msgs...)
}

// SendStamped allocates a timestamp, builds the message with it and appends it to the pchannel as ONE step with
// respect to TickAll: a Milvus channel never carries a time tick that is older than a message appended before it
// (with TS() and Send() as separate steps a concurrent TickAll could slip its older tick in between).
func (s *Source) SendStamped(pchannel string, build func(ts uint64) msgstream.TsMsg) ([]uint64, uint64, error) {
	s.sendMu.Lock()
	defer s.sendMu.Unlock()
	ts := s.TS()
	ids, err := s.w.Up.Send(pchannel, build(ts))
	return ids, ts, err
}

// TickAll appends a time tick with a fresh timestamp to every given physical channel.
func (s *Source) TickAll(pchannels []string) (uint64, error) {
	s.sendMu.Lock()
	defer s.sendMu.Unlock()
	ts := s.TS()
	for _, p := range pchannels {
		if _, err := s.w.Up.Tick(p, ts); err != nil {
			return 0, err
		}
	}
	return ts, nil
}
