package catalog

import (
	"math/rand"
)

// GenOptions tunes the start-up-snapshot generator.
type GenOptions struct {
	// RecreatedDBPercent: chance that a tombstoned database has a live, later created database of the same name.
	RecreatedDBPercent int
	// CollisionPercent: chance that the catalog is seeded with databases "a" and "a_b" holding collections "b_c"
	// and "c" (distinct objects whose db_coll keys coincide).
	CollisionPercent int
	// ShortIDs: allocate ids around 100000 instead of Milvus' 18-digit range, so that some ids have fewer digits than others.
	ShortIDs bool
}

// FixedSnapshots are small hand-made catalogs run before the generated ones (smallest witnesses).
var FixedSnapshots = []func(root string) *Catalog{
	// two live databases; a dropped partition in the first, any collection in the second
	func(root string) *Catalog {
		c := New(root)
		d1 := c.AddDB(1, "default", false, nil)
		d2 := c.AddDB(0, "db2", false, nil)
		c1 := c.AddColl(d1.ID, "c1", Created, nil)
		c.AddPart(c1.ID, "_default", Created, nil)
		c.AddPart(c1.ID, "p", Dropped, nil)
		c2 := c.AddColl(d2.ID, "c2", Created, nil)
		c.AddPart(c2.ID, "_default", Created, nil)
		c.SetNow(nil)
		return c
	},
	// databases "a" and "a_b": a/b_c is live; a_b/c was dropped and re-created later. All three have key a_b_c.
	func(root string) *Catalog {
		c := New(root)
		c.AddDB(1, "default", false, nil)
		da := c.AddDB(0, "a", false, nil)
		dab := c.AddDB(0, "a_b", false, nil)
		old := c.AddColl(dab.ID, "c", Dropped, nil)
		c.AddPart(old.ID, "_default", Created, nil)
		l1 := c.AddColl(da.ID, "b_c", Created, nil)
		c.AddPart(l1.ID, "_default", Created, nil)
		l2 := c.AddColl(dab.ID, "c", Created, nil)
		c.AddPart(l2.ID, "_default", Created, nil)
		c.SetNow(nil)
		return c
	},
	// database "prod" dropped upstream (its collection x still readable, still held downstream) and re-created
	func(root string) *Catalog {
		c := New(root)
		c.AddDB(1, "default", false, nil)
		old := c.AddDB(0, "prod", true, nil)
		x := c.AddColl(old.ID, "x", Dropping, nil)
		c.AddPart(x.ID, "_default", Created, nil)
		c.AddDB(0, "prod", false, nil)
		c.SetNow(nil)
		c.SetDownstream("prod", []string{"x"})
		return c
	},
}

var (
	dbNamePool   = []string{"db1", "a", "a_b", "prod", "b", "x_1", "a_b_c"}
	collNamePool = []string{"c", "b_c", "coll", "c_1", "x", "a_b", "b"}
	partNamePool = []string{"p", "q", "p_1", "c_p", "b_p", "_default_2"}
)

type genItem struct {
	run func()
}

// GenSnapshot generates a source catalog as a start-up snapshot sees it: 1-4 databases (the default one always
// live, others live or tombstoned), per database 0-6 collection incarnations over a small pool of names (so
// names repeat across incarnations and across databases) in every state, partitions likewise, names containing
// '_'. Invariants kept because rootcoord keeps them: at most one live (Creating/Created) incarnation per
// (database, name) and it is the newest; a tombstoned database holds only dropped / tombstoned collections;
// a tombstoned collection has only tombstoned partitions; a Creating collection has only its default partition;
// ids and create times grow in creation order; the TSO is later than every create time.
func GenSnapshot(root string, rnd *rand.Rand, opt GenOptions) *Catalog {
	c := New(root)
	jit := func(n int) int { return rnd.Intn(n) }
	if opt.ShortIDs {
		// ids that cross a power of ten while the catalog is built: etcd lists keys as strings, so the listing order
		// of database and collection records then differs from their creation order (…/99 after …/100)
		c.nextID = 99_000 - int64(rnd.Intn(15_000))
	}

	type dbPlan struct {
		name string
		tomb bool
		late bool // a re-created namesake of a tombstoned database: everything in it is created afterwards
	}
	plans := []dbPlan{{name: "default"}}
	n := 1 + rnd.Intn(4)
	names := append([]string(nil), dbNamePool...)
	rnd.Shuffle(len(names), func(i, j int) { names[i], names[j] = names[j], names[i] })
	collide := rnd.Intn(100) < opt.CollisionPercent
	if collide {
		// "a" and "a_b" first, both live
		rest := names[:0:0]
		for _, x := range names {
			if x != "a" && x != "a_b" {
				rest = append(rest, x)
			}
		}
		names = append([]string{"a", "a_b"}, rest...)
		if n < 3 {
			n = 3
		}
	}
	for i := 1; i < n; i++ {
		p := dbPlan{name: names[i-1], tomb: rnd.Intn(100) < 45}
		if collide && i <= 2 {
			p.tomb = false
		}
		plans = append(plans, p)
		if p.tomb && rnd.Intn(100) < opt.RecreatedDBPercent && len(plans) < 5 {
			plans = append(plans, dbPlan{name: p.name, late: true})
		}
	}

	// queues of creation events per (database, name) chain; a chain's events stay in order, chains interleave.
	// Everything of a re-created ("late") database happens after everything else.
	var early, late [][]genItem
	var lateDBs []func()
	for _, pl := range plans {
		pl := pl
		var db *DB
		mk := func() {
			id := int64(0)
			if pl.name == "default" {
				id = 1
			}
			db = c.AddDB(id, pl.name, pl.tomb, jit)
		}
		if pl.late {
			lateDBs = append(lateDBs, mk)
		} else {
			mk()
		}
		budget := rnd.Intn(7) // 0..6 collection incarnations
		cn := append([]string(nil), collNamePool...)
		rnd.Shuffle(len(cn), func(i, j int) { cn[i], cn[j] = cn[j], cn[i] })
		if collide && (pl.name == "a" || pl.name == "a_b") {
			want := "b_c"
			if pl.name == "a_b" {
				want = "c"
			}
			for i, x := range cn {
				if x == want {
					cn[0], cn[i] = cn[i], cn[0]
				}
			}
			if budget == 0 {
				budget = 1 + rnd.Intn(3)
			}
		}
		for ni := 0; budget > 0 && ni < len(cn); ni++ {
			k := 1 + rnd.Intn(3)
			if k > budget {
				k = budget
			}
			budget -= k
			name := cn[ni]
			var chain []genItem
			for inc := 0; inc < k; inc++ {
				last := inc == k-1
				st := pickCollState(rnd, last && !pl.tomb)
				chain = append(chain, genItem{run: func() {
					co := c.AddColl(db.ID, name, st, jit)
					genPartitions(c, rnd, co)
				}})
			}
			if pl.late {
				late = append(late, chain)
			} else {
				early = append(early, chain)
			}
		}
	}
	drain := func(qs [][]genItem) {
		for len(qs) > 0 {
			i := rnd.Intn(len(qs))
			qs[i][0].run()
			qs[i] = qs[i][1:]
			if len(qs[i]) == 0 {
				qs = append(qs[:i], qs[i+1:]...)
			}
		}
	}
	drain(early)
	for _, mk := range lateDBs {
		mk()
	}
	drain(late)
	c.SetNow(jit)

	// downstream: what the replication target still holds of the tombstoned databases
	for _, d := range c.DBs {
		if !d.Tomb {
			continue
		}
		if rnd.Intn(100) < 65 {
			seen := map[string]bool{}
			var held []string
			for _, co := range c.Colls {
				if co.DBID == d.ID && co.State.Visible() && !seen[co.Name] && rnd.Intn(100) < 75 {
					seen[co.Name] = true
					held = append(held, co.Name)
				}
			}
			c.SetDownstream(d.Name, held)
		}
	}
	if rnd.Intn(2) == 0 {
		c.SetDownstream("zz_other", []string{"unrelated", "zz"})
	}
	return c
}

func pickCollState(rnd *rand.Rand, mayLive bool) State {
	r := rnd.Intn(100)
	if mayLive {
		switch {
		case r < 40:
			return Created
		case r < 50:
			return Creating
		case r < 65:
			return Dropping
		case r < 80:
			return Dropped
		}
		return Tombstone
	}
	switch {
	case r < 35:
		return Dropping
	case r < 70:
		return Dropped
	}
	return Tombstone
}

func genPartitions(c *Catalog, rnd *rand.Rand, co *Coll) {
	jit := func(n int) int { return rnd.Intn(n) }
	if co.State == Tombstone {
		c.AddPart(co.ID, "_default", Tombstone, jit)
		if rnd.Intn(2) == 0 {
			c.AddPart(co.ID, partNamePool[rnd.Intn(len(partNamePool))], Tombstone, jit)
		}
		return
	}
	c.AddPart(co.ID, "_default", Created, jit)
	if co.State == Creating {
		return
	}
	pn := append([]string(nil), partNamePool...)
	rnd.Shuffle(len(pn), func(i, j int) { pn[i], pn[j] = pn[j], pn[i] })
	names := rnd.Intn(3)
	for i := 0; i < names; i++ {
		k := 1 + rnd.Intn(2)
		for inc := 0; inc < k; inc++ {
			last := inc == k-1
			var st State
			r := rnd.Intn(100)
			if last {
				switch {
				case r < 40:
					st = Created
				case r < 48:
					st = Creating
				case r < 65:
					st = Dropping
				case r < 80:
					st = Dropped
				default:
					st = Tombstone
				}
			} else {
				switch {
				case r < 35:
					st = Dropping
				case r < 70:
					st = Dropped
				default:
					st = Tombstone
				}
			}
			c.AddPart(co.ID, pn[i], st, jit)
		}
	}
}
