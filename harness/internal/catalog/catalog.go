// Package catalog is the harness' rendering of the part of Milvus rootcoord's etcd catalog that milvus-cdc reads
// (core/reader/etcd_op.go), plus seeded generators of such catalogs.
//
// Layout (taken from what etcd_op.go parses and from core/reader/etcd_op_test.go):
//
//	<root>/<meta>/root-coord/database/db-info/<dbid>                     pb.DatabaseInfo   | tombstone
//	<root>/<meta>/root-coord/database/collection-info/<dbid>/<collid>    pb.CollectionInfo | tombstone
//	<root>/<meta>/root-coord/partitions/<collid>/<partid>                pb.PartitionInfo  | tombstone
//	<root>/<meta>/root-coord/fields/<collid>/<fieldid>                   schemapb.FieldSchema | tombstone
//	<root>/kv/gid/timestamp                                              8 bytes big endian, unix nanoseconds (TSO)
//
// tombstone = the three bytes E2 9B BC that Milvus' suffix-snapshot KV writes instead of deleting a key.
// Write order of rootcoord that the writer below follows: a collection key is written first (state Creating),
// then its fields and partitions, then the key is rewritten with state Created; a drop rewrites the key with
// state Dropping, garbage collection later tombstones partitions and fields and, last, the collection key.
// Ids come from one allocator, so an object created later has a larger id (same number of digits).
package catalog

import (
	"context"
	"encoding/binary"
	"fmt"
	"sort"
	"sync"
	"time"

	clientv3 "go.etcd.io/etcd/client/v3"
	"google.golang.org/protobuf/proto"

	"github.com/milvus-io/milvus-proto/go-api/v2/commonpb"
	"github.com/milvus-io/milvus-proto/go-api/v2/schemapb"

	"github.com/zilliztech/milvus-cdc/core/pb"
)

var TombstoneBytes = []byte{0xE2, 0x9B, 0xBC}

type State int

const (
	Creating State = iota + 1
	Created
	Dropping
	Dropped
	Tombstone // the key holds the tombstone bytes: nothing of the object is readable any more
)

func (s State) String() string {
	switch s {
	case Creating:
		return "Creating"
	case Created:
		return "Created"
	case Dropping:
		return "Dropping"
	case Dropped:
		return "Dropped"
	case Tombstone:
		return "Tombstone"
	}
	return fmt.Sprintf("State(%d)", int(s))
}

// Visible: the key holds a readable record.
func (s State) Visible() bool { return s >= Creating && s <= Dropped }

// Live: exists or is coming into existence. DroppedLike: marked dropped but still readable.
func (s State) Live() bool        { return s == Creating || s == Created }
func (s State) DroppedLike() bool { return s == Dropping || s == Dropped }

// Change is one step of an object's history: the state it took and the logical step (rig-defined) at which.
type Change struct {
	Step  int   `json:"step"`
	State State `json:"state"`
}

type DB struct {
	ID        int64  `json:"id"`
	Name      string `json:"name"` // the name it has / had before it was tombstoned
	Tomb      bool   `json:"tomb"`
	CreatedTS uint64 `json:"created_ts"`
	Step      int    `json:"step"` // logical step at which it was written
}

type Coll struct {
	ID       int64    `json:"id"`
	DBID     int64    `json:"db"`
	Name     string   `json:"name"`
	State    State    `json:"state"`
	CreateTS uint64   `json:"create_ts"`
	Hist     []Change `json:"hist,omitempty"`
}

type Part struct {
	ID       int64    `json:"id"`
	CollID   int64    `json:"coll"`
	Name     string   `json:"name"`
	State    State    `json:"state"`
	CreateTS uint64   `json:"create_ts"`
	Hist     []Change `json:"hist,omitempty"`
}

func (c *Coll) EverCreated() bool { return ever(c.Hist, Created) }
func (p *Part) EverCreated() bool { return ever(p.Hist, Created) }

func ever(h []Change, s State) bool {
	for _, c := range h {
		if c.State == s {
			return true
		}
	}
	return false
}

// StateAtOrBefore returns the last state taken at a step <= step (0 = did not exist yet).
func StateAtOrBefore(h []Change, step int) State {
	var s State
	for _, c := range h {
		if c.Step <= step {
			s = c.State
		}
	}
	return s
}

// Catalog is the model of what was written to etcd. All methods are safe for concurrent use.
type Catalog struct {
	Root string `json:"root"`
	Meta string `json:"meta"`
	// the TSO key holds NowNanos; NowPhysicalMs = NowNanos / 1e6 is the source's current time in milliseconds
	NowNanos uint64 `json:"now_nanos"`

	DBs   []*DB   `json:"dbs"`
	Colls []*Coll `json:"colls"`
	Parts []*Part `json:"parts"`

	// Downstream: databases of the replication target and the collection names they hold (only consulted for
	// source databases that are tombstoned), DownOrder = the order in which the target lists its databases.
	Downstream map[string][]string `json:"downstream,omitempty"`
	DownOrder  []string            `json:"down_order,omitempty"`

	mu     sync.Mutex
	nextID int64
	nextMs int64
	step   int
}

const (
	idBase = int64(449_000_000_000_000_000) // 18 digits like Milvus' allocator; default database is id 1
	msBase = int64(1_727_000_000_000)
	// LogicalBits of Milvus' hybrid timestamps
	LogicalBits = 18
)

func New(root string) *Catalog {
	return &Catalog{Root: root, Meta: "meta", nextID: idBase, nextMs: msBase, Downstream: map[string][]string{}}
}

func ComposeTS(physicalMs, logical int64) uint64 { return uint64(physicalMs<<LogicalBits + logical) }

func (c *Catalog) NowPhysicalMs() int64 { return int64(c.NowNanos / uint64(time.Millisecond)) }

// ---- keys ----

func (c *Catalog) prefix() string { return c.Root + "/" + c.Meta + "/root-coord" }
func (c *Catalog) DBKey(id int64) string {
	return fmt.Sprintf("%s/database/db-info/%d", c.prefix(), id)
}
func (c *Catalog) TSOKey() string { return c.Root + "/kv/gid/timestamp" }
func (c *Catalog) CollKey(db, id int64) string {
	return fmt.Sprintf("%s/database/collection-info/%d/%d", c.prefix(), db, id)
}
func (c *Catalog) PartKey(coll, id int64) string {
	return fmt.Sprintf("%s/partitions/%d/%d", c.prefix(), coll, id)
}
func (c *Catalog) FieldKey(coll, fid int64) string {
	return fmt.Sprintf("%s/fields/%d/%d", c.prefix(), coll, fid)
}

// ---- rendering ----

type Put struct {
	Key string
	Val []byte
}

func must(b []byte, err error) []byte {
	if err != nil {
		panic(err)
	}
	return b
}

func (c *Catalog) RenderTSO() Put {
	b := make([]byte, 8)
	binary.BigEndian.PutUint64(b, c.NowNanos)
	return Put{c.TSOKey(), b}
}

func (c *Catalog) RenderDB(d *DB) Put {
	if d.Tomb {
		return Put{c.DBKey(d.ID), TombstoneBytes}
	}
	return Put{c.DBKey(d.ID), must(proto.Marshal(&pb.DatabaseInfo{
		Id: d.ID, Name: d.Name, State: pb.DatabaseState_DatabaseCreated, CreatedTime: d.CreatedTS,
	}))}
}

func collState(s State) pb.CollectionState {
	switch s {
	case Creating:
		return pb.CollectionState_CollectionCreating
	case Created:
		return pb.CollectionState_CollectionCreated
	case Dropping:
		return pb.CollectionState_CollectionDropping
	}
	return pb.CollectionState_CollectionDropped
}

func partState(s State) pb.PartitionState {
	switch s {
	case Creating:
		return pb.PartitionState_PartitionCreating
	case Created:
		return pb.PartitionState_PartitionCreated
	case Dropping:
		return pb.PartitionState_PartitionDropping
	}
	return pb.PartitionState_PartitionDropped
}

func (c *Catalog) RenderColl(co *Coll) Put {
	if co.State == Tombstone {
		return Put{c.CollKey(co.DBID, co.ID), TombstoneBytes}
	}
	pch := fmt.Sprintf("%s-rootcoord-dml_%d", c.Root, co.ID%4)
	vch := fmt.Sprintf("%s_%dv0", pch, co.ID)
	pos := make([]byte, 8)
	binary.LittleEndian.PutUint64(pos, uint64(co.ID%1000))
	return Put{c.CollKey(co.DBID, co.ID), must(proto.Marshal(&pb.CollectionInfo{
		ID: co.ID, DbId: co.DBID,
		// rootcoord stores the fields under their own keys; the schema in the collection record has none
		Schema:               &schemapb.CollectionSchema{Name: co.Name, Description: "generated"},
		CreateTime:           co.CreateTS,
		VirtualChannelNames:  []string{vch},
		PhysicalChannelNames: []string{pch},
		ShardsNum:            1,
		StartPositions:       []*commonpb.KeyDataPair{{Key: pch, Data: pos}},
		ConsistencyLevel:     commonpb.ConsistencyLevel_Bounded,
		State:                collState(co.State),
	}))}
}

func (c *Catalog) RenderPart(p *Part) Put {
	if p.State == Tombstone {
		return Put{c.PartKey(p.CollID, p.ID), TombstoneBytes}
	}
	return Put{c.PartKey(p.CollID, p.ID), must(proto.Marshal(&pb.PartitionInfo{
		PartitionID: p.ID, PartitionName: p.Name, PartitionCreatedTimestamp: p.CreateTS,
		CollectionId: p.CollID, State: partState(p.State),
	}))}
}

// RenderFields: RowID, Timestamp, an int64 primary key and a float vector; tombstones once the collection is gone.
func (c *Catalog) RenderFields(co *Coll) []Put {
	fs := []*schemapb.FieldSchema{
		{FieldID: 0, Name: "RowID", DataType: schemapb.DataType_Int64},
		{FieldID: 1, Name: "Timestamp", DataType: schemapb.DataType_Int64},
		{FieldID: 100, Name: "pk", DataType: schemapb.DataType_Int64, IsPrimaryKey: true},
		{FieldID: 101, Name: "vec", DataType: schemapb.DataType_FloatVector,
			TypeParams: []*commonpb.KeyValuePair{{Key: "dim", Value: "4"}}},
	}
	var out []Put
	for _, f := range fs {
		if co.State == Tombstone {
			out = append(out, Put{c.FieldKey(co.ID, f.FieldID), TombstoneBytes})
		} else {
			out = append(out, Put{c.FieldKey(co.ID, f.FieldID), must(proto.Marshal(f))})
		}
	}
	return out
}

// RenderAll renders the whole model (used for the initial load; order is irrelevant there).
func (c *Catalog) RenderAll() []Put {
	c.mu.Lock()
	defer c.mu.Unlock()
	out := []Put{c.RenderTSO()}
	for _, d := range c.DBs {
		out = append(out, c.RenderDB(d))
	}
	for _, co := range c.Colls {
		out = append(out, c.RenderColl(co))
		out = append(out, c.RenderFields(co)...)
	}
	for _, p := range c.Parts {
		out = append(out, c.RenderPart(p))
	}
	return out
}

// Load writes puts in transactions of up to 100 operations (initial load).
func Load(ctx context.Context, cli *clientv3.Client, puts []Put) error {
	for len(puts) > 0 {
		n := len(puts)
		if n > 100 {
			n = 100
		}
		ops := make([]clientv3.Op, 0, n)
		for _, p := range puts[:n] {
			ops = append(ops, clientv3.OpPut(p.Key, string(p.Val)))
		}
		if _, err := cli.Txn(ctx).Then(ops...).Commit(); err != nil {
			return err
		}
		puts = puts[n:]
	}
	return nil
}

// Write performs the puts one by one, in order (each its own revision, like rootcoord's successive saves).
func Write(ctx context.Context, cli *clientv3.Client, puts ...Put) error {
	for _, p := range puts {
		if _, err := cli.Put(ctx, p.Key, string(p.Val)); err != nil {
			return err
		}
	}
	return nil
}

// ---- model mutation (ids and create times grow with every allocation) ----

func (c *Catalog) SetStep(s int) { c.mu.Lock(); c.step = s; c.mu.Unlock() }
func (c *Catalog) Step() int     { c.mu.Lock(); defer c.mu.Unlock(); return c.step }

func (c *Catalog) alloc(jitter func(int) int) (id int64, ts uint64) {
	c.nextID += int64(1 + jitter(997))
	c.nextMs += int64(1 + jitter(5000))
	return c.nextID, ComposeTS(c.nextMs, int64(jitter(200)))
}

func nojitter(int) int { return 0 }

// AddDB appends a database. id 0 = allocate.
func (c *Catalog) AddDB(id int64, name string, tomb bool, jitter func(int) int) *DB {
	if jitter == nil {
		jitter = nojitter
	}
	c.mu.Lock()
	defer c.mu.Unlock()
	nid, ts := c.alloc(jitter)
	if id == 0 {
		id = nid
	}
	d := &DB{ID: id, Name: name, Tomb: tomb, CreatedTS: ts, Step: c.step}
	c.DBs = append(c.DBs, d)
	return d
}

func (c *Catalog) AddColl(db int64, name string, st State, jitter func(int) int) *Coll {
	if jitter == nil {
		jitter = nojitter
	}
	c.mu.Lock()
	defer c.mu.Unlock()
	id, ts := c.alloc(jitter)
	co := &Coll{ID: id, DBID: db, Name: name, State: st, CreateTS: ts, Hist: []Change{{c.step, st}}}
	c.Colls = append(c.Colls, co)
	return co
}

func (c *Catalog) AddPart(coll int64, name string, st State, jitter func(int) int) *Part {
	if jitter == nil {
		jitter = nojitter
	}
	c.mu.Lock()
	defer c.mu.Unlock()
	id, ts := c.alloc(jitter)
	p := &Part{ID: id, CollID: coll, Name: name, State: st, CreateTS: ts, Hist: []Change{{c.step, st}}}
	c.Parts = append(c.Parts, p)
	return p
}

func (c *Catalog) SetCollState(co *Coll, st State) {
	c.mu.Lock()
	co.State = st
	co.Hist = append(co.Hist, Change{c.step, st})
	c.mu.Unlock()
}

func (c *Catalog) SetPartState(p *Part, st State) {
	c.mu.Lock()
	p.State = st
	p.Hist = append(p.Hist, Change{c.step, st})
	c.mu.Unlock()
}

// SetNow puts the source's clock a few seconds after everything allocated so far.
func (c *Catalog) SetNow(jitter func(int) int) {
	if jitter == nil {
		jitter = nojitter
	}
	c.mu.Lock()
	c.nextMs += int64(1000 + jitter(5000))
	c.NowNanos = uint64(c.nextMs)*uint64(time.Millisecond) + uint64(jitter(int(time.Millisecond)))
	c.mu.Unlock()
}

// ---- lookups ----

func (c *Catalog) DB(id int64) *DB {
	c.mu.Lock()
	defer c.mu.Unlock()
	for _, d := range c.DBs {
		if d.ID == id {
			return d
		}
	}
	return nil
}

func (c *Catalog) Coll(id int64) *Coll {
	c.mu.Lock()
	defer c.mu.Unlock()
	for _, co := range c.Colls {
		if co.ID == id {
			return co
		}
	}
	return nil
}

func (c *Catalog) PartsOf(coll int64) []*Part {
	c.mu.Lock()
	defer c.mu.Unlock()
	var out []*Part
	for _, p := range c.Parts {
		if p.CollID == coll {
			out = append(out, p)
		}
	}
	return out
}

// Snapshot returns copies of the object lists (pointers shared; states must be read through Snapshot's copies).
type Snap struct {
	DBs   []DB
	Colls []Coll
	Parts []Part
}

func (c *Catalog) Snapshot() Snap {
	c.mu.Lock()
	defer c.mu.Unlock()
	var s Snap
	for _, d := range c.DBs {
		s.DBs = append(s.DBs, *d)
	}
	for _, co := range c.Colls {
		cc := *co
		cc.Hist = append([]Change(nil), co.Hist...)
		s.Colls = append(s.Colls, cc)
	}
	for _, p := range c.Parts {
		pp := *p
		pp.Hist = append([]Change(nil), p.Hist...)
		s.Parts = append(s.Parts, pp)
	}
	return s
}

// DownstreamLookup is what a replication target answers when asked which of its databases holds a collection
// of that name: the first database, in its listing order, that has it.
func (c *Catalog) DownstreamLookup(collection string) (string, bool) {
	c.mu.Lock()
	defer c.mu.Unlock()
	for _, db := range c.DownOrder {
		for _, n := range c.Downstream[db] {
			if n == collection {
				return db, true
			}
		}
	}
	return "", false
}

func (c *Catalog) SetDownstream(db string, colls []string) {
	c.mu.Lock()
	if _, ok := c.Downstream[db]; !ok {
		c.DownOrder = append(c.DownOrder, db)
		sort.Strings(c.DownOrder)
	}
	c.Downstream[db] = append([]string(nil), colls...)
	c.mu.Unlock()
}

// Summary is a compact human-readable rendering for samples and replay files.
func (c *Catalog) Summary() map[string]any {
	s := c.Snapshot()
	var dbs, colls, parts []string
	name := map[int64]string{}
	for _, d := range s.DBs {
		t := "live"
		if d.Tomb {
			t = "tombstoned"
		}
		dbs = append(dbs, fmt.Sprintf("%d:%s:%s", d.ID, d.Name, t))
	}
	for _, co := range s.Colls {
		name[co.ID] = co.Name
		colls = append(colls, fmt.Sprintf("db%d/%d:%s:%s@%d%s", co.DBID, co.ID, co.Name, co.State, co.CreateTS, histStr(co.Hist)))
	}
	for _, p := range s.Parts {
		parts = append(parts, fmt.Sprintf("%d(%s)/%d:%s:%s@%d%s", p.CollID, name[p.CollID], p.ID, p.Name, p.State, p.CreateTS, histStr(p.Hist)))
	}
	out := map[string]any{"root": c.Root, "dbs": dbs, "collections": colls, "partitions": parts}
	if c.NowNanos != 0 {
		out["now_nanos"] = c.NowNanos
		out["now_ts"] = ComposeTS(c.NowPhysicalMs(), 0)
	}
	if len(c.Downstream) > 0 {
		out["downstream"] = c.Downstream
	}
	return out
}

func histStr(h []Change) string {
	if len(h) <= 1 {
		return ""
	}
	s := " ["
	for i, c := range h {
		if i > 0 {
			s += ","
		}
		s += fmt.Sprintf("%s@step%d", c.State, c.Step)
	}
	return s + "]"
}
