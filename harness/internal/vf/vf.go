// Package vf is the shared verdict / evidence / known-findings machinery of every rig.
//
// A rig creates one Run per (property, tier, seed), feeds it evaluations, distinct
// non-trivial case signatures, samples, coverage counters, violations and inconclusive
// cases, and calls Finish, which
//   - writes /verif/evidence/<id>.json (EVIDENCE.schema.json),
//   - writes one replay file per distinct violation under /verif/replays/<id>/,
//   - prints "KNOWN-FINDING: property=<id> ..." for violations whose key is listed as
//     status "known" in /verif/known_findings.json,
//   - prints "VIOLATION property=<id> replay=<path>" for every other violation,
//   - returns the process exit code: 1 on any unlisted violation, 2 if the run is
//     inconclusive as a whole (a coverage floor was not met), else 0.
//
// Verdicts are three-valued: violated / held on what was observed / inconclusive.
package vf

import (
	"encoding/json"
	"fmt"
	"hash/fnv"
	"math/rand"
	"os"
	"path/filepath"
	"sort"
	"strconv"
	"strings"
	"sync"
	"time"
)

// Root returns /verif (or $VERIF_ROOT).
func Root() string {
	if r := os.Getenv("VERIF_ROOT"); r != "" {
		return r
	}
	return "/verif"
}

func Seed() int64 {
	if s := os.Getenv("VERIF_SEED"); s != "" {
		if v, err := strconv.ParseInt(s, 10, 64); err == nil {
			return v
		}
	}
	return 1
}

// Rand returns a PRNG that is a pure function of (seed, stream name, case index).
func Rand(seed int64, stream string, idx int) *rand.Rand {
	h := fnv.New64a()
	fmt.Fprintf(h, "%d|%s|%d", seed, stream, idx)
	return rand.New(rand.NewSource(int64(h.Sum64())))
}

type Violation struct {
	Key    string `json:"key"`  // narrow signature, matched against known_findings.json
	Desc   string `json:"desc"` // what was observed
	Replay any    `json:"replay,omitempty"`
}

type floor struct {
	counter string
	min     int
}

type Run struct {
	Prop, Tier, Level string
	Seed              int64
	Rule              string
	Assumptions       []string
	Exhaustive        bool

	mu           sync.Mutex
	start        time.Time
	evaluations  int
	sigs         map[string]struct{}
	samples      []any
	maxSamples   int
	violations   []Violation
	inconclusive []string
	counters     map[string]int
	sets         map[string]map[string]struct{}
	floors       []floor
	extra        map[string]any
	replaysKept  map[string]int // replays kept per violation key (bounded, see Violate)
}

func NewRun(prop, tier, level string) *Run {
	if tier != "thorough" {
		tier = "quick"
	}
	return &Run{
		Prop: prop, Tier: tier, Level: level, Seed: Seed(),
		start: time.Now(), sigs: map[string]struct{}{}, counters: map[string]int{},
		sets: map[string]map[string]struct{}{}, extra: map[string]any{}, maxSamples: 4,
	}
}

func (r *Run) Thorough() bool { return r.Tier == "thorough" }

// Pick returns q for the quick tier, t for the thorough tier.
func (r *Run) Pick(q, t int) int {
	if r.Thorough() {
		return t
	}
	return q
}

func (r *Run) Eval(n int) { r.mu.Lock(); r.evaluations += n; r.mu.Unlock() }

// Nontrivial records the signature of a case that is non-trivial by the run's Rule.
func (r *Run) Nontrivial(sig string) {
	r.mu.Lock()
	r.sigs[sig] = struct{}{}
	r.mu.Unlock()
}

func (r *Run) Sample(s any) {
	r.mu.Lock()
	if len(r.samples) < r.maxSamples {
		r.samples = append(r.samples, s)
	}
	r.mu.Unlock()
}

func (r *Run) Count(name string, n int) { r.mu.Lock(); r.counters[name] += n; r.mu.Unlock() }

// Distinct adds v to the named set; the set's size is reported as a coverage counter "distinct_<name>".
func (r *Run) Distinct(name, v string) {
	r.mu.Lock()
	s := r.sets[name]
	if s == nil {
		s = map[string]struct{}{}
		r.sets[name] = s
	}
	s[v] = struct{}{}
	r.mu.Unlock()
}

func (r *Run) Get(name string) int {
	r.mu.Lock()
	defer r.mu.Unlock()
	if s, ok := r.sets[name]; ok {
		return len(s)
	}
	return r.counters[name]
}

func (r *Run) Extra(k string, v any) { r.mu.Lock(); r.extra[k] = v; r.mu.Unlock() }

// Floor: the run is inconclusive as a whole unless counter (or distinct set) >= min.
func (r *Run) Floor(counter string, min int) {
	r.mu.Lock()
	r.floors = append(r.floors, floor{counter, min})
	r.mu.Unlock()
}

func (r *Run) Violate(key, desc string, replay any) {
	r.mu.Lock()
	// the replay of the first few violations of a key is kept (the report shows the first and a handful more); a key
	// that fires thousands of times (recorded findings in a thorough run) must not keep thousands of event logs
	if r.replaysKept == nil {
		r.replaysKept = map[string]int{}
	}
	if r.replaysKept[key] >= 4 {
		replay = nil
	} else {
		r.replaysKept[key]++
	}
	r.violations = append(r.violations, Violation{key, desc, replay})
	r.mu.Unlock()
}

func (r *Run) Inconclusive(why string) {
	r.mu.Lock()
	r.inconclusive = append(r.inconclusive, why)
	r.mu.Unlock()
}

func (r *Run) NumViolations() int { r.mu.Lock(); defer r.mu.Unlock(); return len(r.violations) }

type finding struct {
	Property string `json:"property"`
	Key      string `json:"key"`
	Status   string `json:"status"` // "known" | "fixed"
	Commit   string `json:"commit,omitempty"`
	What     string `json:"what"`
	Line     string `json:"line,omitempty"`
}

func loadFindings() []finding {
	b, err := os.ReadFile(filepath.Join(Root(), "known_findings.json"))
	if err != nil {
		return nil
	}
	var f struct {
		Findings []finding `json:"findings"`
	}
	if json.Unmarshal(b, &f) != nil {
		return nil
	}
	return f.Findings
}

// Finish writes evidence and replays, prints verdict lines to w (the check's stdout) and returns the exit code.
func (r *Run) Finish(w *os.File) int {
	r.mu.Lock()
	defer r.mu.Unlock()
	known := map[string]finding{}
	for _, f := range loadFindings() {
		if f.Property == r.Prop && f.Status == "known" {
			known[f.Key] = f
		}
	}
	// group violations by key
	byKey := map[string][]Violation{}
	var keys []string
	for _, v := range r.violations {
		if _, ok := byKey[v.Key]; !ok {
			keys = append(keys, v.Key)
		}
		byKey[v.Key] = append(byKey[v.Key], v)
	}
	sort.Strings(keys)
	repDir := filepath.Join(outDir("replays"), r.Prop)
	exit := 0
	fresh, knownHits := 0, 0
	var vioSummary []map[string]any
	for _, k := range keys {
		vs := byKey[k]
		if f, ok := known[k]; ok {
			knownHits += len(vs)
			fmt.Fprintf(w, "KNOWN-FINDING: property=%s %s (%s; observed %d time(s) in this run, first: %s)\n", r.Prop, k, f.What, len(vs), oneLine(vs[0].Desc))
			vioSummary = append(vioSummary, map[string]any{"key": k, "count": len(vs), "known_finding": true, "first": vs[0].Desc})
			continue
		}
		fresh += len(vs)
		exit = 1
		_ = os.MkdirAll(repDir, 0o755)
		name := fmt.Sprintf("%s-seed%d-%s.json", r.Tier, r.Seed, sanitize(k))
		p := filepath.Join(repDir, name)
		b, _ := json.MarshalIndent(map[string]any{
			"property": r.Prop, "tier": r.Tier, "seed": r.Seed, "key": k, "count": len(vs),
			"first": vs[0], "more": firstN(vs[1:], 4),
		}, "", " ")
		_ = os.WriteFile(p, b, 0o644)
		fmt.Fprintf(w, "VIOLATION property=%s replay=%s\n", r.Prop, p)
		fmt.Fprintf(w, "  %s: %s (x%d)\n", k, oneLine(vs[0].Desc), len(vs))
		vioSummary = append(vioSummary, map[string]any{"key": k, "count": len(vs), "known_finding": false, "first": vs[0].Desc, "replay": p})
	}
	// listed findings that did not show up: say so (not an error: the finding may need a rare schedule)
	for k := range known {
		if _, ok := byKey[k]; !ok {
			fmt.Fprintf(w, "note: property=%s known finding %s was not observed in this run\n", r.Prop, k)
		}
	}
	// floors
	var unmet []string
	for _, f := range r.floors {
		got := r.counters[f.counter]
		if s, ok := r.sets[f.counter]; ok {
			got = len(s)
		}
		if got < f.min {
			unmet = append(unmet, fmt.Sprintf("%s=%d<%d", f.counter, got, f.min))
		}
	}
	verdict := "held_on_observed"
	if exit == 1 {
		verdict = "violated"
	} else if len(unmet) > 0 {
		verdict = "inconclusive"
		exit = 2
		fmt.Fprintf(os.Stderr, "INCONCLUSIVE property=%s coverage floors not met: %s\n", r.Prop, strings.Join(unmet, ", "))
		fmt.Fprintf(w, "INCONCLUSIVE property=%s coverage floors not met: %s\n", r.Prop, strings.Join(unmet, ", "))
	}
	cov := map[string]any{
		"evaluations":         r.evaluations,
		"distinct_nontrivial": len(r.sigs),
		"rule":                r.Rule,
		"samples":             r.samples,
		"exhaustive":          r.Exhaustive,
		"verdict":             verdict,
		"inconclusive_cases":  len(r.inconclusive),
		"known_finding_hits":  knownHits,
		"fresh_violations":    fresh,
	}
	if len(r.inconclusive) > 0 {
		cov["inconclusive_first"] = firstN(r.inconclusive, 5)
	}
	if len(vioSummary) > 0 {
		cov["violation_summary"] = vioSummary
	}
	if len(unmet) > 0 {
		cov["floors_unmet"] = unmet
	}
	cnt := map[string]int{}
	for k, v := range r.counters {
		cnt[k] = v
	}
	for k, s := range r.sets {
		cnt["distinct_"+k] = len(s)
	}
	cov["observed"] = cnt
	for k, v := range r.extra {
		cov[k] = v
	}
	if len(r.samples) == 0 {
		cov["samples"] = []any{"(no case recorded)"}
	}
	ev := map[string]any{
		"property_id": r.Prop, "tier": r.Tier, "seed": r.Seed, "level": r.Level,
		"coverage": cov, "assumptions": r.Assumptions,
		"wall_s":     float64(int(time.Since(r.start).Seconds()*100)) / 100,
		"violations": fresh,
	}
	if r.Assumptions == nil {
		ev["assumptions"] = []string{}
	}
	b, _ := json.MarshalIndent(ev, "", " ")
	_ = os.MkdirAll(outDir("evidence"), 0o755)
	_ = os.WriteFile(filepath.Join(outDir("evidence"), r.Prop+".json"), append(b, '\n'), 0o644)
	fmt.Fprintf(w, "property=%s tier=%s seed=%d verdict=%s evaluations=%d distinct_nontrivial=%d inconclusive_cases=%d known_finding_hits=%d wall_s=%.1f\n",
		r.Prop, r.Tier, r.Seed, verdict, r.evaluations, len(r.sigs), len(r.inconclusive), knownHits, time.Since(r.start).Seconds())
	return exit
}

// outDir: evidence/ and replays/ live under /verif, except when the rig was built against a scratch checkout
// (VERIF_REPO != /repo): those runs must never overwrite the evidence of /repo itself.
func outDir(kind string) string {
	if alt := os.Getenv("VERIF_REPO"); alt != "" && alt != "/repo" {
		return filepath.Join(Root(), ".scratch", "alt", kind)
	}
	return filepath.Join(Root(), kind)
}

func firstN[T any](s []T, n int) []T {
	if len(s) > n {
		return s[:n]
	}
	return s
}

func oneLine(s string) string {
	s = strings.ReplaceAll(s, "\n", " | ")
	if len(s) > 400 {
		s = s[:400] + "…"
	}
	return s
}

func sanitize(s string) string {
	var b strings.Builder
	for _, c := range s {
		if c >= 'a' && c <= 'z' || c >= 'A' && c <= 'Z' || c >= '0' && c <= '9' || c == '-' || c == '_' {
			b.WriteRune(c)
		} else {
			b.WriteByte('_')
		}
	}
	out := b.String()
	if len(out) > 80 {
		out = out[:80]
	}
	return out
}

// Out returns the file verdict lines go to: fd 3 when bin/check provides it (VERIF_OUT_FD=3), else stdout.
func Out() *os.File {
	if os.Getenv("VERIF_OUT_FD") == "3" {
		return os.NewFile(3, "verdict")
	}
	return os.Stdout
}

// ---- child-process support: a child rig process dumps its partial Run, the parent merges it ----

type dump struct {
	Evaluations  int                 `json:"evaluations"`
	Sigs         []string            `json:"sigs"`
	Samples      []any               `json:"samples"`
	Violations   []Violation         `json:"violations"`
	Inconclusive []string            `json:"inconclusive"`
	Counters     map[string]int      `json:"counters"`
	Sets         map[string][]string `json:"sets"`
}

func (r *Run) Dump(path string) error {
	r.mu.Lock()
	defer r.mu.Unlock()
	d := dump{Evaluations: r.evaluations, Samples: r.samples, Violations: r.violations, Inconclusive: r.inconclusive, Counters: r.counters, Sets: map[string][]string{}}
	for s := range r.sigs {
		d.Sigs = append(d.Sigs, s)
	}
	for k, s := range r.sets {
		for v := range s {
			d.Sets[k] = append(d.Sets[k], v)
		}
	}
	b, err := json.Marshal(d)
	if err != nil {
		return err
	}
	return os.WriteFile(path, b, 0o644)
}

func (r *Run) Merge(path string) error { return r.MergePrefixed(path, "") }

// MergePrefixed merges the dump of another rig's Run of the same property; its counters, sets and case signatures
// get the given prefix so that they cannot collide with this run's.
func (r *Run) MergePrefixed(path, prefix string) error {
	b, err := os.ReadFile(path)
	if err != nil {
		return err
	}
	var d dump
	if err := json.Unmarshal(b, &d); err != nil {
		return err
	}
	r.mu.Lock()
	defer r.mu.Unlock()
	r.evaluations += d.Evaluations
	for _, s := range d.Sigs {
		r.sigs[prefix+s] = struct{}{}
	}
	for _, s := range d.Samples {
		if len(r.samples) < r.maxSamples {
			r.samples = append(r.samples, s)
		}
	}
	if r.replaysKept == nil {
		r.replaysKept = map[string]int{}
	}
	for _, v := range d.Violations {
		if r.replaysKept[v.Key] >= 4 {
			v.Replay = nil
		} else if v.Replay != nil {
			r.replaysKept[v.Key]++
		}
		r.violations = append(r.violations, v)
	}
	r.inconclusive = append(r.inconclusive, d.Inconclusive...)
	for k, v := range d.Counters {
		r.counters[prefix+k] += v
	}
	for k, vs := range d.Sets {
		k = prefix + k
		if r.sets[k] == nil {
			r.sets[k] = map[string]struct{}{}
		}
		for _, v := range vs {
			r.sets[k][v] = struct{}{}
		}
	}
	return nil
}
