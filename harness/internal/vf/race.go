package vf

import (
	"os"
	"path/filepath"
	"regexp"
	"strings"
)

var frameRe = regexp.MustCompile(`^\s+(/repo/\S+|/verif/\S+)\.go:\d+`)

// CollectRaces reads the race detector's report files ($VERIF_SCRATCH/race.*) written so far by this
// process and its children, de-duplicates the reports by the set of /repo and /verif source files on
// their stacks, and records them in the evidence under "race_reports". Races are listed, not verdicts:
// a rig decides itself whether a report is a witness for its property.
func CollectRaces(r *Run) []string {
	dir := os.Getenv("VERIF_SCRATCH")
	if dir == "" {
		return nil
	}
	files, _ := filepath.Glob(filepath.Join(dir, "race.*"))
	seen := map[string]int{}
	total := 0
	for _, f := range files {
		b, err := os.ReadFile(f)
		if err != nil {
			continue
		}
		for _, blk := range strings.Split(string(b), "WARNING: DATA RACE")[1:] {
			total++
			var fr []string
			for _, ln := range strings.Split(blk, "\n") {
				if m := frameRe.FindString(ln); m != "" {
					m = strings.TrimSpace(m)
					if len(fr) == 0 || fr[len(fr)-1] != m {
						fr = append(fr, m)
					}
				}
				if strings.HasPrefix(ln, "==================") {
					break
				}
			}
			if len(fr) > 6 {
				fr = fr[:6]
			}
			seen[strings.Join(fr, " <- ")]++
		}
	}
	var out []string
	for k := range seen {
		out = append(out, k)
	}
	r.Extra("race_reports_total", total)
	r.Extra("race_reports_distinct", out)
	return out
}
