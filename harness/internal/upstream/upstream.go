// Package upstream plays the source Milvus on the MQ side: it writes DML/DDL messages and time ticks into
// physical channels (topics) with Milvus' own msgstream producer, so the bytes on the queue are what the real
// consumer side (mqMsgStream / MqTtMsgStream / msgdispatcher) expects.
package upstream

import (
	"context"
	"fmt"
	"sync"

	"github.com/milvus-io/milvus-proto/go-api/v2/commonpb"
	"github.com/milvus-io/milvus-proto/go-api/v2/msgpb"
	"github.com/milvus-io/milvus/pkg/mq/msgstream"

	"verifharness/internal/memq"
)

type Producer struct {
	f  msgstream.Factory
	mu sync.Mutex
	ps map[string]msgstream.MsgStream
}

func NewProducer(f msgstream.Factory) *Producer {
	return &Producer{f: f, ps: map[string]msgstream.MsgStream{}}
}

func (p *Producer) stream(pchannel string) (msgstream.MsgStream, error) {
	p.mu.Lock()
	defer p.mu.Unlock()
	if s, ok := p.ps[pchannel]; ok {
		return s, nil
	}
	s, err := p.f.NewMsgStream(context.Background())
	if err != nil {
		return nil, err
	}
	s.AsProducer(context.Background(), []string{pchannel})
	p.ps[pchannel] = s
	return s, nil
}

// Send appends the messages to the physical channel, in order, and returns their message ids.
func (p *Producer) Send(pchannel string, msgs ...msgstream.TsMsg) ([]uint64, error) {
	s, err := p.stream(pchannel)
	if err != nil {
		return nil, err
	}
	var ids []uint64
	for _, m := range msgs {
		res, err := s.Broadcast(context.Background(), &msgstream.MsgPack{Msgs: []msgstream.TsMsg{m}})
		if err != nil {
			return nil, err
		}
		for _, mids := range res {
			for _, id := range mids {
				ids = append(ids, memq.DecodeID(id.Serialize()))
			}
		}
	}
	if len(ids) != len(msgs) {
		return ids, fmt.Errorf("upstream: sent %d messages, got %d ids", len(msgs), len(ids))
	}
	return ids, nil
}

// Tick appends a time tick with the given hybrid timestamp.
func (p *Producer) Tick(pchannel string, ts uint64) (uint64, error) {
	tt := &msgstream.TimeTickMsg{
		BaseMsg: msgstream.BaseMsg{BeginTimestamp: ts, EndTimestamp: ts, HashValues: []uint32{0}},
		TimeTickMsg: &msgpb.TimeTickMsg{Base: &commonpb.MsgBase{MsgType: commonpb.MsgType_TimeTick, Timestamp: ts, SourceID: 1}},
	}
	ids, err := p.Send(pchannel, tt)
	if err != nil {
		return 0, err
	}
	return ids[0], nil
}

func (p *Producer) Close() {
	p.mu.Lock()
	defer p.mu.Unlock()
	for _, s := range p.ps {
		s.Close()
	}
	p.ps = map[string]msgstream.MsgStream{}
}
