package memq_test

import (
	"context"
	"fmt"
	"testing"
	"time"

	"github.com/milvus-io/milvus/pkg/mq/common"
	"github.com/milvus-io/milvus/pkg/mq/msgdispatcher"

	"verifharness/internal/memq"
	"verifharness/internal/upstream"
)

func TestPositions(t *testing.T) {
	b := memq.NewMemoryBroker()
	f := b.Factory()
	up := upstream.NewProducer(f)
	p := "by-dev-dml_0"
	v := p + "_100v0"
	mk := func(ms uint64) uint64 { return ms << 18 }
	up.Tick(p, mk(1000))
	up.Send(p, ins(mk(1001), v, 100, 1))
	up.Tick(p, mk(1010))
	cli := msgdispatcher.NewClient(f, "test", 1)
	ch, err := cli.Register(context.Background(), msgdispatcher.NewStreamConfig(v, nil, common.SubscriptionPositionEarliest))
	if err != nil {
		t.Fatal(err)
	}
	deadline := time.After(5 * time.Second)
	n := 0
	for n < 2 {
		select {
		case pk := <-ch:
			n++
			fmt.Printf("PACK begin=%d end=%d start=%v endpos=%v\n", pk.BeginTs, pk.EndTs, pk.StartPositions, pk.EndPositions)
			for _, m := range pk.Msgs {
				fmt.Printf("  MSG type=%v pos=%v\n", m.Type(), m.Position())
			}
		case <-deadline:
			t.Fatal("timeout")
		}
	}
}
