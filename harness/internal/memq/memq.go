// Package memq is a message queue for Milvus' real msgstream layer (mqwrapper.Client): topics are totally
// ordered append-only logs with 1-based ids, consumers have a cursor with inclusive/exclusive seek and
// Latest/Earliest subscription — the semantics mq_msgstream.go relies on. Two log back-ends:
//   - in memory (one Broker shared by every client of a process), and
//   - file backed (<dir>/<topic>.log, length-prefixed records, single writer process, readers poll), so that a
//     supervisor process can play "upstream Milvus" while the CDC under test runs in a child that can be killed.
//
// The broker keeps a census of subscriptions (topic, subscription name, seek position) for monitors.
package memq

import (
	"context"
	"encoding/binary"
	"encoding/json"
	"errors"
	"fmt"
	"io"
	"os"
	"path/filepath"
	"strings"
	"sync"
	"sync/atomic"
	"time"

	mqcommon "github.com/milvus-io/milvus/pkg/mq/common"
	"github.com/milvus-io/milvus/pkg/mq/msgstream"
	"github.com/milvus-io/milvus/pkg/mq/msgstream/mqwrapper"
)

// ---------------- ids ----------------

type ID struct{ N uint64 }

func (i *ID) Serialize() []byte {
	b := make([]byte, 8)
	binary.BigEndian.PutUint64(b, i.N)
	return b
}
func (i *ID) AtEarliestPosition() bool { return i.N <= 1 }
func (i *ID) LessOrEqualThan(b []byte) (bool, error) {
	if len(b) != 8 {
		return false, errors.New("memq: bad message id")
	}
	return i.N <= binary.BigEndian.Uint64(b), nil
}
func (i *ID) Equal(b []byte) (bool, error) {
	if len(b) != 8 {
		return false, errors.New("memq: bad message id")
	}
	return i.N == binary.BigEndian.Uint64(b), nil
}

func DecodeID(b []byte) uint64 {
	if len(b) != 8 {
		return 0
	}
	return binary.BigEndian.Uint64(b)
}

// ---------------- log back-ends ----------------

type record struct {
	ID      uint64            `json:"i"` // message id: unique over ALL topics of the broker, increasing within a topic
	Payload []byte            `json:"p"`
	Props   map[string]string `json:"h"`
}

type topicLog interface {
	// append stores r (r.ID already assigned) and returns its 1-based index
	append(r record) (uint64, error)
	// get returns the record at 1-based index n; ok=false when it does not exist yet
	get(n uint64) (record, bool)
	length() uint64
	// wait blocks until length() > n, ctx is done, or a poll interval elapsed
	wait(ctx context.Context, n uint64)
}

// indexOf returns the 1-based index of the first record whose id is >= id (length+1 if none).
func indexOf(l topicLog, id uint64) uint64 {
	lo, hi := uint64(1), l.length()+1
	for lo < hi {
		mid := (lo + hi) / 2
		r, ok := l.get(mid)
		if ok && r.ID < id {
			lo = mid + 1
		} else {
			hi = mid
		}
	}
	return lo
}

func lastID(l topicLog) uint64 {
	n := l.length()
	if n == 0 {
		return 0
	}
	r, _ := l.get(n)
	return r.ID
}

type memLog struct {
	mu   sync.Mutex
	recs []record
	ch   chan struct{}
}

func newMemLog() *memLog { return &memLog{ch: make(chan struct{})} }

func (l *memLog) append(r record) (uint64, error) {
	l.mu.Lock()
	l.recs = append(l.recs, r)
	n := uint64(len(l.recs))
	close(l.ch)
	l.ch = make(chan struct{})
	l.mu.Unlock()
	return n, nil
}
func (l *memLog) get(n uint64) (record, bool) {
	l.mu.Lock()
	defer l.mu.Unlock()
	if n == 0 || n > uint64(len(l.recs)) {
		return record{}, false
	}
	return l.recs[n-1], true
}
func (l *memLog) length() uint64 { l.mu.Lock(); defer l.mu.Unlock(); return uint64(len(l.recs)) }
func (l *memLog) wait(ctx context.Context, n uint64) {
	l.mu.Lock()
	if uint64(len(l.recs)) > n {
		l.mu.Unlock()
		return
	}
	ch := l.ch
	l.mu.Unlock()
	select {
	case <-ch:
	case <-ctx.Done():
	case <-time.After(200 * time.Millisecond):
	}
}

// fileLog: records are [4-byte big-endian length][json]. One writer process appends; any process reads by
// polling the file. Offsets of records already seen are cached.
type fileLog struct {
	mu   sync.Mutex
	path string
	offs []int64 // offs[i] = offset of record i+1
	end  int64   // offset after the last indexed record
	w    *os.File
}

func newFileLog(path string) *fileLog { return &fileLog{path: path} }

func (l *fileLog) refresh() {
	f, err := os.Open(l.path)
	if err != nil {
		return
	}
	defer f.Close()
	st, err := f.Stat()
	if err != nil || st.Size() <= l.end {
		return
	}
	var hdr [4]byte
	for {
		if _, err := f.ReadAt(hdr[:], l.end); err != nil {
			return
		}
		n := int64(binary.BigEndian.Uint32(hdr[:]))
		if l.end+4+n > st.Size() {
			return // partially written record
		}
		l.offs = append(l.offs, l.end)
		l.end += 4 + n
	}
}

func (l *fileLog) append(r record) (uint64, error) {
	l.mu.Lock()
	defer l.mu.Unlock()
	if l.w == nil {
		if err := os.MkdirAll(filepath.Dir(l.path), 0o755); err != nil {
			return 0, err
		}
		w, err := os.OpenFile(l.path, os.O_CREATE|os.O_WRONLY|os.O_APPEND, 0o644)
		if err != nil {
			return 0, err
		}
		l.w = w
	}
	l.refresh()
	b, err := json.Marshal(r)
	if err != nil {
		return 0, err
	}
	buf := make([]byte, 4+len(b))
	binary.BigEndian.PutUint32(buf, uint32(len(b)))
	copy(buf[4:], b)
	if _, err := l.w.Write(buf); err != nil {
		return 0, err
	}
	l.offs = append(l.offs, l.end)
	l.end += int64(len(buf))
	return uint64(len(l.offs)), nil
}

func (l *fileLog) get(n uint64) (record, bool) {
	l.mu.Lock()
	defer l.mu.Unlock()
	if n == 0 {
		return record{}, false
	}
	if n > uint64(len(l.offs)) {
		l.refresh()
		if n > uint64(len(l.offs)) {
			return record{}, false
		}
	}
	f, err := os.Open(l.path)
	if err != nil {
		return record{}, false
	}
	defer f.Close()
	off := l.offs[n-1]
	var hdr [4]byte
	if _, err := f.ReadAt(hdr[:], off); err != nil {
		return record{}, false
	}
	b := make([]byte, binary.BigEndian.Uint32(hdr[:]))
	if _, err := io.ReadFull(io.NewSectionReader(f, off+4, int64(len(b))), b); err != nil {
		return record{}, false
	}
	var r record
	if json.Unmarshal(b, &r) != nil {
		return record{}, false
	}
	return r, true
}

func (l *fileLog) length() uint64 {
	l.mu.Lock()
	defer l.mu.Unlock()
	l.refresh()
	return uint64(len(l.offs))
}

func (l *fileLog) wait(ctx context.Context, n uint64) {
	if l.length() > n {
		return
	}
	select {
	case <-ctx.Done():
	case <-time.After(3 * time.Millisecond):
	}
}

// ---------------- broker ----------------

type Subscription struct {
	Topic    string `json:"topic"`
	Name     string `json:"name"`
	Initial  int    `json:"initial"` // mqcommon.SubscriptionInitialPosition
	SeekID   uint64 `json:"seek_id"`
	SeekIncl bool   `json:"seek_inclusive"`
	Open     bool   `json:"open"`
	Consumed uint64 `json:"consumed"` // id of the last message handed to the consumer's channel
	Seq      int    `json:"seq"`
}

type Broker struct {
	nextID atomic.Uint64
	dir    string // "" = memory
	mu     sync.Mutex
	topics map[string]topicLog
	subs   []*Subscription
	gates  map[string]uint64
	// OnSubscribe, if set, is called (outside the lock) for every Subscribe / Seek
	OnSubscribe func(Subscription)
}

func NewMemoryBroker() *Broker { return &Broker{topics: map[string]topicLog{}} }

// NewFileBroker: topics live in dir. Exactly one process may produce to a given topic.
func NewFileBroker(dir string) *Broker { return &Broker{dir: dir, topics: map[string]topicLog{}} }

func (b *Broker) topic(name string) topicLog {
	b.mu.Lock()
	defer b.mu.Unlock()
	t, ok := b.topics[name]
	if !ok {
		if b.dir == "" {
			t = newMemLog()
		} else {
			t = newFileLog(filepath.Join(b.dir, sanitize(name)+".log"))
		}
		b.topics[name] = t
	}
	return t
}

func sanitize(s string) string { return strings.NewReplacer("/", "_", "\\", "_").Replace(s) }

// Len returns the number of messages in the topic.
func (b *Broker) Len(topic string) uint64 { return b.topic(topic).length() }

// SetGate limits what consumers of the topic are handed: only records with 1-based index <= n (0 removes the
// limit). It models a consumer that reads this topic slowly. With a file broker the limit is stored next to the
// topic so that consumers in other processes see it.
func (b *Broker) SetGate(topic string, n uint64) {
	b.mu.Lock()
	if b.gates == nil {
		b.gates = map[string]uint64{}
	}
	b.gates[topic] = n
	dir := b.dir
	b.mu.Unlock()
	if dir != "" {
		p := filepath.Join(dir, sanitize(topic)+".gate")
		if n == 0 {
			_ = os.Remove(p)
		} else {
			_ = os.WriteFile(p+".tmp", []byte(fmt.Sprint(n)), 0o644)
			_ = os.Rename(p+".tmp", p)
		}
	}
}

func (b *Broker) gate(topic string) uint64 {
	if b.dir != "" {
		bs, err := os.ReadFile(filepath.Join(b.dir, sanitize(topic)+".gate"))
		if err != nil {
			return 0
		}
		var n uint64
		fmt.Sscan(string(bs), &n)
		return n
	}
	b.mu.Lock()
	defer b.mu.Unlock()
	return b.gates[topic]
}

// SeedIDs makes the id counter continue above every id already stored in the given topics (file broker re-opened
// by a new producer process).
func (b *Broker) SeedIDs(topics ...string) {
	for _, t := range topics {
		if id := lastID(b.topic(t)); id > b.nextID.Load() {
			b.nextID.Store(id)
		}
	}
}

// Append writes a raw message (used by tests; normal producers go through msgstream).
func (b *Broker) Append(topic string, payload []byte, props map[string]string) (uint64, error) {
	id := b.allocID()
	_, err := b.topic(topic).append(record{id, payload, props})
	return id, err
}

// allocID hands out message ids. A file broker is produced to by ONE process only (the supervisor), so a
// process-local counter seeded from the files' content is enough.
func (b *Broker) allocID() uint64 { return b.nextID.Add(1) }

// LastID returns the id of the newest message of the topic (0 if empty).
func (b *Broker) LastID(topic string) uint64 { return lastID(b.topic(topic)) }

// Subscriptions returns a copy of the census.
func (b *Broker) Subscriptions() []Subscription {
	b.mu.Lock()
	defer b.mu.Unlock()
	out := make([]Subscription, len(b.subs))
	for i, s := range b.subs {
		out[i] = *s
	}
	return out
}

// OpenConsumers returns the open subscriptions per topic.
func (b *Broker) OpenConsumers() map[string]int {
	b.mu.Lock()
	defer b.mu.Unlock()
	out := map[string]int{}
	for _, s := range b.subs {
		if s.Open {
			out[s.Topic]++
		}
	}
	return out
}

// Factory returns a msgstream.Factory (Milvus' CommonFactory) whose clients talk to this broker.
func (b *Broker) Factory() msgstream.Factory {
	return &msgstream.CommonFactory{
		Newer:             func(context.Context) (mqwrapper.Client, error) { return &client{b: b}, nil },
		DispatcherFactory: msgstream.ProtoUDFactory{},
		ReceiveBufSize:    16,
		MQBufSize:         16,
	}
}

// ---------------- mqwrapper.Client ----------------

type client struct{ b *Broker }

func (c *client) CreateProducer(ctx context.Context, o mqcommon.ProducerOptions) (mqwrapper.Producer, error) {
	return &producer{b: c.b, t: c.b.topic(o.Topic)}, nil
}

// denied reports whether subscriptions to the topic are refused at the moment: a file broker reads the list of refused
// topic name parts from <dir>/deny.list (one per line; written and removed by the rig's supervisor, which owns the
// "message queue": a queue that cannot be reached for some topics for a while).
func (b *Broker) denied(topic string) bool {
	if b.dir == "" {
		return false
	}
	raw, err := os.ReadFile(filepath.Join(b.dir, "deny.list"))
	if err != nil {
		return false
	}
	for _, l := range strings.Split(string(raw), "\n") {
		if l = strings.TrimSpace(l); l != "" && strings.Contains(topic, l) {
			return true
		}
	}
	return false
}

func (c *client) Subscribe(ctx context.Context, o mqwrapper.ConsumerOptions) (mqwrapper.Consumer, error) {
	if c.b.denied(o.Topic) {
		// a timeout: Milvus' msgstream returns a timeout of Subscribe to its caller (any other error makes it panic)
		return nil, fmt.Errorf("memq: topic %s cannot be reached (injected): %w", o.Topic, context.DeadlineExceeded)
	}
	t := c.b.topic(o.Topic)
	cctx, cancel := context.WithCancel(context.Background())
	cons := &consumer{b: c.b, t: t, topic: o.Topic, name: o.SubscriptionName, ctx: cctx, cancel: cancel, buf: int(o.BufSize)}
	switch o.SubscriptionInitialPosition {
	case mqcommon.SubscriptionPositionEarliest:
		cons.next = 1
	default: // Latest, Unknown (a Seek follows)
		cons.next = t.length() + 1
	}
	c.b.mu.Lock()
	s := &Subscription{Topic: o.Topic, Name: o.SubscriptionName, Initial: int(o.SubscriptionInitialPosition), Open: true, Seq: len(c.b.subs)}
	c.b.subs = append(c.b.subs, s)
	cb := c.b.OnSubscribe
	c.b.mu.Unlock()
	cons.sub = s
	if cb != nil {
		cb(*s)
	}
	return cons, nil
}

func (c *client) EarliestMessageID() mqcommon.MessageID { return &ID{1} }
func (c *client) StringToMsgID(s string) (mqcommon.MessageID, error) {
	var n uint64
	if _, err := fmt.Sscan(s, &n); err != nil {
		return nil, err
	}
	return &ID{n}, nil
}
func (c *client) BytesToMsgID(b []byte) (mqcommon.MessageID, error) {
	if len(b) != 8 {
		return nil, fmt.Errorf("memq: message id must be 8 bytes, got %d", len(b))
	}
	return &ID{binary.BigEndian.Uint64(b)}, nil
}
func (c *client) Close() {}

type producer struct {
	b *Broker
	t topicLog
}

func (p *producer) Send(ctx context.Context, m *mqcommon.ProducerMessage) (mqcommon.MessageID, error) {
	props := map[string]string{}
	for k, v := range m.Properties {
		props[k] = v
	}
	id := p.b.allocID()
	if _, err := p.t.append(record{id, append([]byte{}, m.Payload...), props}); err != nil {
		return nil, err
	}
	return &ID{id}, nil
}
func (p *producer) Close() {}

type message struct {
	topic string
	r     record
}

func (m *message) Topic() string                 { return m.topic }
func (m *message) Properties() map[string]string { return m.r.Props }
func (m *message) Payload() []byte               { return m.r.Payload }
func (m *message) ID() mqcommon.MessageID        { return &ID{m.r.ID} }

type consumer struct {
	b      *Broker
	t      topicLog
	topic  string
	name   string
	sub    *Subscription
	mu     sync.Mutex
	next   uint64
	ch     chan mqcommon.Message
	ctx    context.Context
	cancel context.CancelFunc
	buf    int
	once   sync.Once
	closed bool
}

func (c *consumer) Subscription() string { return c.name }

func (c *consumer) Chan() <-chan mqcommon.Message {
	c.once.Do(func() {
		n := c.buf
		if n <= 0 {
			n = 16
		}
		c.ch = make(chan mqcommon.Message, n)
		go c.pump()
	})
	return c.ch
}

func (c *consumer) pump() {
	defer close(c.ch)
	for {
		if c.ctx.Err() != nil {
			return
		}
		c.mu.Lock()
		n := c.next
		c.mu.Unlock()
		if g := c.b.gate(c.topic); g != 0 && n > g {
			select {
			case <-c.ctx.Done():
				return
			case <-time.After(3 * time.Millisecond):
			}
			continue
		}
		r, ok := c.t.get(n)
		if !ok {
			c.t.wait(c.ctx, n-1)
			continue
		}
		select {
		case c.ch <- &message{c.topic, r}:
			c.mu.Lock()
			if c.next == n { // not moved by a Seek meanwhile
				c.next = n + 1
			}
			c.mu.Unlock()
			c.b.mu.Lock()
			c.sub.Consumed = r.ID
			c.b.mu.Unlock()
		case <-c.ctx.Done():
			return
		}
	}
}

func (c *consumer) Seek(id mqcommon.MessageID, inclusive bool) error {
	n := DecodeID(id.Serialize())
	c.mu.Lock()
	if inclusive {
		c.next = indexOf(c.t, n)
	} else {
		c.next = indexOf(c.t, n+1)
	}
	c.mu.Unlock()
	c.b.mu.Lock()
	c.sub.SeekID, c.sub.SeekIncl = n, inclusive
	s := *c.sub
	cb := c.b.OnSubscribe
	c.b.mu.Unlock()
	if cb != nil {
		cb(s)
	}
	return nil
}

func (c *consumer) Ack(mqcommon.Message) {}

func (c *consumer) Close() {
	c.cancel()
	c.b.mu.Lock()
	c.sub.Open = false
	c.b.mu.Unlock()
}

func (c *consumer) GetLatestMsgID() (mqcommon.MessageID, error) { return &ID{lastID(c.t)}, nil }
func (c *consumer) CheckTopicValid(string) error                { return nil }
