package memq_test

import (
	"context"
	"testing"
	"time"

	"github.com/milvus-io/milvus-proto/go-api/v2/commonpb"
	"github.com/milvus-io/milvus-proto/go-api/v2/msgpb"
	"github.com/milvus-io/milvus/pkg/mq/common"
	"github.com/milvus-io/milvus/pkg/mq/msgdispatcher"
	"github.com/milvus-io/milvus/pkg/mq/msgstream"

	"github.com/zilliztech/milvus-cdc/core/util"

	"verifharness/internal/memq"
	"verifharness/internal/upstream"
)

func ins(ts uint64, vch string, coll int64, id int64) msgstream.TsMsg {
	return &msgstream.InsertMsg{
		BaseMsg: msgstream.BaseMsg{BeginTimestamp: ts, EndTimestamp: ts, HashValues: []uint32{0}},
		InsertRequest: &msgpb.InsertRequest{Base: &commonpb.MsgBase{MsgType: commonpb.MsgType_Insert, MsgID: id, Timestamp: ts},
			ShardName: vch, CollectionName: "c", CollectionID: coll, PartitionName: "_default", Timestamps: []uint64{ts}, RowIDs: []int64{id}, NumRows: 1, Version: msgpb.InsertDataVersion_ColumnBased},
	}
}

func run(t *testing.T, b *memq.Broker) {
	f := b.Factory()
	up := upstream.NewProducer(f)
	p := "by-dev-dml_0"
	v := p + "_100v0"
	mk := func(ms uint64) uint64 { return ms << 18 }
	up.Tick(p, mk(1000))
	up.Send(p, ins(mk(1001), v, 100, 1), ins(mk(1002), v, 100, 2))
	up.Tick(p, mk(1010))
	up.Send(p, ins(mk(1011), v, 100, 3))
	up.Tick(p, mk(1020))
	if b.Len(p) != 6 {
		t.Fatalf("len %d", b.Len(p))
	}
	// tt stream from earliest
	s, err := f.NewTtMsgStream(context.Background())
	if err != nil {
		t.Fatal(err)
	}
	if err := s.AsConsumer(context.Background(), []string{p}, "sub1", common.SubscriptionPositionEarliest); err != nil {
		t.Fatal(err)
	}
	var got []int
	var endPos []*msgstream.MsgPosition
	for len(got) < 3 {
		select {
		case pk := <-s.Chan():
			got = append(got, len(pk.Msgs))
			endPos = append(endPos, pk.EndPositions[0])
		case <-time.After(10 * time.Second):
			t.Fatalf("timeout, got %v", got)
		}
	}
	if got[0] != 0 || got[1] != 2 || got[2] != 1 {
		t.Fatalf("packs %v", got)
	}
	s.Close()
	// seek to the end position of pack 2 (tick 1010): must deliver insert 3 only
	s2, _ := f.NewTtMsgStream(context.Background())
	if err := s2.AsConsumer(context.Background(), []string{p}, "sub2", common.SubscriptionPositionUnknown); err != nil {
		t.Fatal(err)
	}
	if err := s2.Seek(context.Background(), []*msgstream.MsgPosition{endPos[1]}, false); err != nil {
		t.Fatal(err)
	}
	up.Tick(p, mk(1030))
	n := 0
	deadline := time.After(10 * time.Second)
	for n < 1 {
		select {
		case pk := <-s2.Chan():
			n += len(pk.Msgs)
			for _, m := range pk.Msgs {
				if m.GetID() != 3 {
					t.Fatalf("after seek got msg %d", m.GetID())
				}
			}
		case <-deadline:
			t.Fatal("timeout after seek")
		}
	}
	s2.Close()
	// dispatcher
	cli := msgdispatcher.NewClient(f, "test", 1)
	ch, err := cli.Register(context.Background(), msgdispatcher.NewStreamConfig(v, nil, common.SubscriptionPositionEarliest))
	if err != nil {
		t.Fatal(err)
	}
	total := 0
	deadline = time.After(10 * time.Second)
	for total < 3 {
		select {
		case pk := <-ch:
			total += len(pk.Msgs)
		case <-deadline:
			t.Fatalf("dispatcher timeout, total %d", total)
		}
	}
	cli.Deregister(v)
	cli.Close()
	if oc := b.OpenConsumers(); oc[p] != 0 {
		t.Fatalf("open consumers left: %v", oc)
	}
}

func init() { util.InitMilvusPkgParam() }

func TestMemory(t *testing.T) { run(t, memq.NewMemoryBroker()) }
func TestFile(t *testing.T)   { run(t, memq.NewFileBroker(t.TempDir())) }
