package fakesql

import (
	"fmt"
	"strconv"
	"strings"
)

// Error mimics the shape of a MySQL server error (number + message).
type Error struct {
	Number  int
	Message string
}

func (e *Error) Error() string { return fmt.Sprintf("Error %d: %s", e.Number, e.Message) }

func syntaxErr(near string) error {
	if len(near) > 80 {
		near = near[:80]
	}
	return &Error{1064, "You have an error in your SQL syntax; check the manual that corresponds to your MySQL server version for the right syntax to use near '" + near + "'"}
}

type tokKind int

const (
	tIdent tokKind = iota
	tString
	tNumber
	tPunct // ( ) , = ?
)

type token struct {
	kind tokKind
	text string // identifiers: as written; strings: decoded value
	pos  int
}

func tokenize(sql string) ([]token, error) {
	var out []token
	i := 0
	n := len(sql)
	for i < n {
		c := sql[i]
		switch {
		case c == ' ' || c == '\t' || c == '\n' || c == '\r':
			i++
		case c == '(' || c == ')' || c == ',' || c == '=' || c == '?' || c == ';':
			out = append(out, token{tPunct, string(c), i})
			i++
		case c == '\'':
			start := i
			i++
			var body strings.Builder
			closed := false
			for i < n {
				if sql[i] == '\\' && i+1 < n {
					body.WriteByte(sql[i])
					body.WriteByte(sql[i+1])
					i += 2
					continue
				}
				if sql[i] == '\'' {
					if i+1 < n && sql[i+1] == '\'' { // '' inside a literal is one quote
						body.WriteString(`\'`)
						i += 2
						continue
					}
					closed = true
					i++
					break
				}
				body.WriteByte(sql[i])
				i++
			}
			if !closed {
				return nil, syntaxErr(sql[start:])
			}
			out = append(out, token{tString, decodeEscapes(body.String()), start})
		case c == '`':
			j := strings.IndexByte(sql[i+1:], '`')
			if j < 0 {
				return nil, syntaxErr(sql[i:])
			}
			out = append(out, token{tIdent, sql[i+1 : i+1+j], i})
			i += j + 2
		case c >= '0' && c <= '9' || (c == '-' && i+1 < n && sql[i+1] >= '0' && sql[i+1] <= '9'):
			j := i + 1
			for j < n && sql[j] >= '0' && sql[j] <= '9' {
				j++
			}
			out = append(out, token{tNumber, sql[i:j], i})
			i = j
		case c == '_' || c >= 'a' && c <= 'z' || c >= 'A' && c <= 'Z':
			j := i + 1
			for j < n && (sql[j] == '_' || sql[j] >= 'a' && sql[j] <= 'z' || sql[j] >= 'A' && sql[j] <= 'Z' || sql[j] >= '0' && sql[j] <= '9') {
				j++
			}
			out = append(out, token{tIdent, sql[i:j], i})
			i = j
		default:
			return nil, syntaxErr(sql[i:])
		}
	}
	return out, nil
}

type stmtKind int

const (
	sCreate stmtKind = iota
	sInsert
	sSelect
	sDelete
	sBegin
	sCommit
	sRollback
)

type colDef struct {
	name    string
	typ     string // VARCHAR BIGINT JSON
	size    int
	notNull bool
}

// operand of a condition / a value slot: a literal or the i-th placeholder
type operand struct {
	isParam bool
	param   int
	val     any // string | int64
}

type cond struct {
	col  string
	like bool
	rhs  operand
}

type stmt struct {
	kind    stmtKind
	table   string
	cols    []colDef  // create
	pk      string    // create
	insCols []string  // insert
	insVals []operand // insert
	updCols []string  // insert ... on duplicate key update
	updVals []operand
	selCols []string // select
	where   []cond   // select / delete
	nParams int
	text    string
}

type parser struct {
	sql  string
	toks []token
	i    int
	np   int
}

func (p *parser) peek() *token {
	if p.i < len(p.toks) {
		return &p.toks[p.i]
	}
	return nil
}

func (p *parser) near() string {
	if t := p.peek(); t != nil {
		return p.sql[t.pos:]
	}
	return ""
}

func (p *parser) kw(words ...string) bool {
	save := p.i
	for _, w := range words {
		t := p.peek()
		if t == nil || t.kind != tIdent || !strings.EqualFold(t.text, w) {
			p.i = save
			return false
		}
		p.i++
	}
	return true
}

func (p *parser) punct(s string) bool {
	t := p.peek()
	if t != nil && t.kind == tPunct && t.text == s {
		p.i++
		return true
	}
	return false
}

func (p *parser) ident() (string, bool) {
	t := p.peek()
	if t != nil && t.kind == tIdent {
		p.i++
		return t.text, true
	}
	return "", false
}

func (p *parser) operand() (operand, bool) {
	t := p.peek()
	if t == nil {
		return operand{}, false
	}
	switch {
	case t.kind == tPunct && t.text == "?":
		p.i++
		p.np++
		return operand{isParam: true, param: p.np - 1}, true
	case t.kind == tString:
		p.i++
		return operand{val: t.text}, true
	case t.kind == tNumber:
		v, err := strconv.ParseInt(t.text, 10, 64)
		if err != nil {
			return operand{}, false
		}
		p.i++
		return operand{val: v}, true
	}
	return operand{}, false
}

func (p *parser) whereClause() ([]cond, error) {
	if !p.kw("WHERE") {
		return nil, syntaxErr(p.near())
	}
	var cs []cond
	for {
		col, ok := p.ident()
		if !ok {
			return nil, syntaxErr(p.near())
		}
		c := cond{col: col}
		if p.kw("LIKE") {
			c.like = true
		} else if !p.punct("=") {
			return nil, syntaxErr(p.near())
		}
		rhs, ok := p.operand()
		if !ok {
			return nil, syntaxErr(p.near())
		}
		c.rhs = rhs
		cs = append(cs, c)
		if !p.kw("AND") {
			break
		}
	}
	return cs, nil
}

// parse accepts exactly the statement shapes server/store issues (plus BEGIN/COMMIT/ROLLBACK as text);
// everything else is a syntax error 1064, like a statement MySQL cannot parse.
func parse(sql string) (*stmt, error) {
	toks, err := tokenize(sql)
	if err != nil {
		return nil, err
	}
	p := &parser{sql: sql, toks: toks}
	st := &stmt{text: sql}
	switch {
	case p.kw("BEGIN") || p.kw("START", "TRANSACTION"):
		st.kind = sBegin
	case p.kw("COMMIT"):
		st.kind = sCommit
	case p.kw("ROLLBACK"):
		st.kind = sRollback
	case p.kw("CREATE", "TABLE", "IF", "NOT", "EXISTS"):
		st.kind = sCreate
		name, ok := p.ident()
		if !ok || !p.punct("(") {
			return nil, syntaxErr(p.near())
		}
		st.table = name
		for {
			switch {
			case p.kw("PRIMARY", "KEY"):
				if !p.punct("(") {
					return nil, syntaxErr(p.near())
				}
				c, ok := p.ident()
				if !ok || !p.punct(")") {
					return nil, syntaxErr(p.near())
				}
				st.pk = c
			case p.kw("INDEX") || p.kw("KEY") || p.kw("UNIQUE", "KEY"):
				if _, ok := p.ident(); !ok || !p.punct("(") {
					return nil, syntaxErr(p.near())
				}
				if _, ok := p.ident(); !ok || !p.punct(")") {
					return nil, syntaxErr(p.near())
				}
			default:
				cn, ok := p.ident()
				if !ok {
					return nil, syntaxErr(p.near())
				}
				ct, ok := p.ident()
				if !ok {
					return nil, syntaxErr(p.near())
				}
				cd := colDef{name: cn, typ: strings.ToUpper(ct)}
				switch cd.typ {
				case "VARCHAR", "BIGINT", "JSON":
				default:
					return nil, syntaxErr(p.near())
				}
				if p.punct("(") {
					t := p.peek()
					if t == nil || t.kind != tNumber {
						return nil, syntaxErr(p.near())
					}
					cd.size, _ = strconv.Atoi(t.text)
					p.i++
					if !p.punct(")") {
						return nil, syntaxErr(p.near())
					}
				}
				if p.kw("NOT", "NULL") {
					cd.notNull = true
				}
				st.cols = append(st.cols, cd)
			}
			if p.punct(",") {
				continue
			}
			if p.punct(")") {
				break
			}
			return nil, syntaxErr(p.near())
		}
		if st.pk == "" {
			return nil, &Error{1105, "fakesql: table without primary key"}
		}
	case p.kw("INSERT", "INTO"):
		st.kind = sInsert
		name, ok := p.ident()
		if !ok || !p.punct("(") {
			return nil, syntaxErr(p.near())
		}
		st.table = name
		for {
			c, ok := p.ident()
			if !ok {
				return nil, syntaxErr(p.near())
			}
			st.insCols = append(st.insCols, c)
			if p.punct(",") {
				continue
			}
			if p.punct(")") {
				break
			}
			return nil, syntaxErr(p.near())
		}
		if !p.kw("VALUES") || !p.punct("(") {
			return nil, syntaxErr(p.near())
		}
		for {
			o, ok := p.operand()
			if !ok {
				return nil, syntaxErr(p.near())
			}
			st.insVals = append(st.insVals, o)
			if p.punct(",") {
				continue
			}
			if p.punct(")") {
				break
			}
			return nil, syntaxErr(p.near())
		}
		if len(st.insVals) != len(st.insCols) {
			return nil, &Error{1136, "Column count doesn't match value count at row 1"}
		}
		if p.kw("ON", "DUPLICATE", "KEY", "UPDATE") {
			for {
				c, ok := p.ident()
				if !ok || !p.punct("=") {
					return nil, syntaxErr(p.near())
				}
				o, ok := p.operand()
				if !ok {
					return nil, syntaxErr(p.near())
				}
				st.updCols = append(st.updCols, c)
				st.updVals = append(st.updVals, o)
				if !p.punct(",") {
					break
				}
			}
		}
	case p.kw("SELECT"):
		st.kind = sSelect
		for {
			c, ok := p.ident()
			if !ok {
				return nil, syntaxErr(p.near())
			}
			st.selCols = append(st.selCols, c)
			if !p.punct(",") {
				break
			}
		}
		if !p.kw("FROM") {
			return nil, syntaxErr(p.near())
		}
		name, ok := p.ident()
		if !ok {
			return nil, syntaxErr(p.near())
		}
		st.table = name
		st.where, err = p.whereClause()
		if err != nil {
			return nil, err
		}
	case p.kw("DELETE", "FROM"):
		st.kind = sDelete
		name, ok := p.ident()
		if !ok {
			return nil, syntaxErr(p.near())
		}
		st.table = name
		st.where, err = p.whereClause()
		if err != nil {
			return nil, err
		}
	default:
		return nil, syntaxErr(p.near())
	}
	p.punct(";")
	if p.peek() != nil {
		return nil, syntaxErr(p.near())
	}
	st.nParams = p.np
	return st, nil
}
