package fakesql

import "testing"

func TestSelf(t *testing.T) {
	if err := SelfTest(); err != nil {
		t.Fatal(err)
	}
}
