// Package fakesql is an in-memory database/sql driver that implements exactly the statements
// server/store/mysql.go and mysql_replicate_store.go issue, with MySQL's documented semantics:
//
//   - CREATE TABLE IF NOT EXISTS t (col VARCHAR(n)|BIGINT|JSON [NOT NULL], ..., PRIMARY KEY (col), INDEX ..)
//   - INSERT INTO t (cols) VALUES (..) [ON DUPLICATE KEY UPDATE col = ?, ...]   (duplicate = primary key)
//   - SELECT cols FROM t WHERE col (=|LIKE) (?|'literal'|number) [AND ...]      (rows in primary-key order)
//   - DELETE FROM t WHERE col (=|LIKE) (?|'literal'|number) [AND ...]
//   - BEGIN / COMMIT / ROLLBACK through database/sql transactions, prepared statements inside a transaction
//
// String literals are decoded like MySQL does under the default sql_mode (backslash escapes, ”), LIKE is
// MySQL's LIKE with `\` as escape character (like.go). String `=` is CASE-SENSITIVE and does not pad spaces
// (deliberately weaker than MySQL's default _ci/PAD SPACE collations: what is equal here is equal in MySQL,
// so a collision that depends on the collation is never produced). Any other statement text is error 1064.
//
// Transactions: a transaction works on a private write set over the committed tables (reads inside the
// transaction see committed rows + its own writes, other sessions see committed rows only); COMMIT applies
// the write set atomically, ROLLBACK (or closing the connection) discards it. A failing statement has no
// effect (statement-level atomicity). Row locks / write conflicts between concurrent transactions are not
// modelled (the last COMMIT wins); the rig keeps concurrent clients on disjoint rows.
//
// Dump returns the committed rows of all tables for the oracle; Arm installs a fault plan (fail the n-th
// driver call: BEGIN / PREPARE / EXEC / QUERY / COMMIT / ROLLBACK) for atomicity experiments.
package fakesql

import (
	"context"
	"database/sql"
	"database/sql/driver"
	"encoding/json"
	"fmt"
	"io"
	"sort"
	"strconv"
	"strings"
	"sync"
	"unicode/utf8"
)

type row map[string]any // column -> string | int64 | nil

type table struct {
	name string
	cols []colDef
	pk   string
	rows map[string]row // by primary key rendered as string
}

func (t *table) col(name string) *colDef {
	for i := range t.cols {
		if strings.EqualFold(t.cols[i].name, name) {
			return &t.cols[i]
		}
	}
	return nil
}

// Plan: the Call-th driver call after Arm fails. After=false: it fails without any effect (COMMIT: the
// transaction is rolled back, as when the connection dies before the server saw the COMMIT). After=true: the
// call takes effect and then reports an error (lost reply; COMMIT: the transaction IS committed).
type Plan struct {
	Call  int
	After bool
}

type Engine struct {
	mu     sync.Mutex
	tables map[string]*table
	armed  bool
	plan   Plan
	calls  int
	fired  string
	trace  []string
	keep   int
	txSeq  int
}

func NewEngine() *Engine {
	return &Engine{tables: map[string]*table{}, keep: 64}
}

var InjectedError = &Error{2013, "fakesql: injected failure (lost connection to server during query)"}

// Arm installs the plan and resets the call counter and the trace.
func (e *Engine) Arm(p Plan) {
	e.mu.Lock()
	e.armed, e.plan, e.calls, e.fired, e.trace = true, p, 0, "", nil
	e.mu.Unlock()
}

// Disarm removes the plan; it returns the call that was failed ("" if the plan was never reached), the number of
// driver calls seen since Arm and their trace.
func (e *Engine) Disarm() (fired string, calls int, trace []string) {
	e.mu.Lock()
	defer e.mu.Unlock()
	fired, calls, trace = e.fired, e.calls, e.trace
	e.armed, e.fired, e.trace, e.calls = false, "", nil, 0
	return
}

// hit is called (engine lock held) at every driver call; it says whether this call must fail, and how.
func (e *Engine) hit(what string) (fail, after bool) {
	if !e.armed {
		return false, false
	}
	e.calls++
	if len(e.trace) < e.keep {
		e.trace = append(e.trace, fmt.Sprintf("%d:%s", e.calls, oneLine(what)))
	}
	if e.plan.Call == e.calls {
		e.fired = fmt.Sprintf("%d:%s", e.calls, oneLine(what))
		return true, e.plan.After
	}
	return false, false
}

func oneLine(s string) string {
	s = strings.Join(strings.Fields(s), " ")
	if len(s) > 160 {
		s = s[:160] + "..."
	}
	return s
}

// Dump returns every committed row: key = table + "\x1f" + primary key, value = JSON object of the row's
// columns (keys sorted).
func (e *Engine) Dump() map[string]string {
	e.mu.Lock()
	defer e.mu.Unlock()
	out := map[string]string{}
	for tn, t := range e.tables {
		for pk, r := range t.rows {
			b, _ := json.Marshal(map[string]any(r))
			out[tn+"\x1f"+pk] = string(b)
		}
	}
	return out
}

// ---- registry for sql.Open("fakesql", name) ----

type drv struct{}

var (
	regMu   sync.Mutex
	engines = map[string]*Engine{}
)

func init() { sql.Register("fakesql", drv{}) }

// Register makes the engine reachable as sql.Open("fakesql", name).
func Register(name string, e *Engine) { regMu.Lock(); engines[name] = e; regMu.Unlock() }
func Unregister(name string)           { regMu.Lock(); delete(engines, name); regMu.Unlock() }

func (drv) Open(name string) (driver.Conn, error) {
	regMu.Lock()
	e := engines[name]
	regMu.Unlock()
	if e == nil {
		return nil, &Error{1049, "Unknown database '" + name + "'"}
	}
	return &conn{e: e}, nil
}

type connector struct{ e *Engine }

func (c connector) Connect(context.Context) (driver.Conn, error) { return &conn{e: c.e}, nil }
func (c connector) Driver() driver.Driver                        { return drv{} }

// DB opens a *sql.DB on the engine.
func (e *Engine) DB() *sql.DB { return sql.OpenDB(connector{e}) }

// ---- connection ----

type txState struct {
	id     int
	writes map[string]map[string]row // table -> pk -> row (nil = deleted)
}

type conn struct {
	e      *Engine
	tx     *txState
	closed bool
}

var (
	_ driver.ConnBeginTx        = (*conn)(nil)
	_ driver.ExecerContext      = (*conn)(nil)
	_ driver.QueryerContext     = (*conn)(nil)
	_ driver.ConnPrepareContext = (*conn)(nil)
	_ driver.Pinger             = (*conn)(nil)
)

func (c *conn) Ping(context.Context) error { return nil }

func (c *conn) Close() error {
	c.e.mu.Lock()
	c.tx = nil // an open transaction dies with its connection
	c.closed = true
	c.e.mu.Unlock()
	return nil
}

func (c *conn) Begin() (driver.Tx, error) { return c.BeginTx(context.Background(), driver.TxOptions{}) }

func (c *conn) BeginTx(ctx context.Context, _ driver.TxOptions) (driver.Tx, error) {
	if err := ctx.Err(); err != nil {
		return nil, err
	}
	c.e.mu.Lock()
	defer c.e.mu.Unlock()
	if fail, after := c.e.hit("BEGIN"); fail && !after {
		return nil, InjectedError
	} else if fail {
		// the server started the transaction, the client never learned: the connection is unusable; the open
		// transaction has no writes, dropping it is equivalent
		return nil, InjectedError
	}
	if c.tx != nil {
		return nil, &Error{1105, "fakesql: nested transaction"}
	}
	c.e.txSeq++
	c.tx = &txState{id: c.e.txSeq, writes: map[string]map[string]row{}}
	return &txHandle{c: c, tx: c.tx}, nil
}

type txHandle struct {
	c  *conn
	tx *txState
}

func (h *txHandle) Commit() error {
	e := h.c.e
	e.mu.Lock()
	defer e.mu.Unlock()
	fail, after := e.hit("COMMIT")
	if h.c.tx != h.tx || h.tx == nil {
		return &Error{1105, "fakesql: commit without transaction"}
	}
	h.c.tx = nil
	if fail && !after {
		return InjectedError // write set discarded
	}
	for tn, ws := range h.tx.writes {
		t := e.tables[tn]
		if t == nil {
			continue
		}
		for pk, r := range ws {
			if r == nil {
				delete(t.rows, pk)
			} else {
				t.rows[pk] = r
			}
		}
	}
	if fail {
		return InjectedError
	}
	return nil
}

func (h *txHandle) Rollback() error {
	e := h.c.e
	e.mu.Lock()
	defer e.mu.Unlock()
	fail, _ := e.hit("ROLLBACK")
	if h.c.tx == h.tx {
		h.c.tx = nil // the write set is gone in every case (a connection that cannot roll back is dropped)
	}
	if fail {
		return InjectedError
	}
	return nil
}

func (c *conn) Prepare(q string) (driver.Stmt, error) { return c.PrepareContext(context.Background(), q) }

func (c *conn) PrepareContext(ctx context.Context, q string) (driver.Stmt, error) {
	if err := ctx.Err(); err != nil {
		return nil, err
	}
	c.e.mu.Lock()
	fail, after := c.e.hit("PREPARE " + q)
	c.e.mu.Unlock()
	if fail && !after {
		return nil, InjectedError
	}
	st, err := parse(q)
	if err != nil {
		return nil, err
	}
	if fail {
		return nil, InjectedError
	}
	return &pstmt{c: c, st: st}, nil
}

type pstmt struct {
	c  *conn
	st *stmt
}

func (s *pstmt) Close() error  { return nil }
func (s *pstmt) NumInput() int { return s.st.nParams }
func (s *pstmt) Exec(args []driver.Value) (driver.Result, error) {
	return s.c.exec(context.Background(), s.st, args)
}

func (s *pstmt) Query(args []driver.Value) (driver.Rows, error) {
	return s.c.query(context.Background(), s.st, args)
}

func (s *pstmt) ExecContext(ctx context.Context, args []driver.NamedValue) (driver.Result, error) {
	return s.c.exec(ctx, s.st, unname(args))
}

func (s *pstmt) QueryContext(ctx context.Context, args []driver.NamedValue) (driver.Rows, error) {
	return s.c.query(ctx, s.st, unname(args))
}

func unname(a []driver.NamedValue) []driver.Value {
	out := make([]driver.Value, len(a))
	for i, v := range a {
		out[i] = v.Value
	}
	return out
}

func (c *conn) ExecContext(ctx context.Context, q string, args []driver.NamedValue) (driver.Result, error) {
	st, err := parse(q)
	if err != nil {
		c.e.mu.Lock()
		c.e.hit("EXEC " + q)
		c.e.mu.Unlock()
		return nil, err
	}
	return c.exec(ctx, st, unname(args))
}

func (c *conn) QueryContext(ctx context.Context, q string, args []driver.NamedValue) (driver.Rows, error) {
	st, err := parse(q)
	if err != nil {
		c.e.mu.Lock()
		c.e.hit("QUERY " + q)
		c.e.mu.Unlock()
		return nil, err
	}
	return c.query(ctx, st, unname(args))
}

type result struct{ n int64 }

func (r result) LastInsertId() (int64, error) { return 0, nil }
func (r result) RowsAffected() (int64, error) { return r.n, nil }

// ---- execution ----

func normArg(v driver.Value) (any, error) {
	switch x := v.(type) {
	case nil:
		return nil, nil
	case string:
		return x, nil
	case []byte:
		return string(x), nil
	case int64:
		return x, nil
	case bool:
		if x {
			return int64(1), nil
		}
		return int64(0), nil
	case float64:
		return strconv.FormatFloat(x, 'g', -1, 64), nil
	default:
		return nil, &Error{1105, fmt.Sprintf("fakesql: unsupported argument type %T", v)}
	}
}

func (st *stmt) bind(o operand, args []any) any {
	if o.isParam {
		return args[o.param]
	}
	return o.val
}

func pkString(v any) string {
	switch x := v.(type) {
	case string:
		return x
	case int64:
		return strconv.FormatInt(x, 10)
	}
	return ""
}

// sqlEqual: `=` between a column value and an operand. Same type: exact (case-sensitive) equality. A number
// against a string: compared through the decimal rendering (enough for `collection_id = ?` with an int64, the only
// mixed use the store could make); NULL equals nothing.
func sqlEqual(a, b any) bool {
	if a == nil || b == nil {
		return false
	}
	switch x := a.(type) {
	case string:
		if y, ok := b.(string); ok {
			return x == y
		}
		return x == pkString(b)
	case int64:
		if y, ok := b.(int64); ok {
			return x == y
		}
		return pkString(x) == b.(string)
	}
	return false
}

func matches(t *table, r row, where []cond, st *stmt, args []any) (bool, error) {
	for _, c := range where {
		cd := t.col(c.col)
		if cd == nil {
			return false, &Error{1054, "Unknown column '" + c.col + "' in 'where clause'"}
		}
		v := r[cd.name]
		rhs := st.bind(c.rhs, args)
		if c.like {
			if v == nil || rhs == nil {
				return false, nil
			}
			if !Like(pkString(v), pkString(rhs)) {
				return false, nil
			}
		} else if !sqlEqual(v, rhs) {
			return false, nil
		}
	}
	return true, nil
}

// visible returns the rows of t as this connection sees them (committed + own write set), in primary key order.
func (c *conn) visible(t *table) ([]string, map[string]row) {
	view := make(map[string]row, len(t.rows))
	for pk, r := range t.rows {
		view[pk] = r
	}
	if c.tx != nil {
		for pk, r := range c.tx.writes[t.name] {
			if r == nil {
				delete(view, pk)
			} else {
				view[pk] = r
			}
		}
	}
	keys := make([]string, 0, len(view))
	for pk := range view {
		keys = append(keys, pk)
	}
	sort.Strings(keys)
	return keys, view
}

func (c *conn) write(t *table, pk string, r row) {
	if c.tx != nil {
		ws := c.tx.writes[t.name]
		if ws == nil {
			ws = map[string]row{}
			c.tx.writes[t.name] = ws
		}
		ws[pk] = r
		return
	}
	if r == nil {
		delete(t.rows, pk)
	} else {
		t.rows[pk] = r
	}
}

func coerce(cd *colDef, v any) (any, error) {
	if v == nil {
		if cd.notNull {
			return nil, &Error{1048, "Column '" + cd.name + "' cannot be null"}
		}
		return nil, nil
	}
	switch cd.typ {
	case "BIGINT":
		switch x := v.(type) {
		case int64:
			return x, nil
		case string:
			n, err := strconv.ParseInt(strings.TrimSpace(x), 10, 64)
			if err != nil {
				return nil, &Error{1366, "Incorrect integer value: '" + x + "' for column '" + cd.name + "'"}
			}
			return n, nil
		}
	case "VARCHAR":
		s := pkString(v)
		if cd.size > 0 && utf8.RuneCountInString(s) > cd.size {
			return nil, &Error{1406, "Data too long for column '" + cd.name + "' at row 1"}
		}
		return s, nil
	case "JSON":
		s := pkString(v)
		if !json.Valid([]byte(s)) {
			return nil, &Error{3140, "Invalid JSON text: \"Invalid value.\" in value for column '" + cd.name + "'"}
		}
		return s, nil
	}
	return nil, &Error{1105, "fakesql: cannot store value in column " + cd.name}
}

func (c *conn) exec(ctx context.Context, st *stmt, dargs []driver.Value) (driver.Result, error) {
	if err := ctx.Err(); err != nil {
		return nil, err
	}
	e := c.e
	e.mu.Lock()
	defer e.mu.Unlock()
	fail, after := e.hit("EXEC " + st.text)
	if fail && !after {
		return nil, InjectedError
	}
	res, err := c.execLocked(st, dargs)
	if err != nil {
		return nil, err
	}
	if fail {
		return nil, InjectedError
	}
	return res, nil
}

func (c *conn) execLocked(st *stmt, dargs []driver.Value) (driver.Result, error) {
	e := c.e
	if len(dargs) != st.nParams {
		return nil, &Error{1210, fmt.Sprintf("Incorrect arguments to mysqld_stmt_execute (got %d, want %d)", len(dargs), st.nParams)}
	}
	args := make([]any, len(dargs))
	for i, a := range dargs {
		v, err := normArg(a)
		if err != nil {
			return nil, err
		}
		args[i] = v
	}
	switch st.kind {
	case sCreate:
		if _, ok := e.tables[st.table]; !ok {
			e.tables[st.table] = &table{name: st.table, cols: st.cols, pk: st.pk, rows: map[string]row{}}
		}
		return result{0}, nil
	case sBegin, sCommit, sRollback:
		return nil, &Error{1105, "fakesql: use database/sql transactions (BeginTx/Commit/Rollback)"}
	case sSelect:
		return nil, &Error{1105, "fakesql: SELECT through Exec"}
	}
	t := e.tables[st.table]
	if t == nil {
		return nil, &Error{1146, "Table '" + st.table + "' doesn't exist"}
	}
	switch st.kind {
	case sInsert:
		nr := row{}
		for _, cd := range t.cols {
			nr[cd.name] = nil
		}
		for i, cn := range st.insCols {
			cd := t.col(cn)
			if cd == nil {
				return nil, &Error{1054, "Unknown column '" + cn + "' in 'field list'"}
			}
			v, err := coerce(cd, st.bind(st.insVals[i], args))
			if err != nil {
				return nil, err
			}
			nr[cd.name] = v
		}
		for i := range t.cols {
			cd := &t.cols[i]
			if nr[cd.name] == nil && cd.notNull {
				return nil, &Error{1364, "Field '" + cd.name + "' doesn't have a default value"}
			}
		}
		pk := pkString(nr[t.col(t.pk).name])
		_, view := c.visible(t)
		if old, dup := view[pk]; dup {
			if len(st.updCols) == 0 {
				return nil, &Error{1062, "Duplicate entry '" + pk + "' for key '" + t.name + ".PRIMARY'"}
			}
			upd := row{}
			for k, v := range old {
				upd[k] = v
			}
			changed := false
			for i, cn := range st.updCols {
				cd := t.col(cn)
				if cd == nil {
					return nil, &Error{1054, "Unknown column '" + cn + "' in 'field list'"}
				}
				v, err := coerce(cd, st.bind(st.updVals[i], args))
				if err != nil {
					return nil, err
				}
				if upd[cd.name] != v {
					changed = true
				}
				upd[cd.name] = v
			}
			c.write(t, pk, upd)
			if changed {
				return result{2}, nil
			}
			return result{0}, nil
		}
		c.write(t, pk, nr)
		return result{1}, nil
	case sDelete:
		keys, view := c.visible(t)
		var del []string
		for _, pk := range keys {
			ok, err := matches(t, view[pk], st.where, st, args)
			if err != nil {
				return nil, err
			}
			if ok {
				del = append(del, pk)
			}
		}
		for _, pk := range del {
			c.write(t, pk, nil)
		}
		return result{int64(len(del))}, nil
	}
	return nil, &Error{1105, "fakesql: unsupported statement"}
}

func (c *conn) query(ctx context.Context, st *stmt, dargs []driver.Value) (driver.Rows, error) {
	if err := ctx.Err(); err != nil {
		return nil, err
	}
	e := c.e
	e.mu.Lock()
	defer e.mu.Unlock()
	fail, after := e.hit("QUERY " + st.text)
	if fail && !after {
		return nil, InjectedError
	}
	if st.kind != sSelect {
		return nil, &Error{1105, "fakesql: only SELECT can be queried"}
	}
	if len(dargs) != st.nParams {
		return nil, &Error{1210, fmt.Sprintf("Incorrect arguments to mysqld_stmt_execute (got %d, want %d)", len(dargs), st.nParams)}
	}
	args := make([]any, len(dargs))
	for i, a := range dargs {
		v, err := normArg(a)
		if err != nil {
			return nil, err
		}
		args[i] = v
	}
	t := e.tables[st.table]
	if t == nil {
		return nil, &Error{1146, "Table '" + st.table + "' doesn't exist"}
	}
	var names []string
	for _, cn := range st.selCols {
		cd := t.col(cn)
		if cd == nil {
			return nil, &Error{1054, "Unknown column '" + cn + "' in 'field list'"}
		}
		names = append(names, cd.name)
	}
	keys, view := c.visible(t)
	rs := &rows{cols: names}
	for _, pk := range keys {
		ok, err := matches(t, view[pk], st.where, st, args)
		if err != nil {
			return nil, err
		}
		if !ok {
			continue
		}
		vals := make([]driver.Value, len(names))
		for i, n := range names {
			switch x := view[pk][n].(type) {
			case string:
				vals[i] = []byte(x) // like the MySQL text protocol: database/sql copies into string / parses into ints
			case int64:
				vals[i] = x
			default:
				vals[i] = nil
			}
		}
		rs.data = append(rs.data, vals)
	}
	if fail {
		return nil, InjectedError
	}
	return rs, nil
}

type rows struct {
	cols []string
	data [][]driver.Value
	i    int
}

func (r *rows) Columns() []string { return r.cols }
func (r *rows) Close() error      { return nil }
func (r *rows) Next(dest []driver.Value) error {
	if r.i >= len(r.data) {
		return io.EOF
	}
	copy(dest, r.data[r.i])
	r.i++
	return nil
}

// engineSelfTest runs the statement shapes of the store against a scratch engine and checks the documented
// results (ON DUPLICATE KEY UPDATE by primary key, LIKE/= filters, transaction visibility, rollback, fault plan).
func engineSelfTest() error {
	e := NewEngine()
	db := e.DB()
	defer db.Close()
	ctx := context.Background()
	must := func(err error, what string) error {
		if err != nil {
			return fmt.Errorf("engine self-test: %s: %v", what, err)
		}
		return nil
	}
	_, err := db.ExecContext(ctx, "\n\t\tCREATE TABLE IF NOT EXISTS t (\n\t\t\tk VARCHAR(255) NOT NULL,\n\t\t\tid VARCHAR(255) NOT NULL,\n\t\t    n BIGINT NOT NULL,\n\t\t\tv JSON NOT NULL,\n\t\t\to JSON,\n\t\t\tPRIMARY KEY (k),\n\t\t\tINDEX idx_key (k),\n\t\t\tINDEX idx_id (id)\n\t\t)\n\t")
	if err := must(err, "create"); err != nil {
		return err
	}
	ins := "INSERT INTO t (k, id, n, v, o) VALUES (?, ?, ?, ?, ?) ON DUPLICATE KEY UPDATE v = ?, o = ?"
	put := func(k, id string, n int64, v string) error {
		_, err := db.ExecContext(ctx, ins, k, id, n, v, v, v, v)
		return err
	}
	for _, r := range [][2]string{{"a/x/1", "1"}, {"a/x/10", "10"}, {"aXx/1", "1"}, {"a_x/1", "1"}, {"A/x/1", "1"}} {
		if err := must(put(r[0], r[1], 7, `{"k":"`+r[0]+`"}`), "insert "+r[0]); err != nil {
			return err
		}
	}
	count := func(q string, args ...any) (int, error) {
		rs, err := db.QueryContext(ctx, q, args...)
		if err != nil {
			return 0, err
		}
		defer rs.Close()
		n := 0
		for rs.Next() {
			var s string
			if err := rs.Scan(&s); err != nil {
				return 0, err
			}
			n++
		}
		return n, rs.Err()
	}
	type q struct {
		sql  string
		args []any
		want int
	}
	for _, c := range []q{
		{"SELECT v FROM t WHERE k LIKE 'a/x/%'", nil, 2},
		{"SELECT v FROM t WHERE k LIKE 'a/x/%' AND id = ?", []any{"1"}, 1},
		{"SELECT v FROM t WHERE k LIKE 'a_x/%'", nil, 4}, // a/x/1, a/x/10, aXx/1, a_x/1 (not A/x/1: case-sensitive)
		{"SELECT v FROM t WHERE k LIKE 'a\\_x/%'", nil, 1},
		{"SELECT v FROM t WHERE k = ?", []any{"a/x/1"}, 1},
		{"SELECT v FROM t WHERE k = ?", []any{"a/X/1"}, 0},
		{"SELECT v FROM t WHERE id = ? AND n = ?", []any{"1", int64(7)}, 4},
	} {
		got, err := count(c.sql, c.args...)
		if err != nil {
			return fmt.Errorf("engine self-test: %s: %v", c.sql, err)
		}
		if got != c.want {
			return fmt.Errorf("engine self-test: %s %v returned %d rows, want %d", c.sql, c.args, got, c.want)
		}
	}
	// duplicate key: only the listed columns change
	if err := must(put("a/x/1", "OTHER", 9, `{"new":1}`), "upsert"); err != nil {
		return err
	}
	var id, v string
	var n int64
	if err := db.QueryRowContext(ctx, "SELECT id, n, v FROM t WHERE k = ?", "a/x/1").Scan(&id, &n, &v); err != nil || id != "1" || n != 7 || v != `{"new":1}` {
		return fmt.Errorf("engine self-test: ON DUPLICATE KEY UPDATE gave id=%q n=%d v=%q err=%v", id, n, v, err)
	}
	if _, err := db.ExecContext(ctx, ins, "bad", "1", int64(1), "{not json", nil, "x", nil); err == nil {
		return fmt.Errorf("engine self-test: invalid JSON accepted")
	}
	if _, err := db.QueryContext(ctx, "SELECT v FROM t WHERE k LIKE 'a'b/%'"); err == nil {
		return fmt.Errorf("engine self-test: unbalanced quote accepted")
	}
	// transaction: own writes visible inside, invisible outside, rollback discards, commit applies
	tx, err := db.BeginTx(ctx, nil)
	if err := must(err, "begin"); err != nil {
		return err
	}
	ps, err := tx.PrepareContext(ctx, "DELETE FROM t WHERE id = ?")
	if err := must(err, "prepare"); err != nil {
		return err
	}
	res, err := ps.ExecContext(ctx, "1")
	if err := must(err, "delete in tx"); err != nil {
		return err
	}
	ps.Close()
	if aff, _ := res.RowsAffected(); aff != 4 {
		return fmt.Errorf("engine self-test: delete in tx affected %d rows, want 4", aff)
	}
	if got := len(e.Dump()); got != 5 {
		return fmt.Errorf("engine self-test: uncommitted delete visible in dump (%d rows)", got)
	}
	if err := must(tx.Rollback(), "rollback"); err != nil {
		return err
	}
	if got := len(e.Dump()); got != 5 {
		return fmt.Errorf("engine self-test: rollback lost rows (%d)", got)
	}
	for _, after := range []bool{false, true} {
		e.Arm(Plan{Call: 4, After: after}) // BEGIN, PREPARE, EXEC, COMMIT
		tx, err = db.BeginTx(ctx, nil)
		if err := must(err, "begin2"); err != nil {
			return err
		}
		ps, err = tx.PrepareContext(ctx, "DELETE FROM t WHERE id = ? AND k = ?")
		if err := must(err, "prepare2"); err != nil {
			return err
		}
		_, err = ps.ExecContext(ctx, "10", "a/x/10")
		if err := must(err, "delete2"); err != nil {
			return err
		}
		ps.Close()
		cerr := tx.Commit()
		fired, calls, _ := e.Disarm()
		if cerr == nil || fired == "" || calls != 4 {
			return fmt.Errorf("engine self-test: commit fault not injected (err=%v fired=%q calls=%d)", cerr, fired, calls)
		}
		want := 5
		if after {
			want = 4
		}
		if got := len(e.Dump()); got != want {
			return fmt.Errorf("engine self-test: failed commit (after=%v) left %d rows, want %d", after, got, want)
		}
	}
	return nil
}
