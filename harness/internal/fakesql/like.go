package fakesql

import (
	"fmt"
	"strings"
)

// Like implements MySQL's `expr LIKE pat` (no ESCAPE clause, so the escape character is `\`):
//
//	%   matches any number of characters, even zero
//	_   matches exactly one character
//	\x  matches the character x literally (x may be %, _ or \); a `\` that is the last character of the
//	    pattern matches a literal `\` (MySQL manual, 12.8.1: "at the end of the pattern string, backslash can be
//	    specified as \\" - i.e. one backslash after the SQL parser stripped one).
//
// The comparison is per character (not per byte) and CASE-SENSITIVE. MySQL's default collations are
// case-insensitive, i.e. MySQL matches a superset of what this function matches: a leak reported on the basis
// of this matcher is also a leak on a default MySQL, a collation-dependent collision is never reported.
func Like(s, pat string) bool {
	return likeRunes([]rune(s), []rune(pat))
}

func likeRunes(s, p []rune) bool {
	// iterative matcher with backtracking to the last %
	si, pi := 0, 0
	starP, starS := -1, 0
	for si < len(s) {
		if pi < len(p) {
			switch c := p[pi]; c {
			case '%':
				starP, starS = pi, si
				pi++
				continue
			case '_':
				si++
				pi++
				continue
			case '\\':
				lit := rune('\\')
				adv := 1
				if pi+1 < len(p) {
					lit = p[pi+1]
					adv = 2
				}
				if s[si] == lit {
					si++
					pi += adv
					continue
				}
			default:
				if s[si] == c {
					si++
					pi++
					continue
				}
			}
		}
		if starP >= 0 {
			starS++
			si = starS
			pi = starP + 1
			continue
		}
		return false
	}
	for pi < len(p) && p[pi] == '%' {
		pi++
	}
	return pi == len(p)
}

// DecodeStringLiteral returns the value of a single-quoted MySQL string literal body (the text between the
// quotes, quotes excluded, with ” already recognised by the tokenizer as one quote) under the default
// sql_mode (NO_BACKSLASH_ESCAPES off), MySQL manual 9.1.1 table "Special Character Escape Sequences":
// \0 \' \" \b \n \r \t \Z \\ are translated; \% and \_ stay as the two characters `\%` / `\_`; for every other
// character x, `\x` is x.
func decodeEscapes(body string) string {
	if !strings.Contains(body, `\`) {
		return body
	}
	var b strings.Builder
	r := []rune(body)
	for i := 0; i < len(r); i++ {
		if r[i] != '\\' || i+1 >= len(r) {
			b.WriteRune(r[i])
			continue
		}
		i++
		switch r[i] {
		case '0':
			b.WriteByte(0)
		case 'b':
			b.WriteByte('\b')
		case 'n':
			b.WriteByte('\n')
		case 'r':
			b.WriteByte('\r')
		case 't':
			b.WriteByte('\t')
		case 'Z':
			b.WriteByte(26)
		case '%', '_':
			b.WriteByte('\\')
			b.WriteRune(r[i])
		default: // \' \" \\ and "disappearing backslash"
			b.WriteRune(r[i])
		}
	}
	return b.String()
}

// ParseStringLiteral parses one complete single-quoted literal (e.g. `'hel”lo'`) and returns its value.
func ParseStringLiteral(lit string) (string, error) {
	toks, err := tokenize(lit)
	if err != nil {
		return "", err
	}
	if len(toks) != 1 || toks[0].kind != tString {
		return "", fmt.Errorf("not a single string literal: %q", lit)
	}
	return toks[0].text, nil
}

// SelfTest checks the trusted base (string-literal decoding, LIKE) against the examples of the MySQL
// reference manual (8.0: 9.1.1 "String Literals", 12.8.1 "String Comparison Functions and Operators").
// Examples that depend on a case-insensitive collation are listed with the deliberately weaker expectation.
func SelfTest() error {
	type lk struct {
		s, p string
		want bool
		src  string
	}
	likes := []lk{
		{"David!", "David_", true, "SELECT 'David!' LIKE 'David_' -> 1"},
		{"David!", "%D%v%", true, "SELECT 'David!' LIKE '%D%v%' -> 1"},
		{"David!", `David\_`, false, `SELECT 'David!' LIKE 'David\_' -> 0`},
		{"David_", `David\_`, true, `SELECT 'David_' LIKE 'David\_' -> 1`},
		{"a", "a ", false, "SELECT 'a' = 'a ', 'a' LIKE 'a ' -> 1, 0 (LIKE is per character)"},
		{"a ", "a", false, "trailing space is significant for LIKE"},
		{"10", "1%", true, "SELECT 10 LIKE '1%' -> 1"},
		{`C:\`, `%\`, true, `filename LIKE '%\\' : C:\ -> 1 (backslash at end of pattern)`},
		{`C:\Programs`, `%\`, false, `filename LIKE '%\\' : C:\Programs -> 0`},
		{`C:\Programs\`, `%\`, true, `filename LIKE '%\\' : C:\Programs\ -> 1`},
		{`C:\`, `%\\`, true, `filename LIKE '%\\\\' : C:\ -> 1`},
		{`C:\Programs`, `%\\`, false, `filename LIKE '%\\\\' : C:\Programs -> 0`},
		{"abc", "ABC", false, "manual: 1 under a _ci collation; this engine is deliberately case-sensitive"},
		{"", "", true, "empty matches empty"},
		{"", "%", true, "% matches zero characters"},
		{"", "_", false, "_ needs exactly one character"},
		{"abc", "a%c", true, "% in the middle"},
		{"abc", "a_c", true, "_ in the middle"},
		{"ac", "a_c", false, "_ is exactly one"},
		{"a%c", `a\%c`, true, `\% is a literal percent`},
		{"abc", `a\%c`, false, `\% is a literal percent only`},
		{"cdcX1/task_info/t", "cdc_1/task_info/%", true, "_ matches any single character (X)"},
		{"cdc_1/task_info/t", "cdc_1/task_info/%", true, "_ matches _ itself"},
		{"cdc2/task_info/t", "cdc/task_info/%", false, "literal prefix must match"},
		{"cdcABC/task_info/t", "cdc%/task_info/%", true, "% inside a prefix matches any run"},
		{"äb", "_b", true, "_ matches one character, not one byte"},
		{"aXbXc", "%X%X%", true, "several %"},
		{"aXbXc", "%X%X%X%", false, "too many literals"},
		{"mississippi", "%iss%ipp_", true, "backtracking"},
		{"mississippi", "%iss%ipx_", false, "backtracking, no match"},
	}
	for _, c := range likes {
		if got := Like(c.s, c.p); got != c.want {
			return fmt.Errorf("LIKE self-test: %q LIKE %q = %v, want %v (%s)", c.s, c.p, got, c.want, c.src)
		}
	}
	type lit struct{ sql, want, src string }
	lits := []lit{
		{`'hello'`, `hello`, "SELECT 'hello'"},
		{`'"hello"'`, `"hello"`, `SELECT '"hello"'`},
		{`'""hello""'`, `""hello""`, `SELECT '""hello""'`},
		{`'hel''lo'`, `hel'lo`, `SELECT 'hel''lo'`},
		{`'\'hello'`, `'hello`, `SELECT '\'hello'`},
		{`'disappearing\ backslash'`, `disappearing backslash`, `SELECT 'disappearing\ backslash'`},
		{`'This\nIs\nFour\nLines'`, "This\nIs\nFour\nLines", `SELECT 'This\nIs\nFour\nLines'`},
		{`'%\\'`, `%\`, `'%\\' is the two characters %\`},
		{`'%\\\\'`, `%\\`, `'%\\\\' is the three characters %\\`},
		{`'a\%b\_c'`, `a\%b\_c`, `\% and \_ keep their backslash`},
		{`'cdc\x/task_info/%'`, `cdcx/task_info/%`, `\x is x`},
	}
	for _, c := range lits {
		got, err := ParseStringLiteral(c.sql)
		if err != nil || got != c.want {
			return fmt.Errorf("string-literal self-test: %s = %q (err %v), want %q (%s)", c.sql, got, err, c.want, c.src)
		}
	}
	for _, bad := range []string{`'abc`, `'a'b'`, `'a\'`} {
		if _, err := ParseStringLiteral(bad); err == nil {
			return fmt.Errorf("string-literal self-test: %s must not parse as one literal", bad)
		}
	}
	return engineSelfTest()
}
