// Package etcdbox starts an embedded single-node etcd (v3.5.5, the version the repository depends on) on a
// free loopback TCP port with its data under the given directory, and hands out a client.
package etcdbox

import (
	"context"
	"fmt"
	"net"
	"net/url"
	"os"
	"strings"
	"time"

	clientv3 "go.etcd.io/etcd/client/v3"
	"go.etcd.io/etcd/server/v3/embed"
)

type Box struct {
	E        *embed.Etcd
	Endpoint string // "127.0.0.1:port"
	Client   *clientv3.Client
	dir      string
}

func freePort() int {
	l, err := net.Listen("tcp", "127.0.0.1:0")
	if err != nil {
		panic(err)
	}
	defer l.Close()
	return l.Addr().(*net.TCPAddr).Port
}

// Start launches etcd with data in dir (created; reused if it already holds a data dir, so a "restart on the
// same disk" is possible with StartAt).
func Start(dir string) (*Box, error) { return StartAt(dir, 0, 0) }

func StartAt(dir string, clientPort, peerPort int) (*Box, error) {
	if clientPort != 0 || peerPort != 0 {
		return startAt(dir, clientPort, peerPort)
	}
	// ports are picked by bind-and-release, so a concurrent process can grab one in between: try again
	var b *Box
	var err error
	for attempt := 0; attempt < 8; attempt++ {
		b, err = startAt(dir, 0, 0)
		if err == nil || !strings.Contains(err.Error(), "address already in use") {
			return b, err
		}
		time.Sleep(50 * time.Millisecond)
	}
	return b, err
}

func startAt(dir string, clientPort, peerPort int) (*Box, error) {
	if err := os.MkdirAll(dir, 0o755); err != nil {
		return nil, err
	}
	if clientPort == 0 {
		clientPort = freePort()
	}
	if peerPort == 0 {
		peerPort = freePort()
	}
	cfg := embed.NewConfig()
	cfg.Dir = dir
	cfg.LogLevel = "error"
	cfg.Logger = "zap"
	cfg.LogOutputs = []string{"stderr"}
	cu, _ := url.Parse(fmt.Sprintf("http://127.0.0.1:%d", clientPort))
	pu, _ := url.Parse(fmt.Sprintf("http://127.0.0.1:%d", peerPort))
	cfg.LCUrls, cfg.ACUrls = []url.URL{*cu}, []url.URL{*cu}
	cfg.LPUrls, cfg.APUrls = []url.URL{*pu}, []url.URL{*pu}
	cfg.InitialCluster = fmt.Sprintf("%s=%s", cfg.Name, pu.String())
	cfg.UnsafeNoFsync = true
	e, err := embed.StartEtcd(cfg)
	if err != nil {
		return nil, err
	}
	select {
	case <-e.Server.ReadyNotify():
	case <-time.After(60 * time.Second):
		e.Close()
		return nil, fmt.Errorf("embedded etcd not ready after 60s")
	}
	ep := fmt.Sprintf("127.0.0.1:%d", clientPort)
	cli, err := clientv3.New(clientv3.Config{Endpoints: []string{ep}, DialTimeout: 10 * time.Second})
	if err != nil {
		e.Close()
		return nil, err
	}
	return &Box{E: e, Endpoint: ep, Client: cli, dir: dir}, nil
}

func (b *Box) Close() {
	if b.Client != nil {
		_ = b.Client.Close()
	}
	if b.E != nil {
		b.E.Close()
	}
}

// Dump returns every key/value under prefix ("" = everything).
func (b *Box) Dump(prefix string) (map[string]string, error) {
	ctx, cancel := context.WithTimeout(context.Background(), 20*time.Second)
	defer cancel()
	var resp *clientv3.GetResponse
	var err error
	if prefix == "" {
		resp, err = b.Client.Get(ctx, "\x00", clientv3.WithFromKey())
	} else {
		resp, err = b.Client.Get(ctx, prefix, clientv3.WithPrefix())
	}
	if err != nil {
		return nil, err
	}
	out := make(map[string]string, len(resp.Kvs))
	for _, kv := range resp.Kvs {
		out[string(kv.Key)] = string(kv.Value)
	}
	return out, nil
}

// Wipe deletes every key (cheap way to reuse one etcd for many cases).
func (b *Box) Wipe() error {
	ctx, cancel := context.WithTimeout(context.Background(), 20*time.Second)
	defer cancel()
	_, err := b.Client.Delete(ctx, "\x00", clientv3.WithFromKey())
	return err
}
