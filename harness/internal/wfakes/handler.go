// Package wfakes holds the trusted fakes of writerrig: a recording api.DataHandler (every call is logged
// with a deep copy of its parameter struct taken at call time, an optional per-call decision function and an
// optional "downstream catalog" that answers the way a Milvus behind core/writer.MilvusDataHandler would),
// and an in-memory api.ReplicateStore.
package wfakes

import (
	"context"
	"sync"

	"github.com/milvus-io/milvus-proto/go-api/v2/commonpb"
	"github.com/milvus-io/milvus-proto/go-api/v2/msgpb"
	"github.com/milvus-io/milvus-proto/go-api/v2/schemapb"
	"google.golang.org/protobuf/proto"

	"github.com/zilliztech/milvus-cdc/core/api"
)

// Kinds of downstream calls (method names of api.DataHandler).
const (
	KCreateCollection  = "CreateCollection"
	KDropCollection    = "DropCollection"
	KCreatePartition   = "CreatePartition"
	KDropPartition     = "DropPartition"
	KFlush             = "Flush"
	KLoadCollection    = "LoadCollection"
	KReleaseCollection = "ReleaseCollection"
	KLoadPartitions    = "LoadPartitions"
	KReleasePartitions = "ReleasePartitions"
	KCreateIndex       = "CreateIndex"
	KDropIndex         = "DropIndex"
	KAlterIndex        = "AlterIndex"
	KCreateDatabase    = "CreateDatabase"
	KDropDatabase      = "DropDatabase"
	KAlterDatabase     = "AlterDatabase"
	KReplicateMessage  = "ReplicateMessage"
	KDescribeColl      = "DescribeCollection"
	KDescribeDB        = "DescribeDatabase"
	KDescribePart      = "DescribePartition"
	KCreateUser        = "CreateUser"
	KDeleteUser        = "DeleteUser"
	KUpdateUser        = "UpdateUser"
	KCreateRole        = "CreateRole"
	KDropRole          = "DropRole"
	KOperateUserRole   = "OperateUserRole"
	KOperatePrivilege  = "OperatePrivilege"
	KInsert            = "Insert"
	KDelete            = "Delete"
)

// IsProbe reports whether the call kind is one of the three readiness probes.
func IsProbe(kind string) bool {
	return kind == KDescribeColl || kind == KDescribeDB || kind == KDescribePart
}

// RM is the recorded content of a ReplicateMessage call.
type RM struct {
	Channel        string
	BeginTs, EndTs uint64
	MsgsBytes      [][]byte
	Start, End     []*msgpb.MsgPosition
	TargetPosition string // what the fake stored into param.TargetMsgPosition (successful calls only)
}

// Call is one recorded downstream call. All members are deep copies taken when the call arrived.
type Call struct {
	Seq     int
	Kind    string
	RouteDB string            // ReplicateParam.Database exactly as passed (what MilvusDataHandler routes by)
	Base    *commonpb.MsgBase // clone of MsgBaseParam.Base, or of the embedded request's Base; nil if absent
	Req     proto.Message     // clone of the embedded *milvuspb.XxxRequest for request-carrying kinds
	NilReq  bool              // the embedded request pointer was nil

	// event kinds and probes
	Coll, Part, Name string
	Schema           *schemapb.CollectionSchema // create collection: the entity.Schema rendered back to proto
	ShardsNum        int32
	Consistency      commonpb.ConsistencyLevel
	Properties       []*commonpb.KeyValuePair

	RM  *RM
	Err string // "" = returned nil
}

// Handler is the recording api.DataHandler.
type Handler struct {
	api.DefaultDataHandler

	// Decide, when set, is asked first (outside the handler's lock, with the recorded copy); a non-nil
	// error is returned to the writer. Must be set before the handler is used.
	Decide func(c *Call) error
	// Catalog, when set, is asked next.
	Catalog *Catalog
	// TargetPos produces the string stored into ReplicateMessageParam.TargetMsgPosition on success.
	TargetPos func(c *Call) string

	mu    sync.Mutex
	calls []*Call
}

var _ api.DataHandler = (*Handler)(nil)

func cloneBase(b *commonpb.MsgBase) *commonpb.MsgBase {
	if b == nil {
		return nil
	}
	return proto.Clone(b).(*commonpb.MsgBase)
}

func cloneKVs(kvs []*commonpb.KeyValuePair) []*commonpb.KeyValuePair {
	if kvs == nil {
		return nil
	}
	out := make([]*commonpb.KeyValuePair, 0, len(kvs))
	for _, kv := range kvs {
		if kv == nil {
			out = append(out, nil)
			continue
		}
		out = append(out, proto.Clone(kv).(*commonpb.KeyValuePair))
	}
	return out
}

func clonePositions(ps []*msgpb.MsgPosition) []*msgpb.MsgPosition {
	if ps == nil {
		return nil
	}
	out := make([]*msgpb.MsgPosition, 0, len(ps))
	for _, p := range ps {
		if p == nil {
			out = append(out, nil)
			continue
		}
		out = append(out, proto.Clone(p).(*msgpb.MsgPosition))
	}
	return out
}

// finish records the call, decides its result and returns it.
func (h *Handler) finish(c *Call) error {
	h.mu.Lock()
	c.Seq = len(h.calls)
	h.calls = append(h.calls, c)
	h.mu.Unlock()
	var err error
	if h.Decide != nil {
		err = h.Decide(c)
	}
	if err == nil && h.Catalog != nil {
		err = h.Catalog.Apply(c)
	}
	if err != nil {
		h.mu.Lock()
		c.Err = err.Error()
		h.mu.Unlock()
	}
	return err
}

// Calls returns a snapshot of the recorded calls (the *Call values are not modified after their call returned).
func (h *Handler) Calls() []*Call {
	h.mu.Lock()
	defer h.mu.Unlock()
	return append([]*Call(nil), h.calls...)
}

// Since returns the calls recorded at index >= n.
func (h *Handler) Since(n int) []*Call {
	h.mu.Lock()
	defer h.mu.Unlock()
	if n > len(h.calls) {
		n = len(h.calls)
	}
	return append([]*Call(nil), h.calls[n:]...)
}

func (h *Handler) Len() int {
	h.mu.Lock()
	defer h.mu.Unlock()
	return len(h.calls)
}

type baseGetter interface{ GetBase() *commonpb.MsgBase }

func (h *Handler) reqCall(kind, db string, req proto.Message, isNil bool) error {
	c := &Call{Kind: kind, RouteDB: db, NilReq: isNil}
	if !isNil {
		c.Req = proto.Clone(req)
		if bg, ok := c.Req.(baseGetter); ok {
			c.Base = bg.GetBase()
		}
	}
	return h.finish(c)
}

func (h *Handler) CreateCollection(ctx context.Context, p *api.CreateCollectionParam) error {
	c := &Call{Kind: KCreateCollection, RouteDB: p.Database, Base: cloneBase(p.Base), ShardsNum: p.ShardsNum,
		Consistency: p.ConsistencyLevel, Properties: cloneKVs(p.Properties)}
	if p.Schema != nil {
		c.Schema = p.Schema.ProtoMessage()
		c.Coll = p.Schema.CollectionName
	}
	return h.finish(c)
}

func (h *Handler) DropCollection(ctx context.Context, p *api.DropCollectionParam) error {
	return h.finish(&Call{Kind: KDropCollection, RouteDB: p.Database, Base: cloneBase(p.Base), Coll: p.CollectionName})
}

func (h *Handler) CreatePartition(ctx context.Context, p *api.CreatePartitionParam) error {
	return h.finish(&Call{Kind: KCreatePartition, RouteDB: p.Database, Base: cloneBase(p.Base), Coll: p.CollectionName, Part: p.PartitionName})
}

func (h *Handler) DropPartition(ctx context.Context, p *api.DropPartitionParam) error {
	return h.finish(&Call{Kind: KDropPartition, RouteDB: p.Database, Base: cloneBase(p.Base), Coll: p.CollectionName, Part: p.PartitionName})
}

func (h *Handler) Flush(ctx context.Context, p *api.FlushParam) error {
	return h.reqCall(KFlush, p.Database, p.FlushRequest, p.FlushRequest == nil)
}

func (h *Handler) LoadCollection(ctx context.Context, p *api.LoadCollectionParam) error {
	return h.reqCall(KLoadCollection, p.Database, p.LoadCollectionRequest, p.LoadCollectionRequest == nil)
}

func (h *Handler) ReleaseCollection(ctx context.Context, p *api.ReleaseCollectionParam) error {
	return h.reqCall(KReleaseCollection, p.Database, p.ReleaseCollectionRequest, p.ReleaseCollectionRequest == nil)
}

func (h *Handler) LoadPartitions(ctx context.Context, p *api.LoadPartitionsParam) error {
	return h.reqCall(KLoadPartitions, p.Database, p.LoadPartitionsRequest, p.LoadPartitionsRequest == nil)
}

func (h *Handler) ReleasePartitions(ctx context.Context, p *api.ReleasePartitionsParam) error {
	return h.reqCall(KReleasePartitions, p.Database, p.ReleasePartitionsRequest, p.ReleasePartitionsRequest == nil)
}

func (h *Handler) CreateIndex(ctx context.Context, p *api.CreateIndexParam) error {
	return h.reqCall(KCreateIndex, p.Database, p.CreateIndexRequest, p.CreateIndexRequest == nil)
}

func (h *Handler) DropIndex(ctx context.Context, p *api.DropIndexParam) error {
	return h.reqCall(KDropIndex, p.Database, p.DropIndexRequest, p.DropIndexRequest == nil)
}

func (h *Handler) AlterIndex(ctx context.Context, p *api.AlterIndexParam) error {
	return h.reqCall(KAlterIndex, p.Database, p.AlterIndexRequest, p.AlterIndexRequest == nil)
}

func (h *Handler) CreateDatabase(ctx context.Context, p *api.CreateDatabaseParam) error {
	return h.reqCall(KCreateDatabase, p.Database, p.CreateDatabaseRequest, p.CreateDatabaseRequest == nil)
}

func (h *Handler) DropDatabase(ctx context.Context, p *api.DropDatabaseParam) error {
	return h.reqCall(KDropDatabase, p.Database, p.DropDatabaseRequest, p.DropDatabaseRequest == nil)
}

func (h *Handler) AlterDatabase(ctx context.Context, p *api.AlterDatabaseParam) error {
	return h.reqCall(KAlterDatabase, p.Database, p.AlterDatabaseRequest, p.AlterDatabaseRequest == nil)
}

func (h *Handler) CreateUser(ctx context.Context, p *api.CreateUserParam) error {
	return h.reqCall(KCreateUser, p.Database, p.CreateCredentialRequest, p.CreateCredentialRequest == nil)
}

func (h *Handler) DeleteUser(ctx context.Context, p *api.DeleteUserParam) error {
	return h.reqCall(KDeleteUser, p.Database, p.DeleteCredentialRequest, p.DeleteCredentialRequest == nil)
}

func (h *Handler) UpdateUser(ctx context.Context, p *api.UpdateUserParam) error {
	return h.reqCall(KUpdateUser, p.Database, p.UpdateCredentialRequest, p.UpdateCredentialRequest == nil)
}

func (h *Handler) CreateRole(ctx context.Context, p *api.CreateRoleParam) error {
	return h.reqCall(KCreateRole, p.Database, p.CreateRoleRequest, p.CreateRoleRequest == nil)
}

func (h *Handler) DropRole(ctx context.Context, p *api.DropRoleParam) error {
	return h.reqCall(KDropRole, p.Database, p.DropRoleRequest, p.DropRoleRequest == nil)
}

func (h *Handler) OperateUserRole(ctx context.Context, p *api.OperateUserRoleParam) error {
	return h.reqCall(KOperateUserRole, p.Database, p.OperateUserRoleRequest, p.OperateUserRoleRequest == nil)
}

func (h *Handler) OperatePrivilege(ctx context.Context, p *api.OperatePrivilegeParam) error {
	return h.reqCall(KOperatePrivilege, p.Database, p.OperatePrivilegeRequest, p.OperatePrivilegeRequest == nil)
}

func (h *Handler) Insert(ctx context.Context, p *api.InsertParam) error {
	return h.finish(&Call{Kind: KInsert, RouteDB: p.Database, Coll: p.CollectionName, Part: p.PartitionName})
}

func (h *Handler) Delete(ctx context.Context, p *api.DeleteParam) error {
	return h.finish(&Call{Kind: KDelete, RouteDB: p.Database, Coll: p.CollectionName, Part: p.PartitionName})
}

func (h *Handler) DescribeCollection(ctx context.Context, p *api.DescribeCollectionParam) error {
	return h.finish(&Call{Kind: KDescribeColl, RouteDB: p.Database, Coll: p.Name})
}

func (h *Handler) DescribeDatabase(ctx context.Context, p *api.DescribeDatabaseParam) error {
	return h.finish(&Call{Kind: KDescribeDB, RouteDB: p.Database, Name: p.Name})
}

func (h *Handler) DescribePartition(ctx context.Context, p *api.DescribePartitionParam) error {
	return h.finish(&Call{Kind: KDescribePart, RouteDB: p.Database, Coll: p.CollectionName, Part: p.PartitionName})
}

func (h *Handler) ReplicateMessage(ctx context.Context, p *api.ReplicateMessageParam) error {
	rm := &RM{Channel: p.ChannelName, BeginTs: p.BeginTs, EndTs: p.EndTs, Start: clonePositions(p.StartPositions), End: clonePositions(p.EndPositions)}
	for _, b := range p.MsgsBytes {
		rm.MsgsBytes = append(rm.MsgsBytes, append([]byte(nil), b...))
	}
	c := &Call{Kind: KReplicateMessage, RouteDB: p.Database, Base: cloneBase(p.Base), RM: rm}
	err := h.finish(c)
	if err == nil && h.TargetPos != nil {
		pos := h.TargetPos(c)
		h.mu.Lock()
		rm.TargetPosition = pos
		h.mu.Unlock()
		p.TargetMsgPosition = pos
	}
	return err
}
