package wfakes

import (
	"fmt"
	"sync"

	"github.com/milvus-io/milvus-proto/go-api/v2/milvuspb"
)

// Catalog is the downstream catalog behind the recording handler. It answers the way a Milvus reached through
// core/writer.MilvusDataHandler answers (see milvus_handler.go): create calls are idempotent (the handler looks
// the object up first), drop collection / drop partition / drop database of a missing object succeed (Milvus
// treats them as no-ops) but need their parent, every other operation on a missing object fails, a call routed
// to a missing database fails. Every object carries the tag of the create call that made it
// (Base.ReplicateInfo.MsgTimestamp = source create time), which tells incarnations of one name apart.
type Catalog struct {
	mu    sync.Mutex
	dbs   map[string]uint64
	colls map[string]uint64 // db/coll
	parts map[string]uint64 // db/coll/part
}

func NewCatalog() *Catalog {
	return &Catalog{dbs: map[string]uint64{"default": 0}, colls: map[string]uint64{}, parts: map[string]uint64{}}
}

func normDB(db string) string {
	if db == "" {
		return "default"
	}
	return db
}

func ck(db, c string) string    { return normDB(db) + "/" + c }
func pk(db, c, p string) string { return normDB(db) + "/" + c + "/" + p }

// PutDB / PutColl / PutPart seed the catalog.
func (k *Catalog) PutDB(db string, tag uint64) {
	k.mu.Lock()
	k.dbs[normDB(db)] = tag
	k.mu.Unlock()
}

func (k *Catalog) PutColl(db, c string, tag uint64) {
	k.mu.Lock()
	k.colls[ck(db, c)] = tag
	k.mu.Unlock()
}

func (k *Catalog) PutPart(db, c, p string, tag uint64) {
	k.mu.Lock()
	k.parts[pk(db, c, p)] = tag
	k.mu.Unlock()
}

func (k *Catalog) DB(db string) (uint64, bool) {
	k.mu.Lock()
	defer k.mu.Unlock()
	t, ok := k.dbs[normDB(db)]
	return t, ok
}

func (k *Catalog) Coll(db, c string) (uint64, bool) {
	k.mu.Lock()
	defer k.mu.Unlock()
	t, ok := k.colls[ck(db, c)]
	return t, ok
}

func (k *Catalog) Part(db, c, p string) (uint64, bool) {
	k.mu.Lock()
	defer k.mu.Unlock()
	t, ok := k.parts[pk(db, c, p)]
	return t, ok
}

func (k *Catalog) dropCollLocked(db, c string) {
	delete(k.colls, ck(db, c))
	pre := ck(db, c) + "/"
	for key := range k.parts {
		if len(key) > len(pre) && key[:len(pre)] == pre {
			delete(k.parts, key)
		}
	}
}

// Apply executes the call against the catalog and returns the downstream's answer.
func (k *Catalog) Apply(c *Call) error {
	k.mu.Lock()
	defer k.mu.Unlock()
	tag := c.Base.GetReplicateInfo().GetMsgTimestamp()
	needDB := func(db string) error {
		if _, ok := k.dbs[normDB(db)]; !ok {
			return fmt.Errorf("downstream: database not found[database=%s]", normDB(db))
		}
		return nil
	}
	needColl := func(db, coll string) error {
		if err := needDB(db); err != nil {
			return err
		}
		if _, ok := k.colls[ck(db, coll)]; !ok {
			return fmt.Errorf("downstream: collection not found[database=%s][collection=%s]", normDB(db), coll)
		}
		return nil
	}
	switch c.Kind {
	case KCreateDatabase:
		r := c.Req.(*milvuspb.CreateDatabaseRequest)
		if _, ok := k.dbs[normDB(r.GetDbName())]; !ok {
			k.dbs[normDB(r.GetDbName())] = tag
		}
		return nil
	case KDropDatabase:
		r := c.Req.(*milvuspb.DropDatabaseRequest)
		db := normDB(r.GetDbName())
		if _, ok := k.dbs[db]; !ok {
			return nil
		}
		for key := range k.colls {
			if len(key) > len(db) && key[:len(db)+1] == db+"/" {
				return fmt.Errorf("downstream: database %s not empty, must drop all collections before drop database", db)
			}
		}
		if db != "default" {
			delete(k.dbs, db)
		}
		return nil
	case KAlterDatabase:
		r := c.Req.(*milvuspb.AlterDatabaseRequest)
		return needDB(r.GetDbName())
	case KDescribeDB:
		return needDB(c.Name)
	case KCreateCollection:
		if err := needDB(c.RouteDB); err != nil {
			return err
		}
		if _, ok := k.colls[ck(c.RouteDB, c.Coll)]; !ok {
			k.colls[ck(c.RouteDB, c.Coll)] = tag
		}
		return nil
	case KDropCollection:
		if err := needDB(c.RouteDB); err != nil {
			return err
		}
		k.dropCollLocked(c.RouteDB, c.Coll)
		return nil
	case KDescribeColl:
		return needColl(c.RouteDB, c.Coll)
	case KCreatePartition:
		if err := needColl(c.RouteDB, c.Coll); err != nil {
			return err
		}
		if _, ok := k.parts[pk(c.RouteDB, c.Coll, c.Part)]; !ok {
			k.parts[pk(c.RouteDB, c.Coll, c.Part)] = tag
		}
		return nil
	case KDropPartition:
		if err := needColl(c.RouteDB, c.Coll); err != nil {
			return err
		}
		delete(k.parts, pk(c.RouteDB, c.Coll, c.Part))
		return nil
	case KDescribePart:
		if err := needColl(c.RouteDB, c.Coll); err != nil {
			return err
		}
		if _, ok := k.parts[pk(c.RouteDB, c.Coll, c.Part)]; !ok {
			return fmt.Errorf("downstream: partition [%s] not found", c.Part)
		}
		return nil
	case KFlush:
		r := c.Req.(*milvuspb.FlushRequest)
		for _, n := range r.GetCollectionNames() {
			if err := needColl(c.RouteDB, n); err != nil {
				return err
			}
		}
		return nil
	case KCreateIndex:
		return needColl(c.RouteDB, c.Req.(*milvuspb.CreateIndexRequest).GetCollectionName())
	case KDropIndex:
		return needColl(c.RouteDB, c.Req.(*milvuspb.DropIndexRequest).GetCollectionName())
	case KAlterIndex:
		return needColl(c.RouteDB, c.Req.(*milvuspb.AlterIndexRequest).GetCollectionName())
	case KLoadCollection:
		return needColl(c.RouteDB, c.Req.(*milvuspb.LoadCollectionRequest).GetCollectionName())
	case KReleaseCollection:
		return needColl(c.RouteDB, c.Req.(*milvuspb.ReleaseCollectionRequest).GetCollectionName())
	case KLoadPartitions:
		r := c.Req.(*milvuspb.LoadPartitionsRequest)
		if err := needColl(c.RouteDB, r.GetCollectionName()); err != nil {
			return err
		}
		for _, p := range r.GetPartitionNames() {
			if _, ok := k.parts[pk(c.RouteDB, r.GetCollectionName(), p)]; !ok {
				return fmt.Errorf("downstream: partition not found[partition=%s]", p)
			}
		}
		return nil
	case KReleasePartitions:
		r := c.Req.(*milvuspb.ReleasePartitionsRequest)
		if err := needColl(c.RouteDB, r.GetCollectionName()); err != nil {
			return err
		}
		for _, p := range r.GetPartitionNames() {
			if _, ok := k.parts[pk(c.RouteDB, r.GetCollectionName(), p)]; !ok {
				return fmt.Errorf("downstream: partition not found[partition=%s]", p)
			}
		}
		return nil
	}
	return nil
}

// Snapshot returns a detached copy of the catalog (same lookups as the catalog itself).
func (k *Catalog) Snapshot() *Catalog {
	k.mu.Lock()
	defer k.mu.Unlock()
	c := &Catalog{dbs: map[string]uint64{}, colls: map[string]uint64{}, parts: map[string]uint64{}}
	for a, b := range k.dbs {
		c.dbs[a] = b
	}
	for a, b := range k.colls {
		c.colls[a] = b
	}
	for a, b := range k.parts {
		c.parts[a] = b
	}
	return c
}

// Restore replaces the catalog's content by the snapshot's.
func (k *Catalog) Restore(s *Catalog) {
	c := s.Snapshot()
	k.mu.Lock()
	k.dbs, k.colls, k.parts = c.dbs, c.colls, c.parts
	k.mu.Unlock()
}
