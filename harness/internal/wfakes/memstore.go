package wfakes

import (
	"context"
	"encoding/json"
	"sort"
	"strings"
	"sync"

	"github.com/zilliztech/milvus-cdc/core/api"
	"github.com/zilliztech/milvus-cdc/core/meta"
)

// MemStore is an in-memory api.ReplicateStore keeping JSON bytes per key like meta.EtcdReplicateStore
// (Marshal on Put, Unmarshal on Get, prefix scan).
type MemStore struct {
	mu      sync.Mutex
	data    map[string][]byte
	Removes []string
}

func NewMemStore() *MemStore { return &MemStore{data: map[string][]byte{}} }

func (s *MemStore) Get(ctx context.Context, key string, withPrefix bool) ([]api.MetaMsg, error) {
	s.mu.Lock()
	defer s.mu.Unlock()
	var keys []string
	for k := range s.data {
		if (withPrefix && strings.HasPrefix(k, key)) || (!withPrefix && k == key) {
			keys = append(keys, k)
		}
	}
	sort.Strings(keys)
	var out []api.MetaMsg
	for _, k := range keys {
		var m api.MetaMsg
		if err := json.Unmarshal(s.data[k], &m); err != nil {
			return nil, err
		}
		out = append(out, m)
	}
	return out, nil
}

func (s *MemStore) Put(ctx context.Context, key string, value api.MetaMsg) error {
	b, err := json.Marshal(value)
	if err != nil {
		return err
	}
	s.mu.Lock()
	s.data[key] = b
	s.mu.Unlock()
	return nil
}

func (s *MemStore) Remove(ctx context.Context, key string) error {
	s.mu.Lock()
	delete(s.data, key)
	s.Removes = append(s.Removes, key)
	s.mu.Unlock()
	return nil
}

// NewMeta returns the real meta.ReplicateMeteImpl over a fresh MemStore.
func NewMeta() (api.ReplicateMeta, *MemStore, error) {
	st := NewMemStore()
	m, err := meta.NewReplicateMetaImpl(st)
	return m, st, err
}
