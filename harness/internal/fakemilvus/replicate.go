package fakemilvus

import (
	"context"
	"encoding/base64"
	"fmt"
	"sync/atomic"

	"github.com/milvus-io/milvus-proto/go-api/v2/commonpb"
	"github.com/milvus-io/milvus-proto/go-api/v2/milvuspb"
	"github.com/milvus-io/milvus-proto/go-api/v2/msgpb"
	"github.com/milvus-io/milvus/pkg/mq/msgstream"
	"github.com/milvus-io/milvus/pkg/util/merr"
	"google.golang.org/protobuf/proto"
)

// ReplicateRecord is one ReplicateMessage call: the request content (deep copies) and, decoded with Milvus'
// own msgstream dispatcher exactly as the proxy does (type read from the commonpb.MsgHeader of each message),
// the messages. Exported fields are immutable once the record is visible.
type ReplicateRecord struct {
	Seq            int64 // == Call.Seq of its call (arrival order over all RPCs)
	Call           *Call
	Channel        string
	BeginTs, EndTs uint64
	StartPositions []*msgpb.MsgPosition
	EndPositions   []*msgpb.MsgPosition
	MsgsBytes      [][]byte
	Base           *commonpb.MsgBase       // request Base (nil if absent)
	ReplicateInfo  *commonpb.ReplicateInfo // request Base.ReplicateInfo (nil if absent)
	DB             string                  // routing db metadata as sent ("" = none)
	Token          string                  // decoded authorization metadata

	// Msgs[i] is the decoding of MsgsBytes[i]; nil when it could not be decoded (then DecodeErrs[i] != "").
	Msgs       []msgstream.TsMsg
	MsgTypes   []commonpb.MsgType
	DecodeErrs []string
	DecodeErr  string // first decode error, "" when everything decoded

	accepted  atomic.Bool
	acceptSeq atomic.Int64
	position  atomic.Pointer[string]
}

// Accepted reports whether the call was accepted (applied) downstream.
func (r *ReplicateRecord) Accepted() bool { return r.accepted.Load() }

// AcceptSeq is the logical sequence number of acceptance (0,1,2,... in accept order), -1 if not accepted.
func (r *ReplicateRecord) AcceptSeq() int64 {
	if !r.accepted.Load() {
		return -1
	}
	return r.acceptSeq.Load()
}

// Position is the `Position` string put into the reply ("" if not accepted). Note that with apply-then-fail
// or a client killed during a hold the client never saw it.
func (r *ReplicateRecord) Position() string {
	if p := r.position.Load(); p != nil {
		return *p
	}
	return ""
}

// LastEndPosition returns the last end position of the pack, nil when there is none.
func (r *ReplicateRecord) LastEndPosition() *msgpb.MsgPosition {
	if len(r.EndPositions) == 0 {
		return nil
	}
	return r.EndPositions[len(r.EndPositions)-1]
}

func clonePositions(ps []*msgpb.MsgPosition) []*msgpb.MsgPosition {
	if ps == nil {
		return nil
	}
	out := make([]*msgpb.MsgPosition, 0, len(ps))
	for _, p := range ps {
		if p == nil {
			out = append(out, nil)
			continue
		}
		out = append(out, proto.Clone(p).(*msgpb.MsgPosition))
	}
	return out
}

// decodeReplicate builds the record from the call's private clone of the request.
func (s *Server) decodeReplicate(c *Call, req *milvuspb.ReplicateMessageRequest) *ReplicateRecord {
	r := &ReplicateRecord{Call: c, Channel: req.GetChannelName(), BeginTs: req.GetBeginTs(), EndTs: req.GetEndTs(),
		StartPositions: clonePositions(req.GetStartPositions()), EndPositions: clonePositions(req.GetEndPositions()),
		DB: c.DB, Token: c.Token}
	r.acceptSeq.Store(-1)
	if req.GetBase() != nil {
		r.Base = proto.Clone(req.GetBase()).(*commonpb.MsgBase)
		r.ReplicateInfo = r.Base.GetReplicateInfo()
	}
	r.MsgsBytes = req.GetMsgs() // req is the call's private clone of the request: share its buffers
	r.Msgs = make([]msgstream.TsMsg, len(r.MsgsBytes))
	r.MsgTypes = make([]commonpb.MsgType, len(r.MsgsBytes))
	r.DecodeErrs = make([]string, len(r.MsgsBytes))
	for i, b := range r.MsgsBytes {
		fail := func(e string) {
			r.DecodeErrs[i] = e
			if r.DecodeErr == "" {
				r.DecodeErr = fmt.Sprintf("message %d: %s", i, e)
			}
		}
		hdr := &commonpb.MsgHeader{}
		if err := proto.Unmarshal(b, hdr); err != nil {
			fail("failed to unmarshal msg header: " + err.Error())
			continue
		}
		if hdr.GetBase() == nil {
			fail("msg header base is nil")
			continue
		}
		r.MsgTypes[i] = hdr.GetBase().GetMsgType()
		s.decodeMu.Lock()
		m, err := s.disp.Unmarshal(b, hdr.GetBase().GetMsgType())
		s.decodeMu.Unlock()
		if err != nil {
			fail("failed to unmarshal msg of type " + hdr.GetBase().GetMsgType().String() + ": " + err.Error())
			continue
		}
		r.Msgs[i] = m
	}
	return r
}

// OnReplicate installs a callback invoked synchronously, on the RPC's goroutine, when a ReplicateMessage has
// been ACCEPTED and before its reply is sent (and before a hold on that call signals Applied). Callbacks of
// concurrent calls are serialised and run in accept order (rec.AcceptSeq() increases by one each time). The
// callback must not call Replicates()/AcceptedCount() (it runs inside the accept critical section); Calls(),
// Catalog() and everything else are fine. nil removes it.
func (s *Server) OnReplicate(f func(rec *ReplicateRecord)) {
	s.mu.Lock()
	s.onRepl = f
	s.mu.Unlock()
}

// SetPositionFunc replaces how the reply's Position is derived: the returned bytes are base64-encoded (std)
// into ReplicateMessageResponse.Position, as Milvus does with the produced message id. The default is
// "fm-<acceptSeq>|" followed by the MsgID bytes of the pack's last end position.
func (s *Server) SetPositionFunc(f func(rec *ReplicateRecord) []byte) {
	s.mu.Lock()
	s.posFunc = f
	s.mu.Unlock()
}

func defaultPosition(rec *ReplicateRecord) []byte {
	out := []byte(fmt.Sprintf("fm-%d|", rec.AcceptSeq()))
	if p := rec.LastEndPosition(); p != nil {
		out = append(out, p.GetMsgID()...)
	}
	return out
}

// Replicates returns the ACCEPTED ReplicateMessage calls in accept order.
func (s *Server) Replicates() []*ReplicateRecord {
	s.acceptMu.Lock()
	defer s.acceptMu.Unlock()
	return append([]*ReplicateRecord(nil), s.accepted...)
}

// AcceptedCount returns how many ReplicateMessage calls have been accepted.
func (s *Server) AcceptedCount() int {
	s.acceptMu.Lock()
	defer s.acceptMu.Unlock()
	return len(s.accepted)
}

// AllReplicates returns every ReplicateMessage call that arrived (accepted or not) in arrival order.
func (s *Server) AllReplicates() []*ReplicateRecord {
	s.mu.Lock()
	defer s.mu.Unlock()
	return append([]*ReplicateRecord(nil), s.allRepl...)
}

// ReplicateMessage validates like Milvus' proxy (non-empty channel, every message decodable), then accepts.
func (s *svc) ReplicateMessage(ctx context.Context, req *milvuspb.ReplicateMessageRequest) (*milvuspb.ReplicateMessageResponse, error) {
	c := callFrom(ctx)
	var rec *ReplicateRecord
	if c != nil {
		rec = c.Replicate
	}
	if rec == nil { // not reached through the interceptor (never happens over gRPC)
		rec = s.decodeReplicate(&Call{Method: "ReplicateMessage", Seq: -1}, proto.Clone(req).(*milvuspb.ReplicateMessageRequest))
	}
	if rec.Channel == "" {
		return &milvuspb.ReplicateMessageResponse{Status: merr.Status(merr.WrapErrParameterInvalidMsg("invalid channel name for the replicate message request"))}, nil
	}
	if rec.DecodeErr != "" {
		return &milvuspb.ReplicateMessageResponse{Status: merr.Status(merr.WrapErrParameterInvalidMsg("%s", rec.DecodeErr))}, nil
	}

	s.mu.Lock()
	cb, pf := s.onRepl, s.posFunc
	s.mu.Unlock()
	if pf == nil {
		pf = defaultPosition
	}

	s.acceptMu.Lock()
	rec.acceptSeq.Store(int64(len(s.accepted)))
	rec.accepted.Store(true)
	pos := base64.StdEncoding.EncodeToString(pf(rec))
	rec.position.Store(&pos)
	s.accepted = append(s.accepted, rec)
	if cb != nil {
		cb(rec)
	}
	s.acceptMu.Unlock()

	return &milvuspb.ReplicateMessageResponse{Status: merr.Success(), Position: pos}, nil
}
