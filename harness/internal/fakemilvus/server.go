// Package fakemilvus is a fake downstream Milvus: a gRPC server that implements the part of
// milvuspb.MilvusServiceServer which milvus-cdc's real downstream code (core/writer.MilvusDataHandler,
// core/reader.TargetClient, both through milvus-sdk-go v2.4.2) calls.
//
// It keeps a small downstream catalog (databases, collections, partitions, indexes, users, roles), records
// every RPC in a call log, records and decodes every ReplicateMessage, and lets a test inject faults per call:
// fail (transport-level gRPC error or application-level Milvus Status), apply-then-fail, and hold-and-signal
// (the reply is blocked until released; a channel tells that the call has been applied downstream).
//
// Everything is safe for concurrent use and under the race detector.
package fakemilvus

import (
	"context"
	"encoding/base64"
	"fmt"
	"net"
	"path"
	"sync"
	"sync/atomic"
	"time"

	"github.com/milvus-io/milvus-proto/go-api/v2/commonpb"
	"github.com/milvus-io/milvus-proto/go-api/v2/milvuspb"
	"github.com/milvus-io/milvus/pkg/mq/msgstream"
	"github.com/milvus-io/milvus/pkg/util/merr"
	"google.golang.org/grpc"
	"google.golang.org/grpc/codes"
	"google.golang.org/grpc/keepalive"
	"google.golang.org/grpc/metadata"
	"google.golang.org/grpc/status"
	"google.golang.org/protobuf/proto"
	"google.golang.org/protobuf/reflect/protoreflect"
	"google.golang.org/protobuf/reflect/protoregistry"
)

// Metadata keys the SDK sends with every RPC (client/interceptor.go of milvus-sdk-go).
const (
	mdAuthorization = "authorization"
	mdDBName        = "dbname"
	mdIdentifier    = "identifier"
)

// DefaultDB is the database that always exists and that a call without `dbname` metadata is routed to.
const DefaultDB = "default"

// DefaultPartition is the partition created together with a collection.
const DefaultPartition = "_default"

// IDAssigner decides the identity of a collection created downstream: its id and its virtual / physical
// channel names (one per shard). It is called with the server's catalog lock held: it must not call back
// into the Server.
type IDAssigner func(db, name string) (id int64, vchannels, pchannels []string)

// PartitionIDAssigner decides the id of a partition created downstream (same locking rule as IDAssigner).
type PartitionIDAssigner func(db, collection, partition string) int64

// Option configures Start.
type Option func(*Server)

// WithIDAssigner installs the collection id / channel assigner.
func WithIDAssigner(f IDAssigner) Option { return func(s *Server) { s.idAssigner = f } }

// WithPartitionIDAssigner installs the partition id assigner.
func WithPartitionIDAssigner(f PartitionIDAssigner) Option {
	return func(s *Server) { s.partIDAssigner = f }
}

// WithListenAddr makes Start listen on addr instead of 127.0.0.1:0 (e.g. to come back on the port of a
// stopped server).
func WithListenAddr(addr string) Option { return func(s *Server) { s.listenAddr = addr } }

// Server is one fake Milvus instance.
type Server struct {
	listenAddr string
	lis        net.Listener
	addr       string
	grpcSrv    *grpc.Server
	stopCh     chan struct{}
	stopOnce   sync.Once
	serveDone  chan struct{}

	// mu guards the call log, the fault plan, the hook pointers and the change-notification channel.
	mu        sync.Mutex
	calls     []*Call
	perMethod map[string]int
	plan      map[string][]*planEntry
	hook      func(*Call) *Decision
	onRepl    func(*ReplicateRecord)
	posFunc   func(*ReplicateRecord) []byte
	changed   chan struct{}
	allRepl   []*ReplicateRecord // arrival order

	// acceptMu serialises "accept" of ReplicateMessage calls: accept sequence, accepted list and the
	// OnReplicate callback happen in one critical section, so callback order == accept order.
	acceptMu sync.Mutex
	accepted []*ReplicateRecord

	// cat guards the catalog.
	cat            sync.Mutex
	dbs            map[string]*dbEntry
	users          map[string]string
	roles          map[string]bool
	userRoles      map[string]map[string]bool
	grants         []*milvuspb.GrantEntity
	idCounter      int64
	tsCounter      uint64
	idAssigner     IDAssigner
	partIDAssigner PartitionIDAssigner
	strictConnect  bool
	loadNeedsIndex bool
	inserts        []*DataRecord
	deletes        []*DataRecord

	decodeMu sync.Mutex
	disp     *msgstream.ProtoUnmarshalDispatcher

	identifier atomic.Int64
}

// svc carries the gRPC methods (kept off Server so that Server's exported API stays the test-facing one).
// Methods not implemented here answer codes.Unimplemented, but are still logged and subject to faults.
type svc struct {
	milvuspb.UnimplementedMilvusServiceServer
	*Server
}

// Start starts a fake Milvus on a loopback TCP port.
func Start(opts ...Option) (*Server, error) {
	s := &Server{
		listenAddr:    "127.0.0.1:0",
		stopCh:        make(chan struct{}),
		serveDone:     make(chan struct{}),
		perMethod:     map[string]int{},
		plan:          map[string][]*planEntry{},
		changed:       make(chan struct{}),
		dbs:           map[string]*dbEntry{},
		users:         map[string]string{},
		roles:         map[string]bool{"admin": true, "public": true},
		userRoles:     map[string]map[string]bool{},
		idCounter:     1000,
		strictConnect: true,
		disp:          (&msgstream.ProtoUDFactory{}).NewUnmarshalDispatcher(),
	}
	for _, o := range opts {
		o(s)
	}
	s.dbs[DefaultDB] = &dbEntry{name: DefaultDB, id: 1, created: s.nextTsLocked(), colls: map[string]*collEntry{}}
	s.users["root"] = ""

	lis, err := net.Listen("tcp", s.listenAddr)
	if err != nil {
		return nil, err
	}
	s.lis = lis
	s.addr = lis.Addr().String()
	s.grpcSrv = grpc.NewServer(
		grpc.MaxRecvMsgSize(512<<20),
		grpc.MaxSendMsgSize(512<<20),
		// the SDK's default dial options ping every 5s without streams; do not GOAWAY such clients.
		grpc.KeepaliveEnforcementPolicy(keepalive.EnforcementPolicy{MinTime: time.Second, PermitWithoutStream: true}),
		grpc.UnaryInterceptor(s.intercept),
	)
	milvuspb.RegisterMilvusServiceServer(s.grpcSrv, &svc{Server: s})
	go func() {
		defer close(s.serveDone)
		_ = s.grpcSrv.Serve(lis)
	}()
	return s, nil
}

// Addr returns "127.0.0.1:port".
func (s *Server) Addr() string { return s.addr }

// URI returns "http://127.0.0.1:port", the form util.GetURI produces and the SDK accepts.
func (s *Server) URI() string { return "http://" + s.addr }

// Stop releases every held call, closes all connections and stops serving. Idempotent.
func (s *Server) Stop() {
	s.stopOnce.Do(func() {
		close(s.stopCh)
		s.grpcSrv.Stop()
		<-s.serveDone
	})
}

// ---------------------------------------------------------------------------------------------------------
// call log

// Call is one RPC that reached the server. All exported fields are immutable once the call is visible.
type Call struct {
	Seq       int64  // arrival order over all methods, from 0
	MethodSeq int    // arrival order among calls of the same method, from 0
	Method    string // "ReplicateMessage", "CreateCollection", ...
	DB        string // metadata `dbname` exactly as sent ("" when absent; the call is then routed to "default")
	Token     string // metadata `authorization`, base64-decoded ("user:password" or the api key / token)
	RawAuth   string // metadata `authorization` as sent
	Ident     string // metadata `identifier` (what Connect returned to this client), "" on Connect itself
	Req       proto.Message
	// Replicate is set for ReplicateMessage calls: the decoded record (present before the hook runs).
	Replicate *ReplicateRecord

	outcome atomic.Pointer[Outcome]
	done    chan struct{}
}

// RouteDB is the database the call is routed to: DB, or "default" when no dbname metadata was sent.
func (c *Call) RouteDB() string {
	if c.DB == "" {
		return DefaultDB
	}
	return c.DB
}

// Outcome returns how the call ended, or nil while it is still in flight (e.g. held).
func (c *Call) Outcome() *Outcome { return c.outcome.Load() }

// Done is closed when the call has ended (its Outcome is set).
func (c *Call) Done() <-chan struct{} { return c.done }

// Outcome describes how a call ended.
type Outcome struct {
	// Applied: the handler ran and returned a success status, i.e. the request took effect downstream
	// (for read-only RPCs: it was answered from the catalog).
	Applied bool
	// Injected is "" (no fault), "fail" (rejected before being applied) or "apply-then-fail".
	Injected string
	// Held: the reply was blocked on a Hold.
	Held bool
	// ClientGone: while held, the client's context ended (client killed / timed out) before Release.
	ClientGone bool
	// GRPCCode/GRPCMsg: the transport-level error returned (codes.OK when the RPC itself succeeded).
	GRPCCode codes.Code
	GRPCMsg  string
	// Status is the application-level status returned to the client (nil with a transport-level error).
	Status *commonpb.Status
}

// OK reports whether the client saw a success.
func (o *Outcome) OK() bool {
	return o != nil && o.GRPCCode == codes.OK && (o.Status == nil || statusOK(o.Status))
}

// ErrText is "" on success, else a short description of the failure the client saw.
func (o *Outcome) ErrText() string {
	switch {
	case o == nil:
		return "in flight"
	case o.GRPCCode != codes.OK:
		return fmt.Sprintf("grpc %s: %s", o.GRPCCode, o.GRPCMsg)
	case o.Status != nil && !statusOK(o.Status):
		return fmt.Sprintf("status %s/%d: %s", o.Status.GetErrorCode(), o.Status.GetCode(), o.Status.GetReason())
	}
	return ""
}

func statusOK(st *commonpb.Status) bool {
	return st.GetErrorCode() == commonpb.ErrorCode_Success && st.GetCode() == 0
}

// Calls returns a snapshot of the call log in arrival order.
func (s *Server) Calls() []*Call {
	s.mu.Lock()
	defer s.mu.Unlock()
	return append([]*Call(nil), s.calls...)
}

// CallsOf returns the calls of one method in arrival order.
func (s *Server) CallsOf(method string) []*Call {
	s.mu.Lock()
	defer s.mu.Unlock()
	var out []*Call
	for _, c := range s.calls {
		if c.Method == method {
			out = append(out, c)
		}
	}
	return out
}

// CallCount returns how many calls of method have arrived ("" = all methods).
func (s *Server) CallCount(method string) int {
	s.mu.Lock()
	defer s.mu.Unlock()
	if method == "" {
		return len(s.calls)
	}
	return s.perMethod[method]
}

// WaitCall blocks until a call satisfying pred is in the log (calls already logged count) and returns the
// first such call. pred is evaluated without any server lock held; it is re-evaluated whenever a call
// arrives or ends. Returns ctx.Err() when ctx ends first.
func (s *Server) WaitCall(ctx context.Context, pred func(*Call) bool) (*Call, error) {
	for {
		s.mu.Lock()
		snap := append([]*Call(nil), s.calls...)
		ch := s.changed
		s.mu.Unlock()
		for _, c := range snap {
			if pred(c) {
				return c, nil
			}
		}
		select {
		case <-ch:
		case <-ctx.Done():
			return nil, ctx.Err()
		case <-s.stopCh:
			return nil, fmt.Errorf("fakemilvus: server stopped")
		}
	}
}

func (s *Server) notifyLocked() {
	close(s.changed)
	s.changed = make(chan struct{})
}

type callCtxKey struct{}

func callFrom(ctx context.Context) *Call {
	c, _ := ctx.Value(callCtxKey{}).(*Call)
	return c
}

func firstMD(md metadata.MD, key string) string {
	if v := md.Get(key); len(v) > 0 {
		return v[len(v)-1]
	}
	return ""
}

func (s *Server) newCall(ctx context.Context, method string, req interface{}) *Call {
	md, _ := metadata.FromIncomingContext(ctx)
	c := &Call{Method: method, done: make(chan struct{})}
	c.DB = firstMD(md, mdDBName)
	c.RawAuth = firstMD(md, mdAuthorization)
	c.Ident = firstMD(md, mdIdentifier)
	c.Token = c.RawAuth
	if b, err := base64.StdEncoding.DecodeString(c.RawAuth); err == nil {
		c.Token = string(b)
	}
	if pm, ok := req.(proto.Message); ok && pm != nil {
		c.Req = proto.Clone(pm)
	}
	if rr, ok := c.Req.(*milvuspb.ReplicateMessageRequest); ok {
		c.Replicate = s.decodeReplicate(c, rr)
	}
	s.mu.Lock()
	c.Seq = int64(len(s.calls))
	c.MethodSeq = s.perMethod[method]
	s.perMethod[method]++
	s.calls = append(s.calls, c)
	if c.Replicate != nil {
		c.Replicate.Seq = c.Seq
		s.allRepl = append(s.allRepl, c.Replicate)
	}
	s.notifyLocked()
	s.mu.Unlock()
	return c
}

func (s *Server) finish(c *Call, o *Outcome) {
	c.outcome.Store(o)
	close(c.done)
	s.mu.Lock()
	s.notifyLocked()
	s.mu.Unlock()
}

// ---------------------------------------------------------------------------------------------------------
// decisions, fault plan, hold

// Action says what to do with a call.
type Action int

const (
	// ActProceed applies the call and answers normally.
	ActProceed Action = iota
	// ActFail rejects the call without applying it.
	ActFail
	// ActApplyThenFail applies the call downstream, then makes the client see a failure.
	ActApplyThenFail
)

// Decision is what a hook returns for a call. nil means proceed.
//
// With ActFail / ActApplyThenFail the failure is transport-level when Err is set (returned as the RPC error:
// a gRPC status error is passed through, any other error becomes codes.Unknown) and application-level when
// Status is set (a normal RPC reply whose Status is that one, the way Milvus reports errors). With neither,
// an application-level UnexpectedError status is used.
//
// When Hold is set, the reply (success or failure) is blocked: first the call is applied (unless ActFail),
// then Hold.Applied() is closed, then the handler waits for Hold.Release() (or the client's context / server
// stop) before replying.
type Decision struct {
	Action Action
	Err    error
	Status *commonpb.Status
	Hold   *Hold
}

// Proceed is the explicit form of a nil decision.
func Proceed() *Decision { return &Decision{Action: ActProceed} }

// FailWith rejects the call (not applied). err is interpreted as by FailNext.
func FailWith(err error) *Decision {
	d := &Decision{Action: ActFail}
	d.Err, d.Status = splitErr(err)
	return d
}

// FailGRPC rejects the call with a transport-level gRPC error. Beware: the SDK retries
// codes.Unavailable and codes.ResourceExhausted by itself (up to 6 times, backing off 60ms*3^n).
func FailGRPC(code codes.Code, msg string) *Decision {
	return &Decision{Action: ActFail, Err: status.Error(code, msg)}
}

// FailStatus rejects the call with an application-level status (st.ErrorCode must be non-zero for the
// SDK v2.4.2 to see an error: it only looks at the legacy ErrorCode). Beware: ErrorCode_RateLimit is
// retried by the SDK itself (up to 75 times).
func FailStatus(st *commonpb.Status) *Decision { return &Decision{Action: ActFail, Status: st} }

// ApplyThenFailWith applies the call downstream and then fails it towards the client (err as by FailNext).
func ApplyThenFailWith(err error) *Decision {
	d := &Decision{Action: ActApplyThenFail}
	d.Err, d.Status = splitErr(err)
	return d
}

// HoldReply applies the call, signals h.Applied() and blocks the (successful) reply until h.Release().
func HoldReply(h *Hold) *Decision { return &Decision{Action: ActProceed, Hold: h} }

// WithHold adds a hold to a decision.
func (d *Decision) WithHold(h *Hold) *Decision { d.Hold = h; return d }

// Hold is a one-shot gate for one call.
type Hold struct {
	applied  chan struct{}
	release  chan struct{}
	aOnce    sync.Once
	rOnce    sync.Once
	callSlot atomic.Pointer[Call]
}

// NewHold returns a fresh hold.
func NewHold() *Hold { return &Hold{applied: make(chan struct{}), release: make(chan struct{})} }

// Applied is closed when the held call has been applied downstream (or, with ActFail, decided) and its
// reply is now blocked.
func (h *Hold) Applied() <-chan struct{} { return h.applied }

// Call returns the held call once Applied() is closed (nil before).
func (h *Hold) Call() *Call { return h.callSlot.Load() }

// Release lets the held reply go. Idempotent; may be called before the call arrives.
func (h *Hold) Release() { h.rOnce.Do(func() { close(h.release) }) }

// StatusError carries an explicit application-level status through FailNext / FailWith.
type StatusError struct{ Status *commonpb.Status }

func (e *StatusError) Error() string { return e.Status.GetReason() }

// StatusErr builds a StatusError with the legacy error code, the new numeric code and a reason.
func StatusErr(errorCode commonpb.ErrorCode, code int32, reason string) error {
	return &StatusError{Status: &commonpb.Status{ErrorCode: errorCode, Code: code, Reason: reason}}
}

// splitErr maps an injected error onto (transport error, application status); exactly one is non-nil.
func splitErr(err error) (error, *commonpb.Status) {
	if err == nil {
		return nil, unexpectedStatus("fakemilvus: injected failure")
	}
	if se, ok := err.(*StatusError); ok && se.Status != nil {
		return nil, proto.Clone(se.Status).(*commonpb.Status)
	}
	if _, ok := status.FromError(err); ok {
		return err, nil
	}
	st := merr.Status(err)
	if st.GetErrorCode() == commonpb.ErrorCode_Success {
		st.ErrorCode = commonpb.ErrorCode_UnexpectedError
	}
	return nil, st
}

func unexpectedStatus(reason string) *commonpb.Status {
	return &commonpb.Status{ErrorCode: commonpb.ErrorCode_UnexpectedError, Code: 65535, Reason: reason, Detail: reason}
}

type planEntry struct {
	n int
	d *Decision
}

// FailNext makes the next n calls of method fail WITHOUT being applied ("*" = any method). err decides the
// form: a gRPC status error (status.Error(...)) is returned at transport level; a *StatusError gives exactly
// that application-level status; a Milvus merr error gives merr.Status(err); any other error gives an
// application-level UnexpectedError status with err.Error() as reason. The plan is consulted before the hook.
//
// Every attempt that reaches the server is one call and uses up one unit of n. The SDK itself re-sends a call
// answered with codes.Unavailable / codes.ResourceExhausted (6 attempts) or with ErrorCode_RateLimit (75
// attempts), and MilvusDataHandler re-sends according to its retry settings; Connect is a method like any other.
func (s *Server) FailNext(method string, n int, err error) {
	s.planNext(method, n, FailWith(err))
}

// FailNextAfterApply is FailNext, but each of the n calls is applied downstream before the client sees the error.
func (s *Server) FailNextAfterApply(method string, n int, err error) {
	s.planNext(method, n, ApplyThenFailWith(err))
}

// HoldNext holds the next call of method: it is applied, h.Applied() is closed, and the reply waits for h.Release().
func (s *Server) HoldNext(method string, h *Hold) { s.planNext(method, 1, HoldReply(h)) }

func (s *Server) planNext(method string, n int, d *Decision) {
	if n <= 0 {
		return
	}
	s.mu.Lock()
	s.plan[method] = append(s.plan[method], &planEntry{n: n, d: d})
	s.mu.Unlock()
}

// ClearPlan drops every pending FailNext / HoldNext entry.
func (s *Server) ClearPlan() {
	s.mu.Lock()
	s.plan = map[string][]*planEntry{}
	s.mu.Unlock()
}

// SetHook installs the function asked for every call (all methods, Connect included) after it has been
// logged and BEFORE it is applied. It runs on the RPC's goroutine without server locks held, possibly
// concurrently for concurrent calls. nil removes the hook.
func (s *Server) SetHook(f func(call *Call) *Decision) {
	s.mu.Lock()
	s.hook = f
	s.mu.Unlock()
}

func (s *Server) takePlanLocked(method string) *Decision {
	for _, key := range []string{method, "*"} {
		q := s.plan[key]
		if len(q) == 0 {
			continue
		}
		e := q[0]
		e.n--
		if e.n <= 0 {
			s.plan[key] = q[1:]
		}
		return e.d
	}
	return nil
}

func (s *Server) decide(c *Call) *Decision {
	s.mu.Lock()
	d := s.takePlanLocked(c.Method)
	hook := s.hook
	s.mu.Unlock()
	if d == nil && hook != nil {
		d = hook(c)
	}
	if d == nil {
		d = &Decision{Action: ActProceed}
	}
	return d
}

// ---------------------------------------------------------------------------------------------------------
// the interceptor: log, decide, apply, hold, reply

var svcDesc = milvuspb.File_milvus_proto.Services().ByName("MilvusService")

// statusReply builds the reply message of method carrying st; ok=false when the method's reply has no status.
func statusReply(method string, st *commonpb.Status) (interface{}, bool) {
	md := svcDesc.Methods().ByName(protoreflect.Name(method))
	if md == nil {
		return nil, false
	}
	out := md.Output()
	if out.FullName() == st.ProtoReflect().Descriptor().FullName() {
		return st, true
	}
	fd := out.Fields().ByName("status")
	if fd == nil || fd.Message() == nil || fd.Message().FullName() != st.ProtoReflect().Descriptor().FullName() {
		return nil, false
	}
	mt, err := protoregistry.GlobalTypes.FindMessageByName(out.FullName())
	if err != nil {
		return nil, false
	}
	m := mt.New()
	m.Set(fd, protoreflect.ValueOfMessage(st.ProtoReflect()))
	return m.Interface(), true
}

// replyStatus extracts the application-level status of a reply (nil when it has none).
func replyStatus(resp interface{}) *commonpb.Status {
	if st, ok := resp.(*commonpb.Status); ok {
		return st
	}
	if g, ok := resp.(interface{ GetStatus() *commonpb.Status }); ok {
		return g.GetStatus()
	}
	return nil
}

func (s *Server) intercept(ctx context.Context, req interface{}, info *grpc.UnaryServerInfo, handler grpc.UnaryHandler) (interface{}, error) {
	method := path.Base(info.FullMethod)
	c := s.newCall(ctx, method, req)
	d := s.decide(c)
	o := &Outcome{}

	var resp interface{}
	var err error
	if d.Action != ActFail {
		resp, err = handler(context.WithValue(ctx, callCtxKey{}, c), req)
		st := replyStatus(resp)
		o.Applied = err == nil && (st == nil || statusOK(st))
	}

	if d.Hold != nil {
		o.Held = true
		d.Hold.callSlot.Store(c)
		d.Hold.aOnce.Do(func() { close(d.Hold.applied) })
		select {
		case <-d.Hold.release:
		case <-ctx.Done():
			o.ClientGone = true
		case <-s.stopCh:
		}
	}

	if d.Action == ActFail || d.Action == ActApplyThenFail {
		if d.Action == ActFail {
			o.Injected = "fail"
		} else {
			o.Injected = "apply-then-fail"
		}
		ferr, fst := d.Err, d.Status
		if ferr == nil && fst == nil {
			fst = unexpectedStatus("fakemilvus: injected failure")
		}
		if ferr == nil {
			if r, ok := statusReply(method, proto.Clone(fst).(*commonpb.Status)); ok {
				resp, err = r, nil
			} else {
				ferr = status.Error(codes.Unknown, fst.GetReason())
			}
		}
		if ferr != nil {
			if _, ok := status.FromError(ferr); !ok {
				ferr = status.Error(codes.Unknown, ferr.Error())
			}
			resp, err = nil, ferr
		}
	}

	if err != nil {
		st, _ := status.FromError(err)
		o.GRPCCode, o.GRPCMsg = st.Code(), st.Message()
	} else if st := replyStatus(resp); st != nil {
		o.Status = proto.Clone(st).(*commonpb.Status)
	}
	s.finish(c, o)
	return resp, err
}
