package fakemilvus_test

import (
	"context"
	"encoding/base64"
	"strings"
	"sync"
	"testing"
	"time"

	"github.com/milvus-io/milvus-proto/go-api/v2/commonpb"
	"github.com/milvus-io/milvus-proto/go-api/v2/milvuspb"
	"github.com/milvus-io/milvus-proto/go-api/v2/msgpb"
	"github.com/milvus-io/milvus-proto/go-api/v2/schemapb"
	"github.com/milvus-io/milvus-sdk-go/v2/entity"
	"github.com/milvus-io/milvus/pkg/mq/msgstream"
	"github.com/milvus-io/milvus/pkg/util/merr"
	"github.com/sasha-s/go-deadlock"
	"google.golang.org/grpc/codes"
	"google.golang.org/grpc/status"

	"github.com/zilliztech/milvus-cdc/core/api"
	"github.com/zilliztech/milvus-cdc/core/config"
	"github.com/zilliztech/milvus-cdc/core/reader"
	"github.com/zilliztech/milvus-cdc/core/util"
	"github.com/zilliztech/milvus-cdc/core/writer"

	"verifharness/internal/fakemilvus"
)

const token = "root:Milvus"

func init() {
	deadlock.Opts.Disable = true
	// one attempt per downstream operation: an injected failure surfaces as the handler's error at once
	config.InitCommonConfig(func(c *config.CommonConfig) {
		c.Retry = config.RetrySettings{RetryTimes: 1, InitBackOff: 1, MaxBackOff: 1}
	})
}

type rig struct {
	t   *testing.T
	srv *fakemilvus.Server
	h   *writer.MilvusDataHandler
	tgt api.TargetAPI
	dbs map[string]bool
}

func newRig(t *testing.T, opts ...fakemilvus.Option) *rig {
	t.Helper()
	srv, err := fakemilvus.Start(opts...)
	if err != nil {
		t.Fatal(err)
	}
	r := &rig{t: t, srv: srv, dbs: map[string]bool{"default": true}}
	t.Cleanup(func() {
		// the SDK clients are cached process-wide per (uri, database): drop ours so that a later server that
		// happens to get the same port starts from a clean handshake
		for db := range r.dbs {
			util.GetMilvusClientManager().DeleteMilvusClient(srv.URI(), db)
		}
		srv.Stop()
	})
	h, err := writer.NewMilvusDataHandler(writer.URIOption(srv.URI()), writer.TokenOption(token), writer.ConnectTimeoutOption(10))
	if err != nil {
		t.Fatalf("NewMilvusDataHandler: %v", err)
	}
	r.h = h
	tgt, err := reader.NewTarget(context.Background(), reader.TargetConfig{URI: srv.URI(), Token: token})
	if err != nil {
		t.Fatalf("NewTarget: %v", err)
	}
	r.tgt = tgt
	return r
}

func (r *rig) useDB(db string) string { r.dbs[db] = true; return db }

func ctx10(t *testing.T) context.Context {
	ctx, cancel := context.WithTimeout(context.Background(), 20*time.Second)
	t.Cleanup(cancel)
	return ctx
}

// the schema the way channel_writer.createCollection builds it: pb.CollectionInfo.Schema -> entity.Schema.ReadProto
func testSchema(name string) *entity.Schema {
	pbSchema := &schemapb.CollectionSchema{
		Name:        name,
		Description: "from source",
		Fields: []*schemapb.FieldSchema{
			{FieldID: 100, Name: "pk", IsPrimaryKey: true, DataType: schemapb.DataType_Int64},
			{FieldID: 101, Name: "vec", DataType: schemapb.DataType_FloatVector, TypeParams: []*commonpb.KeyValuePair{{Key: "dim", Value: "4"}}},
		},
	}
	return (&entity.Schema{}).ReadProto(pbSchema)
}

func replicateBase(ts uint64) *commonpb.MsgBase {
	return &commonpb.MsgBase{ReplicateInfo: &commonpb.ReplicateInfo{IsReplicate: true, MsgTimestamp: ts}}
}

func lastCall(t *testing.T, srv *fakemilvus.Server, method string) *fakemilvus.Call {
	t.Helper()
	cs := srv.CallsOf(method)
	if len(cs) == 0 {
		t.Fatalf("no %s call recorded", method)
	}
	return cs[len(cs)-1]
}

func TestCatalogThroughRealHandlerAndTarget(t *testing.T) {
	r := newRig(t)
	srv, h, tgt := r.srv, r.h, r.tgt
	ctx := ctx10(t)

	// ---- handshake: token and database are carried as metadata
	conn := lastCall(t, srv, "Connect")
	if conn.Token != token || conn.DB != "default" || !conn.Outcome().OK() {
		t.Fatalf("Connect recorded as token=%q db=%q outcome=%s", conn.Token, conn.DB, conn.Outcome().ErrText())
	}
	if conn.RawAuth != base64.StdEncoding.EncodeToString([]byte(token)) {
		t.Fatalf("raw authorization %q", conn.RawAuth)
	}
	if req, ok := conn.Req.(*milvuspb.ConnectRequest); !ok || req.GetClientInfo().GetSdkType() != "Golang" {
		t.Fatalf("Connect request not recorded: %v", conn.Req)
	}

	// ---- create database (handler lists first, then creates)
	db := r.useDB("db1")
	if err := h.CreateDatabase(ctx, &api.CreateDatabaseParam{CreateDatabaseRequest: &milvuspb.CreateDatabaseRequest{DbName: db, Base: replicateBase(10)}}); err != nil {
		t.Fatalf("CreateDatabase: %v", err)
	}
	if !srv.Catalog().HasDatabase(db) {
		t.Fatal("db1 not in the downstream catalog")
	}
	if err := h.CreateDatabase(ctx, &api.CreateDatabaseParam{CreateDatabaseRequest: &milvuspb.CreateDatabaseRequest{DbName: db}}); err != nil {
		t.Fatalf("CreateDatabase (again, must be skipped by the handler): %v", err)
	}
	if n := srv.CallCount("CreateDatabase"); n != 1 {
		t.Fatalf("CreateDatabase reached the server %d times, want 1", n)
	}
	if err := h.DescribeDatabase(ctx, &api.DescribeDatabaseParam{Name: db}); err != nil {
		t.Fatalf("DescribeDatabase: %v", err)
	}
	if err := h.DescribeDatabase(ctx, &api.DescribeDatabaseParam{Name: "nope"}); err == nil {
		t.Fatal("DescribeDatabase of a missing database succeeded")
	}

	// ---- create collection in the non-default database
	err := h.CreateCollection(ctx, &api.CreateCollectionParam{
		MsgBaseParam:     api.MsgBaseParam{Base: replicateBase(20)},
		ReplicateParam:   api.ReplicateParam{Database: db},
		Schema:           testSchema("c1"),
		ShardsNum:        2,
		ConsistencyLevel: commonpb.ConsistencyLevel_Bounded,
		Properties:       []*commonpb.KeyValuePair{{Key: "replicate.id", Value: "rid"}},
	})
	if err != nil {
		t.Fatalf("CreateCollection: %v", err)
	}
	cc := lastCall(t, srv, "CreateCollection")
	if cc.DB != db || cc.Token != token {
		t.Fatalf("CreateCollection routed with db=%q token=%q", cc.DB, cc.Token)
	}
	ccReq := cc.Req.(*milvuspb.CreateCollectionRequest)
	if !ccReq.GetBase().GetReplicateInfo().GetIsReplicate() || ccReq.GetBase().GetReplicateInfo().GetMsgTimestamp() != 20 || ccReq.GetShardsNum() != 2 {
		t.Fatalf("CreateCollection request not carried: %v", ccReq)
	}
	// the handler probes with DescribeCollection first; the probe must have failed with "not found"
	if dc := lastCall(t, srv, "DescribeCollection"); dc.DB != db || dc.Outcome().OK() || !strings.Contains(dc.Outcome().ErrText(), "collection not found") {
		t.Fatalf("probe DescribeCollection: db=%q outcome=%q", dc.DB, dc.Outcome().ErrText())
	}
	col := srv.Catalog().Collection(db, "c1")
	if col == nil || col.ShardsNum != 2 || len(col.VChannels) != 2 || len(col.PChannels) != 2 || col.Partitions["_default"] == 0 ||
		col.ConsistencyLevel != commonpb.ConsistencyLevel_Bounded || len(col.Properties) != 1 || col.Schema.GetFields()[1].GetName() != "vec" ||
		col.CreateBase.GetReplicateInfo().GetMsgTimestamp() != 20 {
		t.Fatalf("collection in catalog: %+v", col)
	}
	if srv.Catalog().Collection("", "c1") != nil {
		t.Fatal("c1 leaked into the default database")
	}
	// creating it again is skipped by the handler (describe succeeds)
	n := srv.CallCount("CreateCollection")
	if err := h.CreateCollection(ctx, &api.CreateCollectionParam{ReplicateParam: api.ReplicateParam{Database: db}, Schema: testSchema("c1"), ShardsNum: 2}); err != nil {
		t.Fatal(err)
	}
	if srv.CallCount("CreateCollection") != n {
		t.Fatal("second CreateCollection reached the server")
	}

	// ---- describe through the real TargetClient
	info, err := tgt.GetCollectionInfo(ctx, "c1", db)
	if err != nil {
		t.Fatalf("GetCollectionInfo: %v", err)
	}
	if info.CollectionID != col.ID || info.CollectionID == 0 || info.DatabaseName != db || info.CollectionName != "c1" ||
		strings.Join(info.VChannels, ",") != strings.Join(col.VChannels, ",") || strings.Join(info.PChannels, ",") != strings.Join(col.PChannels, ",") ||
		len(info.Partitions) != 1 || info.Partitions["_default"] != col.Partitions["_default"] {
		t.Fatalf("GetCollectionInfo = %+v, catalog = %+v", info, col)
	}
	// missing collection: the error must be recognised by the reader
	_, err = tgt.GetCollectionInfo(ctx, "missing", db)
	if err == nil || !reader.IsCollectionNotFoundError(err) {
		t.Fatalf("GetCollectionInfo(missing) = %v, want a collection-not-found error", err)
	}
	if err := h.DescribeCollection(ctx, &api.DescribeCollectionParam{ReplicateParam: api.ReplicateParam{Database: db}, Name: "missing"}); err == nil || !reader.IsCollectionNotFoundError(err) {
		t.Fatalf("handler.DescribeCollection(missing) = %v", err)
	}
	// missing database: the SDK cannot even connect a client to it (as with a real proxy)
	_, err = tgt.GetCollectionInfo(ctx, "c1", r.useDB("nodb"))
	if err == nil || !strings.Contains(err.Error(), "database not found") {
		t.Fatalf("GetCollectionInfo in a missing database = %v", err)
	}
	// dropped ("_tome") database name: the target searches all databases
	if name, err := tgt.GetDatabaseName(ctx, "c1", reader.TomeObject); err != nil || name != db {
		t.Fatalf("GetDatabaseName = %q, %v", name, err)
	}
	if _, err := tgt.GetDatabaseName(ctx, "missing", reader.TomeObject); !reader.IsDatabaseNotFoundError(err) {
		t.Fatalf("GetDatabaseName(missing) = %v, want util.NotFoundDatabase", err)
	}

	// ---- partitions
	pp := &api.CreatePartitionParam{MsgBaseParam: api.MsgBaseParam{Base: replicateBase(30)}, ReplicateParam: api.ReplicateParam{Database: db}, CollectionName: "c1", PartitionName: "p1"}
	if err := h.CreatePartition(ctx, pp); err != nil {
		t.Fatalf("CreatePartition: %v", err)
	}
	if cp := lastCall(t, srv, "CreatePartition"); cp.DB != db || cp.Req.(*milvuspb.CreatePartitionRequest).GetBase().GetReplicateInfo().GetMsgTimestamp() != 30 {
		t.Fatalf("CreatePartition call: %+v", cp)
	}
	pinfo, err := tgt.GetPartitionInfo(ctx, "c1", db)
	if err != nil || len(pinfo.Partitions) != 2 || pinfo.Partitions["p1"] == 0 || pinfo.Partitions["p1"] != srv.GetCollection(db, "c1").Partitions["p1"] {
		t.Fatalf("GetPartitionInfo = %+v, %v", pinfo, err)
	}
	if err := h.DescribePartition(ctx, &api.DescribePartitionParam{ReplicateParam: api.ReplicateParam{Database: db}, CollectionName: "c1", PartitionName: "p1"}); err != nil {
		t.Fatal(err)
	}
	if err := h.DropPartition(ctx, &api.DropPartitionParam{ReplicateParam: api.ReplicateParam{Database: db}, CollectionName: "c1", PartitionName: "p1"}); err != nil {
		t.Fatalf("DropPartition: %v", err)
	}
	if _, has := srv.GetCollection(db, "c1").Partitions["p1"]; has {
		t.Fatal("p1 still there")
	}
	if err := h.DescribePartition(ctx, &api.DescribePartitionParam{ReplicateParam: api.ReplicateParam{Database: db}, CollectionName: "c1", PartitionName: "p1"}); err == nil {
		t.Fatal("DescribePartition of a dropped partition succeeded")
	}

	// ---- index / load / flush / release / drop index
	rp := api.ReplicateParam{Database: db}
	if err := h.CreateIndex(ctx, &api.CreateIndexParam{ReplicateParam: rp, CreateIndexRequest: &milvuspb.CreateIndexRequest{CollectionName: "c1", FieldName: "vec", IndexName: "ix",
		ExtraParams: []*commonpb.KeyValuePair{{Key: "index_type", Value: "FLAT"}, {Key: "metric_type", Value: "L2"}}}}); err != nil {
		t.Fatalf("CreateIndex: %v", err)
	}
	if ixs := srv.GetCollection(db, "c1").Indexes; len(ixs) != 1 || ixs[0].Name != "ix" || ixs[0].Field != "vec" {
		t.Fatalf("indexes: %+v", ixs)
	}
	if err := h.AlterIndex(ctx, &api.AlterIndexParam{ReplicateParam: rp, AlterIndexRequest: &milvuspb.AlterIndexRequest{CollectionName: "c1", IndexName: "ix",
		ExtraParams: []*commonpb.KeyValuePair{{Key: "mmap.enabled", Value: "true"}}}}); err != nil {
		t.Fatalf("AlterIndex: %v", err)
	}
	if err := h.LoadCollection(ctx, &api.LoadCollectionParam{ReplicateParam: rp, LoadCollectionRequest: &milvuspb.LoadCollectionRequest{CollectionName: "c1", ReplicaNumber: 1}}); err != nil {
		t.Fatalf("LoadCollection: %v", err)
	}
	if !srv.GetCollection(db, "c1").Loaded {
		t.Fatal("not loaded")
	}
	if err := h.Flush(ctx, &api.FlushParam{ReplicateParam: rp, FlushRequest: &milvuspb.FlushRequest{CollectionNames: []string{"c1"}}}); err != nil {
		t.Fatalf("Flush: %v", err)
	}
	if err := h.ReleaseCollection(ctx, &api.ReleaseCollectionParam{ReplicateParam: rp, ReleaseCollectionRequest: &milvuspb.ReleaseCollectionRequest{CollectionName: "c1"}}); err != nil {
		t.Fatalf("ReleaseCollection: %v", err)
	}
	if err := h.LoadPartitions(ctx, &api.LoadPartitionsParam{ReplicateParam: rp, LoadPartitionsRequest: &milvuspb.LoadPartitionsRequest{CollectionName: "c1", PartitionNames: []string{"_default"}}}); err != nil {
		t.Fatalf("LoadPartitions: %v", err)
	}
	if err := h.ReleasePartitions(ctx, &api.ReleasePartitionsParam{ReplicateParam: rp, ReleasePartitionsRequest: &milvuspb.ReleasePartitionsRequest{CollectionName: "c1", PartitionNames: []string{"_default"}}}); err != nil {
		t.Fatalf("ReleasePartitions: %v", err)
	}
	if err := h.DropIndex(ctx, &api.DropIndexParam{ReplicateParam: rp, DropIndexRequest: &milvuspb.DropIndexRequest{CollectionName: "c1", FieldName: "vec", IndexName: "ix"}}); err != nil {
		t.Fatalf("DropIndex: %v", err)
	}
	if len(srv.GetCollection(db, "c1").Indexes) != 0 {
		t.Fatal("index still there")
	}

	// ---- plain insert / delete path
	pk := entity.NewColumnInt64("pk", []int64{1, 2, 3})
	vec := entity.NewColumnFloatVector("vec", 4, [][]float32{{1, 2, 3, 4}, {1, 2, 3, 4}, {1, 2, 3, 4}})
	if err := h.Insert(ctx, &api.InsertParam{ReplicateParam: rp, CollectionName: "c1", Columns: []entity.Column{pk, vec}}); err != nil {
		t.Fatalf("Insert: %v", err)
	}
	if ins := srv.Inserts(); len(ins) != 1 || ins[0].DB != db || ins[0].Insert.GetNumRows() != 3 {
		t.Fatalf("inserts: %+v", ins)
	}
	if err := h.Delete(ctx, &api.DeleteParam{ReplicateParam: rp, CollectionName: "c1", Column: entity.NewColumnInt64("pk", []int64{2})}); err != nil {
		t.Fatalf("Delete: %v", err)
	}
	if dl := srv.Deletes(); len(dl) != 1 || !strings.Contains(dl[0].Delete.GetExpr(), "2") {
		t.Fatalf("deletes: %+v", dl)
	}

	// ---- users / roles
	pwd := base64.StdEncoding.EncodeToString([]byte("secret123"))
	if err := h.CreateUser(ctx, &api.CreateUserParam{CreateCredentialRequest: &milvuspb.CreateCredentialRequest{Username: "u1", Password: pwd}}); err != nil {
		t.Fatalf("CreateUser: %v", err)
	}
	if err := h.CreateRole(ctx, &api.CreateRoleParam{CreateRoleRequest: &milvuspb.CreateRoleRequest{Entity: &milvuspb.RoleEntity{Name: "r1"}}}); err != nil {
		t.Fatalf("CreateRole: %v", err)
	}
	if err := h.OperateUserRole(ctx, &api.OperateUserRoleParam{OperateUserRoleRequest: &milvuspb.OperateUserRoleRequest{Username: "u1", RoleName: "r1", Type: milvuspb.OperateUserRoleType_AddUserToRole}}); err != nil {
		t.Fatalf("OperateUserRole: %v", err)
	}
	grant := &milvuspb.GrantEntity{Role: &milvuspb.RoleEntity{Name: "r1"}, Object: &milvuspb.ObjectEntity{Name: "Collection"}, ObjectName: "c1", DbName: db,
		Grantor: &milvuspb.GrantorEntity{Privilege: &milvuspb.PrivilegeEntity{Name: "Search"}}}
	if err := h.OperatePrivilege(ctx, &api.OperatePrivilegeParam{OperatePrivilegeRequest: &milvuspb.OperatePrivilegeRequest{Entity: grant, Type: milvuspb.OperatePrivilegeType_Grant}}); err != nil {
		t.Fatalf("OperatePrivilege: %v", err)
	}
	cat := srv.Catalog()
	if cat.Users["u1"] != pwd || strings.Join(cat.UserRoles["u1"], ",") != "r1" || len(cat.Grants) != 1 || cat.Grants[0].GetDbName() != db {
		t.Fatalf("rbac state: users=%v userRoles=%v grants=%v", cat.Users, cat.UserRoles, cat.Grants)
	}
	if err := h.UpdateUser(ctx, &api.UpdateUserParam{UpdateCredentialRequest: &milvuspb.UpdateCredentialRequest{Username: "u1", OldPassword: pwd, NewPassword: pwd}}); err != nil {
		t.Fatalf("UpdateUser: %v", err)
	}
	if err := h.OperatePrivilege(ctx, &api.OperatePrivilegeParam{OperatePrivilegeRequest: &milvuspb.OperatePrivilegeRequest{Entity: grant, Type: milvuspb.OperatePrivilegeType_Revoke}}); err != nil {
		t.Fatalf("revoke: %v", err)
	}
	if err := h.DropRole(ctx, &api.DropRoleParam{DropRoleRequest: &milvuspb.DropRoleRequest{RoleName: "r1"}}); err != nil {
		t.Fatalf("DropRole: %v", err)
	}
	if err := h.DeleteUser(ctx, &api.DeleteUserParam{DeleteCredentialRequest: &milvuspb.DeleteCredentialRequest{Username: "u1"}}); err != nil {
		t.Fatalf("DeleteUser: %v", err)
	}

	// ---- drop collection, drop database
	if err := h.DropCollection(ctx, &api.DropCollectionParam{MsgBaseParam: api.MsgBaseParam{Base: replicateBase(90)}, ReplicateParam: rp, CollectionName: "c1"}); err != nil {
		t.Fatalf("DropCollection: %v", err)
	}
	if srv.GetCollection(db, "c1") != nil {
		t.Fatal("c1 still there")
	}
	if err := h.DropDatabase(ctx, &api.DropDatabaseParam{DropDatabaseRequest: &milvuspb.DropDatabaseRequest{DbName: db}}); err != nil {
		t.Fatalf("DropDatabase: %v", err)
	}
	if srv.Catalog().HasDatabase(db) {
		t.Fatal("db1 still there")
	}

	// every call has an outcome and sequence numbers are dense
	for i, c := range srv.Calls() {
		if c.Seq != int64(i) || c.Outcome() == nil || c.Req == nil {
			t.Fatalf("call %d: seq=%d outcome=%v req=%v", i, c.Seq, c.Outcome(), c.Req)
		}
	}
}

func TestPrepopulateAndIDAssigner(t *testing.T) {
	assign := func(db, name string) (int64, []string, []string) {
		return 7000 + int64(len(name)), []string{"tgt-dml_3_" + name + "v0"}, []string{"tgt-dml_3"}
	}
	r := newRig(t, fakemilvus.WithIDAssigner(assign), fakemilvus.WithPartitionIDAssigner(func(db, c, p string) int64 { return 9000 + int64(len(p)) }))
	srv, h, tgt := r.srv, r.h, r.tgt
	ctx := ctx10(t)

	if err := srv.AddDatabase(r.useDB("pre")); err != nil {
		t.Fatal(err)
	}
	pc, err := srv.AddCollection(fakemilvus.CollectionSpec{DB: "pre", Schema: testSchema("pc").ProtoMessage(), ID: 4242,
		VChannels: []string{"x-dml_0_4242v0"}, PChannels: []string{"x-dml_0"}, Partitions: map[string]int64{"px": 77}})
	if err != nil || pc.ID != 4242 || pc.Partitions["px"] != 77 {
		t.Fatalf("AddCollection: %+v %v", pc, err)
	}
	info, err := tgt.GetCollectionInfo(ctx, "pc", "pre")
	if err != nil || info.CollectionID != 4242 || info.VChannels[0] != "x-dml_0_4242v0" || info.PChannels[0] != "x-dml_0" || info.Partitions["px"] != 77 || info.Partitions["_default"] != 9008 {
		t.Fatalf("GetCollectionInfo(pre-populated) = %+v, %v", info, err)
	}
	if _, err := srv.AddPartition("pre", "pc", "py", 0); err != nil {
		t.Fatal(err)
	}
	if err := srv.DropPartition("pre", "pc", "px"); err != nil {
		t.Fatal(err)
	}
	pinfo, err := tgt.GetPartitionInfo(ctx, "pc", "pre")
	if err != nil || pinfo.Partitions["py"] != 9002 || pinfo.Partitions["px"] != 0 {
		t.Fatalf("GetPartitionInfo = %+v, %v", pinfo, err)
	}

	// a collection created through the handler gets its identity from the assigner
	if err := h.CreateCollection(ctx, &api.CreateCollectionParam{Schema: testSchema("abc"), ShardsNum: 1}); err != nil {
		t.Fatal(err)
	}
	info, err = tgt.GetCollectionInfo(ctx, "abc", "")
	if err != nil || info.CollectionID != 7003 || info.VChannels[0] != "tgt-dml_3_abcv0" || info.PChannels[0] != "tgt-dml_3" {
		t.Fatalf("GetCollectionInfo(assigned) = %+v, %v", info, err)
	}
	if err := srv.DropCollection("", "abc"); err != nil {
		t.Fatal(err)
	}
	if _, err := tgt.GetCollectionInfo(ctx, "abc", ""); err == nil || !reader.IsCollectionNotFoundError(err) {
		t.Fatalf("after DropCollection: %v", err)
	}
	if err := srv.DropDatabase("pre"); err != nil {
		t.Fatal(err)
	}
	if srv.Catalog().HasDatabase("pre") {
		t.Fatal("pre still there")
	}
}

// ---- replicate message ----

func insertMsg(ts uint64, db, coll string, collID int64, shard string, pks []int64) *msgstream.InsertMsg {
	req := &msgpb.InsertRequest{
		Base:   &commonpb.MsgBase{MsgType: commonpb.MsgType_Insert, MsgID: 1, Timestamp: ts, SourceID: 1},
		DbName: db, CollectionName: coll, PartitionName: "_default", CollectionID: collID, PartitionID: 1, ShardName: shard,
		NumRows: uint64(len(pks)), Version: msgpb.InsertDataVersion_ColumnBased,
	}
	for range pks {
		req.Timestamps = append(req.Timestamps, ts)
		req.RowIDs = append(req.RowIDs, int64(ts))
	}
	req.FieldsData = []*schemapb.FieldData{{Type: schemapb.DataType_Int64, FieldName: "pk", FieldId: 100,
		Field: &schemapb.FieldData_Scalars{Scalars: &schemapb.ScalarField{Data: &schemapb.ScalarField_LongData{LongData: &schemapb.LongArray{Data: pks}}}}}}
	return &msgstream.InsertMsg{BaseMsg: msgstream.BaseMsg{BeginTimestamp: ts, EndTimestamp: ts, HashValues: []uint32{0}}, InsertRequest: req}
}

func tickMsg(ts uint64) *msgstream.TimeTickMsg {
	return &msgstream.TimeTickMsg{BaseMsg: msgstream.BaseMsg{BeginTimestamp: ts, EndTimestamp: ts, HashValues: []uint32{0}},
		TimeTickMsg: &msgpb.TimeTickMsg{Base: &commonpb.MsgBase{MsgType: commonpb.MsgType_TimeTick, MsgID: 2, Timestamp: ts, SourceID: 1}}}
}

func pack(ch string, begin, end uint64, msgs ...msgstream.TsMsg) *msgstream.MsgPack {
	return &msgstream.MsgPack{BeginTs: begin, EndTs: end, Msgs: msgs,
		StartPositions: []*msgpb.MsgPosition{{ChannelName: ch, MsgID: []byte("start-" + ch), Timestamp: begin}},
		EndPositions:   []*msgpb.MsgPosition{{ChannelName: ch, MsgID: []byte("end-" + ch), Timestamp: end}}}
}

// marshalled exactly like ChannelWriter.HandleReplicateMessage does
func rmParam(t *testing.T, ch string, p *msgstream.MsgPack) *api.ReplicateMessageParam {
	t.Helper()
	var bs [][]byte
	for _, m := range p.Msgs {
		b, err := m.Marshal(m)
		if err != nil {
			t.Fatal(err)
		}
		bs = append(bs, b.([]byte))
	}
	return &api.ReplicateMessageParam{
		MsgBaseParam: api.MsgBaseParam{Base: &commonpb.MsgBase{ReplicateInfo: &commonpb.ReplicateInfo{IsReplicate: true}}},
		ChannelName:  ch, StartPositions: p.StartPositions, EndPositions: p.EndPositions, BeginTs: p.BeginTs, EndTs: p.EndTs, MsgsBytes: bs,
	}
}

func TestReplicateMessageThroughRealChannelWriter(t *testing.T) {
	r := newRig(t)
	srv, h := r.srv, r.h
	ctx := ctx10(t)

	var mu sync.Mutex
	var seen []int64
	srv.OnReplicate(func(rec *fakemilvus.ReplicateRecord) {
		mu.Lock()
		seen = append(seen, rec.AcceptSeq())
		mu.Unlock()
	})

	w := writer.NewChannelWriter(h, nil, config.WriterConfig{MessageBufferSize: 10,
		Retry: config.RetrySettings{RetryTimes: 1, InitBackOff: 1, MaxBackOff: 1}, ReplicateID: "rid-1"}, nil, "milvus")
	cw := w.(*writer.ChannelWriter)
	const ch = "by-dev-rootcoord-dml_3_1001v0"
	p := pack(ch, 100, 110, insertMsg(105, "db1", "c1", 1001, ch, []int64{11, 12, 13}), tickMsg(110))
	endID, targetPos, err := cw.HandleReplicateMessage(ctx, ch, p)
	if err != nil {
		t.Fatalf("HandleReplicateMessage: %v", err)
	}
	if string(endID) != "end-"+ch {
		t.Fatalf("end id %q", endID)
	}
	if string(targetPos) != "fm-0|end-"+ch {
		t.Fatalf("target position %q", targetPos)
	}

	recs := srv.Replicates()
	if len(recs) != 1 {
		t.Fatalf("%d accepted replicate calls", len(recs))
	}
	rec := recs[0]
	if rec.Channel != ch || rec.BeginTs != 100 || rec.EndTs != 110 || !rec.Accepted() || rec.AcceptSeq() != 0 ||
		string(rec.StartPositions[0].GetMsgID()) != "start-"+ch || string(rec.LastEndPosition().GetMsgID()) != "end-"+ch ||
		rec.LastEndPosition().GetTimestamp() != 110 || !rec.ReplicateInfo.GetIsReplicate() || rec.DB != "default" || rec.Token != token ||
		len(rec.MsgsBytes) != 2 || rec.DecodeErr != "" || rec.Seq != rec.Call.Seq || rec.Call.Method != "ReplicateMessage" {
		t.Fatalf("record: %+v", rec)
	}
	if pos, _ := base64.StdEncoding.DecodeString(rec.Position()); string(pos) != string(targetPos) {
		t.Fatalf("record position %q", rec.Position())
	}
	im, ok := rec.Msgs[0].(*msgstream.InsertMsg)
	if !ok || im.GetCollectionName() != "c1" || im.GetDbName() != "db1" || im.GetNumRows() != 3 || im.GetShardName() != ch ||
		im.GetBase().GetReplicateInfo().GetReplicateID() != "rid-1" || !im.GetBase().GetReplicateInfo().GetIsReplicate() ||
		im.GetFieldsData()[0].GetScalars().GetLongData().GetData()[2] != 13 {
		t.Fatalf("decoded insert: %T %+v", rec.Msgs[0], rec.Msgs[0])
	}
	// with a replicate id the tick is sent as a replicate-tick
	rm, ok := rec.Msgs[1].(*msgstream.ReplicateMsg)
	if !ok || rec.MsgTypes[1] != commonpb.MsgType_Replicate || rm.GetBase().GetTimestamp() != 110 || rm.GetBase().GetReplicateInfo().GetReplicateID() != "rid-1" {
		t.Fatalf("decoded tick: %T %+v", rec.Msgs[1], rec.Msgs[1])
	}
	mu.Lock()
	if len(seen) != 1 || seen[0] != 0 {
		t.Fatalf("OnReplicate saw %v", seen)
	}
	mu.Unlock()

	// a plain tick (no replicate id) straight through the handler
	prm := rmParam(t, ch, pack(ch, 110, 120, tickMsg(120)))
	if err := h.ReplicateMessage(ctx, prm); err != nil {
		t.Fatal(err)
	}
	if prm.TargetMsgPosition != srv.Replicates()[1].Position() || prm.TargetMsgPosition == "" {
		t.Fatalf("TargetMsgPosition %q vs %q", prm.TargetMsgPosition, srv.Replicates()[1].Position())
	}
	if _, ok := srv.Replicates()[1].Msgs[0].(*msgstream.TimeTickMsg); !ok {
		t.Fatalf("decoded %T", srv.Replicates()[1].Msgs[0])
	}

	// garbage is refused the way the proxy refuses it, and is not accepted
	bad := rmParam(t, ch, pack(ch, 120, 130, tickMsg(130)))
	bad.MsgsBytes = [][]byte{{0xff, 0xff, 0xff}}
	if err := h.ReplicateMessage(ctx, bad); err == nil {
		t.Fatal("garbage accepted")
	}
	if len(srv.Replicates()) != 2 || len(srv.AllReplicates()) != 3 || srv.AllReplicates()[2].Accepted() || srv.AllReplicates()[2].DecodeErr == "" {
		t.Fatalf("accepted=%d all=%d", len(srv.Replicates()), len(srv.AllReplicates()))
	}
}

func TestFaultsAndHold(t *testing.T) {
	r := newRig(t)
	srv, h := r.srv, r.h
	ctx := ctx10(t)
	const ch = "by-dev-rootcoord-dml_1_77v0"
	send := func(c context.Context, ts uint64) (*api.ReplicateMessageParam, error) {
		p := rmParam(t, ch, pack(ch, ts, ts+1, insertMsg(ts, "default", "c", 77, ch, []int64{int64(ts)}), tickMsg(ts+1)))
		return p, h.ReplicateMessage(c, p)
	}

	// --- transport-level failure, not applied
	srv.FailNext("ReplicateMessage", 1, status.Error(codes.Internal, "boom-transport"))
	_, err := send(ctx, 10)
	if err == nil || status.Code(err) != codes.Internal || !strings.Contains(err.Error(), "boom-transport") {
		t.Fatalf("transport failure: %v", err)
	}
	c := lastCall(t, srv, "ReplicateMessage")
	if o := c.Outcome(); o.Applied || o.Injected != "fail" || o.GRPCCode != codes.Internal || c.Replicate.Accepted() || srv.AcceptedCount() != 0 {
		t.Fatalf("outcome %+v accepted=%d", c.Outcome(), srv.AcceptedCount())
	}

	// --- application-level failures (Milvus status), not applied
	srv.FailNext("ReplicateMessage", 1, merr.WrapErrServiceNotReady("proxy", 1, "Abnormal"))
	if _, err = send(ctx, 20); err == nil || !strings.Contains(err.Error(), "service not ready") {
		t.Fatalf("merr failure: %v", err)
	}
	if o := lastCall(t, srv, "ReplicateMessage").Outcome(); o.GRPCCode != codes.OK || o.Status.GetErrorCode() != commonpb.ErrorCode_NotReadyServe || o.Applied {
		t.Fatalf("outcome %+v", o)
	}
	srv.FailNext("ReplicateMessage", 1, fakemilvus.StatusErr(commonpb.ErrorCode_UnexpectedError, 2200, "custom reason"))
	if _, err = send(ctx, 30); err == nil || !strings.Contains(err.Error(), "custom reason") {
		t.Fatalf("status failure: %v", err)
	}
	if srv.AcceptedCount() != 0 || len(srv.AllReplicates()) != 3 {
		t.Fatalf("accepted=%d all=%d", srv.AcceptedCount(), len(srv.AllReplicates()))
	}
	// the plan is used up
	if _, err = send(ctx, 40); err != nil {
		t.Fatalf("after the plan: %v", err)
	}

	// --- apply-then-fail: downstream has it, the client sees an error
	srv.FailNextAfterApply("ReplicateMessage", 1, status.Error(codes.Internal, "ack lost"))
	if _, err = send(ctx, 50); err == nil {
		t.Fatal("apply-then-fail returned nil")
	}
	c = lastCall(t, srv, "ReplicateMessage")
	if o := c.Outcome(); !o.Applied || o.Injected != "apply-then-fail" || !c.Replicate.Accepted() || srv.AcceptedCount() != 2 {
		t.Fatalf("outcome %+v accepted=%d", c.Outcome(), srv.AcceptedCount())
	}

	// --- failures on a catalog method, by hook, both forms
	var hookMu sync.Mutex
	hookSeen := map[string]int{}
	srv.SetHook(func(call *fakemilvus.Call) *fakemilvus.Decision {
		hookMu.Lock()
		hookSeen[call.Method]++
		n := hookSeen[call.Method]
		hookMu.Unlock()
		if call.Method == "CreateCollection" && n == 1 {
			if srv.GetCollection("", "hc") != nil {
				t.Error("hook ran after the call was applied")
			}
			return fakemilvus.FailWith(merr.WrapErrServiceQuotaExceeded("disk quota"))
		}
		if call.Method == "CreateCollection" && n == 2 {
			return fakemilvus.ApplyThenFailWith(status.Error(codes.DataLoss, "reply lost"))
		}
		return nil
	})
	err = h.CreateCollection(ctx, &api.CreateCollectionParam{Schema: testSchema("hc"), ShardsNum: 1})
	if err == nil || !strings.Contains(err.Error(), "quota exceeded") || srv.GetCollection("", "hc") != nil {
		t.Fatalf("hook failure: %v, collection=%v", err, srv.GetCollection("", "hc"))
	}
	err = h.CreateCollection(ctx, &api.CreateCollectionParam{Schema: testSchema("hc"), ShardsNum: 1})
	if err == nil || status.Code(err) != codes.DataLoss || srv.GetCollection("", "hc") == nil {
		t.Fatalf("hook apply-then-fail: %v, collection=%v", err, srv.GetCollection("", "hc"))
	}
	srv.SetHook(nil)

	// --- hold and release: applied downstream, reply withheld
	hold := fakemilvus.NewHold()
	srv.HoldNext("ReplicateMessage", hold)
	type res struct {
		p   *api.ReplicateMessageParam
		err error
	}
	done := make(chan res, 1)
	go func() {
		p, err := send(ctx, 60)
		done <- res{p, err}
	}()
	select {
	case <-hold.Applied():
	case <-time.After(15 * time.Second):
		t.Fatal("hold never reached")
	}
	if srv.AcceptedCount() != 3 || hold.Call() == nil || !hold.Call().Replicate.Accepted() || hold.Call().Outcome() != nil {
		t.Fatalf("while held: accepted=%d call=%v", srv.AcceptedCount(), hold.Call())
	}
	select {
	case x := <-done:
		t.Fatalf("the held call returned before release: %v", x.err)
	default:
	}
	hold.Release()
	x := <-done
	if x.err != nil || x.p.TargetMsgPosition != hold.Call().Replicate.Position() {
		t.Fatalf("after release: %v %q", x.err, x.p.TargetMsgPosition)
	}
	<-hold.Call().Done()
	if o := hold.Call().Outcome(); !o.OK() || !o.Held || !o.Applied || o.ClientGone {
		t.Fatalf("held outcome %+v", o)
	}

	// --- hold, and the client goes away before the ack: applied downstream, never acknowledged
	hold2 := fakemilvus.NewHold()
	srv.HoldNext("ReplicateMessage", hold2)
	cctx, cancel := context.WithTimeout(context.Background(), 20*time.Second)
	go func() {
		_, err := send(cctx, 70)
		done <- res{nil, err}
	}()
	<-hold2.Applied()
	cancel() // "kill" the client between applied-downstream and ack-seen
	call2, err := srv.WaitCall(ctx, func(c *fakemilvus.Call) bool { return c == hold2.Call() && c.Outcome() != nil })
	if err != nil {
		t.Fatal(err)
	}
	if o := call2.Outcome(); !o.Applied || !o.Held || !o.ClientGone || !call2.Replicate.Accepted() || srv.AcceptedCount() != 4 {
		t.Fatalf("client-gone outcome %+v accepted=%d", o, srv.AcceptedCount())
	}
	// (the handler sleeps resource.DefaultExpiration after a Canceled call before it returns)
	if x := <-done; x.err == nil {
		t.Fatal("cancelled call returned nil")
	}

	// accept order is dense and matches Replicates()
	for i, rec := range srv.Replicates() {
		if rec.AcceptSeq() != int64(i) {
			t.Fatalf("accept seq %d at %d", rec.AcceptSeq(), i)
		}
	}
}

func TestUnimplementedMethodIsLoggedAndMissingDBConnect(t *testing.T) {
	r := newRig(t)
	srv := r.srv
	ctx := ctx10(t)
	// a client for a missing database cannot be created (Connect refused like the proxy does) ...
	_, err := util.GetMilvusClientManager().GetMilvusClient(ctx, srv.URI(), token, r.useDB("ghost"), util.DialConfig{})
	if err == nil || !strings.Contains(err.Error(), "database not found") {
		t.Fatalf("client for a missing database: %v", err)
	}
	if c := lastCall(t, srv, "Connect"); c.DB != "ghost" || c.Outcome().OK() {
		t.Fatalf("Connect: db=%q %s", c.DB, c.Outcome().ErrText())
	}
	// ... unless strict connect is off
	srv.SetStrictConnect(false)
	cli, err := util.GetMilvusClientManager().GetMilvusClient(ctx, srv.URI(), token, "ghost", util.DialConfig{})
	if err != nil {
		t.Fatal(err)
	}
	if _, err := cli.ListCollections(ctx); err == nil || !strings.Contains(err.Error(), "database not found") {
		t.Fatalf("ListCollections in a missing database: %v", err)
	}
	// an RPC the fake does not implement is still logged
	if _, err := cli.ListResourceGroups(ctx); status.Code(err) != codes.Unimplemented {
		t.Fatalf("ListResourceGroups: %v", err)
	}
	if c := lastCall(t, srv, "ListResourceGroups"); c.Outcome().GRPCCode != codes.Unimplemented || c.DB != "ghost" {
		t.Fatalf("unimplemented call: %+v", c.Outcome())
	}
}
