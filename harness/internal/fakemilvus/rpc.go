package fakemilvus

import (
	"context"
	"fmt"
	"sort"

	"github.com/milvus-io/milvus-proto/go-api/v2/commonpb"
	"github.com/milvus-io/milvus-proto/go-api/v2/milvuspb"
	"github.com/milvus-io/milvus-proto/go-api/v2/schemapb"
	"github.com/milvus-io/milvus/pkg/util/merr"
	"google.golang.org/protobuf/proto"
)

// routeDB: the request's own db_name wins (Milvus' database interceptor only fills it when empty), then the
// `dbname` metadata, then "default".
func routeDB(ctx context.Context, reqDB string) string {
	if reqDB != "" {
		return reqDB
	}
	if c := callFrom(ctx); c != nil && c.DB != "" {
		return c.DB
	}
	return DefaultDB
}

func ok() *commonpb.Status { return merr.Success() }

func fail(err error) *commonpb.Status { return merr.Status(err) }

func failMsg(format string, a ...interface{}) *commonpb.Status {
	return unexpectedStatus(fmt.Sprintf(format, a...))
}

// ---------------------------------------------------------------------------------------------------------
// handshake / misc

func (s *svc) Connect(ctx context.Context, req *milvuspb.ConnectRequest) (*milvuspb.ConnectResponse, error) {
	db := routeDB(ctx, "")
	s.cat.Lock()
	strict := s.strictConnect
	_, has := s.dbs[db]
	s.cat.Unlock()
	if strict && !has {
		// Milvus' proxy refuses to connect a client to a database that does not exist.
		return &milvuspb.ConnectResponse{Status: fail(merr.WrapErrDatabaseNotFound(db))}, nil
	}
	return &milvuspb.ConnectResponse{
		Status: ok(),
		ServerInfo: &commonpb.ServerInfo{BuildTags: "fakemilvus-2.4", BuildTime: "fake", GitCommit: "fake", GoVersion: "fake",
			DeployMode: "STANDALONE", Reserved: map[string]string{}},
		Identifier: s.identifier.Add(1),
	}, nil
}

func (s *svc) GetVersion(ctx context.Context, req *milvuspb.GetVersionRequest) (*milvuspb.GetVersionResponse, error) {
	return &milvuspb.GetVersionResponse{Status: ok(), Version: "fakemilvus-2.4"}, nil
}

func (s *svc) CheckHealth(ctx context.Context, req *milvuspb.CheckHealthRequest) (*milvuspb.CheckHealthResponse, error) {
	return &milvuspb.CheckHealthResponse{Status: ok(), IsHealthy: true}, nil
}

// ---------------------------------------------------------------------------------------------------------
// databases

func (s *svc) ListDatabases(ctx context.Context, req *milvuspb.ListDatabasesRequest) (*milvuspb.ListDatabasesResponse, error) {
	s.cat.Lock()
	defer s.cat.Unlock()
	names := make([]string, 0, len(s.dbs))
	for n := range s.dbs {
		names = append(names, n)
	}
	sort.Slice(names, func(i, j int) bool { return s.dbs[names[i]].created < s.dbs[names[j]].created })
	resp := &milvuspb.ListDatabasesResponse{Status: ok()}
	for _, n := range names {
		resp.DbNames = append(resp.DbNames, n)
		resp.CreatedTimestamp = append(resp.CreatedTimestamp, s.dbs[n].created)
		resp.DbIds = append(resp.DbIds, s.dbs[n].id)
	}
	return resp, nil
}

func (s *svc) CreateDatabase(ctx context.Context, req *milvuspb.CreateDatabaseRequest) (*commonpb.Status, error) {
	s.cat.Lock()
	defer s.cat.Unlock()
	if err := s.createDBLocked(req.GetDbName(), req.GetProperties()); err != nil {
		return fail(err), nil
	}
	return ok(), nil
}

func (s *svc) DropDatabase(ctx context.Context, req *milvuspb.DropDatabaseRequest) (*commonpb.Status, error) {
	s.cat.Lock()
	defer s.cat.Unlock()
	name := req.GetDbName()
	if name == DefaultDB {
		return fail(merr.WrapErrDatabaseNameInvalid(name, "can not drop default database")), nil
	}
	d := s.dbs[name]
	if d == nil {
		return ok(), nil // Milvus ignores dropping a database that does not exist
	}
	if len(d.colls) > 0 {
		return failMsg("database:%s not empty, must drop all collections before drop database", name), nil
	}
	delete(s.dbs, name)
	return ok(), nil
}

func (s *svc) DescribeDatabase(ctx context.Context, req *milvuspb.DescribeDatabaseRequest) (*milvuspb.DescribeDatabaseResponse, error) {
	s.cat.Lock()
	defer s.cat.Unlock()
	d, err := s.dbLocked(req.GetDbName())
	if err != nil {
		return &milvuspb.DescribeDatabaseResponse{Status: fail(err)}, nil
	}
	return &milvuspb.DescribeDatabaseResponse{Status: ok(), DbName: d.name, DbID: d.id, CreatedTimestamp: d.created, Properties: cloneKVs(d.props)}, nil
}

func (s *svc) AlterDatabase(ctx context.Context, req *milvuspb.AlterDatabaseRequest) (*commonpb.Status, error) {
	s.cat.Lock()
	defer s.cat.Unlock()
	d, err := s.dbLocked(req.GetDbName())
	if err != nil {
		return fail(err), nil
	}
	d.props = deleteKeys(mergeKVs(d.props, req.GetProperties()), req.GetDeleteKeys())
	return ok(), nil
}

// ---------------------------------------------------------------------------------------------------------
// collections

func (s *svc) HasCollection(ctx context.Context, req *milvuspb.HasCollectionRequest) (*milvuspb.BoolResponse, error) {
	s.cat.Lock()
	defer s.cat.Unlock()
	d, err := s.dbLocked(routeDB(ctx, req.GetDbName()))
	if err != nil {
		return &milvuspb.BoolResponse{Status: fail(err)}, nil
	}
	return &milvuspb.BoolResponse{Status: ok(), Value: d.colls[req.GetCollectionName()] != nil}, nil
}

func (s *svc) ShowCollections(ctx context.Context, req *milvuspb.ShowCollectionsRequest) (*milvuspb.ShowCollectionsResponse, error) {
	s.cat.Lock()
	defer s.cat.Unlock()
	d, err := s.dbLocked(routeDB(ctx, req.GetDbName()))
	if err != nil {
		return &milvuspb.ShowCollectionsResponse{Status: fail(err)}, nil
	}
	resp := &milvuspb.ShowCollectionsResponse{Status: ok()}
	add := func(c *collEntry, withPct bool) {
		resp.CollectionNames = append(resp.CollectionNames, c.name)
		resp.CollectionIds = append(resp.CollectionIds, c.id)
		resp.CreatedTimestamps = append(resp.CreatedTimestamps, c.created)
		resp.CreatedUtcTimestamps = append(resp.CreatedUtcTimestamps, c.created>>18)
		if withPct {
			resp.InMemoryPercentages = append(resp.InMemoryPercentages, 100)
			resp.QueryServiceAvailable = append(resp.QueryServiceAvailable, true)
		}
	}
	var all []*collEntry
	for _, c := range d.colls {
		all = append(all, c)
	}
	sort.Slice(all, func(i, j int) bool { return all[i].created < all[j].created })
	if req.GetType() == milvuspb.ShowType_InMemory {
		if len(req.GetCollectionNames()) > 0 {
			for _, n := range req.GetCollectionNames() {
				c := d.colls[n]
				if c == nil {
					return &milvuspb.ShowCollectionsResponse{Status: fail(merr.WrapErrCollectionNotFoundWithDB(d.name, n))}, nil
				}
				if !c.loaded {
					return &milvuspb.ShowCollectionsResponse{Status: fail(merr.WrapErrCollectionNotLoaded(n))}, nil
				}
				add(c, true)
			}
			return resp, nil
		}
		for _, c := range all {
			if c.loaded {
				add(c, true)
			}
		}
		return resp, nil
	}
	for _, c := range all {
		add(c, false)
	}
	return resp, nil
}

func (s *svc) DescribeCollection(ctx context.Context, req *milvuspb.DescribeCollectionRequest) (*milvuspb.DescribeCollectionResponse, error) {
	s.cat.Lock()
	defer s.cat.Unlock()
	db := routeDB(ctx, req.GetDbName())
	var c *collEntry
	var err error
	if req.GetCollectionName() == "" && req.GetCollectionID() != 0 {
		c, err = s.collByIDLocked(db, req.GetCollectionID())
	} else {
		c, err = s.collLocked(db, req.GetCollectionName())
	}
	if err != nil {
		return &milvuspb.DescribeCollectionResponse{Status: fail(err)}, nil
	}
	d := s.dbs[c.db]
	return &milvuspb.DescribeCollectionResponse{
		Status:               ok(),
		Schema:               proto.Clone(c.schema).(*schemapb.CollectionSchema),
		CollectionID:         c.id,
		VirtualChannelNames:  append([]string(nil), c.vchans...),
		PhysicalChannelNames: append([]string(nil), c.pchans...),
		CreatedTimestamp:     c.created,
		CreatedUtcTimestamp:  c.created >> 18,
		ShardsNum:            c.shards,
		ConsistencyLevel:     c.consistency,
		CollectionName:       c.name,
		Properties:           cloneKVs(c.props),
		DbName:               c.db,
		NumPartitions:        int64(len(c.parts)),
		DbId:                 d.id,
	}, nil
}

func (s *svc) CreateCollection(ctx context.Context, req *milvuspb.CreateCollectionRequest) (*commonpb.Status, error) {
	s.cat.Lock()
	defer s.cat.Unlock()
	d, err := s.dbLocked(routeDB(ctx, req.GetDbName()))
	if err != nil {
		return fail(err), nil
	}
	name := req.GetCollectionName()
	if name == "" {
		return fail(merr.WrapErrParameterInvalidMsg("collection name should not be empty")), nil
	}
	schema := &schemapb.CollectionSchema{}
	if err := proto.Unmarshal(req.GetSchema(), schema); err != nil {
		return fail(merr.WrapErrParameterInvalidMsg("invalid collection schema: %s", err.Error())), nil
	}
	if schema.GetName() == "" {
		schema.Name = name
	}
	if schema.GetName() != name {
		return fail(merr.WrapErrParameterInvalid(name, schema.GetName(), "collection name matches schema name")), nil
	}
	if len(schema.GetFields()) == 0 {
		return fail(merr.WrapErrParameterInvalidMsg("collection %s has no field", name)), nil
	}
	// Milvus numbers the user fields from 100 in schema order.
	for i, f := range schema.GetFields() {
		f.FieldID = int64(100 + i)
	}
	shards := req.GetShardsNum()
	if shards <= 0 {
		shards = 1
	}
	if old := d.colls[name]; old != nil {
		// Milvus: re-creating with the same parameters is a no-op, with different ones an error.
		if proto.Equal(old.schema, schema) && old.shards == shards {
			return ok(), nil
		}
		return failMsg("create duplicate collection with different parameters, collection: %s", name), nil
	}
	c := s.newCollLocked(d.name, name, schema, shards, 0, nil, nil, req.GetNumPartitions())
	c.consistency = req.GetConsistencyLevel()
	c.props = cloneKVs(req.GetProperties())
	if req.GetBase() != nil {
		c.createBase = proto.Clone(req.GetBase()).(*commonpb.MsgBase)
	}
	d.colls[name] = c
	return ok(), nil
}

func (s *svc) DropCollection(ctx context.Context, req *milvuspb.DropCollectionRequest) (*commonpb.Status, error) {
	s.cat.Lock()
	defer s.cat.Unlock()
	d, err := s.dbLocked(routeDB(ctx, req.GetDbName()))
	if err != nil {
		return fail(err), nil
	}
	// Milvus ignores dropping a collection that does not exist.
	delete(d.colls, req.GetCollectionName())
	return ok(), nil
}

func (s *svc) AlterCollection(ctx context.Context, req *milvuspb.AlterCollectionRequest) (*commonpb.Status, error) {
	s.cat.Lock()
	defer s.cat.Unlock()
	c, err := s.collLocked(routeDB(ctx, req.GetDbName()), req.GetCollectionName())
	if err != nil {
		return fail(err), nil
	}
	c.props = deleteKeys(mergeKVs(c.props, req.GetProperties()), req.GetDeleteKeys())
	return ok(), nil
}

func (s *svc) RenameCollection(ctx context.Context, req *milvuspb.RenameCollectionRequest) (*commonpb.Status, error) {
	s.cat.Lock()
	defer s.cat.Unlock()
	d, err := s.dbLocked(routeDB(ctx, req.GetDbName()))
	if err != nil {
		return fail(err), nil
	}
	c := d.colls[req.GetOldName()]
	if c == nil {
		return fail(merr.WrapErrCollectionNotFoundWithDB(d.name, req.GetOldName())), nil
	}
	nd := d
	if req.GetNewDBName() != "" {
		if nd, err = s.dbLocked(req.GetNewDBName()); err != nil {
			return fail(err), nil
		}
	}
	if nd.colls[req.GetNewName()] != nil {
		return failMsg("duplicated new collection name %s:%s with other collection name or alias", nd.name, req.GetNewName()), nil
	}
	delete(d.colls, c.name)
	c.name, c.db = req.GetNewName(), nd.name
	c.schema.Name = c.name
	nd.colls[c.name] = c
	return ok(), nil
}

// ---------------------------------------------------------------------------------------------------------
// partitions

func (s *svc) ShowPartitions(ctx context.Context, req *milvuspb.ShowPartitionsRequest) (*milvuspb.ShowPartitionsResponse, error) {
	s.cat.Lock()
	defer s.cat.Unlock()
	c, err := s.collLocked(routeDB(ctx, req.GetDbName()), req.GetCollectionName())
	if err != nil {
		return &milvuspb.ShowPartitionsResponse{Status: fail(err)}, nil
	}
	resp := &milvuspb.ShowPartitionsResponse{Status: ok()}
	inMem := req.GetType() == milvuspb.ShowType_InMemory
	want := map[string]bool{}
	for _, n := range req.GetPartitionNames() {
		if c.part(n) == nil {
			return &milvuspb.ShowPartitionsResponse{Status: fail(merr.WrapErrPartitionNotFound(n))}, nil
		}
		want[n] = true
	}
	for _, p := range c.parts {
		if len(want) > 0 && !want[p.name] {
			continue
		}
		loaded := c.loaded || p.loaded
		if inMem && !loaded {
			if want[p.name] {
				return &milvuspb.ShowPartitionsResponse{Status: fail(merr.WrapErrPartitionNotLoaded(p.name))}, nil
			}
			continue
		}
		resp.PartitionNames = append(resp.PartitionNames, p.name)
		resp.PartitionIDs = append(resp.PartitionIDs, p.id)
		resp.CreatedTimestamps = append(resp.CreatedTimestamps, p.created)
		resp.CreatedUtcTimestamps = append(resp.CreatedUtcTimestamps, p.created>>18)
		if inMem {
			resp.InMemoryPercentages = append(resp.InMemoryPercentages, 100)
		}
	}
	return resp, nil
}

func (s *svc) HasPartition(ctx context.Context, req *milvuspb.HasPartitionRequest) (*milvuspb.BoolResponse, error) {
	s.cat.Lock()
	defer s.cat.Unlock()
	c, err := s.collLocked(routeDB(ctx, req.GetDbName()), req.GetCollectionName())
	if err != nil {
		return &milvuspb.BoolResponse{Status: fail(err)}, nil
	}
	return &milvuspb.BoolResponse{Status: ok(), Value: c.part(req.GetPartitionName()) != nil}, nil
}

func (s *svc) CreatePartition(ctx context.Context, req *milvuspb.CreatePartitionRequest) (*commonpb.Status, error) {
	s.cat.Lock()
	defer s.cat.Unlock()
	c, err := s.collLocked(routeDB(ctx, req.GetDbName()), req.GetCollectionName())
	if err != nil {
		return fail(err), nil
	}
	if req.GetPartitionName() == "" {
		return fail(merr.WrapErrParameterInvalidMsg("Partition name should not be empty")), nil
	}
	if c.partKey {
		return fail(merr.WrapErrParameterInvalidMsg("disable create partition if partition key mode is used")), nil
	}
	if c.part(req.GetPartitionName()) != nil {
		return ok(), nil // Milvus: creating an existing partition is a no-op
	}
	s.addPartLocked(c, req.GetPartitionName(), 0)
	return ok(), nil
}

func (s *svc) DropPartition(ctx context.Context, req *milvuspb.DropPartitionRequest) (*commonpb.Status, error) {
	s.cat.Lock()
	defer s.cat.Unlock()
	c, err := s.collLocked(routeDB(ctx, req.GetDbName()), req.GetCollectionName())
	if err != nil {
		return fail(err), nil
	}
	if c.partKey {
		return fail(merr.WrapErrParameterInvalidMsg("disable drop partition if partition key mode is used")), nil
	}
	if req.GetPartitionName() == DefaultPartition {
		return fail(merr.WrapErrParameterInvalidMsg("default partition cannot be deleted")), nil
	}
	p := c.part(req.GetPartitionName())
	if p == nil {
		return ok(), nil // Milvus ignores dropping a partition that does not exist
	}
	if p.loaded || c.loaded {
		return failMsg("partition cannot be dropped, partition is loaded, please release it first"), nil
	}
	s.dropPartLocked(c, req.GetPartitionName())
	return ok(), nil
}

// ---------------------------------------------------------------------------------------------------------
// load / release

func isVector(t schemapb.DataType) bool {
	switch t {
	case schemapb.DataType_FloatVector, schemapb.DataType_BinaryVector, schemapb.DataType_Float16Vector,
		schemapb.DataType_BFloat16Vector, schemapb.DataType_SparseFloatVector:
		return true
	}
	return false
}

func (s *Server) checkLoadableLocked(c *collEntry) error {
	if !s.loadNeedsIndex {
		return nil
	}
	for _, f := range c.schema.GetFields() {
		if !isVector(f.GetDataType()) {
			continue
		}
		found := false
		for _, ix := range c.indexes {
			if ix.field == f.GetName() {
				found = true
			}
		}
		if !found {
			return merr.WrapErrIndexNotFound(fmt.Sprintf("there is no vector index on field: [%s], please create index firstly", f.GetName()))
		}
	}
	return nil
}

func (s *svc) LoadCollection(ctx context.Context, req *milvuspb.LoadCollectionRequest) (*commonpb.Status, error) {
	s.cat.Lock()
	defer s.cat.Unlock()
	c, err := s.collLocked(routeDB(ctx, req.GetDbName()), req.GetCollectionName())
	if err != nil {
		return fail(err), nil
	}
	if err := s.checkLoadableLocked(c); err != nil {
		return fail(err), nil
	}
	c.loaded = true
	c.replicas = req.GetReplicaNumber()
	return ok(), nil
}

func (s *svc) ReleaseCollection(ctx context.Context, req *milvuspb.ReleaseCollectionRequest) (*commonpb.Status, error) {
	s.cat.Lock()
	defer s.cat.Unlock()
	c, err := s.collLocked(routeDB(ctx, req.GetDbName()), req.GetCollectionName())
	if err != nil {
		return fail(err), nil
	}
	c.loaded = false
	for _, p := range c.parts {
		p.loaded = false
	}
	return ok(), nil
}

func (s *svc) LoadPartitions(ctx context.Context, req *milvuspb.LoadPartitionsRequest) (*commonpb.Status, error) {
	s.cat.Lock()
	defer s.cat.Unlock()
	c, err := s.collLocked(routeDB(ctx, req.GetDbName()), req.GetCollectionName())
	if err != nil {
		return fail(err), nil
	}
	if err := s.checkLoadableLocked(c); err != nil {
		return fail(err), nil
	}
	for _, n := range req.GetPartitionNames() {
		if c.part(n) == nil {
			return fail(merr.WrapErrPartitionNotFound(n)), nil
		}
	}
	for _, n := range req.GetPartitionNames() {
		c.part(n).loaded = true
	}
	c.replicas = req.GetReplicaNumber()
	return ok(), nil
}

func (s *svc) ReleasePartitions(ctx context.Context, req *milvuspb.ReleasePartitionsRequest) (*commonpb.Status, error) {
	s.cat.Lock()
	defer s.cat.Unlock()
	c, err := s.collLocked(routeDB(ctx, req.GetDbName()), req.GetCollectionName())
	if err != nil {
		return fail(err), nil
	}
	for _, n := range req.GetPartitionNames() {
		if c.part(n) == nil {
			return fail(merr.WrapErrPartitionNotFound(n)), nil
		}
	}
	if c.loaded {
		// releasing some partitions of a fully loaded collection leaves the others loaded
		c.loaded = false
		for _, p := range c.parts {
			p.loaded = true
		}
	}
	for _, n := range req.GetPartitionNames() {
		c.part(n).loaded = false
	}
	return ok(), nil
}

// loadedLocked: 0 = not loaded, 1 = loaded, for the collection or the named partitions.
func loadedLocked(c *collEntry, parts []string) (bool, error) {
	if len(parts) == 0 {
		if c.loaded {
			return true, nil
		}
		for _, p := range c.parts {
			if p.loaded {
				return true, nil
			}
		}
		return false, nil
	}
	for _, n := range parts {
		p := c.part(n)
		if p == nil {
			return false, merr.WrapErrPartitionNotFound(n)
		}
		if !c.loaded && !p.loaded {
			return false, nil
		}
	}
	return true, nil
}

func (s *svc) GetLoadingProgress(ctx context.Context, req *milvuspb.GetLoadingProgressRequest) (*milvuspb.GetLoadingProgressResponse, error) {
	s.cat.Lock()
	defer s.cat.Unlock()
	c, err := s.collLocked(routeDB(ctx, req.GetDbName()), req.GetCollectionName())
	if err != nil {
		return &milvuspb.GetLoadingProgressResponse{Status: fail(err)}, nil
	}
	l, err := loadedLocked(c, req.GetPartitionNames())
	if err != nil {
		return &milvuspb.GetLoadingProgressResponse{Status: fail(err)}, nil
	}
	if !l {
		return &milvuspb.GetLoadingProgressResponse{Status: fail(merr.WrapErrCollectionNotLoaded(c.name))}, nil
	}
	return &milvuspb.GetLoadingProgressResponse{Status: ok(), Progress: 100, RefreshProgress: 100}, nil
}

func (s *svc) GetLoadState(ctx context.Context, req *milvuspb.GetLoadStateRequest) (*milvuspb.GetLoadStateResponse, error) {
	s.cat.Lock()
	defer s.cat.Unlock()
	d, err := s.dbLocked(routeDB(ctx, req.GetDbName()))
	if err != nil {
		return &milvuspb.GetLoadStateResponse{Status: fail(err)}, nil
	}
	c := d.colls[req.GetCollectionName()]
	if c == nil {
		return &milvuspb.GetLoadStateResponse{Status: ok(), State: commonpb.LoadState_LoadStateNotExist}, nil
	}
	l, err := loadedLocked(c, req.GetPartitionNames())
	if err != nil {
		return &milvuspb.GetLoadStateResponse{Status: ok(), State: commonpb.LoadState_LoadStateNotExist}, nil
	}
	if l {
		return &milvuspb.GetLoadStateResponse{Status: ok(), State: commonpb.LoadState_LoadStateLoaded}, nil
	}
	return &milvuspb.GetLoadStateResponse{Status: ok(), State: commonpb.LoadState_LoadStateNotLoad}, nil
}

// ---------------------------------------------------------------------------------------------------------
// flush

func (s *svc) Flush(ctx context.Context, req *milvuspb.FlushRequest) (*milvuspb.FlushResponse, error) {
	s.cat.Lock()
	defer s.cat.Unlock()
	db := routeDB(ctx, req.GetDbName())
	resp := &milvuspb.FlushResponse{Status: ok(), DbName: db, CollSegIDs: map[string]*schemapb.LongArray{},
		FlushCollSegIDs: map[string]*schemapb.LongArray{}, CollSealTimes: map[string]int64{}, CollFlushTs: map[string]uint64{}}
	for _, n := range req.GetCollectionNames() {
		if _, err := s.collLocked(db, n); err != nil {
			return &milvuspb.FlushResponse{Status: fail(err)}, nil
		}
		ts := s.nextTsLocked()
		// no growing segments: a synchronous SDK Flush has nothing to poll for
		resp.CollSegIDs[n] = &schemapb.LongArray{}
		resp.FlushCollSegIDs[n] = &schemapb.LongArray{}
		resp.CollSealTimes[n] = int64(ts >> 18 / 1000)
		resp.CollFlushTs[n] = ts
	}
	return resp, nil
}

func (s *svc) GetFlushState(ctx context.Context, req *milvuspb.GetFlushStateRequest) (*milvuspb.GetFlushStateResponse, error) {
	return &milvuspb.GetFlushStateResponse{Status: ok(), Flushed: true}, nil
}

func (s *svc) GetFlushAllState(ctx context.Context, req *milvuspb.GetFlushAllStateRequest) (*milvuspb.GetFlushAllStateResponse, error) {
	return &milvuspb.GetFlushAllStateResponse{Status: ok(), Flushed: true}, nil
}

// ---------------------------------------------------------------------------------------------------------
// indexes

func (s *svc) CreateIndex(ctx context.Context, req *milvuspb.CreateIndexRequest) (*commonpb.Status, error) {
	s.cat.Lock()
	defer s.cat.Unlock()
	c, err := s.collLocked(routeDB(ctx, req.GetDbName()), req.GetCollectionName())
	if err != nil {
		return fail(err), nil
	}
	var field *schemapb.FieldSchema
	for _, f := range c.schema.GetFields() {
		if f.GetName() == req.GetFieldName() {
			field = f
		}
	}
	if field == nil {
		return fail(merr.WrapErrFieldNotFound(req.GetFieldName())), nil
	}
	name := req.GetIndexName()
	if name == "" {
		name = fmt.Sprintf("_default_idx_%d", field.GetFieldID())
	}
	for _, ix := range c.indexes {
		switch {
		case ix.name == name && ix.field == field.GetName() && kvEqual(ix.params, req.GetExtraParams()):
			return ok(), nil // Milvus: same index again is a no-op
		case ix.name == name:
			return failMsg("CreateIndex failed: index already exist, but parameters are inconsistent"), nil
		case ix.field == field.GetName():
			return failMsg("CreateIndex failed: at most one distinct index is allowed per field"), nil
		}
	}
	c.indexes = append(c.indexes, &indexEntry{name: name, id: s.nextIDLocked(), field: field.GetName(), params: cloneKVs(req.GetExtraParams())})
	return ok(), nil
}

func kvEqual(a, b []*commonpb.KeyValuePair) bool {
	if len(a) != len(b) {
		return false
	}
	m := map[string]string{}
	for _, kv := range a {
		m[kv.GetKey()] = kv.GetValue()
	}
	for _, kv := range b {
		if v, ok := m[kv.GetKey()]; !ok || v != kv.GetValue() {
			return false
		}
	}
	return true
}

func (c *collEntry) findIndexes(field, name string) []*indexEntry {
	var out []*indexEntry
	for _, ix := range c.indexes {
		switch {
		case name != "":
			if ix.name == name {
				out = append(out, ix)
			}
		case field != "":
			if ix.field == field {
				out = append(out, ix)
			}
		default:
			out = append(out, ix)
		}
	}
	return out
}

func (s *svc) DescribeIndex(ctx context.Context, req *milvuspb.DescribeIndexRequest) (*milvuspb.DescribeIndexResponse, error) {
	s.cat.Lock()
	defer s.cat.Unlock()
	c, err := s.collLocked(routeDB(ctx, req.GetDbName()), req.GetCollectionName())
	if err != nil {
		return &milvuspb.DescribeIndexResponse{Status: fail(err)}, nil
	}
	ixs := c.findIndexes(req.GetFieldName(), req.GetIndexName())
	if len(ixs) == 0 {
		return &milvuspb.DescribeIndexResponse{Status: fail(merr.WrapErrIndexNotFound(req.GetIndexName()))}, nil
	}
	resp := &milvuspb.DescribeIndexResponse{Status: ok()}
	for _, ix := range ixs {
		resp.IndexDescriptions = append(resp.IndexDescriptions, &milvuspb.IndexDescription{IndexName: ix.name, IndexID: ix.id,
			Params: cloneKVs(ix.params), FieldName: ix.field, State: commonpb.IndexState_Finished})
	}
	return resp, nil
}

func (s *svc) GetIndexState(ctx context.Context, req *milvuspb.GetIndexStateRequest) (*milvuspb.GetIndexStateResponse, error) {
	s.cat.Lock()
	defer s.cat.Unlock()
	c, err := s.collLocked(routeDB(ctx, req.GetDbName()), req.GetCollectionName())
	if err != nil {
		return &milvuspb.GetIndexStateResponse{Status: fail(err)}, nil
	}
	if len(c.findIndexes(req.GetFieldName(), req.GetIndexName())) == 0 {
		return &milvuspb.GetIndexStateResponse{Status: fail(merr.WrapErrIndexNotFound(req.GetIndexName()))}, nil
	}
	return &milvuspb.GetIndexStateResponse{Status: ok(), State: commonpb.IndexState_Finished}, nil
}

func (s *svc) DropIndex(ctx context.Context, req *milvuspb.DropIndexRequest) (*commonpb.Status, error) {
	s.cat.Lock()
	defer s.cat.Unlock()
	c, err := s.collLocked(routeDB(ctx, req.GetDbName()), req.GetCollectionName())
	if err != nil {
		return fail(err), nil
	}
	if c.loaded {
		return failMsg("index cannot be dropped, collection is loaded, please release it first"), nil
	}
	del := map[*indexEntry]bool{}
	for _, ix := range c.findIndexes(req.GetFieldName(), req.GetIndexName()) {
		del[ix] = true
	}
	var keep []*indexEntry
	for _, ix := range c.indexes {
		if !del[ix] {
			keep = append(keep, ix)
		}
	}
	c.indexes = keep
	return ok(), nil
}

func (s *svc) AlterIndex(ctx context.Context, req *milvuspb.AlterIndexRequest) (*commonpb.Status, error) {
	s.cat.Lock()
	defer s.cat.Unlock()
	c, err := s.collLocked(routeDB(ctx, req.GetDbName()), req.GetCollectionName())
	if err != nil {
		return fail(err), nil
	}
	ixs := c.findIndexes("", req.GetIndexName())
	if req.GetIndexName() == "" || len(ixs) == 0 {
		return fail(merr.WrapErrIndexNotFound(req.GetIndexName())), nil
	}
	for _, ix := range ixs {
		ix.params = deleteKeys(mergeKVs(ix.params, req.GetExtraParams()), req.GetDeleteKeys())
	}
	return ok(), nil
}

// ---------------------------------------------------------------------------------------------------------
// users, roles, privileges

func (s *svc) CreateCredential(ctx context.Context, req *milvuspb.CreateCredentialRequest) (*commonpb.Status, error) {
	s.cat.Lock()
	defer s.cat.Unlock()
	if req.GetUsername() == "" {
		return fail(merr.WrapErrParameterInvalidMsg("username must be not empty")), nil
	}
	if _, has := s.users[req.GetUsername()]; has {
		return failMsg("user already exists: %s", req.GetUsername()), nil
	}
	s.users[req.GetUsername()] = req.GetPassword()
	return ok(), nil
}

func (s *svc) UpdateCredential(ctx context.Context, req *milvuspb.UpdateCredentialRequest) (*commonpb.Status, error) {
	s.cat.Lock()
	defer s.cat.Unlock()
	if _, has := s.users[req.GetUsername()]; !has {
		return failMsg("found no credential:%s", req.GetUsername()), nil
	}
	s.users[req.GetUsername()] = req.GetNewPassword()
	return ok(), nil
}

func (s *svc) DeleteCredential(ctx context.Context, req *milvuspb.DeleteCredentialRequest) (*commonpb.Status, error) {
	s.cat.Lock()
	defer s.cat.Unlock()
	if req.GetUsername() == "root" {
		return failMsg("user root cannot be deleted"), nil
	}
	delete(s.users, req.GetUsername())
	delete(s.userRoles, req.GetUsername())
	return ok(), nil
}

func (s *svc) ListCredUsers(ctx context.Context, req *milvuspb.ListCredUsersRequest) (*milvuspb.ListCredUsersResponse, error) {
	s.cat.Lock()
	defer s.cat.Unlock()
	resp := &milvuspb.ListCredUsersResponse{Status: ok()}
	for u := range s.users {
		resp.Usernames = append(resp.Usernames, u)
	}
	sort.Strings(resp.Usernames)
	return resp, nil
}

func (s *svc) CreateRole(ctx context.Context, req *milvuspb.CreateRoleRequest) (*commonpb.Status, error) {
	s.cat.Lock()
	defer s.cat.Unlock()
	name := req.GetEntity().GetName()
	if name == "" {
		return fail(merr.WrapErrParameterInvalidMsg("role name must be not empty")), nil
	}
	if s.roles[name] {
		return failMsg("role [name:%q] already exists", name), nil
	}
	s.roles[name] = true
	return ok(), nil
}

func (s *svc) DropRole(ctx context.Context, req *milvuspb.DropRoleRequest) (*commonpb.Status, error) {
	s.cat.Lock()
	defer s.cat.Unlock()
	name := req.GetRoleName()
	if name == "admin" || name == "public" {
		return failMsg("the role[%s] is a default role, which can't be dropped", name), nil
	}
	if !s.roles[name] {
		return failMsg("not found the role, maybe the role isn't existed or internal system error"), nil
	}
	if !req.GetForceDrop() {
		for _, g := range s.grants {
			if g.GetRole().GetName() == name {
				return failMsg("fail to drop the role [%s] that it has privileges. Use REVOKE API to revoke privileges", name), nil
			}
		}
	}
	var keep []*milvuspb.GrantEntity
	for _, g := range s.grants {
		if g.GetRole().GetName() != name {
			keep = append(keep, g)
		}
	}
	s.grants = keep
	delete(s.roles, name)
	for _, rs := range s.userRoles {
		delete(rs, name)
	}
	return ok(), nil
}

func (s *svc) OperateUserRole(ctx context.Context, req *milvuspb.OperateUserRoleRequest) (*commonpb.Status, error) {
	s.cat.Lock()
	defer s.cat.Unlock()
	if !s.roles[req.GetRoleName()] {
		return failMsg("not found the role, maybe the role isn't existed or internal system error"), nil
	}
	switch req.GetType() {
	case milvuspb.OperateUserRoleType_AddUserToRole:
		if _, has := s.users[req.GetUsername()]; !has {
			return failMsg("not found the user, maybe the user isn't existed or internal system error"), nil
		}
		if s.userRoles[req.GetUsername()] == nil {
			s.userRoles[req.GetUsername()] = map[string]bool{}
		}
		s.userRoles[req.GetUsername()][req.GetRoleName()] = true
	case milvuspb.OperateUserRoleType_RemoveUserFromRole:
		delete(s.userRoles[req.GetUsername()], req.GetRoleName())
	}
	return ok(), nil
}

func sameGrant(a, b *milvuspb.GrantEntity) bool {
	norm := func(db string) string {
		if db == "" {
			return DefaultDB
		}
		return db
	}
	return a.GetRole().GetName() == b.GetRole().GetName() && a.GetObject().GetName() == b.GetObject().GetName() &&
		a.GetObjectName() == b.GetObjectName() && norm(a.GetDbName()) == norm(b.GetDbName()) &&
		a.GetGrantor().GetPrivilege().GetName() == b.GetGrantor().GetPrivilege().GetName()
}

func (s *svc) OperatePrivilege(ctx context.Context, req *milvuspb.OperatePrivilegeRequest) (*commonpb.Status, error) {
	s.cat.Lock()
	defer s.cat.Unlock()
	e := req.GetEntity()
	if e == nil {
		return fail(merr.WrapErrParameterInvalidMsg("the entity in the request is nil")), nil
	}
	if !s.roles[e.GetRole().GetName()] {
		return failMsg("not found the role, maybe the role isn't existed or internal system error"), nil
	}
	idx := -1
	for i, g := range s.grants {
		if sameGrant(g, e) {
			idx = i
		}
	}
	switch req.GetType() {
	case milvuspb.OperatePrivilegeType_Grant:
		if idx < 0 {
			s.grants = append(s.grants, proto.Clone(e).(*milvuspb.GrantEntity))
		}
	case milvuspb.OperatePrivilegeType_Revoke:
		if idx >= 0 {
			s.grants = append(s.grants[:idx:idx], s.grants[idx+1:]...)
		}
	}
	return ok(), nil
}

func (s *svc) SelectRole(ctx context.Context, req *milvuspb.SelectRoleRequest) (*milvuspb.SelectRoleResponse, error) {
	s.cat.Lock()
	defer s.cat.Unlock()
	resp := &milvuspb.SelectRoleResponse{Status: ok()}
	var names []string
	for r := range s.roles {
		if req.GetRole() == nil || req.GetRole().GetName() == r {
			names = append(names, r)
		}
	}
	sort.Strings(names)
	for _, r := range names {
		res := &milvuspb.RoleResult{Role: &milvuspb.RoleEntity{Name: r}}
		if req.GetIncludeUserInfo() {
			var us []string
			for u, rs := range s.userRoles {
				if rs[r] {
					us = append(us, u)
				}
			}
			sort.Strings(us)
			for _, u := range us {
				res.Users = append(res.Users, &milvuspb.UserEntity{Name: u})
			}
		}
		resp.Results = append(resp.Results, res)
	}
	return resp, nil
}

func (s *svc) SelectUser(ctx context.Context, req *milvuspb.SelectUserRequest) (*milvuspb.SelectUserResponse, error) {
	s.cat.Lock()
	defer s.cat.Unlock()
	resp := &milvuspb.SelectUserResponse{Status: ok()}
	var names []string
	for u := range s.users {
		if req.GetUser() == nil || req.GetUser().GetName() == u {
			names = append(names, u)
		}
	}
	sort.Strings(names)
	for _, u := range names {
		res := &milvuspb.UserResult{User: &milvuspb.UserEntity{Name: u}}
		if req.GetIncludeRoleInfo() {
			var rs []string
			for r := range s.userRoles[u] {
				rs = append(rs, r)
			}
			sort.Strings(rs)
			for _, r := range rs {
				res.Roles = append(res.Roles, &milvuspb.RoleEntity{Name: r})
			}
		}
		resp.Results = append(resp.Results, res)
	}
	return resp, nil
}

func (s *svc) SelectGrant(ctx context.Context, req *milvuspb.SelectGrantRequest) (*milvuspb.SelectGrantResponse, error) {
	s.cat.Lock()
	defer s.cat.Unlock()
	resp := &milvuspb.SelectGrantResponse{Status: ok()}
	want := req.GetEntity()
	for _, g := range s.grants {
		if want.GetRole().GetName() != "" && want.GetRole().GetName() != g.GetRole().GetName() {
			continue
		}
		if want.GetObject().GetName() != "" && (want.GetObject().GetName() != g.GetObject().GetName() || want.GetObjectName() != g.GetObjectName()) {
			continue
		}
		resp.Entities = append(resp.Entities, proto.Clone(g).(*milvuspb.GrantEntity))
	}
	return resp, nil
}

// ---------------------------------------------------------------------------------------------------------
// insert / delete (non-replicate path of the handler)

// DataRecord is one Insert or Delete accepted through the plain data RPCs.
type DataRecord struct {
	CallSeq    int64
	DB         string
	Collection string
	Partition  string
	Insert     *milvuspb.InsertRequest // clone; nil for deletes
	Delete     *milvuspb.DeleteRequest // clone; nil for inserts
}

// Inserts returns the accepted Insert RPCs in order.
func (s *Server) Inserts() []*DataRecord {
	s.cat.Lock()
	defer s.cat.Unlock()
	return append([]*DataRecord(nil), s.inserts...)
}

// Deletes returns the accepted Delete RPCs in order.
func (s *Server) Deletes() []*DataRecord {
	s.cat.Lock()
	defer s.cat.Unlock()
	return append([]*DataRecord(nil), s.deletes...)
}

func pkField(schema *schemapb.CollectionSchema) *schemapb.FieldSchema {
	for _, f := range schema.GetFields() {
		if f.GetIsPrimaryKey() {
			return f
		}
	}
	return nil
}

func callSeq(ctx context.Context) int64 {
	if c := callFrom(ctx); c != nil {
		return c.Seq
	}
	return -1
}

func (s *svc) Insert(ctx context.Context, req *milvuspb.InsertRequest) (*milvuspb.MutationResult, error) {
	s.cat.Lock()
	defer s.cat.Unlock()
	db := routeDB(ctx, req.GetDbName())
	c, err := s.collLocked(db, req.GetCollectionName())
	if err != nil {
		return &milvuspb.MutationResult{Status: fail(err)}, nil
	}
	if pn := req.GetPartitionName(); pn != "" && c.part(pn) == nil {
		return &milvuspb.MutationResult{Status: fail(merr.WrapErrPartitionNotFound(pn))}, nil
	}
	n := int(req.GetNumRows())
	ids := &schemapb.IDs{}
	pk := pkField(c.schema)
	var pkData *schemapb.FieldData
	for _, fd := range req.GetFieldsData() {
		if pk != nil && fd.GetFieldName() == pk.GetName() {
			pkData = fd
		}
	}
	switch {
	case pkData != nil && pkData.GetScalars().GetLongData() != nil:
		ids.IdField = &schemapb.IDs_IntId{IntId: &schemapb.LongArray{Data: append([]int64(nil), pkData.GetScalars().GetLongData().GetData()...)}}
	case pkData != nil && pkData.GetScalars().GetStringData() != nil:
		ids.IdField = &schemapb.IDs_StrId{StrId: &schemapb.StringArray{Data: append([]string(nil), pkData.GetScalars().GetStringData().GetData()...)}}
	case pk != nil && pk.GetDataType() == schemapb.DataType_VarChar:
		d := make([]string, n)
		for i := range d {
			d[i] = fmt.Sprint(s.nextIDLocked())
		}
		ids.IdField = &schemapb.IDs_StrId{StrId: &schemapb.StringArray{Data: d}}
	default:
		d := make([]int64, n)
		for i := range d {
			d[i] = s.nextIDLocked()
		}
		ids.IdField = &schemapb.IDs_IntId{IntId: &schemapb.LongArray{Data: d}}
	}
	succ := make([]uint32, n)
	for i := range succ {
		succ[i] = uint32(i)
	}
	s.inserts = append(s.inserts, &DataRecord{CallSeq: callSeq(ctx), DB: c.db, Collection: c.name, Partition: req.GetPartitionName(),
		Insert: proto.Clone(req).(*milvuspb.InsertRequest)})
	return &milvuspb.MutationResult{Status: ok(), IDs: ids, SuccIndex: succ, Acknowledged: true, InsertCnt: int64(n), Timestamp: s.nextTsLocked()}, nil
}

func (s *svc) Delete(ctx context.Context, req *milvuspb.DeleteRequest) (*milvuspb.MutationResult, error) {
	s.cat.Lock()
	defer s.cat.Unlock()
	db := routeDB(ctx, req.GetDbName())
	c, err := s.collLocked(db, req.GetCollectionName())
	if err != nil {
		return &milvuspb.MutationResult{Status: fail(err)}, nil
	}
	if pn := req.GetPartitionName(); pn != "" && c.part(pn) == nil {
		return &milvuspb.MutationResult{Status: fail(merr.WrapErrPartitionNotFound(pn))}, nil
	}
	s.deletes = append(s.deletes, &DataRecord{CallSeq: callSeq(ctx), DB: c.db, Collection: c.name, Partition: req.GetPartitionName(),
		Delete: proto.Clone(req).(*milvuspb.DeleteRequest)})
	return &milvuspb.MutationResult{Status: ok(), IDs: &schemapb.IDs{}, Acknowledged: true, Timestamp: s.nextTsLocked()}, nil
}
