package fakemilvus

import (
	"fmt"
	"sort"

	"github.com/milvus-io/milvus-proto/go-api/v2/commonpb"
	"github.com/milvus-io/milvus-proto/go-api/v2/milvuspb"
	"github.com/milvus-io/milvus-proto/go-api/v2/schemapb"
	"github.com/milvus-io/milvus/pkg/util/merr"
	"google.golang.org/protobuf/proto"
)

// ---- internal (live) state; guarded by Server.cat ----

type dbEntry struct {
	name    string
	id      int64
	created uint64
	props   []*commonpb.KeyValuePair
	colls   map[string]*collEntry
}

type partEntry struct {
	name    string
	id      int64
	created uint64
	loaded  bool
}

type indexEntry struct {
	name   string
	id     int64
	field  string
	params []*commonpb.KeyValuePair
}

type collEntry struct {
	db          string
	name        string
	id          int64
	schema      *schemapb.CollectionSchema
	shards      int32
	consistency commonpb.ConsistencyLevel
	props       []*commonpb.KeyValuePair
	vchans      []string
	pchans      []string
	parts       []*partEntry // creation order
	numParts    int64
	created     uint64
	loaded      bool
	replicas    int32
	indexes     []*indexEntry
	createBase  *commonpb.MsgBase
	partKey     bool
}

func (c *collEntry) part(name string) *partEntry {
	for _, p := range c.parts {
		if p.name == name {
			return p
		}
	}
	return nil
}

// ---- exported snapshot types ----

// Catalog is a deep-copied snapshot of the downstream state.
type Catalog struct {
	Databases map[string]*Database
	Users     map[string]string       // user -> password exactly as received in the request (base64)
	Roles     []string                // sorted
	UserRoles map[string][]string     // user -> sorted roles
	Grants    []*milvuspb.GrantEntity // in grant order
}

// Database is one downstream database.
type Database struct {
	Name        string
	ID          int64
	CreatedTs   uint64
	Properties  []*commonpb.KeyValuePair
	Collections map[string]*Collection
}

// Index is one downstream index.
type Index struct {
	Name   string
	ID     int64
	Field  string
	Params []*commonpb.KeyValuePair
}

// Collection is one downstream collection.
type Collection struct {
	DB               string
	Name             string
	ID               int64
	Schema           *schemapb.CollectionSchema
	ShardsNum        int32
	ConsistencyLevel commonpb.ConsistencyLevel
	Properties       []*commonpb.KeyValuePair
	VChannels        []string
	PChannels        []string
	Partitions       map[string]int64 // name -> id
	PartitionOrder   []string         // names in creation order
	LoadedPartitions []string         // partitions loaded individually (sorted)
	CreatedTs        uint64
	Loaded           bool
	ReplicaNumber    int32
	Indexes          []*Index
	// CreateBase is the MsgBase of the CreateCollection request that created it (nil when pre-populated).
	CreateBase *commonpb.MsgBase
}

// Collection looks a collection up in the snapshot ("" db = default); nil when absent.
func (c *Catalog) Collection(db, name string) *Collection {
	if db == "" {
		db = DefaultDB
	}
	d := c.Databases[db]
	if d == nil {
		return nil
	}
	return d.Collections[name]
}

// HasDatabase reports whether the snapshot has the database.
func (c *Catalog) HasDatabase(db string) bool { return c.Databases[db] != nil }

func cloneKVs(kvs []*commonpb.KeyValuePair) []*commonpb.KeyValuePair {
	if kvs == nil {
		return nil
	}
	out := make([]*commonpb.KeyValuePair, 0, len(kvs))
	for _, kv := range kvs {
		out = append(out, &commonpb.KeyValuePair{Key: kv.GetKey(), Value: kv.GetValue()})
	}
	return out
}

func mergeKVs(old, upd []*commonpb.KeyValuePair) []*commonpb.KeyValuePair {
	out := cloneKVs(old)
	for _, u := range upd {
		found := false
		for _, o := range out {
			if o.Key == u.GetKey() {
				o.Value = u.GetValue()
				found = true
				break
			}
		}
		if !found {
			out = append(out, &commonpb.KeyValuePair{Key: u.GetKey(), Value: u.GetValue()})
		}
	}
	return out
}

func deleteKeys(old []*commonpb.KeyValuePair, keys []string) []*commonpb.KeyValuePair {
	if len(keys) == 0 {
		return old
	}
	del := map[string]bool{}
	for _, k := range keys {
		del[k] = true
	}
	var out []*commonpb.KeyValuePair
	for _, o := range old {
		if !del[o.GetKey()] {
			out = append(out, o)
		}
	}
	return out
}

func (c *collEntry) snapshot() *Collection {
	out := &Collection{DB: c.db, Name: c.name, ID: c.id, ShardsNum: c.shards, ConsistencyLevel: c.consistency,
		Properties: cloneKVs(c.props), VChannels: append([]string(nil), c.vchans...), PChannels: append([]string(nil), c.pchans...),
		Partitions: map[string]int64{}, CreatedTs: c.created, Loaded: c.loaded, ReplicaNumber: c.replicas}
	if c.schema != nil {
		out.Schema = proto.Clone(c.schema).(*schemapb.CollectionSchema)
	}
	if c.createBase != nil {
		out.CreateBase = proto.Clone(c.createBase).(*commonpb.MsgBase)
	}
	for _, p := range c.parts {
		out.Partitions[p.name] = p.id
		out.PartitionOrder = append(out.PartitionOrder, p.name)
		if p.loaded {
			out.LoadedPartitions = append(out.LoadedPartitions, p.name)
		}
	}
	sort.Strings(out.LoadedPartitions)
	for _, ix := range c.indexes {
		out.Indexes = append(out.Indexes, &Index{Name: ix.name, ID: ix.id, Field: ix.field, Params: cloneKVs(ix.params)})
	}
	return out
}

// Catalog returns a deep-copied snapshot of the downstream state.
func (s *Server) Catalog() *Catalog {
	s.cat.Lock()
	defer s.cat.Unlock()
	out := &Catalog{Databases: map[string]*Database{}, Users: map[string]string{}, UserRoles: map[string][]string{}}
	for name, d := range s.dbs {
		db := &Database{Name: name, ID: d.id, CreatedTs: d.created, Properties: cloneKVs(d.props), Collections: map[string]*Collection{}}
		for cn, c := range d.colls {
			db.Collections[cn] = c.snapshot()
		}
		out.Databases[name] = db
	}
	for u, p := range s.users {
		out.Users[u] = p
	}
	for r := range s.roles {
		out.Roles = append(out.Roles, r)
	}
	sort.Strings(out.Roles)
	for u, rs := range s.userRoles {
		var l []string
		for r := range rs {
			l = append(l, r)
		}
		sort.Strings(l)
		out.UserRoles[u] = l
	}
	for _, g := range s.grants {
		out.Grants = append(out.Grants, proto.Clone(g).(*milvuspb.GrantEntity))
	}
	return out
}

// GetCollection returns a snapshot of one collection ("" db = default), nil when absent.
func (s *Server) GetCollection(db, name string) *Collection {
	s.cat.Lock()
	defer s.cat.Unlock()
	if db == "" {
		db = DefaultDB
	}
	d := s.dbs[db]
	if d == nil || d.colls[name] == nil {
		return nil
	}
	return d.colls[name].snapshot()
}

// ---- id / timestamp sources (call with s.cat held) ----

func (s *Server) nextIDLocked() int64 {
	s.idCounter++
	return s.idCounter
}

// nextTsLocked returns a deterministic hybrid-looking timestamp (physical ms << 18).
func (s *Server) nextTsLocked() uint64 {
	s.tsCounter++
	return (1_700_000_000_000 + s.tsCounter) << 18
}

func defaultChannels(id int64, shards int32) (v, p []string) {
	for i := int32(0); i < shards; i++ {
		pc := fmt.Sprintf("by-dev-rootcoord-dml_%d", (id+int64(i))%16)
		p = append(p, pc)
		v = append(v, fmt.Sprintf("%s_%dv%d", pc, id, i))
	}
	return v, p
}

// ---- pre-population / direct manipulation (no call-log entry) ----

// SetIDAssigner replaces the collection id / channel assigner (nil = built-in counter and channel names).
func (s *Server) SetIDAssigner(f IDAssigner) {
	s.cat.Lock()
	s.idAssigner = f
	s.cat.Unlock()
}

// SetPartitionIDAssigner replaces the partition id assigner (nil = built-in counter).
func (s *Server) SetPartitionIDAssigner(f PartitionIDAssigner) {
	s.cat.Lock()
	s.partIDAssigner = f
	s.cat.Unlock()
}

// SetStrictConnect controls whether Connect with a `dbname` of a missing database is refused the way Milvus'
// proxy does ("database not found", default true). With false every Connect succeeds.
func (s *Server) SetStrictConnect(on bool) {
	s.cat.Lock()
	s.strictConnect = on
	s.cat.Unlock()
}

// SetLoadRequiresIndex makes LoadCollection / LoadPartitions fail like Milvus when a vector field has no index
// (default false: loading always works).
func (s *Server) SetLoadRequiresIndex(on bool) {
	s.cat.Lock()
	s.loadNeedsIndex = on
	s.cat.Unlock()
}

// AddDatabase creates a database directly; error if it exists.
func (s *Server) AddDatabase(name string, props ...*commonpb.KeyValuePair) error {
	s.cat.Lock()
	defer s.cat.Unlock()
	return s.createDBLocked(name, props)
}

// DropDatabase removes a database directly, with its collections; error if absent or default.
func (s *Server) DropDatabase(name string) error {
	s.cat.Lock()
	defer s.cat.Unlock()
	if name == DefaultDB {
		return fmt.Errorf("can not drop default database")
	}
	if s.dbs[name] == nil {
		return merr.WrapErrDatabaseNotFound(name)
	}
	delete(s.dbs, name)
	return nil
}

// CollectionSpec describes a collection to pre-populate. Zero ID / empty channels are filled by the
// IDAssigner (or the built-in one); ShardsNum 0 means 1; the `_default` partition is always created.
type CollectionSpec struct {
	DB               string // "" = default
	Name             string // defaults to Schema.Name
	ID               int64
	Schema           *schemapb.CollectionSchema
	ShardsNum        int32
	ConsistencyLevel commonpb.ConsistencyLevel
	Properties       []*commonpb.KeyValuePair
	VChannels        []string
	PChannels        []string
	Partitions       map[string]int64 // extra partitions (id 0 = assign)
}

// AddCollection creates a collection directly and returns its snapshot; error if the database is missing or
// the collection exists.
func (s *Server) AddCollection(spec CollectionSpec) (*Collection, error) {
	s.cat.Lock()
	defer s.cat.Unlock()
	db := spec.DB
	if db == "" {
		db = DefaultDB
	}
	d := s.dbs[db]
	if d == nil {
		return nil, merr.WrapErrDatabaseNotFound(db)
	}
	name := spec.Name
	if name == "" {
		name = spec.Schema.GetName()
	}
	if name == "" {
		return nil, fmt.Errorf("fakemilvus: collection without a name")
	}
	if d.colls[name] != nil {
		return nil, fmt.Errorf("fakemilvus: collection %s.%s exists", db, name)
	}
	var schema *schemapb.CollectionSchema
	if spec.Schema != nil {
		schema = proto.Clone(spec.Schema).(*schemapb.CollectionSchema)
	} else {
		schema = &schemapb.CollectionSchema{}
	}
	schema.Name = name
	c := s.newCollLocked(db, name, schema, spec.ShardsNum, spec.ID, spec.VChannels, spec.PChannels, 0)
	c.consistency = spec.ConsistencyLevel
	c.props = cloneKVs(spec.Properties)
	names := make([]string, 0, len(spec.Partitions))
	for pn := range spec.Partitions {
		names = append(names, pn)
	}
	sort.Strings(names)
	for _, pn := range names {
		if c.part(pn) == nil {
			s.addPartLocked(c, pn, spec.Partitions[pn])
		}
	}
	d.colls[name] = c
	return c.snapshot(), nil
}

// DropCollection removes a collection directly; error if absent.
func (s *Server) DropCollection(db, name string) error {
	s.cat.Lock()
	defer s.cat.Unlock()
	if db == "" {
		db = DefaultDB
	}
	d := s.dbs[db]
	if d == nil {
		return merr.WrapErrDatabaseNotFound(db)
	}
	if d.colls[name] == nil {
		return merr.WrapErrCollectionNotFoundWithDB(db, name)
	}
	delete(d.colls, name)
	return nil
}

// AddPartition creates a partition directly (id 0 = assign) and returns its id; error if the collection is
// missing or the partition exists.
func (s *Server) AddPartition(db, collection, partition string, id int64) (int64, error) {
	s.cat.Lock()
	defer s.cat.Unlock()
	c, err := s.collLocked(db, collection)
	if err != nil {
		return 0, err
	}
	if c.part(partition) != nil {
		return 0, fmt.Errorf("fakemilvus: partition %s of %s.%s exists", partition, c.db, collection)
	}
	return s.addPartLocked(c, partition, id).id, nil
}

// DropPartition removes a partition directly; error if absent.
func (s *Server) DropPartition(db, collection, partition string) error {
	s.cat.Lock()
	defer s.cat.Unlock()
	c, err := s.collLocked(db, collection)
	if err != nil {
		return err
	}
	if c.part(partition) == nil {
		return merr.WrapErrPartitionNotFound(partition)
	}
	s.dropPartLocked(c, partition)
	return nil
}

// ---- shared catalog operations (call with s.cat held) ----

func (s *Server) createDBLocked(name string, props []*commonpb.KeyValuePair) error {
	if name == "" {
		return merr.WrapErrDatabaseNameInvalid(name, "database name couldn't be empty")
	}
	if s.dbs[name] != nil {
		return fmt.Errorf("database already exist: %s", name)
	}
	s.dbs[name] = &dbEntry{name: name, id: s.nextIDLocked(), created: s.nextTsLocked(), props: cloneKVs(props), colls: map[string]*collEntry{}}
	return nil
}

func (s *Server) dbLocked(db string) (*dbEntry, error) {
	if db == "" {
		db = DefaultDB
	}
	d := s.dbs[db]
	if d == nil {
		return nil, merr.WrapErrDatabaseNotFound(db)
	}
	return d, nil
}

func (s *Server) collLocked(db, name string) (*collEntry, error) {
	d, err := s.dbLocked(db)
	if err != nil {
		return nil, err
	}
	c := d.colls[name]
	if c == nil {
		return nil, merr.WrapErrCollectionNotFoundWithDB(d.name, name)
	}
	return c, nil
}

func (s *Server) collByIDLocked(db string, id int64) (*collEntry, error) {
	d, err := s.dbLocked(db)
	if err != nil {
		return nil, err
	}
	for _, c := range d.colls {
		if c.id == id {
			return c, nil
		}
	}
	return nil, merr.WrapErrCollectionNotFoundWithDB(d.name, id)
}

func hasPartitionKey(schema *schemapb.CollectionSchema) bool {
	for _, f := range schema.GetFields() {
		if f.GetIsPartitionKey() {
			return true
		}
	}
	return false
}

// newCollLocked builds a collection entry (not yet linked into its database) with its initial partitions.
func (s *Server) newCollLocked(db, name string, schema *schemapb.CollectionSchema, shards int32, id int64, vch, pch []string, numPartitions int64) *collEntry {
	if shards <= 0 {
		shards = 1
	}
	if id == 0 && s.idAssigner != nil {
		var av, ap []string
		id, av, ap = s.idAssigner(db, name)
		if len(vch) == 0 {
			vch = av
		}
		if len(pch) == 0 {
			pch = ap
		}
	}
	if id == 0 {
		id = s.nextIDLocked()
	}
	if len(vch) == 0 || len(pch) == 0 {
		dv, dp := defaultChannels(id, shards)
		if len(vch) == 0 {
			vch = dv
		}
		if len(pch) == 0 {
			pch = dp
		}
	}
	c := &collEntry{db: db, name: name, id: id, schema: schema, shards: shards, vchans: append([]string(nil), vch...),
		pchans: append([]string(nil), pch...), created: s.nextTsLocked(), partKey: hasPartitionKey(schema)}
	if c.partKey {
		if numPartitions <= 0 {
			numPartitions = 16
		}
		for i := int64(0); i < numPartitions; i++ {
			s.addPartLocked(c, fmt.Sprintf("%s_%d", DefaultPartition, i), 0)
		}
		c.numParts = numPartitions
	} else {
		s.addPartLocked(c, DefaultPartition, 0)
		c.numParts = 1
	}
	return c
}

func (s *Server) addPartLocked(c *collEntry, name string, id int64) *partEntry {
	if id == 0 && s.partIDAssigner != nil {
		id = s.partIDAssigner(c.db, c.name, name)
	}
	if id == 0 {
		id = s.nextIDLocked()
	}
	p := &partEntry{name: name, id: id, created: s.nextTsLocked()}
	c.parts = append(c.parts, p)
	return p
}

func (s *Server) dropPartLocked(c *collEntry, name string) {
	for i, p := range c.parts {
		if p.name == name {
			c.parts = append(c.parts[:i:i], c.parts[i+1:]...)
			return
		}
	}
}
