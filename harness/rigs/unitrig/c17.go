package main

// C17 — drop-message readiness accumulates across shards, persists, is removable.
//
// Real code in the loop: meta.ReplicateMeteImpl (core/meta/meta.go) through its public api.ReplicateMeta
// methods. Trusted fake: an in-memory api.ReplicateStore that keeps JSON bytes per key exactly like
// meta.EtcdReplicateStore does (Marshal on Put, Unmarshal on Get, prefix scan), with a crash plan
// (panic before/after applying the n-th Put) used to model "process dies inside an update".
//
// Oracle: a reference map (task,msg) -> set of reported shards, maintained from the calls that returned.
// After every update:  memory view == store content == reference union (as sets), and
// returned-ready <=> union == target set.  After RemoveTaskMsg: absent from store and from both memory
// views.  After a reload (fresh NewReplicateMetaImpl on the same store): memory view == store, and equal
// to what the previous instance showed (when no crash was in flight).

import (
	"context"
	"encoding/json"
	"errors"
	"fmt"
	"sort"
	"strings"
	"sync"

	"github.com/zilliztech/milvus-cdc/core/api"
	"github.com/zilliztech/milvus-cdc/core/meta"

	"verifharness/internal/vf"
)

type crashSignal struct{}

type memStore struct {
	mu       sync.Mutex
	data     map[string][]byte
	puts     int
	crashAt  int  // n-th Put (1-based) panics; 0 = never
	crashAft bool // panic after applying
	crashed  chan crashSignal
	failNext bool // the next Put returns an error and stores nothing
}

func newMemStore() *memStore {
	return &memStore{data: map[string][]byte{}, crashed: make(chan crashSignal, 4)}
}

func (s *memStore) Get(ctx context.Context, key string, withPrefix bool) ([]api.MetaMsg, error) {
	s.mu.Lock()
	defer s.mu.Unlock()
	var keys []string
	for k := range s.data {
		if (withPrefix && strings.HasPrefix(k, key)) || (!withPrefix && k == key) {
			keys = append(keys, k)
		}
	}
	sort.Strings(keys)
	var out []api.MetaMsg
	for _, k := range keys {
		var m api.MetaMsg
		if err := json.Unmarshal(s.data[k], &m); err != nil {
			return nil, err
		}
		out = append(out, m)
	}
	return out, nil
}

func (s *memStore) Put(ctx context.Context, key string, value api.MetaMsg) error {
	b, err := json.Marshal(value)
	if err != nil {
		return err
	}
	s.mu.Lock()
	if s.failNext {
		s.failNext = false
		s.mu.Unlock()
		return errors.New("injected store failure")
	}
	s.puts++
	crash := s.crashAt != 0 && s.puts == s.crashAt
	if crash && !s.crashAft {
		s.mu.Unlock()
		s.die()
	}
	s.data[key] = b
	s.mu.Unlock()
	if crash {
		s.die()
	}
	return nil
}

// die models the process dying at this point of the update: the calling goroutine never runs another instruction
// of the code under test (no return, no deferred function), the harness is told and abandons the instance.
func (s *memStore) die() {
	s.crashed <- crashSignal{}
	select {}
}

func (s *memStore) Remove(ctx context.Context, key string) error {
	s.mu.Lock()
	delete(s.data, key)
	s.mu.Unlock()
	return nil
}

func (s *memStore) ready(task, msg string) (set []string, ok bool) {
	s.mu.Lock()
	defer s.mu.Unlock()
	b, ok := s.data[meta.GetMetaKey(task, msg)]
	if !ok {
		return nil, false
	}
	var m api.MetaMsg
	_ = json.Unmarshal(b, &m)
	return norm(m.Base.ReadyChannels), true
}

func norm(s []string) []string {
	m := map[string]struct{}{}
	for _, x := range s {
		m[x] = struct{}{}
	}
	out := make([]string, 0, len(m))
	for x := range m {
		out = append(out, x)
	}
	sort.Strings(out)
	return out
}

func eqSet(a, b []string) bool { return strings.Join(norm(a), ",") == strings.Join(norm(b), ",") }

type c17Msg struct {
	Task, ID string
	Part     bool
	Target   []string
}

type c17Op struct {
	Kind   string // report | fail-report | remove | reload | crash-report | concurrent
	Msg    int
	Shards []string // reported shards (report: usually one)
	After  bool     // crash after the store applied the Put
}

type c17Case struct {
	Idx  int      `json:"case"`
	Msgs []c17Msg `json:"msgs"`
	Ops  []c17Op  `json:"ops"`
}

func genC17(seed int64, idx int) c17Case {
	rnd := vf.Rand(seed, "C17", idx)
	c := c17Case{Idx: idx}
	nTasks := 1 + rnd.Intn(3)
	nMsgs := 1 + rnd.Intn(4)
	for m := 0; m < nMsgs; m++ {
		task := fmt.Sprintf("task%d", rnd.Intn(nTasks))
		shards := 1 + rnd.Intn(6)
		coll := int64(100 + rnd.Intn(3)) // few ids: same msg id under different tasks happens
		// channels in allocation order: the numbers wrap around the pool and pass one digit, so the list is usually
		// NOT in lexicographic order
		start := rnd.Intn(16)
		var tgt []string
		for s := 0; s < shards; s++ {
			tgt = append(tgt, fmt.Sprintf("by-dev-dml_%d_%dv%d", (start+s)%16, coll, s))
		}
		part := rnd.Intn(2) == 0
		id := api.GetDropCollectionMsgID(coll)
		if part {
			id = api.GetDropPartitionMsgID(coll, int64(7+rnd.Intn(2)))
		}
		dup := false
		for _, e := range c.Msgs {
			if e.Task == task && e.ID == id {
				dup = true
			}
		}
		if dup {
			continue
		}
		c.Msgs = append(c.Msgs, c17Msg{task, id, part, tgt})
	}
	nOps := 4 + rnd.Intn(20)
	for o := 0; o < nOps; o++ {
		mi := rnd.Intn(len(c.Msgs))
		tg := c.Msgs[mi].Target
		switch p := rnd.Intn(100); {
		case p < 6:
			// the store refuses this one write (error return): the other messages must not notice
			c.Ops = append(c.Ops, c17Op{Kind: "fail-report", Msg: mi, Shards: []string{tg[rnd.Intn(len(tg))]}})
		case p < 68:
			c.Ops = append(c.Ops, c17Op{Kind: "report", Msg: mi, Shards: []string{tg[rnd.Intn(len(tg))]}})
		case p < 76:
			c.Ops = append(c.Ops, c17Op{Kind: "remove", Msg: mi})
		case p < 86:
			c.Ops = append(c.Ops, c17Op{Kind: "reload"})
		case p < 93:
			c.Ops = append(c.Ops, c17Op{Kind: "crash-report", Msg: mi, Shards: []string{tg[rnd.Intn(len(tg))]}, After: rnd.Intn(2) == 0})
		default:
			// all shards of the message report concurrently, one goroutine each, shuffled
			sh := append([]string{}, tg...)
			rnd.Shuffle(len(sh), func(i, j int) { sh[i], sh[j] = sh[j], sh[i] })
			c.Ops = append(c.Ops, c17Op{Kind: "concurrent", Msg: mi, Shards: sh})
		}
	}
	return c
}

type c17Ref struct {
	present bool
	union   map[string]struct{}
}

func runC17(tier string) *vf.Run {
	run := vf.NewRun("C17", tier, "exploration")
	run.Rule = "case = generated history over 1-3 tasks x 1-4 drop messages (collection and partition kind, 1-6 target shards): shard reports (any order, duplicates), removals, reloads (new instance on the same store), crashes inside an update (store panics before/after the Put, instance dropped, reload), and all shards reporting concurrently; after every step memory view, store content and reference union are compared. Non-trivial = a message received reports from >= 2 distinct shards, or a removal/reload/crash hit a message with recorded reports; distinct by (kind, #targets, sequence of op kinds on that message)."
	run.Assumptions = []string{
		"in-memory api.ReplicateStore keeps JSON bytes per key like meta.EtcdReplicateStore (prefix scan on Get)",
		"a refused store write (error return) is injected for single reports and judged only for the OTHER messages (they must be unchanged in memory and store); what the message of the refused write holds in memory afterwards is not judged, a reload follows; crashes are modelled as a goroutine that never returns from Put followed by dropping the instance",
	}
	n := run.Pick(1500, 60000)
	ctx := context.Background()
	for idx := 0; idx < n; idx++ {
		c := genC17(run.Seed, idx)
		run.Eval(1)
		if idx < 2 {
			run.Sample(c)
		}
		store := newMemStore()
		impl, err := meta.NewReplicateMetaImpl(store)
		if err != nil {
			run.Inconclusive(fmt.Sprintf("case %d: NewReplicateMetaImpl: %v", idx, err))
			continue
		}
		ref := make([]c17Ref, len(c.Msgs))
		hist := make([][]string, len(c.Msgs))
		var trace []string
		bad := false
		fail := func(key, desc string) {
			if bad {
				return
			}
			bad = true
			run.Violate(key, desc, map[string]any{"case": c, "trace": trace})
		}
		memView := func(im *meta.ReplicateMeteImpl, m c17Msg) ([]string, bool) {
			if m.Part {
				r, err := im.GetTaskDropPartitionMsg(ctx, m.Task, m.ID)
				if err != nil || len(r) == 0 {
					return nil, false
				}
				return norm(r[0].Base.ReadyChannels), true
			}
			r, err := im.GetTaskDropCollectionMsg(ctx, m.Task, m.ID)
			if err != nil || len(r) == 0 {
				return nil, false
			}
			return norm(r[0].Base.ReadyChannels), true
		}
		refSet := func(i int) []string {
			var s []string
			for k := range ref[i].union {
				s = append(s, k)
			}
			return norm(s)
		}
		// compare the three views for every message (quiescent: no call in flight)
		checkAll := func(when string, maybe int, maybeShards []string) {
			for i, m := range c.Msgs {
				mv, mok := memView(impl, m)
				sv, sok := store.ready(m.Task, m.ID)
				want := refSet(i)
				if i == maybe {
					// an update was in flight when the process "died": it may or may not be in the store
					alt := norm(append(append([]string{}, want...), maybeShards...))
					if sok && eqSet(sv, alt) {
						ref[i].present = true
						ref[i].union = map[string]struct{}{}
						for _, x := range alt {
							ref[i].union[x] = struct{}{}
						}
						want = alt
					}
				}
				if ref[i].present != sok || (sok && !eqSet(sv, want)) {
					fail("C17/store-differs-from-union-of-reports", fmt.Sprintf("%s: msg %s/%s store ready=%v present=%v, union of reports=%v present=%v", when, m.Task, m.ID, sv, sok, want, ref[i].present))
				}
				if mok != sok || !eqSet(mv, sv) {
					k := "C17/memory-differs-from-store"
					if strings.HasPrefix(when, "after remove") {
						k = "C17/removed-message-still-in-memory"
					}
					fail(k, fmt.Sprintf("%s: msg %s/%s memory ready=%v present=%v, store ready=%v present=%v", when, m.Task, m.ID, mv, mok, sv, sok))
				}
			}
		}
		report := func(i int, shard string) (ready bool, err error, crashed bool) {
			m := c.Msgs[i]
			base := api.BaseTaskMsg{TaskID: m.Task, MsgID: m.ID, TargetChannels: append([]string{}, m.Target...), ReadyChannels: []string{shard}}
			cur := impl
			type out struct {
				ready bool
				err   error
			}
			done := make(chan out, 1)
			// on its own goroutine: a planned crash parks it inside the store call for good (see memStore.die)
			go func() {
				var o out
				if m.Part {
					o.ready, o.err = cur.UpdateTaskDropPartitionMsg(ctx, api.TaskDropPartitionMsg{Base: base, DatabaseName: "db", CollectionName: "c", PartitionName: "p", DropTS: 1000})
				} else {
					o.ready, o.err = cur.UpdateTaskDropCollectionMsg(ctx, api.TaskDropCollectionMsg{Base: base, DatabaseName: "db", CollectionName: "c", DropTS: 1000})
				}
				done <- o
			}()
			select {
			case o := <-done:
				return o.ready, o.err, false
			case <-store.crashed:
				return false, nil, true
			}
		}
		applyRef := func(i int, shard string) {
			if !ref[i].present {
				ref[i] = c17Ref{present: true, union: map[string]struct{}{}}
			}
			ref[i].union[shard] = struct{}{}
		}
		reload := func() bool {
			ni, err := meta.NewReplicateMetaImpl(store)
			if err != nil {
				run.Inconclusive(fmt.Sprintf("case %d: reload: %v", idx, err))
				return false
			}
			impl = ni
			return true
		}
		for oi, op := range c.Ops {
			if bad {
				break
			}
			switch op.Kind {
			case "report":
				ready, err, _ := report(op.Msg, op.Shards[0])
				trace = append(trace, fmt.Sprintf("#%d report %s/%s %s -> ready=%v err=%v", oi, c.Msgs[op.Msg].Task, c.Msgs[op.Msg].ID, op.Shards[0], ready, err))
				if err != nil {
					fail("C17/update-error-without-fault", fmt.Sprintf("update returned %v with a healthy store", err))
					break
				}
				applyRef(op.Msg, op.Shards[0])
				hist[op.Msg] = append(hist[op.Msg], "r")
				want := eqSet(refSet(op.Msg), c.Msgs[op.Msg].Target)
				if ready != want {
					fail("C17/ready-flag-wrong", fmt.Sprintf("report #%d on %s/%s: returned ready=%v, union=%v target=%v", oi, c.Msgs[op.Msg].Task, c.Msgs[op.Msg].ID, ready, refSet(op.Msg), c.Msgs[op.Msg].Target))
				}
				if want {
					run.Count("ready_reported", 1)
				}
				checkAll(fmt.Sprintf("after report #%d", oi), -1, nil)
			case "fail-report":
				store.mu.Lock()
				store.failNext = true
				store.mu.Unlock()
				_, err, _ := report(op.Msg, op.Shards[0])
				store.mu.Lock()
				consumed := !store.failNext
				store.failNext = false
				store.mu.Unlock()
				trace = append(trace, fmt.Sprintf("#%d report %s/%s %s with a failing store write -> err=%v", oi, c.Msgs[op.Msg].Task, c.Msgs[op.Msg].ID, op.Shards[0], err))
				if consumed && err == nil {
					fail("C17/store-error-swallowed", fmt.Sprintf("report #%d on %s/%s: the store refused the write, the update returned no error", oi, c.Msgs[op.Msg].Task, c.Msgs[op.Msg].ID))
					break
				}
				run.Count("failed_store_writes", 1)
				// the failed update concerned ONE message: every other message is as before, in all three views
				for i, m := range c.Msgs {
					if i == op.Msg {
						continue
					}
					mv, mok := memView(impl, m)
					sv, sok := store.ready(m.Task, m.ID)
					want := refSet(i)
					if ref[i].present != sok || (sok && !eqSet(sv, want)) || mok != sok || !eqSet(mv, sv) {
						fail("C17/failed-update-changed-another-message", fmt.Sprintf("after report #%d on %s/%s failed in the store: msg %s/%s memory ready=%v present=%v, store ready=%v present=%v, union of reports=%v present=%v", oi, c.Msgs[op.Msg].Task, c.Msgs[op.Msg].ID, m.Task, m.ID, mv, mok, sv, sok, want, ref[i].present))
					}
					if ref[i].present {
						run.Count("bystander_messages_checked_after_failed_write", 1)
					}
				}
				// the message of the failed update itself is brought back in line by a reload (what it holds in memory
				// after a refused write is outside this check)
				if !reload() {
					bad = true
				}
			case "remove":
				m := c.Msgs[op.Msg]
				err := impl.RemoveTaskMsg(ctx, m.Task, m.ID)
				trace = append(trace, fmt.Sprintf("#%d remove %s/%s err=%v", oi, m.Task, m.ID, err))
				if err != nil {
					fail("C17/remove-error-without-fault", err.Error())
					break
				}
				if ref[op.Msg].present {
					run.Count("removals_of_recorded_msg", 1)
					if m.Part {
						run.Count("removals_partition_kind", 1)
					}
					hist[op.Msg] = append(hist[op.Msg], "x")
				}
				ref[op.Msg] = c17Ref{}
				checkAll(fmt.Sprintf("after remove #%d", oi), -1, nil)
			case "reload":
				before := map[int][]string{}
				for i, m := range c.Msgs {
					if v, ok := memView(impl, m); ok {
						before[i] = v
					}
				}
				if !reload() {
					bad = true
					break
				}
				trace = append(trace, fmt.Sprintf("#%d reload", oi))
				run.Count("reloads", 1)
				for i, m := range c.Msgs {
					v, ok := memView(impl, m)
					bv, bok := before[i]
					if ok != bok || !eqSet(v, bv) {
						fail("C17/reload-does-not-reproduce-memory", fmt.Sprintf("reload #%d: msg %s/%s memory before=%v(%v) after reload=%v(%v)", oi, m.Task, m.ID, bv, bok, v, ok))
					}
					if ref[i].present {
						hist[i] = append(hist[i], "l")
					}
				}
				checkAll(fmt.Sprintf("after reload #%d", oi), -1, nil)
			case "crash-report":
				store.mu.Lock()
				store.crashAt = store.puts + 1
				store.crashAft = op.After
				store.mu.Unlock()
				_, _, crashed := report(op.Msg, op.Shards[0])
				store.mu.Lock()
				store.crashAt = 0
				store.mu.Unlock()
				trace = append(trace, fmt.Sprintf("#%d crash-report %s/%s %s after=%v crashed=%v", oi, c.Msgs[op.Msg].Task, c.Msgs[op.Msg].ID, op.Shards[0], op.After, crashed))
				if !crashed {
					run.Inconclusive(fmt.Sprintf("case %d op %d: planned crash not reached", idx, oi))
					applyRef(op.Msg, op.Shards[0])
				}
				run.Count("crashes_inside_update", 1)
				if !reload() {
					bad = true
					break
				}
				hist[op.Msg] = append(hist[op.Msg], "c")
				checkAll(fmt.Sprintf("after crash+reload #%d", oi), op.Msg, op.Shards)
			case "concurrent":
				var wg sync.WaitGroup
				readies := make([]bool, len(op.Shards))
				errs := make([]error, len(op.Shards))
				for si, sh := range op.Shards {
					wg.Add(1)
					go func(si int, sh string) {
						defer wg.Done()
						readies[si], errs[si], _ = report(op.Msg, sh)
					}(si, sh)
				}
				wg.Wait()
				nReady := 0
				for si := range op.Shards {
					if errs[si] != nil {
						fail("C17/update-error-without-fault", errs[si].Error())
					}
					if readies[si] {
						nReady++
					}
					applyRef(op.Msg, op.Shards[si])
					hist[op.Msg] = append(hist[op.Msg], "r")
				}
				trace = append(trace, fmt.Sprintf("#%d concurrent %s/%s shards=%v readies=%v", oi, c.Msgs[op.Msg].Task, c.Msgs[op.Msg].ID, op.Shards, readies))
				run.Count("concurrent_joins", 1)
				// all target shards reported: whichever call completed the union must have said ready (at least one, the last)
				if nReady < 1 {
					fail("C17/ready-flag-wrong", fmt.Sprintf("all %d shards of %s/%s reported concurrently, no call returned ready (returns %v)", len(op.Shards), c.Msgs[op.Msg].Task, c.Msgs[op.Msg].ID, readies))
				}
				run.Count("ready_reported", 1)
				checkAll(fmt.Sprintf("after concurrent #%d", oi), -1, nil)
			}
		}
		var caseSig []string
		three := false
		for i, m := range c.Msgs {
			reps := 0
			for _, h := range hist[i] {
				if h == "r" {
					reps++
				}
			}
			if reps >= 2 || (reps >= 1 && len(hist[i]) > reps) {
				caseSig = append(caseSig, fmt.Sprintf("%v/%d/%s", m.Part, len(m.Target), strings.Join(hist[i], "")))
				if len(refSet(i)) >= 3 || reps >= 3 {
					three = true
				}
			}
		}
		if len(caseSig) > 0 {
			sort.Strings(caseSig)
			run.Nontrivial(strings.Join(caseSig, ";"))
		}
		if three {
			run.Count("histories_with_3plus_reports_on_one_msg", 1)
		}
	}
	runC17Real(run)
	run.Rule += " PLUS the real-store part (counters real_store_*): the same implementation on the real meta.EtcdReplicateStore (embedded etcd) with hybrid drop timestamps of today, non-ASCII names and target lists in allocation order; a second instance built on the same store is compared with the first one field by field and must answer a duplicate report alike."
	run.Floor("histories_with_3plus_reports_on_one_msg", 100)
	run.Floor("removals_partition_kind", 20)
	run.Floor("reloads", 50)
	run.Floor("crashes_inside_update", 50)
	run.Floor("ready_reported", 50)
	return run
}
