package main

// C17, real-store part: the same ReplicateMeteImpl on the REAL meta.EtcdReplicateStore (embedded etcd), with the
// field values a live system has: drop timestamps are hybrid timestamps of today (physical ms << 18 | logical,
// about 4.5e17, far above 2^53), names contain non-ASCII characters, target lists are in allocation order (channel
// numbers wrap around the pool and pass one digit). After the reports of a history a second instance is built on
// the same store ("reloading from the store reproduces the in-memory state"): every field of every message of the
// reloaded instance is compared with the first instance's, and the ready answer of a further (duplicate) report
// must be the same on both.

import (
	"context"
	"fmt"
	"os"
	"path/filepath"
	"reflect"
	"time"

	"github.com/zilliztech/milvus-cdc/core/api"
	"github.com/zilliztech/milvus-cdc/core/meta"

	"verifharness/internal/etcdbox"
	"verifharness/internal/vf"
)

func runC17Real(run *vf.Run) {
	dir := filepath.Join(os.TempDir(), fmt.Sprintf("c17-etcd-%d", os.Getpid()))
	box, err := etcdbox.Start(dir)
	if err != nil {
		run.Inconclusive("real-store part: embedded etcd: " + err.Error())
		return
	}
	defer func() { box.Close(); os.RemoveAll(dir) }()
	ctx, cancel := context.WithTimeout(context.Background(), 10*time.Minute)
	defer cancel()
	n := run.Pick(60, 1200)
	for idx := 0; idx < n; idx++ {
		rnd := vf.Rand(run.Seed, "C17-real", idx)
		root := fmt.Sprintf("c17real/%d/%d", run.Seed, idx)
		store, err := meta.NewEtcdReplicateStore([]string{box.Endpoint}, root)
		if err != nil {
			run.Inconclusive("real-store part: store: " + err.Error())
			return
		}
		impl, err := meta.NewReplicateMetaImpl(store)
		if err != nil {
			run.Inconclusive("real-store part: impl: " + err.Error())
			return
		}
		run.Eval(1)
		type rmsg struct {
			c17Msg
			db, coll, part string
			ts             uint64
		}
		var msgs []rmsg
		nm := 1 + rnd.Intn(3)
		for m := 0; m < nm; m++ {
			coll := int64(450000000000000000 + rnd.Int63n(1000))
			shards := 2 + rnd.Intn(5)
			start := rnd.Intn(16)
			var tgt []string
			for s := 0; s < shards; s++ {
				tgt = append(tgt, fmt.Sprintf("by-dev-rootcoord-dml_%d_%dv%d", (start+s)%16, coll, s))
			}
			part := rnd.Intn(2) == 0
			id := api.GetDropCollectionMsgID(coll)
			if part {
				id = api.GetDropPartitionMsgID(coll, coll+1+int64(rnd.Intn(5)))
			}
			// a hybrid timestamp of today with a non-zero logical part
			ts := uint64(1_790_000_000_000+rnd.Int63n(1_000_000_000))<<18 | uint64(rnd.Intn(1<<18))
			names := []string{"db", "数据库", "d-ü"}
			msgs = append(msgs, rmsg{c17Msg{fmt.Sprintf("task%d", m), id, part, tgt}, names[rnd.Intn(3)], "c_" + names[rnd.Intn(3)], "p_" + names[rnd.Intn(3)], ts})
		}
		full := func(im *meta.ReplicateMeteImpl, m rmsg) (any, bool) {
			if m.Part {
				r, err := im.GetTaskDropPartitionMsg(ctx, m.Task, m.ID)
				if err != nil || len(r) == 0 {
					return nil, false
				}
				x := r[0]
				x.Base.ReadyChannels, x.Base.TargetChannels = norm(x.Base.ReadyChannels), norm(x.Base.TargetChannels)
				return x, true
			}
			r, err := im.GetTaskDropCollectionMsg(ctx, m.Task, m.ID)
			if err != nil || len(r) == 0 {
				return nil, false
			}
			x := r[0]
			x.Base.ReadyChannels, x.Base.TargetChannels = norm(x.Base.ReadyChannels), norm(x.Base.TargetChannels)
			return x, true
		}
		report := func(im *meta.ReplicateMeteImpl, m rmsg, shard string) (bool, error) {
			base := api.BaseTaskMsg{TaskID: m.Task, MsgID: m.ID, TargetChannels: append([]string{}, m.Target...), ReadyChannels: []string{shard}}
			if m.Part {
				return im.UpdateTaskDropPartitionMsg(ctx, api.TaskDropPartitionMsg{Base: base, DatabaseName: m.db, CollectionName: m.coll, PartitionName: m.part, DropTS: m.ts})
			}
			return im.UpdateTaskDropCollectionMsg(ctx, api.TaskDropCollectionMsg{Base: base, DatabaseName: m.db, CollectionName: m.coll, DropTS: m.ts})
		}
		bad := false
		fail := func(k, d string) {
			if !bad {
				bad = true
				run.Violate(k, d, map[string]any{"case": idx, "msgs": msgs})
			}
		}
		for _, m := range msgs {
			// all shards but (sometimes) the last, in a seeded order
			order := rnd.Perm(len(m.Target))
			k := len(order)
			if rnd.Intn(3) == 0 {
				k--
			}
			for j := 0; j < k && !bad; j++ {
				ready, err := report(impl, m, m.Target[order[j]])
				if err != nil {
					fail("C17/update-error-without-fault", fmt.Sprintf("real etcd store: %v", err))
					break
				}
				if want := j == len(m.Target)-1; ready != want {
					fail("C17/ready-flag-wrong", fmt.Sprintf("real etcd store: report %d of %d distinct shards of %s/%s (targets %v) answered ready=%v", j+1, len(m.Target), m.Task, m.ID, m.Target, ready))
				}
				run.Count("real_store_reports", 1)
			}
		}
		if bad {
			continue
		}
		store2, err := meta.NewEtcdReplicateStore([]string{box.Endpoint}, root)
		if err != nil {
			run.Inconclusive("real-store part: store: " + err.Error())
			return
		}
		impl2, err := meta.NewReplicateMetaImpl(store2)
		if err != nil {
			fail("C17/reload-does-not-reproduce-memory", "real etcd store: reload failed: "+err.Error())
			continue
		}
		run.Count("real_store_reloads", 1)
		for _, m := range msgs {
			a, aok := full(impl, m)
			b, bok := full(impl2, m)
			if aok != bok || !reflect.DeepEqual(a, b) {
				fail("C17/reload-does-not-reproduce-memory", fmt.Sprintf("real etcd store: message %s/%s in memory %+v (present %v), after reloading from the store %+v (present %v)", m.Task, m.ID, a, aok, b, bok))
				break
			}
			if aok {
				run.Count("real_store_messages_compared_field_by_field", 1)
				// a duplicate report is answered alike by both instances
				ra, ea := report(impl, m, m.Target[0])
				rb, eb := report(impl2, m, m.Target[0])
				if ea != nil || eb != nil || ra != rb {
					fail("C17/reload-does-not-reproduce-memory", fmt.Sprintf("real etcd store: duplicate report on %s/%s answered ready=%v err=%v by the first instance and ready=%v err=%v by the reloaded one", m.Task, m.ID, ra, ea, rb, eb))
					break
				}
			}
		}
		run.Nontrivial(fmt.Sprintf("real/%d", idx))
	}
	run.Floor("real_store_messages_compared_field_by_field", run.Pick(30, 600))
}
