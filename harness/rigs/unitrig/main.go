// unitrig: monitors over small real components (C14 packer, C16 channel mapping, C17 drop-message readiness).
package main

import (
	"flag"
	"fmt"
	"os"

	"github.com/sasha-s/go-deadlock"

	"verifharness/internal/vf"
)

func main() {
	prop := flag.String("prop", "", "property id")
	tier := flag.String("tier", "quick", "quick|thorough")
	flag.Parse()
	deadlock.Opts.Disable = true
	var run *vf.Run
	switch *prop {
	case "C17":
		run = runC17(*tier)
	case "C14":
		run = runC14(*tier)
	case "C16":
		run = runC16(*tier)
	default:
		fmt.Fprintln(os.Stderr, "unitrig: unknown property", *prop)
		os.Exit(64)
	}
	vf.CollectRaces(run)
	os.Exit(run.Finish(vf.Out()))
}
