// unitrig: monitors over small real components (C14 packer, C16 channel mapping, C17 drop-message readiness).
package main

import (
	"flag"
	"fmt"
	"os"

	"github.com/sasha-s/go-deadlock"

	"verifharness/internal/vf"
)

func main() {
	prop := flag.String("prop", "", "property id")
	tier := flag.String("tier", "quick", "quick|thorough")
	flag.Parse()
	deadlock.Opts.Disable = true
	var run *vf.Run
	switch *prop {
	case "C17":
		run = runC17(*tier)
	case "C14":
		run = runC14(*tier)
	case "C16":
		run = runC16(*tier)
	default:
		fmt.Fprintln(os.Stderr, "unitrig: unknown property", *prop)
		os.Exit(64)
	}
	vf.CollectRaces(run)
	if p := os.Getenv("VERIF_MERGE_DUMP"); p != "" && *prop == "C16" {
		// the part on the real channel manager (reader rig, profile C16M) ran first and dumped its Run; both parts
		// decide the same property and share one evidence file
		if err := run.MergePrefixed(p, "manager_"); err != nil {
			run.Inconclusive("the manager part (reader rig) left no result: " + err.Error())
		}
		q := func(a, b int) int {
			if run.Thorough() {
				return b
			}
			return a
		}
		run.Floor("manager_cases_quiescent", q(160, 3200))
		run.Floor("manager_pairs_assigned", q(300, 6000))
		run.Floor("manager_cases_conflicting_pairing", q(20, 400))
		run.Floor("manager_cases_with_waiting_handlers", q(5, 100))
		run.Floor("manager_count_pairs", 12)
		run.Rule += " PLUS the manager part (counters manager_*): the REAL replicateChannelManager is offered 3-10 collections (1-3 shards) through StartReadCollection for 16 channel-count pairs in three placement families (balanced / Milvus-like independent / adversarial, so that handlers wait and channels are forwarded) and three call modes (sequential / mixed / concurrent); the assignment is read back under the manager's channel lock after every call and until stable, and judged for function-ness, stability, load bound, one-to-one with equal counts, handler/pair agreement and (balanced placements only) totality."
		run.Assumptions = append(run.Assumptions, "manager part: hook VerifChannelAssignment reads ChannelMapping.CheckKeyExist over all channel names under the manager's channel lock; judged facts are monotone, so a late snapshot can miss but not invent a violation; no data flows in this part (the forwardMsg path that offers a channel without a reservation is exercised by the C01/C02 profile)")
	}
	os.Exit(run.Finish(vf.Out()))
}
