package main

// C14 — the write batcher delivers every buffered pack exactly once, in order.
//
// Real code: msgpacker.Packer + the process-global MemoryProtector. Because GetMemoryChecker fixes the
// budget once per process, the parent spawns one child process per memory-limit configuration; each child
// runs many generated histories with 1-4 packers (one goroutine each, like the server's per-channel
// goroutines) sharing the budget.
//
// Oracle (conservation): per packer, the concatenation of all callback batches (Receive and ClearMsgs) ==
// the sequence of packs handed in — exactly once, same order; a callback error is the error returned;
// a batch slice handed to the callback is not modified afterwards; after Receive returns the buffer holds
// fewer than MaxCount packs and no over-size pack; at every barrier where all goroutines are stopped,
// VerifMemoryCurrent() == Σ sizes still buffered (harness bookkeeping from the callbacks), and == 0
// when all packers are empty.

import (
	"errors"
	"flag"
	"fmt"
	"os"
	"os/exec"
	"path/filepath"
	"strings"
	"sync"

	"github.com/milvus-io/milvus-proto/go-api/v2/commonpb"
	"github.com/milvus-io/milvus-proto/go-api/v2/msgpb"
	"github.com/milvus-io/milvus/pkg/mq/msgstream"

	"github.com/zilliztech/milvus-cdc/core/api"
	"github.com/zilliztech/milvus-cdc/server/msgpacker"

	"verifharness/internal/vf"
)

var (
	c14MemLimit = flag.Int("c14-memlimit", 0, "child mode: memory limit in KiB")
	c14Out      = flag.String("c14-out", "", "child mode: dump file")
	c14From     = flag.Int("c14-from", 0, "child mode: first case index")
	c14N        = flag.Int("c14-n", 0, "child mode: number of cases")
)

func runC14(tier string) *vf.Run {
	run := vf.NewRun("C14", tier, "exploration")
	run.Rule = "case = generated history: 1-4 packers (one goroutine each) sharing the process-global memory budget; thresholds drawn from count {1,2,3,10}, max message size {1,4,64} KiB, timer {1 ms, 1 h}, memory limit {1,8,4096} KiB (one child process per limit); pack payload sizes from 0-message packs to > max size; callback failing at planned flushes; rounds separated by barriers at which the global counter is compared with the sum of buffered sizes. Non-trivial = >= 2 flushes and >= 1 barrier check with bytes buffered; distinct by (thresholds, #packers, flush trigger sequence prefix)."
	run.Assumptions = []string{
		"pack size is what the packer itself uses: sum of TsMsg.Size() of the pack's messages",
		"which threshold triggers a flush is not prescribed (age trigger is wall-clock); only exactly-once, order, error propagation, bounded buffer and counter conservation are asserted",
	}
	if *c14Out != "" {
		c14Child(run)
		if err := run.Dump(*c14Out); err != nil {
			fmt.Fprintln(os.Stderr, "dump:", err)
			os.Exit(70)
		}
		os.Exit(0)
	}
	total := run.Pick(600, 24000)
	limits := []int{1, 8, 4096}
	per := total / len(limits)
	scratch := os.Getenv("VERIF_SCRATCH")
	if scratch == "" {
		scratch = os.TempDir()
	}
	var wg sync.WaitGroup
	nChunks := 4
	for li, lim := range limits {
		for ch := 0; ch < nChunks; ch++ {
			wg.Add(1)
			go func(li, lim, ch int) {
				defer wg.Done()
				out := filepath.Join(scratch, fmt.Sprintf("c14-%d-%d.json", lim, ch))
				n := per / nChunks
				cmd := exec.Command(os.Args[0], "-prop", "C14", "-tier", tier,
					"-c14-memlimit", fmt.Sprint(lim), "-c14-out", out,
					"-c14-from", fmt.Sprint(li*per+ch*n), "-c14-n", fmt.Sprint(n))
				cmd.Stdout, cmd.Stderr = os.Stdout, os.Stderr
				if err := cmd.Run(); err != nil {
					run.Inconclusive(fmt.Sprintf("child memlimit=%d chunk=%d: %v", lim, ch, err))
					return
				}
				if err := run.Merge(out); err != nil {
					run.Inconclusive(fmt.Sprintf("child memlimit=%d chunk=%d: merge: %v", lim, ch, err))
				}
			}(li, lim, ch)
		}
	}
	wg.Wait()
	run.Floor("flush_trigger_count", 50)
	run.Floor("flush_trigger_size", 50)
	run.Floor("flush_trigger_memory", 50)
	run.Floor("flush_trigger_age_or_other", 20)
	run.Floor("failing_flushes", 100)
	run.Floor("barrier_checks_with_bytes_buffered", 100)
	run.Floor("all_empty_checks", 100)
	return run
}

type c14Cfg struct {
	Packers       int   `json:"packers"`
	MaxCount      int   `json:"max_count"`
	MaxMsgSizeKiB int   `json:"max_msg_size_kib"`
	TimerMs       int   `json:"timer_ms"`
	MemLimitKiB   int   `json:"mem_limit_kib"`
	Rounds        int   `json:"rounds"`
	Sizes         [][]int `json:"sizes"`    // per packer: payload bytes per pack (-1 = pack without messages)
	FailAt        [][]int `json:"fail_at"`  // per packer: flush ordinals (0-based) at which the callback fails
	ClearAt       [][]int `json:"clear_at"` // per packer: pack ordinals after which ClearMsgs is called (channel shutdown + restart of the goroutine)
}

func mkPack(id int64, payload int) *api.ReplicateMsg {
	pack := &msgstream.MsgPack{}
	if payload >= 0 {
		ins := &msgstream.InsertMsg{
			BaseMsg: msgstream.BaseMsg{BeginTimestamp: 1, EndTimestamp: 1, HashValues: []uint32{0}},
			InsertRequest: &msgpb.InsertRequest{
				Base:           &commonpb.MsgBase{MsgType: commonpb.MsgType_Insert, MsgID: id},
				CollectionName: strings.Repeat("x", payload),
			},
		}
		pack.Msgs = append(pack.Msgs, ins)
	}
	return &api.ReplicateMsg{CollectionID: id, MsgPack: pack}
}

func packSize(m *api.ReplicateMsg) int {
	s := 0
	for _, x := range m.MsgPack.Msgs {
		s += x.Size()
	}
	return s
}

func c14Child(run *vf.Run) {
	lim := *c14MemLimit
	for idx := *c14From; idx < *c14From+*c14N; idx++ {
		rnd := vf.Rand(run.Seed, "C14", idx)
		cfg := c14Cfg{
			Packers:       1 + rnd.Intn(4),
			MaxCount:      []int{1, 2, 3, 10}[rnd.Intn(4)],
			MaxMsgSizeKiB: []int{1, 4, 64}[rnd.Intn(3)],
			TimerMs:       []int{1, 3600000}[rnd.Intn(2)],
			MemLimitKiB:   lim,
			Rounds:        2 + rnd.Intn(4),
		}
		perRound := 3 + rnd.Intn(8)
		for p := 0; p < cfg.Packers; p++ {
			var sz, fa, ca []int
			for i := 0; i < cfg.Rounds*perRound; i++ {
				switch q := rnd.Intn(20); {
				case q == 0:
					sz = append(sz, -1)
				case q < 10:
					sz = append(sz, rnd.Intn(200))
				case q < 16:
					sz = append(sz, 500+rnd.Intn(3000))
				case q < 19:
					sz = append(sz, cfg.MaxMsgSizeKiB*1024+rnd.Intn(2000))
				default:
					sz = append(sz, 70000)
				}
				if rnd.Intn(12) == 0 {
					fa = append(fa, rnd.Intn(1+i))
				}
				if rnd.Intn(25) == 0 {
					ca = append(ca, i)
				}
			}
			cfg.Sizes = append(cfg.Sizes, sz)
			cfg.FailAt = append(cfg.FailAt, fa)
			cfg.ClearAt = append(cfg.ClearAt, ca)
		}
		run.Eval(1)
		if idx == *c14From && *c14From%1000 == 0 {
			small := cfg
			run.Sample(small)
		}
		c14Case(run, idx, cfg, perRound)
	}
}

type c14Packer struct {
	p        *msgpacker.Packer
	handed   []int64 // ids in hand-in order
	got      []int64 // ids in callback order
	batches  [][]*api.ReplicateMsg
	batchIDs [][]int64
	buffered []int // sizes buffered right now (harness bookkeeping)
	flushes  int
	triggers []string
}

func c14Case(run *vf.Run, idx int, cfg c14Cfg, perRound int) {
	pcfg := msgpacker.PackerConfig{TimerInterval: cfg.TimerMs, MaxCount: cfg.MaxCount, MaxMsgSize: cfg.MaxMsgSizeKiB, MemoryLimit: cfg.MemLimitKiB}
	ps := make([]*c14Packer, cfg.Packers)
	for i := range ps {
		ps[i] = &c14Packer{p: msgpacker.NewPacker(pcfg)}
	}
	if got := msgpacker.VerifMemoryMax(); got != cfg.MemLimitKiB*1024 {
		run.Inconclusive(fmt.Sprintf("case %d: memory budget is %d, wanted %d KiB", idx, got, cfg.MemLimitKiB))
		return
	}
	var vmu sync.Mutex
	bad := false
	fail := func(key, desc string) {
		vmu.Lock()
		defer vmu.Unlock()
		if bad {
			return
		}
		bad = true
		run.Violate(key, desc, map[string]any{"case": idx, "config": cfg})
	}
	if c := msgpacker.VerifMemoryCurrent(); c != 0 {
		fail("C14/global-counter-not-zero-when-all-empty", fmt.Sprintf("before the case, all packers new/empty, counter=%d", c))
		return
	}
	failErr := errors.New("injected callback failure")
	nontrivialBarrier := false
	for round := 0; round < cfg.Rounds; round++ {
		var wg sync.WaitGroup
		for pi := range ps {
			wg.Add(1)
			go func(pi int) {
				defer wg.Done()
				pk := ps[pi]
				for k := round * perRound; k < (round+1)*perRound; k++ {
					id := int64(pi)*1_000_000 + int64(k)
					msg := mkPack(id, cfg.Sizes[pi][k])
					size := packSize(msg)
					pk.handed = append(pk.handed, id)
					pk.buffered = append(pk.buffered, size)
					called := 0
					var want error
					handler := func(b []*api.ReplicateMsg) error {
						called++
						ids := make([]int64, len(b))
						for i, m := range b {
							ids[i] = m.CollectionID
						}
						pk.got = append(pk.got, ids...)
						pk.batches = append(pk.batches, b)
						pk.batchIDs = append(pk.batchIDs, ids)
						ord := pk.flushes
						pk.flushes++
						for _, f := range cfg.FailAt[pi] {
							if f == ord {
								want = failErr
								run.Count("failing_flushes", 1)
							}
						}
						return want
					}
					nBefore := len(pk.buffered)
					err := pk.p.Receive(msg, handler)
					if called > 1 {
						fail("C14/callback-called-twice-in-one-receive", fmt.Sprintf("packer %d pack %d: %d callback calls", pi, k, called))
					}
					if called == 1 {
						if err != want {
							fail("C14/callback-error-not-returned", fmt.Sprintf("packer %d pack %d: callback returned %v, Receive returned %v", pi, k, want, err))
						}
						trig := "age_or_other"
						switch {
						case nBefore >= cfg.MaxCount:
							trig = "count"
						case size > cfg.MaxMsgSizeKiB*1024:
							trig = "size"
						case cfg.TimerMs > 1000 && cfg.MemLimitKiB < 4096:
							trig = "memory"
						}
						run.Count("flush_trigger_"+trig, 1)
						pk.triggers = append(pk.triggers, trig)
						pk.buffered = pk.buffered[:0]
					} else {
						if err != nil {
							fail("C14/error-without-callback", fmt.Sprintf("packer %d pack %d: Receive returned %v without calling the callback", pi, k, err))
						}
						if len(pk.buffered) >= cfg.MaxCount {
							fail("C14/count-threshold-reached-without-flush", fmt.Sprintf("packer %d: %d packs buffered after Receive, MaxCount=%d", pi, len(pk.buffered), cfg.MaxCount))
						}
						if size > cfg.MaxMsgSizeKiB*1024 {
							fail("C14/oversize-pack-not-flushed", fmt.Sprintf("packer %d pack %d: size %d > max %d still buffered", pi, k, size, cfg.MaxMsgSizeKiB*1024))
						}
					}
					for _, c := range cfg.ClearAt[pi] {
						if c == k {
							called = 0
							want = nil
							err := pk.p.ClearMsgs(handler)
							if called != 1 || err != want {
								fail("C14/clear-callback-or-error-wrong", fmt.Sprintf("packer %d ClearMsgs: callback calls=%d returned=%v want=%v", pi, called, err, want))
							}
							pk.buffered = pk.buffered[:0]
							run.Count("clear_calls_midway", 1)
						}
					}
				}
			}(pi)
		}
		wg.Wait()
		// barrier: nobody is inside the packer
		sum := 0
		for _, pk := range ps {
			for _, s := range pk.buffered {
				sum += s
			}
		}
		cur := msgpacker.VerifMemoryCurrent()
		if cur != sum {
			fail("C14/global-counter-differs-from-buffered-bytes", fmt.Sprintf("round %d barrier: counter=%d, sum of buffered pack sizes=%d", round, cur, sum))
		}
		if sum > 0 {
			run.Count("barrier_checks_with_bytes_buffered", 1)
			nontrivialBarrier = true
		} else {
			run.Count("all_empty_checks", 1)
		}
	}
	// channel shutdown: final flush
	for pi, pk := range ps {
		called := 0
		err := pk.p.ClearMsgs(func(b []*api.ReplicateMsg) error {
			called++
			for _, m := range b {
				pk.got = append(pk.got, m.CollectionID)
			}
			return nil
		})
		if called != 1 || err != nil {
			fail("C14/clear-callback-or-error-wrong", fmt.Sprintf("packer %d final ClearMsgs: calls=%d err=%v", pi, called, err))
		}
		pk.buffered = nil
	}
	if cur := msgpacker.VerifMemoryCurrent(); cur != 0 {
		fail("C14/global-counter-not-zero-when-all-empty", fmt.Sprintf("after final ClearMsgs of all %d packers counter=%d", len(ps), cur))
	}
	run.Count("all_empty_checks", 1)
	flushes := 0
	var trigSig []string
	for pi, pk := range ps {
		flushes += pk.flushes
		if len(pk.got) != len(pk.handed) {
			fail("C14/packs-lost-or-duplicated", fmt.Sprintf("packer %d: handed %d packs, callback saw %d: handed=%v got=%v", pi, len(pk.handed), len(pk.got), pk.handed, pk.got))
		} else {
			for i := range pk.got {
				if pk.got[i] != pk.handed[i] {
					fail("C14/packs-out-of-order", fmt.Sprintf("packer %d position %d: handed %d, delivered %d", pi, i, pk.handed[i], pk.got[i]))
					break
				}
			}
		}
		for bi, b := range pk.batches {
			if len(b) != len(pk.batchIDs[bi]) {
				fail("C14/batch-mutated-after-callback", fmt.Sprintf("packer %d batch %d", pi, bi))
				continue
			}
			for i := range b {
				if b[i] == nil || b[i].CollectionID != pk.batchIDs[bi][i] {
					fail("C14/batch-mutated-after-callback", fmt.Sprintf("packer %d batch %d element %d changed after the callback returned", pi, bi, i))
					break
				}
			}
		}
		t := pk.triggers
		if len(t) > 6 {
			t = t[:6]
		}
		trigSig = append(trigSig, strings.Join(t, "."))
	}
	if flushes >= 2 && nontrivialBarrier {
		run.Nontrivial(fmt.Sprintf("%d/%d/%d/%d/%d/%s", cfg.Packers, cfg.MaxCount, cfg.MaxMsgSizeKiB, cfg.TimerMs, cfg.MemLimitKiB, strings.Join(trigSig, "|")))
	}
}

