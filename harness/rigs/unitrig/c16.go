package main

// C16 — channel-count mapping is balanced, total and stable.
//
// Real code: util.ChannelMapping, driven through its public methods by a client that follows the manager's
// protocol (replicateChannelManager.startReadChannel / waitChannel / forwardChannel):
//   key := GetMapKey(s,t); if key has no handler yet: CheckKeyNotExist(s,t) ? AddKeyValue(s,t) : wait;
//   if key has a handler and !CheckKeyExist(s,t): offer the other-side channel to a waiting handler
//   (at most AverageCnt offers per channel), which takes it unless CheckKeyExist says it already has it.
// (The end-to-end variant with the real manager and SourceChannelNum != TargetChannelNum is part of the
// reader rig's C02 runs.)
//
// Oracle, evaluated on the mapping as observed through CheckKeyExist over all (source, target) pairs after
// every step: assignment is a function of the key; an assignment never changes once observed; no channel of
// the smaller side serves more than ceil(larger/smaller) of the other side; equal counts => injective; and (totality)
// when the larger side is offered round-robin over the smaller side every offered channel gets its assignment.

import (
	"fmt"
	"sort"
	"strings"

	"github.com/zilliztech/milvus-cdc/core/util"

	"verifharness/internal/vf"
)

type c16Offer struct{ S, T int }

func runC16(tier string) *vf.Run {
	run := vf.NewRun("C16", tier, "exploration")
	run.Rule = "case = (source count, target count) in 1..8 x 1..8 (all 64 pairs enumerated) x an order of offered (source pchannel, target pchannel) pairs (every permutation for <= 4 distinct pairs, seeded random multisets otherwise); after every offer the whole assignment is read back through CheckKeyExist over all pairs. Non-trivial = at least 2 assignments made and at least one offer refused/waited or counts differ; distinct by (counts, offer order)."
	run.Assumptions = []string{
		"the client protocol around ChannelMapping (wait / forward of a free channel) is the harness' rendering of replicateChannelManager.startReadChannel/waitChannel/forwardChannel; the real manager is exercised with unequal channel counts in the reader rig",
	}
	orders := run.Pick(25, 600)
	for sc := 1; sc <= 8; sc++ {
		for tc := 1; tc <= 8; tc++ {
			run.Distinct("count_pairs", fmt.Sprintf("%d/%d", sc, tc))
			for o := 0; o < orders; o++ {
				rnd := vf.Rand(run.Seed, fmt.Sprintf("C16/%d/%d", sc, tc), o)
				n := 1 + rnd.Intn(3*(sc+tc))
				var offers []c16Offer
				for i := 0; i < n; i++ {
					offers = append(offers, c16Offer{rnd.Intn(sc), rnd.Intn(tc)})
				}
				c16Case(run, sc, tc, offers)
			}
			// totality: the larger side offered round-robin over the smaller side, in several orders
			for o := 0; o < run.Pick(3, 40); o++ {
				rnd := vf.Rand(run.Seed, fmt.Sprintf("C16t/%d/%d", sc, tc), o)
				larger := sc
				if tc > sc {
					larger = tc
				}
				var offers []c16Offer
				for _, i := range rnd.Perm(larger) {
					if sc >= tc {
						offers = append(offers, c16Offer{i, i % tc})
					} else {
						offers = append(offers, c16Offer{i % sc, i})
					}
				}
				c16Case(run, sc, tc, offers, true)
			}
			// all permutations of up to 4 distinct pairs
			if sc*tc >= 2 {
				rnd := vf.Rand(run.Seed, fmt.Sprintf("C16p/%d/%d", sc, tc), 0)
				var pairs []c16Offer
				seen := map[c16Offer]bool{}
				for len(pairs) < 4 && len(pairs) < sc*tc {
					p := c16Offer{rnd.Intn(sc), rnd.Intn(tc)}
					if !seen[p] {
						seen[p] = true
						pairs = append(pairs, p)
					}
				}
				permute(pairs, func(p []c16Offer) { c16Case(run, sc, tc, append([]c16Offer{}, p...)) })
			}
		}
	}
	run.Floor("count_pairs", 64)
	run.Floor("waits", 100)
	run.Floor("forwards_taken", 50)
	run.Floor("balanced_total_cases", 64)
	run.Exhaustive = false
	return run
}

func permute(a []c16Offer, f func([]c16Offer)) {
	var rec func(int)
	rec = func(k int) {
		if k == len(a) {
			f(a)
			return
		}
		for i := k; i < len(a); i++ {
			a[k], a[i] = a[i], a[k]
			rec(k + 1)
			a[k], a[i] = a[i], a[k]
		}
	}
	rec(0)
}

func c16Case(run *vf.Run, sc, tc int, offers []c16Offer, expectTotal ...bool) {
	run.Eval(1)
	m := util.NewChannelMapping(sc, tc)
	sname := func(i int) string { return fmt.Sprintf("src-dml_%d", i) }
	tname := func(i int) string { return fmt.Sprintf("dst-dml_%d", i) }
	type waiter struct {
		s, t string // the pair the waiting handler was created with
	}
	handlers := map[string]bool{}
	var waiting []waiter
	forwardCnt := map[string]int{}
	assigned := map[string]string{} // key -> value as first observed
	var trace []string
	bad := false
	fail := func(key, desc string) {
		if bad {
			return
		}
		bad = true
		run.Violate(key, desc, map[string]any{"source_count": sc, "target_count": tc, "offers": offers, "trace": trace})
	}
	larger, smaller := sc, tc
	if tc > sc {
		larger, smaller = tc, sc
	}
	bound := (larger + smaller - 1) / smaller
	observe := func(when string) {
		// read the whole relation back through the public predicate
		cur := map[string][]string{}
		for s := 0; s < sc; s++ {
			for t := 0; t < tc; t++ {
				if m.CheckKeyExist(sname(s), tname(t)) {
					k := m.GetMapKey(sname(s), tname(t))
					cur[k] = append(cur[k], m.GetMapValue(sname(s), tname(t)))
				}
			}
		}
		load := map[string]int{}
		for k, vs := range cur {
			if len(vs) != 1 {
				fail("C16/key-assigned-to-several-channels", fmt.Sprintf("%s: %s -> %v", when, k, vs))
				continue
			}
			if old, ok := assigned[k]; ok && old != vs[0] {
				fail("C16/assignment-changed", fmt.Sprintf("%s: %s was %s, now %s", when, k, old, vs[0]))
			}
			assigned[k] = vs[0]
			load[vs[0]]++
		}
		for k := range assigned {
			if _, ok := cur[k]; !ok {
				fail("C16/assignment-disappeared", fmt.Sprintf("%s: %s -> %s no longer present", when, k, assigned[k]))
			}
		}
		for v, n := range load {
			lim := bound
			if sc == tc {
				lim = 1
			}
			if n > lim {
				fail("C16/channel-overloaded", fmt.Sprintf("%s: %s serves %d channels of the other side, bound ceil(%d/%d)=%d (counts %d->%d)", when, v, n, larger, smaller, lim, sc, tc))
			}
		}
	}
	waits, fwd := 0, 0
	for i, of := range offers {
		s, t := sname(of.S), tname(of.T)
		key, val := m.GetMapKey(s, t), m.GetMapValue(s, t)
		if !handlers[key] {
			if m.CheckKeyNotExist(s, t) {
				forwardCnt[val]++ // startReadChannel: r.channelForwardMap[channelMappingValue] += 1
				m.AddKeyValue(s, t)
				trace = append(trace, fmt.Sprintf("#%d %s,%s: assign %s->%s", i, s, t, key, val))
			} else {
				waiting = append(waiting, waiter{s, t})
				waits++
				trace = append(trace, fmt.Sprintf("#%d %s,%s: key %s waits (value %s full)", i, s, t, key, val))
			}
			handlers[key] = true
		} else if !m.CheckKeyExist(s, t) {
			// forwardChannel(val)
			if forwardCnt[val] < m.AverageCnt() {
				forwardCnt[val]++
				// waitChannel: first waiter that does not already have it takes it
				for wi, w := range waiting {
					var repeated bool
					var ws, wt string
					if m.UsingSourceKey() {
						repeated = m.CheckKeyExist(w.s, val)
						ws, wt = w.s, val
					} else {
						repeated = m.CheckKeyExist(val, w.t)
						ws, wt = val, w.t
					}
					if repeated {
						continue
					}
					forwardCnt[val]++ // waitChannel: r.channelForwardMap[targetChannel] += 1
					m.AddKeyValue(ws, wt)
					fwd++
					trace = append(trace, fmt.Sprintf("#%d %s,%s: forward %s taken by waiter (%s,%s) => assign %s,%s", i, s, t, val, w.s, w.t, ws, wt))
					waiting = append(waiting[:wi], waiting[wi+1:]...)
					break
				}
			}
		}
		observe(fmt.Sprintf("after offer #%d (%s,%s)", i, s, t))
		if bad {
			return
		}
	}
	run.Count("waits", waits)
	run.Count("forwards_taken", fwd)
	if len(expectTotal) > 0 && expectTotal[0] {
		// balanced offering: every channel of the larger side was offered once, paired round-robin with the smaller
		// side, so no channel of the smaller side was asked to serve more than ceil(larger/smaller): each of the
		// larger-side channels in use must have its assignment now (a refused one can never get it: every channel
		// that refused is full by the code's own quota, so nothing will ever be forwarded)
		run.Count("balanced_total_cases", 1)
		if len(assigned) < larger {
			fail("C16/channel-in-use-never-assigned", fmt.Sprintf("counts %d->%d: %d channels of the larger side were offered round-robin (at most ceil(%d/%d)=%d per channel of the smaller side) but only %d got an assignment; quota of the mapping = %d", sc, tc, larger, larger, smaller, bound, len(assigned), m.AverageCnt()))
			return
		}
	}
	if len(assigned) >= 2 && (waits > 0 || sc != tc) {
		var ks []string
		for _, o := range offers {
			ks = append(ks, fmt.Sprintf("%d:%d", o.S, o.T))
		}
		run.Nontrivial(fmt.Sprintf("%d/%d/%s", sc, tc, strings.Join(ks, ",")))
		if run.Get("samples_taken") < 3 && waits > 0 && fwd > 0 {
			run.Count("samples_taken", 1)
			keys := make([]string, 0, len(assigned))
			for k, v := range assigned {
				keys = append(keys, k+"->"+v)
			}
			sort.Strings(keys)
			run.Sample(map[string]any{"source_count": sc, "target_count": tc, "trace": trace, "final_assignment": keys})
		}
	}
}
