package main

// Trusted fakes around the real reader.replicateChannelManager:
//   - fakeDispatcher: msgdispatcher.Client. One unbuffered channel per registered source vchannel, fed by a
//     per-target sender goroutine from a FIFO; packs are cut per source pchannel and split per vchannel the way
//     Milvus' dispatcher does (shared Start/EndPositions slices, shared non-DML message objects).
//   - fakeTarget: api.TargetAPI over the generated downstream catalog (collections/partitions become visible
//     when the rig's event consumer "applies" a create event, like the writer would).
//   - fakeMetaOp: api.MetaOp (database lookup by source collection id).
//   - stubFactory: msgstream.Factory whose streams only satisfy CheckConnection.
//   - memStore: api.ReplicateStore under the real meta.ReplicateMeteImpl.

import (
	"context"
	"encoding/json"
	"errors"
	"fmt"
	"sort"
	"strings"
	"sync"
	"sync/atomic"
	"time"

	"github.com/milvus-io/milvus/pkg/mq/common"
	"github.com/milvus-io/milvus/pkg/mq/msgdispatcher"
	"github.com/milvus-io/milvus/pkg/mq/msgstream"

	"github.com/zilliztech/milvus-cdc/core/api"
	"github.com/zilliztech/milvus-cdc/core/model"
)

// ---------------- dispatcher ----------------

type target struct {
	vchannel string
	ch       chan *msgstream.MsgPack
	mu       sync.Mutex
	queue    []*fedRec
	wake     chan struct{}
	closed   chan struct{}
	once     sync.Once
	seek     *msgstream.MsgPosition
}

type fakeDispatcher struct {
	rt      *caseRT
	mu      sync.Mutex
	targets map[string]*target // by source vchannel
	regs    map[string]int     // number of Register calls per vchannel
}

func newFakeDispatcher(rt *caseRT) *fakeDispatcher {
	return &fakeDispatcher{rt: rt, targets: map[string]*target{}, regs: map[string]int{}}
}

func (d *fakeDispatcher) Register(ctx context.Context, cfg *msgdispatcher.StreamConfig) (<-chan *msgdispatcher.MsgPack, error) {
	if ms := d.rt.c.RegDelayMs[cfg.VChannel]; ms > 0 {
		// a slow registration (schedule perturbation only: no verdict depends on it)
		time.Sleep(time.Duration(ms) * time.Millisecond)
	}
	d.mu.Lock()
	defer d.mu.Unlock()
	d.regs[cfg.VChannel]++
	d.rt.log(evt{Kind: "register", V: cfg.VChannel, N: d.regs[cfg.VChannel], SeekTs: cfg.Pos.GetTimestamp()})
	if old, ok := d.targets[cfg.VChannel]; ok {
		// a second registration of a live vchannel: Milvus' client returns an error for a duplicate vchannel
		_ = old
		return nil, errors.New("vchannel already registered: " + cfg.VChannel)
	}
	t := &target{vchannel: cfg.VChannel, ch: make(chan *msgstream.MsgPack), wake: make(chan struct{}, 1), closed: make(chan struct{}), seek: cfg.Pos}
	d.targets[cfg.VChannel] = t
	go d.sender(t)
	d.rt.signalReg(cfg.VChannel)
	return t.ch, nil
}

func (d *fakeDispatcher) sender(t *target) {
	for {
		t.mu.Lock()
		var rec *fedRec
		if len(t.queue) > 0 {
			rec = t.queue[0]
			t.queue = t.queue[1:]
		}
		t.mu.Unlock()
		if rec == nil {
			select {
			case <-t.wake:
				continue
			case <-t.closed:
				d.dropQueue(t)
				return
			}
		}
		rec.fedCall = d.rt.tick()
		d.rt.log(evt{Kind: "feed", V: t.vchannel, P: rec.p, Idx: rec.idx, Coll: rec.collIdx, Clock: rec.fedCall})
		select {
		case t.ch <- rec.pack:
			rec.fedRet = d.rt.tick()
		case <-t.closed:
			rec.skip("target closed before the pack was taken")
			d.dropQueue(t)
			return
		}
	}
}

func (d *fakeDispatcher) dropQueue(t *target) {
	t.mu.Lock()
	q := t.queue
	t.queue = nil
	t.mu.Unlock()
	for _, r := range q {
		r.skip("target closed")
	}
}

func (d *fakeDispatcher) push(t *target, rec *fedRec) {
	select {
	case <-t.closed:
		rec.skip("target closed")
		return
	default:
	}
	t.mu.Lock()
	t.queue = append(t.queue, rec)
	t.mu.Unlock()
	select {
	case t.wake <- struct{}{}:
	default:
	}
}

func (d *fakeDispatcher) Deregister(vchannel string) {
	d.mu.Lock()
	t, ok := d.targets[vchannel]
	if ok {
		delete(d.targets, vchannel)
	}
	d.mu.Unlock()
	d.rt.log(evt{Kind: "deregister", V: vchannel})
	if ok {
		t.once.Do(func() { close(t.closed) })
	}
}

func (d *fakeDispatcher) Close() {
	d.mu.Lock()
	ts := d.targets
	d.targets = map[string]*target{}
	d.mu.Unlock()
	for _, t := range ts {
		t.once.Do(func() { close(t.closed) })
	}
}

func (d *fakeDispatcher) get(v string) *target {
	d.mu.Lock()
	defer d.mu.Unlock()
	return d.targets[v]
}

func (d *fakeDispatcher) openTargets() []string {
	d.mu.Lock()
	defer d.mu.Unlock()
	var out []string
	for v := range d.targets {
		out = append(out, v)
	}
	sort.Strings(out)
	return out
}

// ---------------- downstream catalog (TargetAPI) ----------------

type dsColl struct {
	db, name   string
	id         int64
	vchannels  []string
	pchannels  []string
	partitions map[string]int64
	visible    bool
}

type fakeTarget struct {
	mu    sync.Mutex
	colls map[string]*dsColl // key db/name
	calls map[string]int
	rt    *caseRT
}

// logLookup records what a lookup of the downstream catalog returned (partition name=id pairs): the recorded
// finding about a refreshed name cache is only possible when such an answer still carried a dropped partition.
func (f *fakeTarget) logLookup(kind, coll string, parts map[string]int64) {
	if f.rt == nil {
		return
	}
	var l []string
	for k, v := range parts {
		l = append(l, fmt.Sprintf("%s=%d", k, v))
	}
	sort.Strings(l)
	f.rt.log(evt{Kind: "target-lookup", Note: kind, Key: coll, Shards: l})
}

func dsKey(db, name string) string {
	if db == "" {
		db = "default"
	}
	return db + "/" + name
}

func (f *fakeTarget) lookupDelay() {
	if f.rt != nil && f.rt.c.TargetDelayUs > 0 {
		time.Sleep(time.Duration(f.rt.rnd.Intn(f.rt.c.TargetDelayUs)) * time.Microsecond)
	}
}

func (f *fakeTarget) GetCollectionInfo(ctx context.Context, collectionName, databaseName string) (*model.CollectionInfo, error) {
	f.lookupDelay()
	f.mu.Lock()
	defer f.mu.Unlock()
	f.calls["GetCollectionInfo"]++
	c, ok := f.colls[dsKey(databaseName, collectionName)]
	if !ok || !c.visible {
		return nil, errors.New("collection not found[collection=" + collectionName + "]")
	}
	parts := make(map[string]int64, len(c.partitions))
	for k, v := range c.partitions {
		parts[k] = v
	}
	f.logLookup("GetCollectionInfo", collectionName, parts)
	return &model.CollectionInfo{
		DatabaseName: databaseName, CollectionID: c.id, CollectionName: collectionName,
		VChannels: append([]string{}, c.vchannels...), PChannels: append([]string{}, c.pchannels...), Partitions: parts,
	}, nil
}

func (f *fakeTarget) GetPartitionInfo(ctx context.Context, collectionName, databaseName string) (*model.CollectionInfo, error) {
	f.lookupDelay()
	f.mu.Lock()
	defer f.mu.Unlock()
	f.calls["GetPartitionInfo"]++
	c, ok := f.colls[dsKey(databaseName, collectionName)]
	if !ok || !c.visible {
		return nil, errors.New("collection not found[collection=" + collectionName + "]")
	}
	parts := make(map[string]int64, len(c.partitions))
	for k, v := range c.partitions {
		parts[k] = v
	}
	f.logLookup("GetPartitionInfo", collectionName, parts)
	return &model.CollectionInfo{Partitions: parts}, nil
}

func (f *fakeTarget) GetDatabaseName(ctx context.Context, collectionName, databaseName string) (string, error) {
	return databaseName, nil
}

// ---------------- MetaOp ----------------

type fakeMetaOp struct {
	api.DefaultMetaOp
	rt *caseRT
}

func (m *fakeMetaOp) GetDatabaseInfoForCollection(ctx context.Context, id int64) model.DatabaseInfo {
	for _, c := range m.rt.c.Colls {
		if c.SrcID == id {
			return model.DatabaseInfo{ID: dbID(c.DB), Name: c.DB}
		}
	}
	return model.DatabaseInfo{}
}

func (m *fakeMetaOp) GetCollectionNameByID(ctx context.Context, id int64) string {
	for _, c := range m.rt.c.Colls {
		if c.SrcID == id {
			return c.Name
		}
	}
	return ""
}

func dbID(db string) int64 {
	if db == "" || db == "default" {
		return 1
	}
	return int64(100 + len(db) + int(db[len(db)-1]))
}

// ---------------- stream factory stub (CheckConnection only) ----------------

type stubFactory struct{ down *atomic.Bool }

func (f stubFactory) NewMsgStream(ctx context.Context) (msgstream.MsgStream, error) {
	if f.down != nil && f.down.Load() {
		return nil, errors.New("message queue unreachable (injected)")
	}
	return &stubStream{}, nil
}
func (f stubFactory) NewTtMsgStream(ctx context.Context) (msgstream.MsgStream, error) {
	if f.down != nil && f.down.Load() {
		return nil, errors.New("message queue unreachable (injected)")
	}
	return &stubStream{}, nil
}
func (stubFactory) NewMsgStreamDisposer(ctx context.Context) func([]string, string) error {
	return func([]string, string) error { return nil }
}

type stubStream struct{}

func (*stubStream) Close()                                            {}
func (*stubStream) AsProducer(ctx context.Context, channels []string) {}
func (*stubStream) Produce(context.Context, *msgstream.MsgPack) error { return nil }
func (*stubStream) SetRepackFunc(repackFunc msgstream.RepackFunc)     {}
func (*stubStream) GetProduceChannels() []string                      { return nil }
func (*stubStream) Broadcast(context.Context, *msgstream.MsgPack) (map[string][]msgstream.MessageID, error) {
	return nil, nil
}
func (*stubStream) AsConsumer(ctx context.Context, channels []string, subName string, position common.SubscriptionInitialPosition) error {
	return nil
}
func (*stubStream) Chan() <-chan *msgstream.ConsumeMsgPack                { return nil }
func (*stubStream) GetUnmarshalDispatcher() msgstream.UnmarshalDispatcher { return nil }
func (*stubStream) Seek(ctx context.Context, msgPositions []*msgstream.MsgPosition, includeCurrentMsg bool) error {
	return nil
}
func (*stubStream) GetLatestMsgID(channel string) (msgstream.MessageID, error) { return nil, nil }
func (*stubStream) CheckTopicValid(channel string) error                       { return nil }
func (*stubStream) ForceEnableProduce(can bool)                                {}

// ---------------- ReplicateStore ----------------

type memStore struct {
	mu   sync.Mutex
	data map[string][]byte
	rt   *caseRT
}

func (s *memStore) Get(ctx context.Context, key string, withPrefix bool) ([]api.MetaMsg, error) {
	s.mu.Lock()
	defer s.mu.Unlock()
	var keys []string
	for k := range s.data {
		if (withPrefix && strings.HasPrefix(k, key)) || (!withPrefix && k == key) {
			keys = append(keys, k)
		}
	}
	sort.Strings(keys)
	var out []api.MetaMsg
	for _, k := range keys {
		var m api.MetaMsg
		if err := json.Unmarshal(s.data[k], &m); err != nil {
			return nil, err
		}
		out = append(out, m)
	}
	return out, nil
}

func (s *memStore) Put(ctx context.Context, key string, value api.MetaMsg) error {
	b, err := json.Marshal(value)
	if err != nil {
		return err
	}
	s.mu.Lock()
	s.data[key] = b
	s.mu.Unlock()
	if s.rt != nil {
		s.rt.log(evt{Kind: "meta_put", Key: key, N: len(value.Base.ReadyChannels), Shards: append([]string{}, value.Base.ReadyChannels...)})
	}
	return nil
}

func (s *memStore) Remove(ctx context.Context, key string) error {
	s.mu.Lock()
	delete(s.data, key)
	s.mu.Unlock()
	return nil
}
