package main

// C04 — a drop is replayed downstream once, only after every shard reached it; nothing for the object is
// emitted afterwards; stopping never produces a drop; an object dropped upstream while CDC was down still
// gets exactly one drop after restart.

import (
	"fmt"
	"time"

	"github.com/zilliztech/milvus-cdc/core/api"
)

type dropObj struct {
	coll, part int // part < 0: collection drop
	// per shard: the record of the pack that carries the drop message on that shard (nil: never fed)
	shardPack []*fedRec
	scripted  bool // a drop message exists in the scripts for every shard
	atStart   bool // dropped upstream while CDC was down (synthetic drop path)
	seekZero  bool
}

func (o dropObj) name(c *Case) string {
	if o.part < 0 {
		return fmt.Sprintf("collection %s(%d)", c.Colls[o.coll].Name, c.Colls[o.coll].SrcID)
	}
	return fmt.Sprintf("partition %s/%s(%d)", c.Colls[o.coll].Name, c.Colls[o.coll].Parts[o.part].Name, c.Colls[o.coll].Parts[o.part].SrcID)
}

func dropObjects(rt *caseRT) []dropObj {
	c := rt.c
	var out []dropObj
	find := func(ci, si, pi int, kind string) *fedRec {
		sh := c.Colls[ci].Shards[si]
		for idx, pp := range c.Scripts[sh.SrcP] {
			for _, m := range pp.Msgs {
				if m.Kind == kind && m.Coll == ci && m.Shard == si && (kind == kDropColl || m.Part == pi) {
					rt.mu.Lock()
					r := rt.recs[packKey{packUID(c, sh.SrcP, idx), c.Colls[ci].SrcID}]
					rt.mu.Unlock()
					if r == nil {
						return &fedRec{skipped: true, p: sh.SrcP, idx: idx, collIdx: ci, shardIdx: si}
					}
					return r
				}
			}
		}
		return nil
	}
	for ci, col := range c.Colls {
		o := dropObj{coll: ci, part: -1, scripted: true, atStart: col.DroppedAtStart, seekZero: col.SeekTs == 0}
		for si := range col.Shards {
			r := find(ci, si, -1, kDropColl)
			if r == nil {
				o.scripted = false
			}
			o.shardPack = append(o.shardPack, r)
		}
		if o.scripted || o.atStart {
			out = append(out, o)
		}
		for pi := 1; pi < len(col.Parts); pi++ {
			po := dropObj{coll: ci, part: pi, scripted: true, atStart: col.Parts[pi].DroppedAtStart, seekZero: col.SeekTs == 0}
			for si := range col.Shards {
				r := find(ci, si, pi, kDropPart)
				if r == nil {
					po.scripted = false
				}
				po.shardPack = append(po.shardPack, r)
			}
			if po.scripted || po.atStart {
				out = append(out, po)
			}
		}
	}
	return out
}

type c04Stats struct {
	events, objects, racing, stops, atStart, seekZeroNoEvent, trailing int
	orders                                                  map[string]struct{}
	shardCounts                                             map[int]int
}

// waitExpectedDrops: after pack quiescence, the barrier goroutines may still be delivering. An object is
// "expected" when every shard's drop pack was processed (or it was dropped at start with a non-zero seek
// time). Waits (watchdog, generous) until every expected object has at least one event.
func waitExpectedDrops(rt *caseRT, objs []dropObj) {
	deadline := time.Now().Add(30 * time.Second)
	for {
		missing := 0
		for _, o := range objs {
			if !expectedEvent(rt, o) {
				continue
			}
			if len(eventsFor(rt, o)) == 0 {
				missing++
			}
		}
		if missing == 0 || time.Now().After(deadline) {
			// let an erroneous second event show up as well
			time.Sleep(30 * time.Millisecond)
			return
		}
		time.Sleep(10 * time.Millisecond)
	}
}

func collStopped(rt *caseRT, ci int) (bool, int64) {
	rt.mu.Lock()
	defer rt.mu.Unlock()
	for _, e := range rt.events {
		if e.Kind == "stop-begin" && e.Coll == ci {
			return true, e.Clock
		}
	}
	return false, 0
}

func expectedEvent(rt *caseRT, o dropObj) bool {
	if stopped, _ := collStopped(rt, o.coll); stopped {
		return false
	}
	if o.atStart {
		if o.part >= 0 && (rt.c.Colls[o.coll].DroppedAtStart || collDropEventBefore(rt, o)) {
			return false // the collection's own drop covers its partitions
		}
		return !o.seekZero
	}
	if !o.scripted {
		return false
	}
	for _, r := range o.shardPack {
		if r == nil || r.skipped || r.enterT == 0 || !r.isFinished() {
			return false
		}
	}
	// a partition drop needs the partition to have been registered (AddPartition) and the collection not dropped first
	return true
}

func eventsFor(rt *caseRT, o dropObj) []apiEv {
	c := rt.c
	rt.mu.Lock()
	defer rt.mu.Unlock()
	var out []apiEv
	for _, e := range rt.apiEvs {
		if o.part < 0 && e.Type == int(api.ReplicateDropCollection) && e.CollID == c.Colls[o.coll].SrcID {
			out = append(out, e)
		}
		if o.part >= 0 && e.Type == int(api.ReplicateDropPartition) && e.CollID == c.Colls[o.coll].SrcID && e.PartID == c.Colls[o.coll].Parts[o.part].SrcID {
			out = append(out, e)
		}
	}
	return out
}

func checkC04(rt *caseRT, st *c04Stats) []vio {
	c := rt.c
	var vs []vio
	add := func(k, d string) { vs = append(vs, vio{k, d}) }
	objs := dropObjects(rt)
	waitExpectedDrops(rt, objs)
	// step clocks
	stepCall, stepRet := map[int]int64{}, map[int]int64{}
	rt.mu.Lock()
	for _, e := range rt.events {
		if e.Kind == "step-call" {
			stepCall[e.Step] = e.Clock
		}
		if e.Kind == "step-ret" {
			stepRet[e.Step] = e.Clock
		}
	}
	firstEnter := map[string]int64{}
	for _, r := range rt.allRecs {
		if r.enterT != 0 {
			if f, ok := firstEnter[r.srcV]; !ok || r.enterT < f {
				firstEnter[r.srcV] = r.enterT
			}
		}
	}
	rt.mu.Unlock()
	// rows written behind the drop message of their own object (same shard, same pack, later timestamp)
	rt.mu.Lock()
	for _, ep := range rt.emitted {
		for _, m := range ep.Msgs {
			if sp, ok := rt.msgSpec[m.UID]; ok && sp.AfterDrop {
				add("C04/data-of-dropped-object-emitted-after-its-drop-message", fmt.Sprintf("uid=%d (%s, collection %s partition index %d, shard %d) was written behind the drop message of its object in the same pack and was emitted", m.UID, sp.Kind, c.Colls[sp.Coll].Name, sp.Part, sp.Shard))
			}
		}
	}
	for _, sp := range rt.msgSpec {
		if sp.AfterDrop {
			st.trailing++
		}
	}
	rt.mu.Unlock()
	known := map[string]bool{}
	for _, o := range objs {
		known[o.name(c)] = true
		st.objects++
		st.shardCounts[len(o.shardPack)]++
		evs := eventsFor(rt, o)
		st.events += len(evs)
		col := c.Colls[o.coll]
		stopped, stopClock := collStopped(rt, o.coll)
		if len(evs) > 1 {
			add("C04/drop-replayed-more-than-once", fmt.Sprintf("%s: %d drop events at clocks %v", o.name(c), len(evs), clocks(evs)))
		}
		if len(evs) == 0 && expectedEvent(rt, o) {
			if o.atStart {
				add("C04/object-dropped-while-down-gets-no-drop-after-restart", fmt.Sprintf("%s was registered as dropped upstream (seek ts %d) but no drop event arrived (30 s after quiescence)", o.name(c), col.SeekTs))
			} else {
				// a collection drop legitimately swallows the drops of its partitions when it comes first
				if o.part >= 0 && collDropEventBefore(rt, o) {
					continue
				}
				add("C04/drop-never-replayed", fmt.Sprintf("%s: drop message processed on all %d shards, no drop event (30 s after quiescence)", o.name(c), len(o.shardPack)))
			}
		}
		if o.atStart && o.seekZero && len(evs) == 0 {
			st.seekZeroNoEvent++
		}
		for _, e := range evs {
			// names
			wantDB := col.DB
			if e.CollName != col.Name || e.DB != wantDB || (o.part >= 0 && e.PartName != col.Parts[o.part].Name) {
				add("C04/drop-event-names-wrong-object", fmt.Sprintf("%s: event names db=%q collection=%q partition=%q", o.name(c), e.DB, e.CollName, e.PartName))
			}
			wantMsg := api.GetDropCollectionMsgID(col.SrcID)
			if o.part >= 0 {
				wantMsg = api.GetDropPartitionMsgID(col.SrcID, col.Parts[o.part].SrcID)
			}
			if e.MsgID != wantMsg || e.Task != "task-"+rt.rid {
				add("C04/drop-event-id-or-task-wrong", fmt.Sprintf("%s: event msg id %q task %q, expected %q %q", o.name(c), e.MsgID, e.Task, wantMsg, "task-"+rt.rid))
			}
			if stopped && e.Clock > stopClock && !allShardsFedBefore(o, e.Clock) {
				add("C04/stop-produced-a-drop", fmt.Sprintf("%s: drop event at clock %d after StopReadCollection began at %d, drop not read on every shard", o.name(c), e.Clock, stopClock))
				continue
			}
			if o.atStart {
				continue // synthetic path: the drop comes from the catalog, not from the shards' messages
			}
			// only after the drop message was read on every shard
			for si, r := range o.shardPack {
				if r == nil {
					continue
				}
				if r.skipped || r.fedCall == 0 || r.fedCall > e.Clock {
					key := "C04/drop-event-before-every-shard-reached-it"
					desc := fmt.Sprintf("%s: drop event at clock %d, but shard %d (%s) was handed its drop message at %d (0 = never)", o.name(c), e.Clock, si, col.Shards[si].SrcV, r.fedCall)
					if o.part >= 0 {
						// was the partition registered while that shard's stream was still registering?
						for sidx, s := range c.Steps {
							if s.Kind == sAddPart && s.Coll == o.coll && s.Part == o.part {
								fe := firstEnter[col.Shards[si].SrcV]
								if stepRet[sidx] != 0 && (fe == 0 || stepCall[sidx] < fe) {
									key = "C04/partition-barrier-sized-before-all-shards-registered"
									desc += fmt.Sprintf("; AddPartition ran at [%d,%d] before that shard's stream processed its first pack (%d)", stepCall[sidx], stepRet[sidx], fe)
								}
							}
						}
					}
					add(key, desc)
					break
				}
			}
		}
		// nothing for the object is emitted after the drop request
		if len(evs) > 0 && !o.atStart && !c.Colls[o.coll].DroppedAtStart {
			// (for objects dropped while CDC was down the synthetic drop necessarily precedes the replayed data)
			ev := evs[0]
			rt.mu.Lock()
			for _, ep := range rt.emitted {
				// "afterwards" = read after the drop request was issued: packs already read and travelling through
				// the pipeline (forward queue, presend) when the barrier fired belong to "before"
				if ep.Rec == nil || ep.Rec.enterT <= ev.Clock {
					continue
				}
				own := false
				for _, r := range o.shardPack {
					if r == ep.Rec {
						own = true // the pack that carries the object's own drop message (see assumptions)
					}
				}
				if own {
					continue
				}
				for _, m := range ep.Msgs {
					if m.UID < 0 || m.Synth {
						continue
					}
					sp := rt.msgSpec[m.UID]
					if sp.Coll != o.coll {
						continue
					}
					if o.part >= 0 && (sp.Part != o.part || sp.Kind == kDropColl || (sp.Kind == kDelete && sp.NoPartName)) {
						continue
					}
					rt.mu.Unlock()
					add("C04/message-for-dropped-object-emitted-after-drop-request", fmt.Sprintf("%s: drop event at clock %d, message uid=%d kind=%s was read at %d and emitted", o.name(c), ev.Clock, m.UID, sp.Kind, ep.Rec.enterT))
					rt.mu.Lock()
					break
				}
			}
			rt.mu.Unlock()
		}
	}
	// drop events for objects that were never dropped upstream
	rt.mu.Lock()
	evs := append([]apiEv{}, rt.apiEvs...)
	rt.mu.Unlock()
	for _, e := range evs {
		if e.Type != int(api.ReplicateDropCollection) && e.Type != int(api.ReplicateDropPartition) {
			continue
		}
		found := false
		for _, o := range objs {
			col := c.Colls[o.coll]
			if e.CollID == col.SrcID && ((o.part < 0 && e.Type == int(api.ReplicateDropCollection)) || (o.part >= 0 && e.Type == int(api.ReplicateDropPartition) && e.PartID == col.Parts[o.part].SrcID)) {
				found = true
			}
		}
		if !found {
			add("C04/drop-request-for-object-not-dropped-upstream", fmt.Sprintf("event type %d collection %s(%d) partition %s(%d)", e.Type, e.CollName, e.CollID, e.PartName, e.PartID))
		}
	}
	return vs
}

func collDropEventBefore(rt *caseRT, o dropObj) bool {
	rt.mu.Lock()
	defer rt.mu.Unlock()
	for _, e := range rt.apiEvs {
		if e.Type == int(api.ReplicateDropCollection) && e.CollID == rt.c.Colls[o.coll].SrcID {
			return true
		}
	}
	return false
}

func allShardsFedBefore(o dropObj, clock int64) bool {
	for _, r := range o.shardPack {
		if r == nil || r.skipped || r.fedCall == 0 || r.fedCall > clock {
			return false
		}
	}
	return true
}

func clocks(evs []apiEv) []int64 {
	var out []int64
	for _, e := range evs {
		out = append(out, e.Clock)
	}
	return out
}
