package main

// Case description: generated catalog (collections x shards x partitions placed on shared source/downstream
// physical channels), per-source-pchannel pack scripts, driver steps (registrations, stops) and the
// logical dependencies that order them. Everything here is plain data so that it can be written into a
// replay file.

import (
	"fmt"
)

const (
	kInsert     = "insert"
	kDelete     = "delete"
	kDropPart   = "droppart"
	kDropColl   = "dropcoll"
	kCreateColl = "createcoll" // must be filtered
	kCreatePart = "createpart" // must be filtered
	kTimeTick   = "timetick"   // must be filtered
	kFlush      = "flush"      // unsupported type, must be filtered
)

type ShardSpec struct {
	SrcP string `json:"src_p"`
	SrcV string `json:"src_v"`
	DstP string `json:"dst_p"`
	DstV string `json:"dst_v"`
}

type PartSpec struct {
	Name           string `json:"name"`
	SrcID          int64  `json:"src_id"`
	DstID          int64  `json:"dst_id"`
	PreDownstream  bool   `json:"pre_downstream"`   // exists downstream before the collection is started
	DroppedAtStart bool   `json:"dropped_at_start"` // registered in state Dropped (dropped upstream while CDC was down)
	GoneDownstream bool   `json:"gone_downstream"`  // with DroppedAtStart: already absent downstream (dropped on both sides)
	CreateTs       uint64 `json:"create_ts"`
}

type CollSpec struct {
	SrcID          int64       `json:"src_id"`
	DstID          int64       `json:"dst_id"`
	Name           string      `json:"name"`
	DB             string      `json:"db"`
	Shards         []ShardSpec `json:"shards"`
	Parts          []PartSpec  `json:"parts"` // Parts[0] is _default
	PreDownstream  bool        `json:"pre_downstream"`
	DroppedAtStart bool        `json:"dropped_at_start"`
	CreateTs       uint64      `json:"create_ts"`
	SeekTs         uint64      `json:"seek_ts"` // 0 = no seek position given to StartReadCollection
}

type MsgSpec struct {
	UID   int64  `json:"uid"`
	Kind  string `json:"kind"`
	Coll  int    `json:"coll"`
	Shard int    `json:"shard"`
	Part  int    `json:"part"`
	TS    uint64 `json:"ts"`
	Rows  int    `json:"rows"`
	// NoPartName: delete without partition name (all partitions)
	NoPartName bool `json:"no_part_name,omitempty"`
	// AfterDrop: written behind the drop message of its own collection / partition on the same shard, in the same pack,
	// with a later timestamp (nothing of a dropped object may be emitted after its drop)
	AfterDrop bool `json:"after_drop,omitempty"`
}

// Dep is a logical precondition: a fed per-stream pack has been completely processed by the reader
// ("finished"), a driver step has returned, or a stream has registered with the dispatcher.
type Dep struct {
	PackP    string `json:"pack_p,omitempty"` // source pchannel of the pack
	PackIdx  int    `json:"pack_idx,omitempty"`
	PackColl int    `json:"pack_coll,omitempty"`
	IsPack   bool   `json:"is_pack,omitempty"`
	Step     int    `json:"step,omitempty"`
	IsStep   bool   `json:"is_step,omitempty"`
	Reg      string `json:"reg,omitempty"` // source vchannel registered
	// DropEvt: the drop-partition request for (EvtColl, EvtPart) has been handed to the event consumer
	DropEvt bool `json:"drop_evt,omitempty"`
	EvtColl int  `json:"evt_coll,omitempty"`
	EvtPart int  `json:"evt_part,omitempty"`
}

type PPack struct {
	BeginTs   uint64    `json:"begin_ts"`
	EndTs     uint64    `json:"end_ts"`
	ZeroBegin bool      `json:"zero_begin,omitempty"`
	Msgs      []MsgSpec `json:"msgs"`
	After     []Dep     `json:"after,omitempty"`
}

const (
	sStartColl  = "start_collection"
	sAddPart    = "add_partition"
	sStopColl   = "stop_collection"
	sAddDropped = "add_dropped_collection"
)

type Step struct {
	Kind  string `json:"kind"`
	Coll  int    `json:"coll"`
	Part  int    `json:"part"`
	After []Dep  `json:"after,omitempty"`
	// Async: run the call on its own goroutine (as the watch callbacks do) instead of the driver's sequence
	Async bool `json:"async,omitempty"`
	// DelayMs: the call is made that much later than its preconditions allow (schedule perturbation only)
	DelayMs int `json:"delay_ms,omitempty"`
	// Dup: this call repeats an earlier notification of the same object (which has returned long ago)
	Dup bool `json:"dup,omitempty"`
	// Twin: the same notification arrives twice at the same time: the call is made by two goroutines behind a start
	// barrier (list path and watch path of the catalog reader, or two puts of one object in quick succession)
	Twin bool `json:"twin,omitempty"`
	// MQDown: the message queue cannot be reached while this call runs (the connection check of a new handler fails)
	MQDown bool `json:"mq_down,omitempty"`
}

// Hold: keep the output pack derived from (P, Idx, Coll) at the "presend" point (channel lock released,
// before enqueueing) until the pack Until* has finished or has no chance to be fed any more.
type Hold struct {
	P, UntilP       string
	Idx, UntilIdx   int
	Coll, UntilColl int
}

type Case struct {
	Idx         int                `json:"case"`
	Profile     string             `json:"profile"`
	SrcPs       []string           `json:"src_pchannels"`
	DstPs       []string           `json:"dst_pchannels"`
	Colls       []CollSpec         `json:"collections"`
	Scripts     map[string][]PPack `json:"scripts"` // per source pchannel
	Steps       []Step             `json:"steps"`
	Holds       []Hold             `json:"holds,omitempty"`
	DelayPermil int                `json:"presend_delay_permil"` // probability (per mille) of a 0-2 ms delay at presend
	TTInterval  int                `json:"tt_interval_ms"`
	SrcChanNum  int                `json:"source_channel_num"`
	DstChanNum  int                `json:"target_channel_num"`
	// MsgPositions: messages carry their own position (channel, message id), as older / patched Milvus
	// dispatchers deliver them. The dispatcher of the Milvus pkg pinned in go.mod delivers messages WITHOUT a
	// position (MqTtMsgStream no longer sets one), which is the default here.
	MsgPositions bool `json:"msg_positions"`
	// RegDelayMs: the dispatcher takes that long to register the given source vchannel (a slow shard stream)
	RegDelayMs map[string]int `json:"reg_delay_ms,omitempty"`
	// TargetDelayUs: every lookup of the downstream catalog takes up to that long (seeded), which widens the window
	// between a check and the registration that follows it
	TargetDelayUs int      `json:"target_lookup_delay_us,omitempty"`
	Serial        bool     `json:"serial_feed,omitempty"` // feed one pack at a time across all pchannels in a seeded order
	FeedOrder     []string `json:"feed_order,omitempty"`
	Note          string   `json:"note,omitempty"`
}

func srcPName(i int) string { return fmt.Sprintf("src-rootcoord-dml_%d", i) }
func dstPName(i int) string { return fmt.Sprintf("dst-rootcoord-dml_%d", i) }
func vName(p string, coll int64, idx int) string {
	return fmt.Sprintf("%s_%dv%d", p, coll, idx)
}

// hybrid timestamp helpers (physical ms << 18 | logical)
func hts(ms uint64, logical uint64) uint64 { return ms<<18 | logical }

func packDep(p string, idx, coll int) Dep {
	return Dep{PackP: p, PackIdx: idx, PackColl: coll, IsPack: true}
}
func stepDep(i int) Dep   { return Dep{Step: i, IsStep: true} }
func regDep(v string) Dep { return Dep{Reg: v} }
