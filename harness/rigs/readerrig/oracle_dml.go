package main

// Offline oracles for C01 (completeness / no duplicates / order / payload / labels) and C02 (re-addressing and
// routing), evaluated over the recorded feed and emission logs of one case. Every fed message has a unique id,
// so each emitted message identifies exactly one source message and the checks are set/sequence comparisons.

import (
	"fmt"
	"sort"
	"strings"

	"github.com/milvus-io/milvus/pkg/util/funcutil"
)

type vio struct{ key, desc string }

func supported(kind string) bool {
	return kind == kInsert || kind == kDelete || kind == kDropPart || kind == kDropColl
}

type streamView struct {
	coll, shard int
	srcV        string
	fed         []MsgSpec          // supported messages handed to the reader, in feed order
	fedPackOf   map[int64]int      // uid -> pack idx
	emitted     []emMsg            // data messages emitted for this stream, in dequeue order (per output channel merged by clock)
	emittedQ    map[int64]string   // uid -> output channel
	emitPackIdx []int              // pack idx (source read order) of the emitted packs of this stream, in dequeue order per q
	afterDrop   map[int64]struct{} // uids fed after the stream's own drop-collection message (filterable)
}

// collectStreams groups the logs per source vchannel.
func collectStreams(rt *caseRT) map[string]*streamView {
	c := rt.c
	out := map[string]*streamView{}
	rt.mu.Lock()
	recs := append([]*fedRec{}, rt.allRecs...)
	rt.mu.Unlock()
	sort.SliceStable(recs, func(i, j int) bool {
		if recs[i].srcV != recs[j].srcV {
			return recs[i].srcV < recs[j].srcV
		}
		return recs[i].idx < recs[j].idx
	})
	for _, r := range recs {
		sv := out[r.srcV]
		if sv == nil {
			sv = &streamView{coll: r.collIdx, shard: r.shardIdx, srcV: r.srcV, fedPackOf: map[int64]int{}, emittedQ: map[int64]string{}, afterDrop: map[int64]struct{}{}}
			out[r.srcV] = sv
		}
		if r.skipped || r.enterT == 0 {
			continue // never reached the reader
		}
		for _, m := range r.msgs {
			if supported(m.Kind) {
				sv.fed = append(sv.fed, m)
				sv.fedPackOf[m.UID] = r.idx
			}
		}
	}
	for _, sv := range out {
		dropped := false
		for _, m := range sv.fed {
			if dropped {
				sv.afterDrop[m.UID] = struct{}{}
			}
			if m.Kind == kDropColl {
				dropped = true
			}
		}
	}
	_ = c
	return out
}

func checkC01(rt *caseRT, run interface{ Count(string, int) }) []vio {
	c := rt.c
	var vs []vio
	add := func(k, d string) { vs = append(vs, vio{k, d}) }
	streams := collectStreams(rt)
	emits := rt.sortedEmits()
	// index: uid -> stream
	uidStream := map[int64]*streamView{}
	allFedKinds := map[int64]string{}
	for _, sv := range streams {
		for _, m := range sv.fed {
			uidStream[m.UID] = sv
		}
	}
	rt.mu.Lock()
	for uid, sp := range rt.msgSpec {
		allFedKinds[uid] = sp.Kind
	}
	rt.mu.Unlock()
	seen := map[int64]int{}
	type lastIdx struct{ idx int }
	perStreamPackOrder := map[string][]int{} // label (coll/pchannel) per q -> pack idx sequence
	dataMsgs := 0
	for q, packs := range emits {
		for _, ep := range packs {
			// label: collection, source channel, task of the stream the pack derives from
			rec := ep.Rec
			synthOnly := true
			for _, m := range ep.Msgs {
				if m.UID >= 0 && !m.Synth {
					synthOnly = false
				}
			}
			if rec == nil {
				if !synthOnly || !hasSynth(ep) {
					// a pack we cannot attribute to a fed pack: allowed only for the reader's own synthetic drop packs
					nonTick := 0
					for _, m := range ep.Msgs {
						if m.UID != -1 {
							nonTick++
						}
					}
					if nonTick > 0 && !hasSynth(ep) {
						add("C01/pack-not-derived-from-a-read-pack", fmt.Sprintf("q=%s seq=%d label=(%d,%s,%s) end-msgid=%d", q, ep.Seq, ep.CollID, ep.CollName, ep.PChan, ep.PackUID))
					}
				}
			} else {
				col := c.Colls[rec.collIdx]
				if ep.CollID != col.SrcID || ep.CollName != col.Name || ep.PChan != rec.p || ep.Task != "task-"+rt.rid {
					add("C01/pack-label-wrong", fmt.Sprintf("pack %s#%d of %s labelled (coll=%d name=%s pchannel=%s task=%s), expected (%d,%s,%s,%s)", rec.p, rec.idx, rec.srcV, ep.CollID, ep.CollName, ep.PChan, ep.Task, col.SrcID, col.Name, rec.p, "task-"+rt.rid))
				}
				key := rec.srcV + "@" + q
				perStreamPackOrder[key] = append(perStreamPackOrder[key], rec.idx)
			}
			for _, m := range ep.Msgs {
				if m.UID == -1 {
					continue // tick
				}
				if m.UID == -2 {
					add("C01/unsupported-type-emitted", fmt.Sprintf("q=%s seq=%d type=%s", q, ep.Seq, m.Type))
					continue
				}
				if m.Synth {
					continue // the reader's synthetic drop for an object dropped while CDC was down (C04's mechanism)
				}
				dataMsgs++
				kind, fed := allFedKinds[m.UID]
				if !fed {
					add("C01/emitted-message-never-read", fmt.Sprintf("uid=%d type=%s on %s", m.UID, m.Type, q))
					continue
				}
				if !supported(kind) {
					add("C01/filtered-type-leaked", fmt.Sprintf("uid=%d kind=%s emitted on %s", m.UID, kind, q))
					continue
				}
				seen[m.UID]++
				if seen[m.UID] == 2 {
					add("C01/message-emitted-twice", fmt.Sprintf("uid=%d kind=%s", m.UID, kind))
				}
				sv := uidStream[m.UID]
				if sv == nil {
					add("C01/emitted-message-never-read", fmt.Sprintf("uid=%d was generated but never handed to the reader", m.UID))
					continue
				}
				if rec != nil && rec.srcV != sv.srcV {
					add("C01/message-in-pack-of-another-stream", fmt.Sprintf("uid=%d of %s emitted in a pack derived from %s", m.UID, sv.srcV, rec.srcV))
				}
				if m.Diff != "" {
					add("C01/payload-changed", fmt.Sprintf("uid=%d kind=%s: %s", m.UID, kind, m.Diff))
				}
				sv.emitted = append(sv.emitted, m)
				sv.emittedQ[m.UID] = q
			}
		}
	}
	run.Count("data_messages_observed", dataMsgs)
	// completeness at quiescence + order per stream
	for _, sv := range streams {
		got := map[int64]bool{}
		for _, m := range sv.emitted {
			got[m.UID] = true
		}
		for _, m := range sv.fed {
			if got[m.UID] {
				continue
			}
			if _, ok := sv.afterDrop[m.UID]; ok {
				run.Count("filtered_after_own_drop", 1)
				continue
			}
			add("C01/message-lost", fmt.Sprintf("uid=%d kind=%s of %s (pack #%d) was read but never emitted (quiescent, %d error events)", m.UID, m.Kind, sv.srcV, sv.fedPackOf[m.UID], rt.errEvents.Load()))
		}
		// source-timestamp order; equal ts: deletes before inserts; (emitted ts are rewritten, so compare source ts via uid)
		var prev *MsgSpec
		rt.mu.Lock()
		specs := make([]MsgSpec, 0, len(sv.emitted))
		for _, m := range sv.emitted {
			specs = append(specs, rt.msgSpec[m.UID])
		}
		rt.mu.Unlock()
		for i := range specs {
			cur := &specs[i]
			if prev != nil {
				if cur.TS < prev.TS {
					add("C01/source-order-violated", fmt.Sprintf("%s: uid=%d (ts %d) emitted after uid=%d (ts %d)", sv.srcV, cur.UID, cur.TS, prev.UID, prev.TS))
					break
				}
				if cur.TS == prev.TS && cur.Kind == kDelete && prev.Kind == kInsert && sv.fedPackOf[cur.UID] == sv.fedPackOf[prev.UID] {
					add("C01/insert-before-delete-of-equal-ts", fmt.Sprintf("%s: delete uid=%d emitted after insert uid=%d, both ts %d in pack #%d", sv.srcV, cur.UID, prev.UID, cur.TS, sv.fedPackOf[cur.UID]))
					break
				}
			}
			prev = cur
		}
	}
	for key, seq := range perStreamPackOrder {
		for i := 1; i < len(seq); i++ {
			if seq[i] <= seq[i-1] {
				add("C01/packs-of-one-stream-out-of-read-order", fmt.Sprintf("%s: pack #%d handed over after #%d", key, seq[i], seq[i-1]))
				break
			}
		}
	}
	return vs
}

func hasSynth(ep *emPack) bool {
	for _, m := range ep.Msgs {
		if m.Synth {
			return true
		}
	}
	return false
}

// checkC02: ids, shard names, output channel and positions of every emitted data message / data pack.
func checkC02(rt *caseRT, run interface{ Count(string, int) }) []vio {
	c := rt.c
	var vs []vio
	add := func(k, d string) { vs = append(vs, vio{k, d}) }
	emits := rt.sortedEmits()
	rt.mu.Lock()
	specs := rt.msgSpec
	rt.mu.Unlock()
	pair := map[string]string{} // source vchannel -> downstream vchannel as observed
	rev := map[string]string{}
	for q, packs := range emits {
		for _, ep := range packs {
			data := 0
			for _, m := range ep.Msgs {
				if m.UID < 0 || m.Synth {
					continue
				}
				rt.mu.Lock()
				sp, ok := specs[m.UID]
				rt.mu.Unlock()
				if !ok || !supported(sp.Kind) {
					continue
				}
				data++
				col := c.Colls[sp.Coll]
				srcV := col.Shards[sp.Shard].SrcV
				if m.CollID != col.DstID {
					add("C02/collection-id-not-downstream-id", fmt.Sprintf("uid=%d %s: CollectionID=%d, downstream id of %s is %d (source id %d)", m.UID, sp.Kind, m.CollID, col.Name, col.DstID, col.SrcID))
				}
				switch sp.Kind {
				case kInsert, kDropPart:
					if want := col.Parts[sp.Part].DstID; m.PartID != want {
						add("C02/partition-id-not-downstream-id", fmt.Sprintf("uid=%d %s partition %s: PartitionID=%d, downstream id is %d (source id %d)", m.UID, sp.Kind, col.Parts[sp.Part].Name, m.PartID, want, col.Parts[sp.Part].SrcID))
					}
				case kDelete:
					if !sp.NoPartName {
						if want := col.Parts[sp.Part].DstID; m.PartID != want {
							add("C02/partition-id-not-downstream-id", fmt.Sprintf("uid=%d delete partition %s: PartitionID=%d, downstream id is %d", m.UID, col.Parts[sp.Part].Name, m.PartID, want))
						}
					}
				}
				shardName := m.Shard
				if sp.Kind == kInsert || sp.Kind == kDelete {
					okV := false
					for _, sh := range col.Shards {
						if sh.DstV == shardName {
							okV = true
						}
					}
					if !okV {
						add("C02/shard-name-not-a-downstream-vchannel-of-the-collection", fmt.Sprintf("uid=%d ShardName=%q, downstream vchannels of %s: %v", m.UID, shardName, col.Name, dstVs(col)))
					} else {
						if p, ok := pair[srcV]; ok && p != shardName {
							add("C02/shard-pairing-not-a-function", fmt.Sprintf("source shard %s mapped to %s and %s", srcV, p, shardName))
						}
						if r, ok := rev[shardName]; ok && r != srcV {
							add("C02/shard-pairing-not-one-to-one", fmt.Sprintf("downstream vchannel %s receives source shards %s and %s", shardName, r, srcV))
						}
						pair[srcV], rev[shardName] = shardName, srcV
						if funcutil.ToPhysicalChannel(shardName) != q {
							add("C02/delivered-on-wrong-output-channel", fmt.Sprintf("uid=%d ShardName=%s arrived on output channel %s", m.UID, shardName, q))
						}
					}
				}
				// message position: names the downstream channel (or its vchannel), keeps the source message id
				if c.MsgPositions && m.Pos.MsgID != m.UID {
					add("C02/message-position-msgid-changed", fmt.Sprintf("uid=%d position msg id %d", m.UID, m.Pos.MsgID))
				}
				if m.Pos.Chan != q && funcutil.ToPhysicalChannel(m.Pos.Chan) != q {
					add("C02/message-position-names-other-channel", fmt.Sprintf("uid=%d position channel %q on output channel %s", m.UID, m.Pos.Chan, q))
				}
			}
			if data > 0 {
				for _, p := range append(append([]emPos{}, ep.StartPos...), ep.EndPos...) {
					if p.Chan != q && funcutil.ToPhysicalChannel(p.Chan) != q {
						add("C02/pack-position-names-other-channel", fmt.Sprintf("pack seq=%d on %s has position channel %q", ep.Seq, q, p.Chan))
					}
				}
				if ep.Rec != nil {
					if len(ep.EndPos) != 1 || ep.EndPos[0].MsgID != ep.Rec.key.uid {
						add("C02/pack-end-position-msgid-changed", fmt.Sprintf("pack %s#%d: end positions %v", ep.Rec.p, ep.Rec.idx, ep.EndPos))
					}
					if len(ep.StartPos) != 1 || ep.StartPos[0].MsgID != ep.Rec.key.uid-1 {
						add("C02/pack-start-position-msgid-changed", fmt.Sprintf("pack %s#%d: start positions %v", ep.Rec.p, ep.Rec.idx, ep.StartPos))
					}
					if ep.Rec.forwarded {
						run.Count("forwarded_data_packs", 1)
					}
				}
			}
		}
	}
	// informational: does the observed pairing equal sorted-with-sorted?
	for _, col := range c.Colls {
		for _, sh := range col.Shards {
			if p, ok := pair[sh.SrcV]; ok && p != sh.DstV {
				run.Count("pairing_differs_from_sorted_order", 1)
			}
		}
	}
	return vs
}

func dstVs(c CollSpec) []string {
	var out []string
	for _, s := range c.Shards {
		out = append(out, s.DstV)
	}
	return out
}

func sigOfCase(rt *caseRT) string {
	// interleaving signature: the cross-stream order of (stream, pack) at each output channel
	emits := rt.sortedEmits()
	var qs []string
	for q := range emits {
		qs = append(qs, q)
	}
	sort.Strings(qs)
	var b strings.Builder
	for _, q := range qs {
		b.WriteString(q + ":")
		for _, ep := range emits[q] {
			if ep.Rec != nil {
				fmt.Fprintf(&b, "%d.%d,", ep.Rec.collIdx*10+ep.Rec.shardIdx, ep.Rec.idx)
			}
		}
	}
	h := uint64(14695981039346656037)
	for _, ch := range []byte(b.String()) {
		h = (h ^ uint64(ch)) * 1099511628211
	}
	return fmt.Sprintf("%x", h)
}
