// readerrig: the real reader.replicateChannelManager (handlers, ts manager, barriers, stream creator, replicate
// meta) between a fake msgdispatcher / TargetAPI / MetaOp and consumers that play the server. Decides C01-C04.
package main

import (
	"encoding/json"
	"flag"
	"fmt"
	"os"
	"os/exec"
	"path/filepath"
	"regexp"
	"strconv"
	"strings"
	"sync"

	"github.com/sasha-s/go-deadlock"
	"github.com/zilliztech/milvus-cdc/core/api"

	"verifharness/internal/vf"
)

var (
	fProp   = flag.String("prop", "", "property id")
	fTier   = flag.String("tier", "quick", "quick|thorough")
	fWorker = flag.String("worker", "", "child mode: from,n,outfile")
	fOne    = flag.Int("case", -1, "run a single case index in-process and print its log")
)

type propDef struct {
	level   string
	rule    string
	assume  []string
	nCases  func(*vf.Run) int
	gen     func(seed int64, idx int) *Case
	check   func(run *vf.Run, res *caseResult)
	floors  func(run *vf.Run)
	workers int
	conc    int
}

var props = map[string]*propDef{}

func main() {
	flag.Parse()
	deadlock.Opts.Disable = true
	pd, ok := props[*fProp]
	if !ok {
		fmt.Fprintln(os.Stderr, "readerrig: unknown property", *fProp)
		os.Exit(64)
	}
	run := vf.NewRun(*fProp, *fTier, pd.level)
	run.Rule = pd.rule
	run.Assumptions = pd.assume
	if *fOne >= 0 {
		c := pd.gen(run.Seed, *fOne)
		b, _ := json.MarshalIndent(c, "", " ")
		fmt.Println(string(b))
		res := runCase(c, run.Seed)
		pd.check(run, res)
		res.rt.shutdown()
		for _, e := range res.rt.events {
			eb, _ := json.Marshal(e)
			fmt.Println(string(eb))
		}
		fmt.Println("quiescent:", res.quiescent, "inconclusive:", res.inconclusive)
		os.Exit(run.Finish(os.Stdout))
	}
	if *fWorker != "" {
		var from, n int
		var out string
		parts := strings.SplitN(*fWorker, ",", 3)
		fmt.Sscan(parts[0], &from)
		fmt.Sscan(parts[1], &n)
		out = parts[2]
		sem := make(chan struct{}, pd.conc)
		var wg sync.WaitGroup
		for idx := from; idx < from+n; idx++ {
			wg.Add(1)
			sem <- struct{}{}
			go func(idx int) {
				defer wg.Done()
				defer func() { <-sem }()
				c := pd.gen(run.Seed, idx)
				run.Eval(1)
				res := runCase(c, run.Seed)
				if res.inconclusive != "" {
					// retry once on its own
					res.rt.shutdown()
					res = runCase(c, run.Seed)
				}
				if res.inconclusive != "" {
					run.Inconclusive(fmt.Sprintf("case %d: %s", idx, res.inconclusive))
					if res.dump != "" {
						fmt.Fprintf(os.Stderr, "==== goroutine dump for inconclusive case %d ====\n%s\n", idx, res.dump)
					}
					res.rt.shutdown()
					return
				}
				pd.check(run, res)
				res.rt.shutdown()
			}(idx)
		}
		wg.Wait()
		if err := run.Dump(out); err != nil {
			fmt.Fprintln(os.Stderr, "dump:", err)
			os.Exit(70)
		}
		os.Exit(0)
	}
	// parent: split the fixed case list over worker processes (a panic in one child must not end the others)
	total := pd.nCases(run)
	scratch := os.Getenv("VERIF_SCRATCH")
	if scratch == "" {
		scratch = os.TempDir()
	}
	per := (total + pd.workers - 1) / pd.workers
	var wg sync.WaitGroup
	for w := 0; w < pd.workers; w++ {
		from := w * per
		n := per
		if from+n > total {
			n = total - from
		}
		if n <= 0 {
			continue
		}
		wg.Add(1)
		go func(w, from, n int) {
			defer wg.Done()
			out := filepath.Join(scratch, fmt.Sprintf("%s-w%d.json", *fProp, w))
			logf := filepath.Join(scratch, fmt.Sprintf("%s-w%d.log", *fProp, w))
			lf, _ := os.Create(logf)
			defer lf.Close()
			cmd := exec.Command(os.Args[0], "-prop", *fProp, "-tier", *fTier, "-worker", fmt.Sprintf("%d,%d,%s", from, n, out))
			cmd.Stdout, cmd.Stderr = lf, lf
			err := cmd.Run()
			if err != nil {
				tail := tailOf(logf, 60)
				run.Inconclusive(fmt.Sprintf("worker %d (cases %d..%d) died: %v\n%s", w, from, from+n-1, err, tail))
				fmt.Fprintf(os.Stderr, "worker %d died: %v\n%s\n", w, err, tail)
				return
			}
			if err := run.Merge(out); err != nil {
				run.Inconclusive(fmt.Sprintf("worker %d: merge: %v", w, err))
			}
		}(w, from, n)
	}
	wg.Wait()
	pd.floors(run)
	if p := os.Getenv("VERIF_MERGE_DUMP"); p != "" && *fProp == "C03" {
		// the end-to-end part of C03's resume clause (system rig, -prop C03S) ran first and dumped its Run
		if err := run.MergePrefixed(p, "e2e_"); err != nil {
			run.Inconclusive("the end-to-end part (system rig) left no result: " + err.Error())
		}
		run.Floor("e2e_streams_judged", run.Pick(5, 40))
		run.Floor("e2e_rows_judged_after_resume", run.Pick(20, 200))
		run.Rule += " PLUS the end-to-end part of the resume clause (counters e2e_*): whole service in a killable child, all downstream shards on one channel, C05's inputs with SIGKILL (reply held / after a checkpoint Put), pause + resume and skewed variants (one stream read slowly, stamped on a clock the others pushed ahead); per stream every row message accepted downstream after the restart / resume must lie strictly above the closing tick of the pack the stream was resumed from (the last accepted pack with rows whose checkpoint Put had been performed)."
		run.Assumptions = append(run.Assumptions, "end-to-end part: a stream whose checkpoint Put was in flight when the process died, or whose checkpoint stands for a tick-only pack, is not judged")
	}
	if p := os.Getenv("VERIF_MERGE_DUMP"); p != "" && *fProp == "C04" {
		// the end-to-end part of C04 (system rig: real CollectionReader, pause / resume / restart, real writer over
		// gRPC) ran first and dumped its Run; both parts decide the same property and share one evidence file
		if err := run.MergePrefixed(p, "e2e_"); err != nil {
			run.Inconclusive("the end-to-end part (system rig) left no result: " + err.Error())
		}
		run.Floor("e2e_decided_scenarios", run.Pick(5, 25))
		run.Floor("e2e_drop_calls_observed", run.Pick(5, 25))
		run.Floor("e2e_decided_K4", 1)
		run.Floor("e2e_decided_K5", 1)
		run.Floor("e2e_databases", 2)
		run.Rule += " PLUS the end-to-end part (counters e2e_*): whole CDC service in a child process, one task over all databases, 2 databases x 1-2 collections x 1-3 shards x 1-3 partitions; scenario kinds K1 start-up scan then drop partition, K2 objects created while running, K3 drop collection, K4 drop while paused / killed then resume / restart, K5 pause / resume / delete without any drop, K6 pause while the drop request is pending behind a full event queue; drop requests observed at the fake downstream (routing database from gRPC metadata) against the supervisor's clock."
		run.Assumptions = append(run.Assumptions, "end-to-end part: fakemilvus is the downstream; a drop re-issued after a KILL is tolerated (counted), quiescence = sentinel rows accepted on every live stream by the current incarnation")
	}
	vf.CollectRaces(run)
	if p := os.Getenv("C20R_DUMP"); p != "" && *fProp == "C20R" {
		// the reader half of C20's event clause is merged into the writer rig's run
		if err := run.Dump(p); err != nil {
			fmt.Fprintln(os.Stderr, "C20R_DUMP:", err)
			os.Exit(70)
		}
		os.Exit(0)
	}
	if p := os.Getenv("C13D_DUMP"); p != "" && *fProp == "C13D" {
		// the manager half of C13's duplicate-notification clause is merged into the catalog rig's run
		if err := run.Dump(p); err != nil {
			fmt.Fprintln(os.Stderr, "C13D_DUMP:", err)
			os.Exit(70)
		}
		os.Exit(0)
	}
	if p := os.Getenv("C16M_DUMP"); p != "" && *fProp == "C16M" {
		// the manager part of C16 is merged into the unit rig's run (one evidence file for C16)
		if err := run.Dump(p); err != nil {
			fmt.Fprintln(os.Stderr, "C16M_DUMP:", err)
			os.Exit(70)
		}
		os.Exit(0)
	}
	os.Exit(run.Finish(vf.Out()))
}

func tailOf(path string, lines int) string {
	b, err := os.ReadFile(path)
	if err != nil {
		return ""
	}
	// prefer the panic section if there is one
	s := string(b)
	if i := strings.LastIndex(s, "panic:"); i >= 0 {
		s = s[i:]
		if len(s) > 6000 {
			s = s[:6000]
		}
		return s
	}
	ls := strings.Split(s, "\n")
	if len(ls) > lines {
		ls = ls[len(ls)-lines:]
	}
	return strings.Join(ls, "\n")
}

func replayOf(res *caseResult, extra map[string]any) map[string]any {
	rt := res.rt
	rt.mu.Lock()
	defer rt.mu.Unlock()
	ev := rt.events
	if len(ev) > 400 {
		ev = ev[len(ev)-400:]
	}
	m := map[string]any{"case": rt.c, "api_events": rt.apiEvs, "events_tail": ev}
	em := rt.emitted
	if len(em) > 60 {
		em = em[:60]
	}
	m["emitted_head"] = em
	for k, v := range extra {
		m[k] = v
	}
	return m
}

func init() {
	dmlOpts := genOpts{profile: "dml", maxP: 4, maxColls: 4, drops: true, late: true, deviants: true, junk: true, skewMs: 50, packsMin: 5, packsMax: 25}
	dmlRule := "case = generated catalog (1-4 collections x 1-3 shards x 0-3 extra partitions over 1-4 shared source pchannels; downstream placement and ids drawn independently, some collections placed differently downstream so that packs are forwarded between handlers; collections existing or not downstream) + per-pchannel pack scripts (5-25 packs: insert/delete/tick-only/empty packs, BeginTs=0 first packs, equal-timestamp runs, create*/tick/unsupported messages, drop-partition, drop-collection) + registrations interleaved with arrival (late collections / partitions) + seeded presend delays; the real manager runs until logical quiescence. Non-trivial = >= 2 streams emitted data and quiescence reached; distinct by interleaving signature (cross-stream order of (stream, pack) per output channel)."
	dmlAssume := []string{
		"fake msgdispatcher splits a pchannel pack per vchannel like Milvus' dispatcher (shared position slices, DDL by collection id); fake TargetAPI/MetaOp serve the generated catalogs; rig consumers apply create/drop events to the downstream catalog like the writer",
		"every fed message carries a unique id in Base.MsgID and its position; payload compared with a clone taken before feeding",
		"tick-only packs may legitimately be suppressed (wall-clock gated); their absence is never counted as loss",
		"objects dropped upstream while CDC was down (synthetic drop path) are exercised under C04, not here",
	}
	props["C01"] = &propDef{level: "exploration", rule: dmlRule, assume: dmlAssume, workers: 6, conc: 6,
		nCases: func(r *vf.Run) int { return r.Pick(300, 6000) },
		gen: func(seed int64, idx int) *Case {
			o := dmlOpts
			o.reincarnate = idx%4 == 2
			o.unequalCount = idx%6 == 5
			if o.unequalCount {
				o.deviants = false
			}
			return genCase(seed, idx, o)
		},
		check: func(run *vf.Run, res *caseResult) {
			vs := checkC01(res.rt, run)
			for _, v := range vs {
				v = pairingConflict(run, "C01", res.rt.c, v)
				v = recreatedPartition("C01", res.rt, v)
				run.Violate(v.key, v.desc, replayOf(res, nil))
			}
			noteDML(run, res)
		},
		floors: func(run *vf.Run) {
			run.Floor("cases_quiescent", run.Pick(100, 2000))
			run.Floor("data_messages_observed", run.Pick(10000, 200000))
			run.Floor("interleavings", run.Pick(80, 1500))
			run.Floor("cases_with_forwarded_packs", 1)
			run.Floor("filtered_junk_messages", 1)
		}}
	props["C20R"] = &propDef{level: "exploration", workers: 6, conc: 6,
		rule:   "reader half of C20's clause 'every create collection / partition event ... carrying the source operation's timestamp': the dml catalogs (collections and partitions that do not exist downstream yet, so that the real channel manager emits create events, also for partitions created later than their collection) run through the real manager; every create-collection event must be stamped with the collection's creation time and every create-partition event with the PARTITION's creation time, and name the source names. Non-trivial = a case with at least one create event; distinct by (events, interleaving).",
		assume: []string{"the rig passes distinct creation times for a collection and each of its partitions (CreateTime / PartitionCreatedTimestamp), as rootcoord writes them"},
		nCases: func(r *vf.Run) int { return r.Pick(60, 1200) },
		gen: func(seed int64, idx int) *Case {
			o := dmlOpts
			o.packsMin, o.packsMax = 5, 9
			return genCase(seed, idx, o)
		},
		check: func(run *vf.Run, res *caseResult) {
			rt := res.rt
			rt.mu.Lock()
			evs := append([]apiEv{}, rt.apiEvs...)
			rt.mu.Unlock()
			creates := 0
			for _, e := range evs {
				switch api.ReplicateAPIEventType(e.Type) {
				case api.ReplicateCreateCollection:
					for _, col := range rt.c.Colls {
						if col.SrcID != e.CollID {
							continue
						}
						creates++
						run.Count("create_collection_events", 1)
						if e.Ts != col.CreateTs {
							run.Violate("C20/EvCreateCollection/replication-timestamp", fmt.Sprintf("create-collection event of %s (id %d) carries timestamp %d, the collection was created at %d", col.Name, col.SrcID, e.Ts, col.CreateTs), replayOf(res, nil))
						}
						if e.CollName != col.Name {
							run.Violate("C20/EvCreateCollection/collection-name", fmt.Sprintf("create-collection event of id %d names %q, the source collection is %q", col.SrcID, e.CollName, col.Name), replayOf(res, nil))
						}
					}
				case api.ReplicateCreatePartition:
					for _, col := range rt.c.Colls {
						if col.SrcID != e.CollID {
							continue
						}
						for _, p := range col.Parts {
							if p.SrcID != e.PartID {
								continue
							}
							creates++
							run.Count("create_partition_events", 1)
							if p.CreateTs != col.CreateTs {
								run.Count("create_partition_events_of_partitions_created_later_than_their_collection", 1)
							}
							if e.Ts != p.CreateTs {
								run.Violate("C20/EvCreatePartition/replication-timestamp", fmt.Sprintf("create-partition event of %s.%s (partition id %d) carries timestamp %d; the partition was created at %d (its collection at %d)", col.Name, p.Name, p.SrcID, e.Ts, p.CreateTs, col.CreateTs), replayOf(res, nil))
							}
							if e.PartName != p.Name || e.CollName != col.Name {
								run.Violate("C20/EvCreatePartition/names", fmt.Sprintf("create-partition event of partition id %d names %q.%q, the source names are %q.%q", p.SrcID, e.CollName, e.PartName, col.Name, p.Name), replayOf(res, nil))
							}
						}
					}
				}
			}
			run.Count("cases_quiescent", 1)
			if creates > 0 {
				run.Nontrivial(fmt.Sprintf("%d/%s", creates, sigOfCase(rt)))
			}
		},
		floors: func(run *vf.Run) {
			run.Floor("cases_quiescent", run.Pick(20, 400))
			run.Floor("create_collection_events", run.Pick(10, 200))
			run.Floor("create_partition_events_of_partitions_created_later_than_their_collection", run.Pick(10, 200))
		}}
	props["C13D"] = &propDef{level: "exploration", workers: 6, conc: 6,
		rule: "manager half of C13's clause 'being notified twice about the same object has no further effect': the dml catalogs and scripts (equal channel counts, no re-created partitions) with duplicated notifications: about half of the StartReadCollection / AddPartition calls are made TWICE AT THE SAME TIME (two goroutines behind a start barrier: list path and watch path, or two puts of one object in quick succession), and the anchor collection and its partitions are announced again while data flows; every lookup of the downstream catalog takes a seeded 0-1.5 ms (the window between the 'already replicated?' test and the registration). Judged: of two simultaneous calls at least one succeeds, no source vchannel is registered with the dispatcher a second time, and the replicated stream is still complete, duplicate-free and ordered (the C01 oracle); the error with which the manager answers a start for a collection it already replicates is counted (the catalog rig mirrors it and judges the reader). Non-trivial = a case with at least one simultaneous pair; distinct by (collections, twins, interleaving).",
		assume: []string{
			"the fake dispatcher refuses a second registration of a live vchannel like Milvus' client does, so a second start shows as an error / a second register event rather than as duplicated rows",
		},
		nCases: func(r *vf.Run) int { return r.Pick(72, 600) },
		gen: func(seed int64, idx int) *Case {
			o := dmlOpts
			o.packsMin, o.packsMax = 6, 12
			c := genCase(seed, idx, o)
			rnd := newRand(seed, "c13d", idx)
			c.TargetDelayUs = 1500
			twins := 0
			for i := range c.Steps {
				if (c.Steps[i].Kind == sStartColl || c.Steps[i].Kind == sAddPart) && rnd.Intn(2) == 0 {
					c.Steps[i].Twin = true
					twins++
				}
			}
			if twins == 0 && len(c.Steps) > 0 {
				c.Steps[0].Twin = true
			}
			// the anchor collection (started first, one shard on every source channel) is announced again while data flows
			anchorP := c.Colls[0].Shards[0].SrcP
			at := 2 + rnd.Intn(3)
			c.Steps = append(c.Steps, Step{Kind: sStartColl, Coll: 0, Async: true, Dup: true, After: []Dep{packDep(anchorP, at, 0)}})
			for pi := range c.Colls[0].Parts {
				if rnd.Intn(2) == 0 {
					c.Steps = append(c.Steps, Step{Kind: sAddPart, Coll: 0, Part: pi, Async: true, Dup: true, Twin: rnd.Intn(2) == 0, After: []Dep{packDep(anchorP, at+1, 0)}})
				}
			}
			c.Note += fmt.Sprintf(" + %d simultaneous pairs, anchor announced again after pack %d", twins, at)
			return c
		},
		check: func(run *vf.Run, res *caseResult) {
			rt := res.rt
			twins, dups := 0, 0
			// The manager answers a start for a collection it already replicates with an error (after its retries): that
			// is its documented way of saying "already there" and is COUNTED here (the catalog rig's recording manager
			// mirrors it; the reader must not hand it a collection twice). What is judged: of two simultaneous calls at
			// least one succeeds, nothing is registered twice, the replicated stream is unchanged.
			twinErr := map[int]int{}
			for _, e := range rt.evCopy() {
				switch e.Kind {
				case "twin-ret":
					twins++
					if e.Err != "" {
						twinErr[e.Step]++
						if strings.Contains(e.Err, "has been replicated") {
							run.Count("duplicate_start_answered_with_error", 1)
						} else {
							run.Violate("C13/simultaneous-notifications-of-one-object-failed", fmt.Sprintf("%s for collection %d part %d arrived twice at the same time, one of the two calls returned: %s", e.Note, e.Coll, e.Part, e.Err), replayOf(res, nil))
						}
					}
				case "step-ret":
					if e.Step < len(rt.c.Steps) && rt.c.Steps[e.Step].Dup && !rt.c.Steps[e.Step].Twin {
						dups++
						if strings.Contains(e.Err, "has been replicated") {
							run.Count("duplicate_start_answered_with_error", 1)
						} else if e.Err != "" {
							run.Violate("C13/repeated-notification-failed", fmt.Sprintf("%s for collection %d part %d announced again: %s", e.Note, e.Coll, e.Part, e.Err), replayOf(res, nil))
						}
					}
				case "register":
					if e.N > 1 {
						run.Violate("C13/notified-twice-stream-registered-again", fmt.Sprintf("source vchannel %s was registered with the dispatcher %d times", e.V, e.N), replayOf(res, nil))
					}
				}
			}
			for step, n := range twinErr {
				if n >= 2 && !rt.c.Steps[step].Dup {
					run.Violate("C13/simultaneous-notifications-of-one-object-both-failed", fmt.Sprintf("%s for collection %d part %d arrived twice at the same time and BOTH calls failed: the object is not replicated at all", rt.c.Steps[step].Kind, rt.c.Steps[step].Coll, rt.c.Steps[step].Part), replayOf(res, nil))
				}
			}
			for _, v := range checkC01(rt, run) {
				run.Violate("C13/notified-twice-replicated-stream-changed", fmt.Sprintf("[%s] %s", v.key, v.desc), replayOf(res, nil))
			}
			run.Count("cases_quiescent", 1)
			run.Count("simultaneous_calls", twins)
			run.Count("repeated_calls", dups)
			run.Distinct("interleavings", sigOfCase(rt))
			if twins > 0 {
				run.Nontrivial(fmt.Sprintf("%d/%d/%s", len(rt.c.Colls), twins, sigOfCase(rt)))
			}
		},
		floors: func(run *vf.Run) {
			run.Floor("cases_quiescent", run.Pick(24, 200))
			run.Floor("simultaneous_calls", run.Pick(120, 1000))
			run.Floor("repeated_calls", run.Pick(24, 200))
		}}
	props["C02"] = &propDef{level: "exploration", rule: dmlRule, assume: dmlAssume, workers: 6, conc: 6,
		nCases: func(r *vf.Run) int { return r.Pick(300, 6000) },
		gen: func(seed int64, idx int) *Case {
			o := dmlOpts
			o.reincarnate = idx%4 == 2
			o.unequalCount = idx%6 == 5
			if o.unequalCount {
				o.deviants = false
			}
			return genCase(seed, idx, o)
		},
		check: func(run *vf.Run, res *caseResult) {
			vs := checkC02(res.rt, run)
			for _, v := range vs {
				v = pairingConflict(run, "C02", res.rt.c, v)
				v = recreatedPartition("C02", res.rt, v)
				run.Violate(v.key, v.desc, replayOf(res, nil))
			}
			noteDML(run, res)
		},
		floors: func(run *vf.Run) {
			run.Floor("cases_quiescent", run.Pick(100, 2000))
			run.Floor("cases_with_different_placement", run.Pick(10, 200))
			run.Floor("forwarded_data_packs", run.Pick(200, 4000))
			run.Floor("lazily_learned_partitions", run.Pick(50, 1000))
		}}
}

// conflictingPairing: with different channel counts the manager keeps ONE partner channel per key channel (the
// source channel when there are at least as many source channels, else the downstream channel) and at most
// ceil(larger/smaller) keys per partner. A case whose placements pair one key channel with two different partners,
// or load a partner beyond that quota, cannot be served by that mapping: the manager falls back to waiting for /
// forwarding between handlers.
func conflictingPairing(c *Case) bool {
	if c.SrcChanNum == c.DstChanNum {
		return false
	}
	return placementConflict(c)
}

// placementConflict is the same test without the exemption of equal counts (with equal counts a conflicting
// placement is served by forwarding packs between handlers; the C16 manager part still needs to know about it).
func placementConflict(c *Case) bool {
	larger, smaller := c.SrcChanNum, c.DstChanNum
	if smaller > larger {
		larger, smaller = smaller, larger
	}
	quota := (larger + smaller - 1) / smaller
	partner := map[string]string{}
	load := map[string]map[string]bool{}
	for _, col := range c.Colls {
		for _, sh := range col.Shards {
			k, v := sh.SrcP, sh.DstP
			if c.SrcChanNum < c.DstChanNum {
				k, v = sh.DstP, sh.SrcP
			}
			if old, ok := partner[k]; ok && old != v {
				return true
			}
			partner[k] = v
			if load[v] == nil {
				load[v] = map[string]bool{}
			}
			load[v][k] = true
			if len(load[v]) > quota {
				return true
			}
		}
	}
	return false
}

// conflictingPairingKeys: how the recorded finding shows itself (every violation key observed in conflicting-pairing
// cases on the tree at repository commit f8bef32, thorough tier, seeds 1-3: 788 such cases). Streams that the
// one-partner-per-key mapping cannot serve are forwarded through another handler's queue while their tick-only
// packs go inline (packs of one stream out of read order), or are written through the handler of the wrong
// channel (wrong output channel, positions naming the other channel). Anything else in such a case - a lost or
// duplicated message, a wrong label, a changed payload - is NOT covered by the finding.
var conflictingPairingKeys = map[string]bool{
	"packs-of-one-stream-out-of-read-order": true,
	"delivered-on-wrong-output-channel":     true,
	"message-position-names-other-channel":  true,
}

// pairingConflict re-keys a violation observed in a case with a conflicting channel pairing under unequal channel
// counts (one recorded finding for that input shape; everything else keeps its own key).
func pairingConflict(run *vf.Run, prop string, c *Case, v vio) vio {
	if !conflictingPairing(c) {
		return v
	}
	inner := strings.TrimPrefix(v.key, prop+"/")
	run.Count("conflicting_pairing_inner_"+inner, 1)
	if !conflictingPairingKeys[inner] {
		// not one of the ways the recorded finding shows itself: reported under its own key
		return v
	}
	return vio{key: prop + "/conflicting-channel-pairing-under-unequal-channel-counts", desc: fmt.Sprintf("[%s, %d source vs %d downstream channels] %s", v.key, c.SrcChanNum, c.DstChanNum, v.desc)}
}

var uidInDesc = regexp.MustCompile(`uid=(\d+)`)

// recreatedPartition re-keys a violation whose message belongs to a partition created again under the name of a
// dropped one (the manager decides from its name cache whether the new partition must be created downstream).
func recreatedPartition(prop string, rt *caseRT, v vio) vio {
	m := uidInDesc.FindStringSubmatch(v.desc)
	if m == nil {
		return v
	}
	uid, _ := strconv.ParseInt(m[1], 10, 64)
	rt.mu.Lock()
	sp, ok := rt.msgSpec[uid]
	rt.mu.Unlock()
	if !ok || sp.Part <= 0 {
		return v
	}
	parts := rt.c.Colls[sp.Coll].Parts
	for pi := 0; pi < sp.Part; pi++ {
		if parts[pi].Name != parts[sp.Part].Name {
			continue
		}
		// The recorded finding needs a refresh of the name cache that brought the dropped name back: a lookup of the
		// downstream catalog that was answered AFTER the old incarnation's drop message had been handed to a shard and
		// still carried the old incarnation (name = its downstream id). Without such an answer the stale name cannot
		// come from a refresh, and the violation keeps its own key.
		var dropFed int64 = -1
		for si := range rt.c.Colls[sp.Coll].Shards {
			k := findDropPack(rt.c, sp.Coll, si, pi, kDropPart)
			if k < 0 {
				continue
			}
			srcP := rt.c.Colls[sp.Coll].Shards[si].SrcP
			for _, e := range rt.evCopy() {
				if e.Kind == "feed" && e.P == srcP && e.Idx == k && (dropFed < 0 || e.Clock < dropFed) {
					dropFed = e.Clock
				}
			}
		}
		want := fmt.Sprintf("%s=%d", parts[pi].Name, parts[pi].DstID)
		refreshed := false
		for _, e := range rt.evCopy() {
			if e.Kind != "target-lookup" || e.Key != rt.c.Colls[sp.Coll].Name || dropFed < 0 || e.Clock <= dropFed {
				continue
			}
			for _, kv := range e.Shards {
				if kv == want {
					refreshed = true
				}
			}
		}
		if !refreshed {
			return v
		}
		return vio{key: prop + "/message-of-partition-created-again-under-a-dropped-name", desc: fmt.Sprintf("[%s] %s", v.key, v.desc)}
	}
	return v
}

// noteDML records the shared coverage counters of the dml profile.
func noteDML(run *vf.Run, res *caseResult) {
	rt := res.rt
	run.Count("cases_quiescent", 1)
	if rt.c.SrcChanNum != rt.c.DstChanNum {
		run.Count("cases_unequal_channel_counts", 1)
		if conflictingPairing(rt.c) {
			run.Count("cases_conflicting_channel_pairing", 1)
		}
	}
	if strings.Contains(rt.c.Note, "dropped and created again") {
		run.Count("cases_partition_created_again", 1)
	}
	sig := sigOfCase(rt)
	run.Distinct("interleavings", sig)
	streams := map[string]bool{}
	fwd := false
	rt.mu.Lock()
	for _, e := range rt.emitted {
		if e.Rec != nil {
			for _, m := range e.Msgs {
				if m.UID >= 0 {
					streams[e.Rec.srcV] = true
				}
			}
			if e.Rec.forwarded {
				fwd = true
			}
		}
	}
	junk := 0
	for _, sp := range rt.msgSpec {
		if !supported(sp.Kind) {
			junk++
		}
	}
	errs := rt.errEvents.Load()
	rt.mu.Unlock()
	run.Count("filtered_junk_messages", junk)
	if fwd {
		run.Count("cases_with_forwarded_packs", 1)
	}
	diff := false
	for _, col := range rt.c.Colls {
		for _, sh := range col.Shards {
			if chanIdx(sh.SrcP) != chanIdx(sh.DstP) {
				diff = true
			}
		}
	}
	if diff {
		run.Count("cases_with_different_placement", 1)
	}
	rt.target.mu.Lock()
	lazy := rt.target.calls["GetPartitionInfo"]
	rt.target.mu.Unlock()
	run.Count("lazily_learned_partitions", lazy)
	if errs > 0 {
		run.Count("cases_with_error_events", 1)
	}
	if len(streams) >= 2 {
		run.Nontrivial(sig)
	}
	if rt.c.Idx < 2 {
		run.Sample(map[string]any{"case": rt.c.Idx, "collections": rt.c.Colls, "packs_per_pchannel": len(rt.c.Scripts[rt.c.SrcPs[0]]), "steps": rt.c.Steps, "emitted_packs": len(rt.emitted), "api_events": rt.apiEvs})
	}
}

func init() {
	props["C03"] = &propDef{level: "exploration", workers: 6, conc: 6,
		rule: "case = 2-4 collections (1-3 shards each) whose streams are all multiplexed onto ONE downstream channel, source clocks skewed by 0 / 1 ms / 300 ms / 10 s, 8-30 packs per source pchannel with tick-only/data mixes and equal-timestamp runs, TTInterval 1 ms or 10 s; three schedule families fixed per case index: free running, seeded 0-2 ms delays at the 'presend' point (pack computed, channel lock released, not yet enqueued), and pairwise inversion plans that hold stream A at 'presend' until a pack of stream B is done; every 7th case starts from a checkpoint (seek position) above the lagging streams' clocks. The per-channel predicate is evaluated in computed order (hook inside the channel lock) and in dequeue order. Non-trivial = >= 2 streams emitted on the channel and >= 20 packs observed; distinct by interleaving signature.",
		assume: []string{
			"tick-only packs keep the source Begin/EndTs while their tick is on the channel clock; the agreement clause is applied to packs that carry data, as the statement says",
			"pack-level agreement is checked as: message begin = end = every row ts = message position ts; pack [BeginTs, EndTs] covers the message timestamps; start/end position ts = Begin/EndTs",
			"the resume clause is checked here only as 'first emitted times are above the seek position'; real kill/restart resume is part of the system rig (C05)",
		},
		nCases: func(r *vf.Run) int { return r.Pick(240, 4800) },
		gen:    genClock,
		check: func(run *vf.Run, res *caseResult) {
			st := &c03Stats{orders: map[string]struct{}{}}
			vs := checkC03(res.rt, st)
			for _, v := range vs {
				run.Violate(v.key, v.desc, replayOf(res, map[string]any{"note": res.rt.c.Note}))
			}
			run.Count("cases_quiescent", 1)
			run.Count("packs_observed", st.packs)
			run.Count("data_packs", st.dataPacks)
			run.Count("tick_only_packs", st.tickOnly)
			run.Count("realised_inversions", st.inversions)
			run.Count("channels_with_3plus_streams", st.channels3)
			run.Count("family_"+res.rt.c.Note, 1)
			for s := range st.orders {
				run.Distinct("interleavings", s)
				if st.packs >= 20 {
					run.Nontrivial(s)
				}
			}
			if res.rt.c.Idx < 2 {
				run.Sample(map[string]any{"case": res.rt.c.Idx, "note": res.rt.c.Note, "collections": res.rt.c.Colls, "holds": res.rt.c.Holds, "packs_emitted": st.packs, "inversions": st.inversions})
			}
		},
		floors: func(run *vf.Run) {
			run.Floor("cases_quiescent", run.Pick(80, 1600))
			run.Floor("packs_observed", run.Pick(3000, 60000))
			run.Floor("realised_inversions", run.Pick(10, 200))
			run.Floor("channels_with_3plus_streams", run.Pick(10, 200))
			run.Floor("tick_only_packs", 50)
		}}
	props["C04"] = &propDef{level: "exploration", workers: 6, conc: 6,
		rule: "case = catalog of 1-3 collections x 1-4 shards with scripted drop-partition / drop-collection messages; for one object per case the order in which the shards deliver the drop is imposed by logical dependencies (all S! orders for S <= 4 are cycled through by case index); AddPartition issued either after registration settled or immediately after StartReadCollection (odd cases: races the asynchronous stream registration); every 6th case stops a collection mid-run; every 6th case restarts with objects dropped upstream while CDC was down (with and without a seek time); the rig consumes the event channel and checks count, names, position relative to the per-shard feed events, and later emissions. Non-trivial = at least one object with >= 2 shards got its drop on every shard; distinct by (shard count, delivery order, mode).",
		assume: []string{
			"'read on every shard' is judged leniently: an event must not precede the moment the drop pack was handed to that shard's stream",
			"a missing drop event is reported only after logical quiescence plus a 30 s watchdog with the system idle; the deciding condition for 'too early' and 'twice' is purely logical",
			"'nothing is emitted afterwards' is judged on packs READ after the drop request was issued: packs already read and still travelling through the pipeline (the pack carrying the drop itself, packs in a forward queue) when the barrier fired count as before; objects dropped while CDC was down are exempt from this clause (their synthetic drop necessarily precedes the replayed data)",
		},
		nCases: func(r *vf.Run) int { return r.Pick(240, 3600) },
		gen:    genDrops,
		check: func(run *vf.Run, res *caseResult) {
			st := &c04Stats{shardCounts: map[int]int{}}
			vs := checkC04(res.rt, st)
			for _, v := range vs {
				run.Violate(v.key, v.desc, replayOf(res, map[string]any{"note": res.rt.c.Note}))
			}
			run.Count("cases_quiescent", 1)
			run.Count("drop_objects", st.objects)
			run.Count("drop_events", st.events)
			run.Count("dropped_while_down_without_seek_time_no_event", st.seekZeroNoEvent)
			run.Count("row_messages_fed_behind_the_drop_of_their_object", st.trailing)
			for s, n := range st.shardCounts {
				run.Count(fmt.Sprintf("objects_with_%d_shards", s), n)
			}
			mode := res.rt.c.Idx % 6
			run.Count(fmt.Sprintf("mode_%d", mode), 1)
			if res.rt.c.Idx%2 == 1 {
				run.Count("cases_addpartition_racing_registration", 1)
			}
			if strings.Contains(res.rt.c.Note, "drop order") {
				run.Distinct("delivery_orders", res.rt.c.Note[:strings.Index(res.rt.c.Note, " for ")])
				if st.events > 0 {
					run.Nontrivial(fmt.Sprintf("%s/mode%d/race%v", res.rt.c.Note, mode, res.rt.c.Idx%2 == 1))
				}
			}
			if res.rt.c.Idx < 2 {
				run.Sample(map[string]any{"case": res.rt.c.Idx, "note": res.rt.c.Note, "collections": res.rt.c.Colls, "steps": res.rt.c.Steps, "api_events": res.rt.apiEvs})
			}
		},
		floors: func(run *vf.Run) {
			run.Floor("cases_quiescent", run.Pick(80, 1200))
			run.Floor("drop_events", run.Pick(60, 900))
			run.Floor("delivery_orders", 6)
			run.Floor("cases_addpartition_racing_registration", 20)
			run.Floor("row_messages_fed_behind_the_drop_of_their_object", 10)
			run.Floor("mode_4", 10)
			run.Floor("mode_5", 10)
		}}
}

func chanIdx(p string) string { return p[strings.LastIndex(p, "_")+1:] }
