// readerrig: the real reader.replicateChannelManager (handlers, ts manager, barriers, stream creator, replicate
// meta) between a fake msgdispatcher / TargetAPI / MetaOp and consumers that play the server. Decides C01-C04.
package main

import (
	"encoding/json"
	"flag"
	"fmt"
	"os"
	"os/exec"
	"path/filepath"
	"strings"
	"sync"

	"github.com/sasha-s/go-deadlock"

	"verifharness/internal/vf"
)

var (
	fProp   = flag.String("prop", "", "property id")
	fTier   = flag.String("tier", "quick", "quick|thorough")
	fWorker = flag.String("worker", "", "child mode: from,n,outfile")
	fOne    = flag.Int("case", -1, "run a single case index in-process and print its log")
)

type propDef struct {
	level   string
	rule    string
	assume  []string
	nCases  func(*vf.Run) int
	gen     func(seed int64, idx int) *Case
	check   func(run *vf.Run, res *caseResult)
	floors  func(run *vf.Run)
	workers int
	conc    int
}

var props = map[string]*propDef{}

func main() {
	flag.Parse()
	deadlock.Opts.Disable = true
	pd, ok := props[*fProp]
	if !ok {
		fmt.Fprintln(os.Stderr, "readerrig: unknown property", *fProp)
		os.Exit(64)
	}
	run := vf.NewRun(*fProp, *fTier, pd.level)
	run.Rule = pd.rule
	run.Assumptions = pd.assume
	if *fOne >= 0 {
		c := pd.gen(run.Seed, *fOne)
		b, _ := json.MarshalIndent(c, "", " ")
		fmt.Println(string(b))
		res := runCase(c, run.Seed)
		pd.check(run, res)
		res.rt.shutdown()
		for _, e := range res.rt.events {
			eb, _ := json.Marshal(e)
			fmt.Println(string(eb))
		}
		fmt.Println("quiescent:", res.quiescent, "inconclusive:", res.inconclusive)
		os.Exit(run.Finish(os.Stdout))
	}
	if *fWorker != "" {
		var from, n int
		var out string
		parts := strings.SplitN(*fWorker, ",", 3)
		fmt.Sscan(parts[0], &from)
		fmt.Sscan(parts[1], &n)
		out = parts[2]
		sem := make(chan struct{}, pd.conc)
		var wg sync.WaitGroup
		for idx := from; idx < from+n; idx++ {
			wg.Add(1)
			sem <- struct{}{}
			go func(idx int) {
				defer wg.Done()
				defer func() { <-sem }()
				c := pd.gen(run.Seed, idx)
				run.Eval(1)
				res := runCase(c, run.Seed)
				if res.inconclusive != "" {
					// retry once on its own
					res.rt.shutdown()
					res = runCase(c, run.Seed)
				}
				if res.inconclusive != "" {
					run.Inconclusive(fmt.Sprintf("case %d: %s", idx, res.inconclusive))
					if res.dump != "" {
						fmt.Fprintf(os.Stderr, "==== goroutine dump for inconclusive case %d ====\n%s\n", idx, res.dump)
					}
					res.rt.shutdown()
					return
				}
				pd.check(run, res)
				res.rt.shutdown()
			}(idx)
		}
		wg.Wait()
		if err := run.Dump(out); err != nil {
			fmt.Fprintln(os.Stderr, "dump:", err)
			os.Exit(70)
		}
		os.Exit(0)
	}
	// parent: split the fixed case list over worker processes (a panic in one child must not end the others)
	total := pd.nCases(run)
	scratch := os.Getenv("VERIF_SCRATCH")
	if scratch == "" {
		scratch = os.TempDir()
	}
	per := (total + pd.workers - 1) / pd.workers
	var wg sync.WaitGroup
	for w := 0; w < pd.workers; w++ {
		from := w * per
		n := per
		if from+n > total {
			n = total - from
		}
		if n <= 0 {
			continue
		}
		wg.Add(1)
		go func(w, from, n int) {
			defer wg.Done()
			out := filepath.Join(scratch, fmt.Sprintf("%s-w%d.json", *fProp, w))
			logf := filepath.Join(scratch, fmt.Sprintf("%s-w%d.log", *fProp, w))
			lf, _ := os.Create(logf)
			defer lf.Close()
			cmd := exec.Command(os.Args[0], "-prop", *fProp, "-tier", *fTier, "-worker", fmt.Sprintf("%d,%d,%s", from, n, out))
			cmd.Stdout, cmd.Stderr = lf, lf
			err := cmd.Run()
			if err != nil {
				tail := tailOf(logf, 60)
				run.Inconclusive(fmt.Sprintf("worker %d (cases %d..%d) died: %v\n%s", w, from, from+n-1, err, tail))
				fmt.Fprintf(os.Stderr, "worker %d died: %v\n%s\n", w, err, tail)
				return
			}
			if err := run.Merge(out); err != nil {
				run.Inconclusive(fmt.Sprintf("worker %d: merge: %v", w, err))
			}
		}(w, from, n)
	}
	wg.Wait()
	pd.floors(run)
	vf.CollectRaces(run)
	os.Exit(run.Finish(vf.Out()))
}

func tailOf(path string, lines int) string {
	b, err := os.ReadFile(path)
	if err != nil {
		return ""
	}
	// prefer the panic section if there is one
	s := string(b)
	if i := strings.LastIndex(s, "panic:"); i >= 0 {
		s = s[i:]
		if len(s) > 6000 {
			s = s[:6000]
		}
		return s
	}
	ls := strings.Split(s, "\n")
	if len(ls) > lines {
		ls = ls[len(ls)-lines:]
	}
	return strings.Join(ls, "\n")
}

func replayOf(res *caseResult, extra map[string]any) map[string]any {
	rt := res.rt
	rt.mu.Lock()
	defer rt.mu.Unlock()
	ev := rt.events
	if len(ev) > 400 {
		ev = ev[len(ev)-400:]
	}
	m := map[string]any{"case": rt.c, "api_events": rt.apiEvs, "events_tail": ev}
	em := rt.emitted
	if len(em) > 60 {
		em = em[:60]
	}
	m["emitted_head"] = em
	for k, v := range extra {
		m[k] = v
	}
	return m
}

func init() {
	dmlOpts := genOpts{profile: "dml", maxP: 4, maxColls: 4, drops: true, late: true, deviants: true, junk: true, skewMs: 50, packsMin: 5, packsMax: 25}
	dmlRule := "case = generated catalog (1-4 collections x 1-3 shards x 0-3 extra partitions over 1-4 shared source pchannels; downstream placement and ids drawn independently, some collections placed differently downstream so that packs are forwarded between handlers; collections existing or not downstream) + per-pchannel pack scripts (5-25 packs: insert/delete/tick-only/empty packs, BeginTs=0 first packs, equal-timestamp runs, create*/tick/unsupported messages, drop-partition, drop-collection) + registrations interleaved with arrival (late collections / partitions) + seeded presend delays; the real manager runs until logical quiescence. Non-trivial = >= 2 streams emitted data and quiescence reached; distinct by interleaving signature (cross-stream order of (stream, pack) per output channel)."
	dmlAssume := []string{
		"fake msgdispatcher splits a pchannel pack per vchannel like Milvus' dispatcher (shared position slices, DDL by collection id); fake TargetAPI/MetaOp serve the generated catalogs; rig consumers apply create/drop events to the downstream catalog like the writer",
		"every fed message carries a unique id in Base.MsgID and its position; payload compared with a clone taken before feeding",
		"tick-only packs may legitimately be suppressed (wall-clock gated); their absence is never counted as loss",
		"objects dropped upstream while CDC was down (synthetic drop path) are exercised under C04, not here",
	}
	props["C01"] = &propDef{level: "exploration", rule: dmlRule, assume: dmlAssume, workers: 6, conc: 6,
		nCases: func(r *vf.Run) int { return r.Pick(300, 6000) },
		gen:    func(seed int64, idx int) *Case { return genCase(seed, idx, dmlOpts) },
		check: func(run *vf.Run, res *caseResult) {
			vs := checkC01(res.rt, run)
			for _, v := range vs {
				run.Violate(v.key, v.desc, replayOf(res, nil))
			}
			noteDML(run, res)
		},
		floors: func(run *vf.Run) {
			run.Floor("cases_quiescent", run.Pick(100, 2000))
			run.Floor("data_messages_observed", run.Pick(10000, 200000))
			run.Floor("interleavings", run.Pick(80, 1500))
			run.Floor("cases_with_forwarded_packs", 1)
			run.Floor("filtered_junk_messages", 1)
		}}
	props["C02"] = &propDef{level: "exploration", rule: dmlRule, assume: dmlAssume, workers: 6, conc: 6,
		nCases: func(r *vf.Run) int { return r.Pick(300, 6000) },
		gen:    func(seed int64, idx int) *Case { return genCase(seed, idx, dmlOpts) },
		check: func(run *vf.Run, res *caseResult) {
			vs := checkC02(res.rt, run)
			for _, v := range vs {
				run.Violate(v.key, v.desc, replayOf(res, nil))
			}
			noteDML(run, res)
		},
		floors: func(run *vf.Run) {
			run.Floor("cases_quiescent", run.Pick(100, 2000))
			run.Floor("cases_with_different_placement", run.Pick(10, 200))
			run.Floor("forwarded_data_packs", run.Pick(200, 4000))
			run.Floor("lazily_learned_partitions", run.Pick(50, 1000))
		}}
}

// noteDML records the shared coverage counters of the dml profile.
func noteDML(run *vf.Run, res *caseResult) {
	rt := res.rt
	run.Count("cases_quiescent", 1)
	sig := sigOfCase(rt)
	run.Distinct("interleavings", sig)
	streams := map[string]bool{}
	fwd := false
	rt.mu.Lock()
	for _, e := range rt.emitted {
		if e.Rec != nil {
			for _, m := range e.Msgs {
				if m.UID >= 0 {
					streams[e.Rec.srcV] = true
				}
			}
			if e.Rec.forwarded {
				fwd = true
			}
		}
	}
	junk := 0
	for _, sp := range rt.msgSpec {
		if !supported(sp.Kind) {
			junk++
		}
	}
	errs := rt.errEvents.Load()
	rt.mu.Unlock()
	run.Count("filtered_junk_messages", junk)
	if fwd {
		run.Count("cases_with_forwarded_packs", 1)
	}
	diff := false
	for _, col := range rt.c.Colls {
		for _, sh := range col.Shards {
			if sh.SrcP[4:] != sh.DstP[4:] {
				diff = true
			}
		}
	}
	if diff {
		run.Count("cases_with_different_placement", 1)
	}
	rt.target.mu.Lock()
	lazy := rt.target.calls["GetPartitionInfo"]
	rt.target.mu.Unlock()
	run.Count("lazily_learned_partitions", lazy)
	if errs > 0 {
		run.Count("cases_with_error_events", 1)
	}
	if len(streams) >= 2 {
		run.Nontrivial(sig)
	}
	if rt.c.Idx < 2 {
		run.Sample(map[string]any{"case": rt.c.Idx, "collections": rt.c.Colls, "packs_per_pchannel": len(rt.c.Scripts[rt.c.SrcPs[0]]), "steps": rt.c.Steps, "emitted_packs": len(rt.emitted), "api_events": rt.apiEvs})
	}
}
