package main

import (
	"fmt"
	"math/rand"
	"sort"

	"verifharness/internal/vf"
)

func newRand(seed int64, stream string, idx int) *rand.Rand { return vf.Rand(seed, stream, idx) }

type genOpts struct {
	profile        string
	maxP           int  // max pchannels
	maxColls       int  // max collections
	drops          bool // partition / collection drops in the scripts
	late           bool // collections / partitions registered while data flows
	deviants       bool // collections whose downstream placement differs from the base pairing (forces forwarding)
	raceAddPart    bool // AddPartition right after StartReadCollection without waiting for stream registration
	junk           bool // create*/tick/unsupported messages inside packs
	skewMs         int  // max clock skew between source pchannels
	packsMin       int
	packsMax       int
	oneDst         bool // all streams onto one downstream pchannel (C03)
	dropOrder      bool // enumerate shard delivery orders of drops (C04)
	unequalCount   bool // SourceChannelNum != TargetChannelNum (C16 end-to-end)
	partBeforeColl bool // the partitions of a late collection are announced concurrently with (possibly before) the collection itself
	reincarnate    bool // a dropped partition is created again under the same name (new ids on both sides) and gets data
	lateNewChan    bool // two collections on two source channels of their own; the second one (and with it the handler of its channel) starts late
}

// genCase builds a catalog, placements, scripts and steps. All choices come from rnd.
func genCase(seed int64, idx int, o genOpts) *Case {
	rnd := newRand(seed, "gen-"+o.profile, idx)
	c := &Case{Idx: idx, Profile: o.profile, Scripts: map[string][]PPack{}}
	nP := 1 + rnd.Intn(o.maxP)
	if o.lateNewChan && nP < 2 {
		nP = 2
	}
	// both clusters usually use the same physical channel names
	sameNames := rnd.Intn(2) == 0
	sname, dname := srcPName, dstPName
	if sameNames {
		sname = func(i int) string { return fmt.Sprintf("by-dev-rootcoord-dml_%d", i) }
		dname = sname
	}
	for i := 0; i < nP; i++ {
		c.SrcPs = append(c.SrcPs, sname(i))
		c.DstPs = append(c.DstPs, dname(i))
	}
	c.SrcChanNum, c.DstChanNum = nP, nP
	c.TTInterval = []int{1, 1, 10000}[rnd.Intn(3)]
	c.MsgPositions = idx%5 == 4
	c.DelayPermil = []int{0, 250, 500}[rnd.Intn(3)]

	nColl := 1 + rnd.Intn(o.maxColls)
	if o.lateNewChan {
		nColl = 2
	}
	// crosswise base pairing: nP single-shard anchor collections placed by a permutation of the channels
	var crossPerm []int
	if o.deviants && !o.oneDst && nP >= 2 && rnd.Intn(3) == 0 {
		crossPerm = rnd.Perm(nP)
		nColl = nP + 1 + rnd.Intn(2)
	}
	overlapIDs := rnd.Intn(3) == 0
	nextSrcID, nextDstID := int64(1000+rnd.Intn(50)*10), int64(7000+rnd.Intn(50)*10)
	dbs := []string{"default", "default", "db1"}
	uid := int64(idx%1000)*100000 + 1
	newUID := func() int64 { uid++; return uid }

	for ci := 0; ci < nColl; ci++ {
		col := CollSpec{SrcID: nextSrcID, DstID: nextDstID, Name: fmt.Sprintf("coll_%c", 'a'+ci), DB: dbs[rnd.Intn(len(dbs))], PreDownstream: rnd.Intn(3) != 0, CreateTs: hts(1_699_000_000_000, 0)}
		nextSrcID += int64(1 + rnd.Intn(7))
		nextDstID += int64(1 + rnd.Intn(7))
		var srcIdx []int
		if o.lateNewChan {
			srcIdx = []int{ci} // collection 0 on source channel 0, collection 1 alone on source channel 1
		} else if crossPerm != nil && ci < nP {
			srcIdx = []int{ci}
		} else if ci == 0 {
			// anchor: one shard on every source pchannel, base pairing src_i <-> dst_i
			for i := 0; i < nP; i++ {
				srcIdx = append(srcIdx, i)
			}
		} else {
			n := 1 + rnd.Intn(min(3, nP))
			srcIdx = rnd.Perm(nP)[:n]
			sort.Ints(srcIdx)
		}
		dstIdx := append([]int{}, srcIdx...)
		if crossPerm != nil && ci < nP {
			dstIdx = []int{crossPerm[ci]}
		} else if o.oneDst {
			for i := range dstIdx {
				dstIdx[i] = 0
			}
		} else if o.deviants && ci > 0 && rnd.Intn(3) == 0 && nP > 1 {
			// a different monotone placement downstream
			dstIdx = rnd.Perm(nP)[:len(srcIdx)]
			sort.Ints(dstIdx)
		}
		for k := range srcIdx {
			sp, dp := sname(srcIdx[k]), dname(dstIdx[k])
			col.Shards = append(col.Shards, ShardSpec{SrcP: sp, SrcV: vName(sp, col.SrcID, k), DstP: dp, DstV: vName(dp, col.DstID, k)})
		}
		col.Parts = append(col.Parts, PartSpec{Name: "_default", SrcID: col.SrcID*10 + 1, DstID: col.DstID*10 + 1, PreDownstream: true, CreateTs: col.CreateTs})
		for pi := 0; pi < rnd.Intn(4); pi++ {
			col.Parts = append(col.Parts, PartSpec{Name: fmt.Sprintf("part_%d", pi), SrcID: col.SrcID*10 + int64(2+pi), DstID: col.DstID*10 + int64(2+pi),
				PreDownstream: col.PreDownstream && rnd.Intn(2) == 0, CreateTs: col.CreateTs + uint64(pi+1)})
		}
		c.Colls = append(c.Colls, col)
	}
	if overlapIDs && len(c.Colls) >= 2 {
		// both clusters allocate ids from the same space: a downstream id may equal another collection's source id
		n := len(c.Colls)
		for i := range c.Colls {
			col := &c.Colls[i]
			col.DstID = c.Colls[(i+1)%n].SrcID
			for k := range col.Shards {
				col.Shards[k].DstV = vName(col.Shards[k].DstP, col.DstID, k)
			}
			for pi := range col.Parts {
				col.Parts[pi].DstID = col.DstID*10 + int64(1+pi)
			}
		}
	}
	if o.unequalCount {
		// the two clusters have different numbers of physical channels
		ur := newRand(seed, "unequal-"+o.profile, idx)
		mP := 1 + ur.Intn(5)
		for mP == nP {
			mP = 1 + ur.Intn(5)
		}
		c.DstPs = nil
		for j := 0; j < mP; j++ {
			c.DstPs = append(c.DstPs, dname(j))
		}
		c.DstChanNum = mP
		for ci := range c.Colls {
			col := &c.Colls[ci]
			// like Milvus: the shards of one collection go to distinct downstream channels while there are enough of
			// them (round-robin from some offset otherwise); the placement is independent of the upstream one
			n := len(col.Shards)
			var dst []int
			if n <= mP {
				dst = ur.Perm(mP)[:n]
			} else {
				off := ur.Intn(mP)
				for k := 0; k < n; k++ {
					dst = append(dst, (off+k)%mP)
				}
			}
			sort.Ints(dst)
			for k := range col.Shards {
				col.Shards[k].DstP = dname(dst[k])
				col.Shards[k].DstV = vName(col.Shards[k].DstP, col.DstID, k)
			}
		}
	}
	if o.oneDst {
		// more source than downstream channels: up to nP handlers (one per source pchannel) share dst 0
		c.DstPs = c.DstPs[:1]
		c.DstChanNum = 1
	}

	nPacks := o.packsMin + rnd.Intn(o.packsMax-o.packsMin+1)
	lateAt := 2 + rnd.Intn(max(1, nPacks/2))
	if lateAt > nPacks-2 {
		lateAt = nPacks - 2
	}
	// ---- steps: initial registrations (like CollectionReader.StartRead: all collections, then all partitions) ----
	lateColl := -1
	if o.late && nColl > 1 && rnd.Intn(2) == 0 {
		lateColl = 1 + rnd.Intn(nColl-1)
	}
	if o.lateNewChan {
		lateColl = 1
	}
	if o.partBeforeColl && nColl > 1 {
		// the race needs a late collection with several shards and a droppable partition: take the best candidate
		best := -1
		for ci := 1; ci < nColl; ci++ {
			if len(c.Colls[ci].Parts) < 2 {
				continue
			}
			if best < 0 || len(c.Colls[ci].Shards) > len(c.Colls[best].Shards) {
				best = ci
			}
		}
		if best >= 0 {
			lateColl = best
		}
	}
	order := rnd.Perm(nColl)
	if crossPerm != nil {
		// the single-shard anchors first (they establish the channel pairing), the rest in seeded order
		order = order[:0]
		for i := 0; i < nP; i++ {
			order = append(order, i)
		}
		for _, v := range rnd.Perm(nColl - nP) {
			order = append(order, nP+v)
		}
	} else if !o.deviants || rnd.Intn(2) == 0 {
		// anchor first (deviant collections then find their forward handler immediately)
		for i, v := range order {
			if v == 0 {
				order[0], order[i] = order[i], order[0]
			}
		}
	}
	startStep := map[int]int{}
	for _, ci := range order {
		if ci == lateColl {
			continue
		}
		startStep[ci] = len(c.Steps)
		c.Steps = append(c.Steps, Step{Kind: sStartColl, Coll: ci})
	}
	type latePart struct{ ci, pi int }
	var lateParts []latePart
	addPartStep := map[[2]int]int{}
	for _, ci := range order {
		if ci == lateColl {
			continue
		}
		for pi := range c.Colls[ci].Parts {
			if o.late && pi > 0 && rnd.Intn(4) == 0 {
				lateParts = append(lateParts, latePart{ci, pi})
				continue
			}
			st := Step{Kind: sAddPart, Coll: ci, Part: pi}
			if !o.raceAddPart {
				// registration settled: every shard's stream has processed the warm-up pack #0 (its handler holds
				// the collection record by then), as when partitions are added well after the collection started
				for _, sh := range c.Colls[ci].Shards {
					st.After = append(st.After, packDep(sh.SrcP, 0, ci))
				}
			}
			addPartStep[[2]int{ci, pi}] = len(c.Steps)
			c.Steps = append(c.Steps, st)
		}
	}
	lastInitial := len(c.Steps) - 1

	// per (coll, part): per-shard pack index of the drop-partition message (-1 none)
	dropPartAt := map[[2]int][]int{}
	dropCollAt := map[int][]int{}
	if o.drops {
		for ci, col := range c.Colls {
			for pi := 1; pi < len(col.Parts); pi++ {
				if rnd.Intn(3) == 0 || (o.partBeforeColl && ci == lateColl && pi == 1) {
					at := make([]int, len(col.Shards))
					for si := range at {
						at[si] = nPacks/2 + rnd.Intn(max(1, nPacks/2-1))
						if at[si] <= lateAt+1 { // late-registered objects: the drop comes after the data that waits for them
							at[si] = min(nPacks-1, lateAt+2)
						}
					}
					dropPartAt[[2]int{ci, pi}] = at
				}
			}
			if ci > 0 && rnd.Intn(3) == 0 {
				at := make([]int, len(col.Shards))
				for si := range at {
					at[si] = nPacks - 1 - rnd.Intn(2)
				}
				dropCollAt[ci] = at
			}
		}
	}
	for pidx, p := range c.SrcPs {
		baseMs := uint64(1_700_000_000_000) + uint64(pidx)*7
		if o.skewMs > 0 {
			baseMs += uint64(rnd.Intn(2 * o.skewMs))
		}
		stepMs := uint64(20 + rnd.Intn(200))
		prev := hts(baseMs, 0)
		var script []PPack
		for k := 0; k < nPacks; k++ {
			end := hts(baseMs+uint64(k+1)*stepMs, 0)
			pp := PPack{BeginTs: prev, EndTs: end, ZeroBegin: k == 0 && rnd.Intn(2) == 0}
			if k == 1 && lastInitial >= 0 {
				pp.After = append(pp.After, stepDep(lastInitial))
			}
			if k == 0 {
				for _, ci := range order {
					if ci != lateColl {
						pp.After = append(pp.After, stepDep(startStep[ci]))
					}
				}
				for _, ci := range order {
					if ci == lateColl {
						continue
					}
					for _, sh := range c.Colls[ci].Shards {
						if sh.SrcP == p {
							pp.After = append(pp.After, regDep(sh.SrcV))
						}
					}
				}
			}
			if lateColl >= 0 && k == lateAt {
				for _, sh := range c.Colls[lateColl].Shards {
					if sh.SrcP == p {
						pp.After = append(pp.After, regDep(sh.SrcV))
					}
				}
			}
			// message timestamps inside (prev, end]: a few distinct values, reused for equal-ts runs
			var tsPool []uint64
			for j := 0; j < 3; j++ {
				tsPool = append(tsPool, prev+uint64(1+rnd.Intn(int(stepMs)<<18-1)))
			}
			sort.Slice(tsPool, func(i, j int) bool { return tsPool[i] < tsPool[j] })
			for ci, col := range c.Colls {
				if (ci == lateColl && k <= lateAt) || k == 0 { // pack #0 is a warm-up tick-only pack
					continue
				}
				for si, sh := range col.Shards {
					if sh.SrcP != p {
						continue
					}
					if at, ok := dropCollAt[ci]; ok && k > at[si] {
						continue
					}
					n := 0
					switch q := rnd.Intn(10); {
					case q < 3:
						n = 0
					case q < 8:
						n = 1 + rnd.Intn(2)
					default:
						n = 3 + rnd.Intn(3)
					}
					for j := 0; j < n; j++ {
						pi := rnd.Intn(len(col.Parts))
						if at, ok := dropPartAt[[2]int{ci, pi}]; ok && k >= at[si] {
							pi = 0 // no data for a partition at/after its drop on this shard
						}
						isLate := false
						for _, lp := range lateParts {
							if lp.ci == ci && lp.pi == pi {
								isLate = true
							}
						}
						if isLate && k <= lateAt {
							pi = 0
						}
						kind := kInsert
						if rnd.Intn(3) == 0 {
							kind = kDelete
						}
						m := MsgSpec{UID: newUID(), Kind: kind, Coll: ci, Shard: si, Part: pi, TS: tsPool[rnd.Intn(len(tsPool))], Rows: 1 + rnd.Intn(3)}
						if kind == kDelete && rnd.Intn(4) == 0 {
							m.NoPartName = true
						}
						pp.Msgs = append(pp.Msgs, m)
					}
					if o.junk && rnd.Intn(6) == 0 {
						pp.Msgs = append(pp.Msgs, MsgSpec{UID: newUID(), Kind: []string{kCreatePart, kTimeTick, kFlush, kCreateColl}[rnd.Intn(4)], Coll: ci, Shard: si, Part: 0, TS: tsPool[rnd.Intn(len(tsPool))]})
					}
					for pi := 1; pi < len(col.Parts); pi++ {
						if at, ok := dropPartAt[[2]int{ci, pi}]; ok && at[si] == k {
							pp.Msgs = append(pp.Msgs, MsgSpec{UID: newUID(), Kind: kDropPart, Coll: ci, Shard: si, Part: pi, TS: tsPool[len(tsPool)-1]})
						}
					}
					if at, ok := dropCollAt[ci]; ok && at[si] == k {
						pp.Msgs = append(pp.Msgs, MsgSpec{UID: newUID(), Kind: kDropColl, Coll: ci, Shard: si, Part: -1, TS: end})
					}
				}
			}
			// a Milvus stream is time-ordered: messages of a pack in timestamp order (stable: generation order kept for equal ts)
			sort.SliceStable(pp.Msgs, func(i, j int) bool { return pp.Msgs[i].TS < pp.Msgs[j].TS })
			script = append(script, pp)
			prev = end
		}
		c.Scripts[p] = script
	}
	// a drop-partition message is only valid on a shard once the partition is registered there
	for key, at := range dropPartAt {
		if st, ok := addPartStep[[2]int{key[0], key[1]}]; ok {
			for si, sh := range c.Colls[key[0]].Shards {
				pk := &c.Scripts[sh.SrcP][at[si]]
				pk.After = append(pk.After, stepDep(st))
			}
		}
	}
	// ---- a dropped partition created again under the same name (new source id, new downstream id) ----
	if o.reincarnate {
		var cands [][2]int
		for key := range dropPartAt {
			_, collDropped := dropCollAt[key[0]]
			isLate := key[0] == lateColl
			for _, lp := range lateParts {
				if lp.ci == key[0] && lp.pi == key[1] {
					isLate = true
				}
			}
			if !collDropped && !isLate {
				cands = append(cands, key)
			}
		}
		sort.Slice(cands, func(i, j int) bool {
			return cands[i][0] < cands[j][0] || (cands[i][0] == cands[j][0] && cands[i][1] < cands[j][1])
		})
		if len(cands) > 0 {
			key := cands[rnd.Intn(len(cands))]
			ci, pi := key[0], key[1]
			col := &c.Colls[ci]
			old := col.Parts[pi]
			newPi := len(col.Parts)
			col.Parts = append(col.Parts, PartSpec{Name: old.Name, SrcID: col.SrcID*10 + int64(2+newPi) + 500, DstID: col.DstID*10 + int64(2+newPi) + 700, CreateTs: old.CreateTs + 1000})
			// the new incarnation is announced (watch event) once the old one's drop request has gone out
			stNew := len(c.Steps)
			c.Steps = append(c.Steps, Step{Kind: sAddPart, Coll: ci, Part: newPi, Async: true, After: []Dep{{DropEvt: true, EvtColl: ci, EvtPart: pi}}})
			for si, sh := range col.Shards {
				script := c.Scripts[sh.SrcP]
				last := script[len(script)-1]
				stepTs := uint64(40) << 18
				b := last.EndTs
				pp := PPack{BeginTs: b, EndTs: b + stepTs, After: []Dep{stepDep(stNew)}}
				for j := 0; j < 2+rnd.Intn(2); j++ {
					kind := kInsert
					if j == 1 {
						kind = kDelete
					}
					pp.Msgs = append(pp.Msgs, MsgSpec{UID: newUID(), Kind: kind, Coll: ci, Shard: si, Part: newPi, TS: b + uint64(1+j)<<18, Rows: 1 + rnd.Intn(2)})
				}
				script = append(script, pp, PPack{BeginTs: b + stepTs, EndTs: b + 2*stepTs})
				c.Scripts[sh.SrcP] = script
			}
			c.Note += fmt.Sprintf(" + partition %s of coll %d dropped and created again (part %d -> %d)", old.Name, ci, pi, newPi)
		}
	}
	// ---- late registrations (watch events while data flows) ----
	anchorP := c.Colls[0].Shards[0].SrcP
	if lateColl >= 0 {
		st := Step{Kind: sStartColl, Coll: lateColl, Async: true, After: []Dep{packDep(anchorP, lateAt-1, 0)}}
		if o.partBeforeColl {
			st.DelayMs = 300 // the collection event is handled after the partition events
		}
		si := len(c.Steps)
		c.Steps = append(c.Steps, st)
		for pi := range c.Colls[lateColl].Parts {
			ap := Step{Kind: sAddPart, Coll: lateColl, Part: pi, Async: true, After: []Dep{stepDep(si)}}
			if o.partBeforeColl {
				// the partition watch and the collection watch run on their own goroutines: the partition event may be
				// handled first (AddPartition then has to wait for the collection's streams); the second shard's stream
				// registers slowly, so that a retry of AddPartition sees the collection half registered
				ap.After = []Dep{packDep(anchorP, lateAt-1, 0)}
				if shs := c.Colls[lateColl].Shards; len(shs) >= 2 {
					if c.RegDelayMs == nil {
						c.RegDelayMs = map[string]int{}
					}
					c.RegDelayMs[shs[1].SrcV] = 1500
				}
			}
			for _, sh := range c.Colls[lateColl].Shards {
				if o.partBeforeColl {
					break
				}
				if o.raceAddPart {
					ap.After = append(ap.After, regDep(sh.SrcV))
				} else {
					ap.After = append(ap.After, packDep(sh.SrcP, lateAt, lateColl))
				}
			}
			addPartStep[[2]int{lateColl, pi}] = len(c.Steps)
			c.Steps = append(c.Steps, ap)
		}
		// pack lateAt is the late collection's warm-up (no data for it); its data (from lateAt+1) waits for its partitions
		for _, sh := range c.Colls[lateColl].Shards {
			if lateAt+1 < nPacks {
				pk := &c.Scripts[sh.SrcP][lateAt+1]
				for pi := range c.Colls[lateColl].Parts {
					pk.After = append(pk.After, stepDep(addPartStep[[2]int{lateColl, pi}]))
				}
			}
		}
	}
	for _, lp := range lateParts {
		st := Step{Kind: sAddPart, Coll: lp.ci, Part: lp.pi, Async: true, After: []Dep{packDep(anchorP, lateAt-1, 0)}}
		for _, sh := range c.Colls[lp.ci].Shards {
			st.After = append(st.After, regDep(sh.SrcV))
		}
		si := len(c.Steps)
		addPartStep[[2]int{lp.ci, lp.pi}] = si
		c.Steps = append(c.Steps, st)
		for _, sh := range c.Colls[lp.ci].Shards {
			if lateAt+1 < nPacks {
				pk := &c.Scripts[sh.SrcP][lateAt+1]
				pk.After = append(pk.After, stepDep(si))
			}
		}
		if at, ok := dropPartAt[[2]int{lp.ci, lp.pi}]; ok {
			for si2, sh := range c.Colls[lp.ci].Shards {
				pk := &c.Scripts[sh.SrcP][at[si2]]
				pk.After = append(pk.After, stepDep(si))
			}
		}
	}
	return c
}

// ---------------- C03 profile: several streams multiplexed onto one downstream channel ----------------

func genClock(seed int64, idx int) *Case {
	rnd := newRand(seed, "clockplan", idx)
	o := genOpts{profile: "clock", maxP: 4, maxColls: 4, drops: idx%5 == 0, late: false, deviants: false, junk: false, packsMin: 8, packsMax: 30, oneDst: true}
	o.skewMs = []int{0, 1, 300, 10000}[rnd.Intn(4)]
	if idx%5 == 3 {
		// several downstream channels with collections placed differently downstream: packs are forwarded to the
		// handler of another channel, whose clock may lag behind (or run ahead of) the forwarded stream
		o.oneDst, o.deviants = false, true
		if o.skewMs < 300 {
			o.skewMs = 300
		}
	}
	lateOld := idx%7 == 5
	if lateOld {
		// a collection on another source channel joins the shared downstream channel late, from an OLD checkpoint:
		// the channel clock, already ahead, must only ever be raised by a handler that starts
		o.late, o.oneDst, o.deviants, o.lateNewChan = true, true, false, true
	}
	c := genCase(seed, idx, o)
	fam := idx % 3
	switch fam {
	case 0: // free running
		c.DelayPermil = 0
		c.Note = "free-running"
	case 1: // seeded delays between computing a pack and enqueueing it
		c.DelayPermil = 400
		c.Note = "presend-delays"
	case 2: // pairwise inversion plans: hold A at presend until B (another stream, same or next pack) is done
		c.DelayPermil = 0
		c.Note = "pairwise-inversion-holds"
		type sref struct {
			p    string
			coll int
		}
		var streams []sref
		for ci, col := range c.Colls {
			for _, sh := range col.Shards {
				streams = append(streams, sref{sh.SrcP, ci})
			}
		}
		if len(streams) >= 2 {
			n := len(c.Scripts[c.SrcPs[0]])
			for k := 2; k < n-1; k += 1 + rnd.Intn(3) {
				a := streams[rnd.Intn(len(streams))]
				b := streams[rnd.Intn(len(streams))]
				if a == b {
					continue
				}
				c.Holds = append(c.Holds, Hold{P: a.p, Idx: k, Coll: a.coll, UntilP: b.p, UntilIdx: k + rnd.Intn(2), UntilColl: b.coll})
			}
		}
	}
	// resume cases: the streams start from a checkpoint whose time is above the source clock of lagging streams
	if idx%7 == 3 {
		for i := range c.Colls {
			c.Colls[i].SeekTs = hts(1_700_000_000_000+uint64(rnd.Intn(3000)), 0)
		}
		c.Note += "+resume-from-checkpoint"
	}
	if lateOld {
		for _, st := range c.Steps {
			if st.Kind == sStartColl && st.Async {
				c.Colls[st.Coll].SeekTs = hts(1_699_999_000_000+uint64(rnd.Intn(500)), 0)
				c.Note += fmt.Sprintf("+late coll %d starts from an old checkpoint", st.Coll)
			}
		}
	}
	return c
}

// ---------------- C04 profile: drops, shard delivery orders, registration races, stops, dropped-while-down ----------------

func permutations(n int) [][]int {
	var out [][]int
	a := make([]int, n)
	for i := range a {
		a[i] = i
	}
	var rec func(int)
	rec = func(k int) {
		if k == n {
			out = append(out, append([]int{}, a...))
			return
		}
		for i := k; i < n; i++ {
			a[k], a[i] = a[i], a[k]
			rec(k + 1)
			a[k], a[i] = a[i], a[k]
		}
	}
	rec(0)
	return out
}

func findDropPack(c *Case, ci, si, pi int, kind string) int {
	sh := c.Colls[ci].Shards[si]
	for idx, pp := range c.Scripts[sh.SrcP] {
		for _, m := range pp.Msgs {
			if m.Kind == kind && m.Coll == ci && m.Shard == si && (kind == kDropColl || m.Part == pi) {
				return idx
			}
		}
	}
	return -1
}

func genDrops(seed int64, idx int) *Case {
	if idx%12 == 11 {
		return genGreedy(seed, idx)
	}
	rnd := newRand(seed, "dropplan", idx)
	o := genOpts{profile: "drops", maxP: 4, maxColls: 3, drops: true, late: false, deviants: idx%4 == 0, junk: false, skewMs: 20, packsMin: 6, packsMax: 14}
	o.raceAddPart = idx%2 == 1
	o.late = idx%3 == 2
	o.partBeforeColl = o.late && idx%2 == 0
	c := genCase(seed, idx, o)
	c.DelayPermil = []int{0, 300}[rnd.Intn(2)]
	mode := idx % 6
	// pick the droppable objects
	type obj struct{ ci, pi int }
	var objs []obj
	for ci, col := range c.Colls {
		if findDropPack(c, ci, 0, -1, kDropColl) >= 0 {
			objs = append(objs, obj{ci, -1})
		}
		for pi := 1; pi < len(col.Parts); pi++ {
			if findDropPack(c, ci, 0, pi, kDropPart) >= 0 {
				objs = append(objs, obj{ci, pi})
			}
		}
	}
	if len(objs) > 0 {
		// enforce one delivery order of the shards' drop messages for ONE object (all S! orders appear across cases)
		ob := objs[rnd.Intn(len(objs))]
		S := len(c.Colls[ob.ci].Shards)
		if S >= 2 {
			perms := permutations(S)
			pm := perms[(idx/6)%len(perms)]
			kind := kDropColl
			if ob.pi >= 0 {
				kind = kDropPart
			}
			for i := 1; i < S; i++ {
				prev, cur := pm[i-1], pm[i]
				pIdx := findDropPack(c, ob.ci, prev, ob.pi, kind)
				cIdx := findDropPack(c, ob.ci, cur, ob.pi, kind)
				if pIdx < 0 || cIdx < 0 {
					continue
				}
				pk := &c.Scripts[c.Colls[ob.ci].Shards[cur].SrcP][cIdx]
				pk.After = append(pk.After, packDep(c.Colls[ob.ci].Shards[prev].SrcP, pIdx, ob.ci))
			}
			c.Note = fmt.Sprintf("drop order %v of %d shards for coll %d part %d", pm, S, ob.ci, ob.pi)
		}
		if mode == 1 || mode == 3 {
			// rows of the dropped object BEHIND its drop message, in the same pack, on the shard that delivers the drop
			// last (on any other shard the rows of a dropped collection wait for the collection to be marked dropped,
			// which the imposed delivery order would prevent)
			si := 0
			if S >= 2 {
				si = permutations(S)[(idx/6)%len(permutations(S))][S-1]
			}
			kind := kDropColl
			if ob.pi >= 0 {
				kind = kDropPart
			}
			sp := c.Colls[ob.ci].Shards[si].SrcP
			if k := findDropPack(c, ob.ci, si, ob.pi, kind); k >= 0 {
				pk := &c.Scripts[sp][k]
				for mi := range pk.Msgs {
					m := &pk.Msgs[mi]
					if m.Kind == kind && m.Coll == ob.ci && m.Shard == si && (kind == kDropColl || m.Part == ob.pi) && m.TS >= pk.EndTs {
						m.TS = pk.EndTs - 1
					}
				}
				part := ob.pi
				if part < 0 {
					part = rnd.Intn(len(c.Colls[ob.ci].Parts))
				}
				base := int64(idx%1000)*100000 + 90000
				n := 1 + rnd.Intn(2)
				for j := 0; j < n; j++ {
					kd := kInsert
					if j == 1 {
						kd = kDelete
					}
					pk.Msgs = append(pk.Msgs, MsgSpec{UID: base + int64(j), Kind: kd, Coll: ob.ci, Shard: si, Part: part, TS: pk.EndTs, Rows: 1 + rnd.Intn(2), AfterDrop: true})
				}
				sort.SliceStable(pk.Msgs, func(i, j int) bool { return pk.Msgs[i].TS < pk.Msgs[j].TS })
				c.Note += fmt.Sprintf(" + %d row message(s) behind the drop message on shard %d", n, si)
			}
		}
	}
	switch mode {
	case 4: // stop a collection in the middle of the run: must never produce a drop
		ci := rnd.Intn(len(c.Colls))
		sh := c.Colls[ci].Shards[0]
		at := 2 + rnd.Intn(max(1, len(c.Scripts[sh.SrcP])-3))
		c.Steps = append(c.Steps, Step{Kind: sStopColl, Coll: ci, Async: true, After: []Dep{packDep(sh.SrcP, at, ci)}})
		c.Note += fmt.Sprintf(" + stop coll %d after pack %d", ci, at)
	case 5: // objects dropped upstream while CDC was down; everything resumes from checkpoints
		seek0 := rnd.Intn(4) == 0
		for i := range c.Colls {
			if !seek0 {
				c.Colls[i].SeekTs = hts(1_699_999_999_000, 0)
			}
			c.Colls[i].PreDownstream = true
			for pi := range c.Colls[i].Parts {
				c.Colls[i].Parts[pi].PreDownstream = true
			}
		}
		marked := false
		for _, ob := range objs {
			if rnd.Intn(2) == 0 {
				continue
			}
			marked = true
			if ob.pi < 0 {
				c.Colls[ob.ci].DroppedAtStart = true
			} else {
				c.Colls[ob.ci].Parts[ob.pi].DroppedAtStart = true
			}
		}
		if !marked && len(objs) > 0 {
			ob := objs[0]
			if ob.pi < 0 {
				c.Colls[ob.ci].DroppedAtStart = true
			} else {
				c.Colls[ob.ci].Parts[ob.pi].DroppedAtStart = true
			}
		}
		c.Note += " + dropped-while-down objects"
	}
	return c
}

// genGreedy (drops profile, every 12th case): objects dropped upstream while CDC was down are registered on a handler
// that is busy with FORWARDED packs of another collection. Two source and two downstream channels with the base
// pairing s0<->d0, s1<->d1 (anchor collection a); collection d (s0 -> d1) is read by the handler of s0 and forwarded
// to the handler of s1; collections x1..x3 (s1 -> d1) were dropped while CDC was down and are registered one by one
// while d's packs flow. Their synthetic drop messages wait in the queue of the handler of s1 next to the forwarded
// packs: each of them must still be turned into exactly one drop request.
func genGreedy(seed int64, idx int) *Case {
	rnd := newRand(seed, "greedy", idx)
	c := &Case{Idx: idx, Profile: "drops", Scripts: map[string][]PPack{}, TTInterval: 1, DelayPermil: 1000}
	c.SrcPs = []string{srcPName(0), srcPName(1)}
	c.DstPs = []string{dstPName(0), dstPName(1)}
	c.SrcChanNum, c.DstChanNum = 2, 2
	seek := hts(1_699_999_999_000, 0)
	mk := func(name string, src, dst int64, shards [][2]int, dropped bool) CollSpec {
		col := CollSpec{SrcID: src, DstID: dst, Name: name, DB: "default", PreDownstream: true, CreateTs: hts(1_699_000_000_000, 0), SeekTs: seek, DroppedAtStart: dropped}
		for k, sd := range shards {
			sp, dp := srcPName(sd[0]), dstPName(sd[1])
			col.Shards = append(col.Shards, ShardSpec{SrcP: sp, SrcV: vName(sp, src, k), DstP: dp, DstV: vName(dp, dst, k)})
		}
		col.Parts = []PartSpec{{Name: "_default", SrcID: src*10 + 1, DstID: dst*10 + 1, PreDownstream: true, CreateTs: col.CreateTs}}
		return col
	}
	base := int64(3000 + rnd.Intn(50)*10)
	c.Colls = append(c.Colls, mk("coll_a", base, base+5000, [][2]int{{0, 0}, {1, 1}}, false))
	c.Colls = append(c.Colls, mk("coll_d", base+1, base+5001, [][2]int{{0, 1}}, false))
	nx := 2 + rnd.Intn(2)
	for i := 0; i < nx; i++ {
		c.Colls = append(c.Colls, mk(fmt.Sprintf("coll_x%d", i), base+2+int64(i), base+5002+int64(i), [][2]int{{1, 1}}, true))
	}
	uid := int64(idx%1000)*100000 + 1
	nPacks := 40 + rnd.Intn(20)
	t := uint64(1_700_000_000_000)
	for k := 0; k < nPacks; k++ {
		b, e := hts(t, 0), hts(t+8, 0)
		p0 := PPack{BeginTs: b, EndTs: e}
		p1 := PPack{BeginTs: b, EndTs: e}
		if k > 0 {
			// every pack of s0 carries rows of d (forwarded); a carries rows now and then
			p0.Msgs = append(p0.Msgs, MsgSpec{UID: uid, Kind: kInsert, Coll: 1, Shard: 0, Part: 0, TS: hts(t+2, 1), Rows: 1 + rnd.Intn(2)})
			uid++
			if k%5 == 0 {
				p0.Msgs = append(p0.Msgs, MsgSpec{UID: uid, Kind: kInsert, Coll: 0, Shard: 0, Part: 0, TS: hts(t+3, 1), Rows: 1})
				uid++
			}
			if k%4 == 0 {
				p1.Msgs = append(p1.Msgs, MsgSpec{UID: uid, Kind: kInsert, Coll: 0, Shard: 1, Part: 0, TS: hts(t+3, 2), Rows: 1})
				uid++
			}
		}
		c.Scripts[c.SrcPs[0]] = append(c.Scripts[c.SrcPs[0]], p0)
		c.Scripts[c.SrcPs[1]] = append(c.Scripts[c.SrcPs[1]], p1)
		t += 10
	}
	c.Steps = append(c.Steps, Step{Kind: sStartColl, Coll: 0}, Step{Kind: sStartColl, Coll: 1}, Step{Kind: sAddPart, Coll: 0, Part: 0}, Step{Kind: sAddPart, Coll: 1, Part: 0})
	for i := 0; i < nx; i++ {
		at := 6 + i*(nPacks-12)/nx + rnd.Intn(4)
		c.Steps = append(c.Steps, Step{Kind: sStartColl, Coll: 2 + i, Async: true, After: []Dep{packDep(c.SrcPs[0], at, 1)}})
	}
	c.Note = fmt.Sprintf("%d objects dropped while down are registered on a handler busy with forwarded packs + dropped-while-down objects", nx)
	return c
}
