package main

// C16, manager part: the REAL replicateChannelManager (startReadChannel / waitChannel / forwardChannel and their
// goroutines, util.ChannelMapping, the forward counter) is offered generated placements through
// StartReadCollection — sequentially and concurrently, balanced and conflicting — and the assignment it holds is
// read back (hook VerifChannelAssignment: the mapping's public predicate under the manager's channel lock) after
// every step and until it is stable at the end. bin/check C16 runs this profile first and merges its dump into
// the unit rig's run (counters manager_*).
//
// Oracle (all facts are monotone: a snapshot taken late can only miss a violation, never invent one):
//   function    a key channel is paired with at most one partner in one snapshot;
//   stable      a pair seen in one snapshot is there in every later snapshot;
//   load        no partner serves more than ceil(larger/smaller) keys; with equal counts the pairing is one-to-one;
//   handler     a handler that has started reading uses exactly the pair recorded for its key;
//   total       (only for placements the one-partner-per-key mapping can serve, i.e. no conflicting pairing)
//               every source channel in use ends up assigned and every handler ends up started.

import (
	"fmt"
	"math/rand"
	"sort"
	"strings"
	"time"

	"github.com/zilliztech/milvus-cdc/core/reader"

	"verifharness/internal/vf"
)

type mapSnap struct {
	At        int64
	SourceKey bool
	Quota     int
	Pairs     [][2]string // (source, target)
	Handlers  []reader.VerifHandlerInfo
}

func (rt *caseRT) snapMapping() *mapSnap {
	if rt.mgr == nil {
		return nil
	}
	// reading the assignment and stamping it is one step with respect to other snapshots: concurrent callers would
	// otherwise stamp an older reading with a later clock and the stability clause would see a pair "disappear"
	rt.snapMu.Lock()
	defer rt.snapMu.Unlock()
	sk, q, pairs, hs, ok := reader.VerifChannelAssignment(rt.mgr, rt.c.SrcPs, rt.c.DstPs)
	if !ok {
		return nil
	}
	sort.Slice(pairs, func(i, j int) bool { return pairs[i][0]+"|"+pairs[i][1] < pairs[j][0]+"|"+pairs[j][1] })
	sort.Slice(hs, func(i, j int) bool { return hs[i].Key < hs[j].Key })
	s := &mapSnap{At: rt.tick(), SourceKey: sk, Quota: q, Pairs: pairs, Handlers: hs}
	rt.mu.Lock()
	rt.mapSnaps = append(rt.mapSnaps, s)
	rt.mu.Unlock()
	return s
}

func (s *mapSnap) sig() string {
	var b strings.Builder
	for _, p := range s.Pairs {
		fmt.Fprintf(&b, "%s>%s;", p[0], p[1])
	}
	for _, h := range s.Handlers {
		fmt.Fprintf(&b, "%s=%s/%s/%v;", h.Key, h.SourcePChannel, h.TargetPChannel, h.Started)
	}
	return b.String()
}

var c16Counts = [][2]int{{2, 1}, {3, 2}, {4, 2}, {6, 3}, {5, 2}, {3, 1}, {1, 2}, {2, 3}, {2, 4}, {3, 6}, {2, 5}, {4, 3}, {3, 4}, {2, 2}, {3, 3}, {4, 4}}

func genMapping(seed int64, idx int) *Case {
	rnd := newRand(seed, "gen-mapping", idx)
	c := &Case{Idx: idx, Profile: "mapping", Scripts: map[string][]PPack{}, TTInterval: 10000}
	cnt := c16Counts[idx%len(c16Counts)]
	c.SrcChanNum, c.DstChanNum = cnt[0], cnt[1]
	for i := 0; i < cnt[0]; i++ {
		c.SrcPs = append(c.SrcPs, srcPName(i))
	}
	for i := 0; i < cnt[1]; i++ {
		c.DstPs = append(c.DstPs, dstPName(i))
	}
	larger, smaller := cnt[0], cnt[1]
	if smaller > larger {
		larger, smaller = smaller, larger
	}
	quota := (larger + smaller - 1) / smaller
	// family 0: balanced (a pairing the mapping can serve: key channel k <-> partner k / quota, every collection
	// placed consistently with it); family 1: Milvus-like independent placements (shards of a collection on distinct
	// channels on both sides, otherwise free); family 2: adversarial (many single-shard collections whose downstream
	// channel is drawn from a small set, so partners fill up and later collections must wait / be forwarded)
	family := (idx / len(c16Counts)) % 3
	nColl := 3 + rnd.Intn(8)
	base := map[int]int{} // balanced pairing key index -> partner index
	for k := 0; k < larger; k++ {
		base[k] = k / quota
		if base[k] >= smaller {
			base[k] = smaller - 1
		}
	}
	if family == 0 {
		// a seeded balanced pairing. The manager pairs the i-th smallest source vchannel of a collection with the
		// i-th smallest downstream vchannel, so only monotone pairings can be offered consistently: keys in order,
		// every partner gets 1..quota of them
		for {
			nb, k := map[int]int{}, 0
			for p := 0; p < smaller && k < larger; p++ {
				n := 1 + rnd.Intn(quota)
				for j := 0; j < n && k < larger; j++ {
					nb[k] = p
					k++
				}
			}
			if k == larger {
				base = nb
				break
			}
		}
	}
	srcID, dstID := int64(2000+rnd.Intn(20)*10), int64(8000+rnd.Intn(20)*10)
	for ci := 0; ci < nColl; ci++ {
		col := CollSpec{SrcID: srcID, DstID: dstID, Name: fmt.Sprintf("m_%c", 'a'+ci), DB: "default", PreDownstream: true, CreateTs: hts(1_699_000_000_000, 0)}
		srcID += int64(1 + rnd.Intn(5))
		dstID += int64(1 + rnd.Intn(5))
		var sIdx, dIdx []int
		switch family {
		case 0:
			n := 1 + rnd.Intn(min(3, larger))
			keys := rnd.Perm(larger)[:n]
			for _, k := range keys {
				if cnt[0] >= cnt[1] {
					sIdx, dIdx = append(sIdx, k), append(dIdx, base[k])
				} else {
					sIdx, dIdx = append(sIdx, base[k]), append(dIdx, k)
				}
			}
		case 1:
			n := 1 + rnd.Intn(min(3, smaller))
			sIdx, dIdx = rnd.Perm(cnt[0])[:n], rnd.Perm(cnt[1])[:n]
		default:
			sIdx = []int{rnd.Intn(cnt[0])}
			dIdx = []int{rnd.Intn(min(2, cnt[1]))}
			if rnd.Intn(4) == 0 {
				dIdx = []int{rnd.Intn(cnt[1])}
			}
		}
		// the manager pairs sorted source vchannels with sorted downstream vchannels
		sort.Ints(sIdx)
		sort.Ints(dIdx)
		for k := range sIdx {
			sp, dp := srcPName(sIdx[k]), dstPName(dIdx[k])
			col.Shards = append(col.Shards, ShardSpec{SrcP: sp, SrcV: vName(sp, col.SrcID, k), DstP: dp, DstV: vName(dp, col.DstID, k)})
		}
		col.Parts = []PartSpec{{Name: "_default", SrcID: col.SrcID*10 + 1, DstID: col.DstID*10 + 1, PreDownstream: true, CreateTs: col.CreateTs}}
		c.Colls = append(c.Colls, col)
	}
	// steps: every collection is started once; a seeded share of the calls runs on its own goroutine (the watch
	// callbacks of the catalog reader do), the others in sequence; optional small delays
	mode := rnd.Intn(3) // 0 all sequential, 1 mixed, 2 all concurrent
	for ci := range c.Colls {
		st := Step{Kind: sStartColl, Coll: ci}
		if mode == 2 || (mode == 1 && rnd.Intn(2) == 0) {
			st.Async = true
			if rnd.Intn(3) == 0 {
				st.DelayMs = rnd.Intn(3)
			}
		}
		c.Steps = append(c.Steps, st)
	}
	c.Note = fmt.Sprintf("%dx%d family %d mode %d", cnt[0], cnt[1], family, mode)
	if idx%4 == 3 {
		genMappingChurn(c, rnd, cnt)
	}
	return c
}

// genMappingChurn (every fourth case): the assignment must survive what happens to the handlers. All calls in
// sequence. (1) The first start of one collection fails at the connection check of its new handler (message queue
// down); it is started again at the end. (2) A collection that is the only one read from its source channels is
// stopped; then a NEW collection is offered that pairs one of those source channels with ANOTHER downstream channel.
// A pair once recorded must still be there afterwards (and a failed start must not have recorded one that a later
// start then replaces).
func genMappingChurn(c *Case, rnd *rand.Rand, cnt [2]int) {
	for i := range c.Steps {
		c.Steps[i].Async, c.Steps[i].DelayMs = false, 0
	}
	// (1) a failing first start
	f := rnd.Intn(len(c.Colls))
	var steps []Step
	// (the reader reports the error, its task is paused and QuitRead stops every collection it had tried to start)
	steps = append(steps, Step{Kind: sStartColl, Coll: f, MQDown: true}, Step{Kind: sStopColl, Coll: f})
	for _, st := range c.Steps {
		if st.Coll != f {
			steps = append(steps, st)
		}
	}
	// (2) stop a collection that is alone on its source channels, offer a new one on another downstream channel
	use := map[string]int{}
	for ci, col := range c.Colls {
		if ci == f {
			continue
		}
		for _, sh := range col.Shards {
			use[sh.SrcP]++
		}
	}
	note := ""
	for ci, col := range c.Colls {
		if ci == f {
			continue
		}
		alone := true
		for _, sh := range col.Shards {
			if use[sh.SrcP] != 1 {
				alone = false
			}
		}
		if !alone || cnt[1] < 2 {
			continue
		}
		sh := col.Shards[0]
		var other string
		for j := 0; j < cnt[1]; j++ {
			if dstPName(j) != sh.DstP {
				other = dstPName(j)
				break
			}
		}
		nc := CollSpec{SrcID: col.SrcID + 900, DstID: col.DstID + 900, Name: "m_z", DB: "default", PreDownstream: true, CreateTs: col.CreateTs}
		nc.Shards = []ShardSpec{{SrcP: sh.SrcP, SrcV: vName(sh.SrcP, nc.SrcID, 0), DstP: other, DstV: vName(other, nc.DstID, 0)}}
		nc.Parts = []PartSpec{{Name: "_default", SrcID: nc.SrcID*10 + 1, DstID: nc.DstID*10 + 1, PreDownstream: true, CreateTs: nc.CreateTs}}
		c.Colls = append(c.Colls, nc)
		steps = append(steps, Step{Kind: sStopColl, Coll: ci}, Step{Kind: sStartColl, Coll: len(c.Colls) - 1})
		note = fmt.Sprintf(" + stop %s (alone on %s) then %s -> %s", col.Name, sh.SrcP, sh.SrcP, other)
		break
	}
	steps = append(steps, Step{Kind: sStartColl, Coll: f})
	c.Steps = steps
	c.Note += fmt.Sprintf(" churn: first start of %s with the message queue down%s", c.Colls[f].Name, note)
}

type c16mStats struct {
	snaps, pairs, waiting, started int
	final                          *mapSnap
}

func checkC16M(rt *caseRT, st *c16mStats) []vio {
	var out []vio
	seen := map[string]bool{}
	add := func(k, d string) {
		if !seen[k] {
			seen[k] = true
			out = append(out, vio{k, d})
		}
	}
	c := rt.c
	// wait until the assignment is stable (the forward / wait goroutines are not part of the rig's quiescence)
	var last string
	stable := 0
	for i := 0; i < 400 && stable < 6; i++ {
		s := rt.snapMapping()
		if s == nil {
			break
		}
		if g := s.sig(); g == last {
			stable++
		} else {
			stable, last = 0, g
		}
		time.Sleep(5 * time.Millisecond)
	}
	rt.mu.Lock()
	snaps := append([]*mapSnap{}, rt.mapSnaps...)
	rt.mu.Unlock()
	if len(snaps) == 0 {
		return out
	}
	sort.Slice(snaps, func(i, j int) bool { return snaps[i].At < snaps[j].At })
	st.snaps = len(snaps)
	larger, smaller := c.SrcChanNum, c.DstChanNum
	if smaller > larger {
		larger, smaller = smaller, larger
	}
	quota := (larger + smaller - 1) / smaller
	prev := map[[2]string]int64{}
	var prevSnap *mapSnap
	for _, s := range snaps {
		keyOf := func(p [2]string) (string, string) {
			if s.SourceKey {
				return p[0], p[1]
			}
			return p[1], p[0]
		}
		partner := map[string]string{}
		load := map[string][]string{}
		cur := map[[2]string]bool{}
		for _, p := range s.Pairs {
			cur[p] = true
			k, v := keyOf(p)
			if old, ok := partner[k]; ok && old != v {
				add("C16/channel-assigned-to-two-partners", fmt.Sprintf("[%s] channel %s is paired with %s and %s at clock %d", c.Note, k, old, v, s.At))
			}
			partner[k] = v
			load[v] = append(load[v], k)
		}
		for v, ks := range load {
			if len(ks) > quota {
				add("C16/channel-overloaded", fmt.Sprintf("[%s] channel %s serves %d channels %v, quota ceil(%d/%d)=%d (clock %d; handlers %+v)", c.Note, v, len(ks), ks, larger, smaller, quota, s.At, s.Handlers))
			}
			if c.SrcChanNum == c.DstChanNum && len(ks) > 1 {
				add("C16/equal-counts-not-one-to-one", fmt.Sprintf("[%s] channel %s is the partner of %v", c.Note, v, ks))
			}
		}
		for p, at := range prev {
			if !cur[p] {
				add("C16/assignment-changed", fmt.Sprintf("[%s] pair %s -> %s held at clock %d is gone at clock %d (now: %v handlers %+v; previous snapshot: %v handlers %+v)", c.Note, p[0], p[1], at, s.At, s.Pairs, s.Handlers, prevSnap.Pairs, prevSnap.Handlers))
			}
		}
		for p := range cur {
			if _, ok := prev[p]; !ok {
				prev[p] = s.At
			}
		}
		prevSnap = s
		for _, h := range s.Handlers {
			if !h.Started {
				continue
			}
			if !cur[[2]string{h.SourcePChannel, h.TargetPChannel}] {
				add("C16/started-handler-uses-unrecorded-pair", fmt.Sprintf("[%s] handler %s reads %s and writes %s at clock %d, recorded pairs: %v", c.Note, h.Key, h.SourcePChannel, h.TargetPChannel, s.At, s.Pairs))
			}
		}
	}
	fin := snaps[len(snaps)-1]
	st.final = fin
	st.pairs = len(fin.Pairs)
	for _, h := range fin.Handlers {
		if h.Started {
			st.started++
		} else {
			st.waiting++
		}
	}
	if !placementConflict(c) && stable >= 6 {
		assigned := map[string]bool{}
		for _, p := range fin.Pairs {
			assigned[p[0]] = true
		}
		for _, col := range c.Colls {
			for _, sh := range col.Shards {
				if !assigned[sh.SrcP] {
					add("C16/channel-in-use-never-assigned", fmt.Sprintf("[%s] source channel %s (collection %s) has no downstream channel although the placements fit a balanced pairing; pairs %v handlers %+v", c.Note, sh.SrcP, col.Name, fin.Pairs, fin.Handlers))
				}
			}
		}
		if st.waiting > 0 {
			add("C16/handler-waits-although-placements-are-balanced", fmt.Sprintf("[%s] %d handler(s) still wait for a channel: %+v", c.Note, st.waiting, fin.Handlers))
		}
	}
	return out
}

func init() {
	props["C16M"] = &propDef{level: "exploration", workers: 6, conc: 6,
		rule: "manager part of C16: the real replicateChannelManager is offered 3-10 collections (1-3 shards) through StartReadCollection for 16 channel-count pairs (2x1 .. 6x3, 1x2 .. 3x6, 4x3, 3x4, equal counts) in three placement families (balanced pairing / Milvus-like independent placements / adversarial: single-shard collections aimed at few downstream channels so that handlers must wait and channels are forwarded) and three call modes (sequential / mixed / all concurrent with 0-2 ms delays); no data flows. The assignment is read back after every call and until stable. Non-trivial = at least two pairs assigned; distinct by (count pair, family, mode, final assignment).",
		assume: []string{
			"the assignment is read through ChannelMapping.CheckKeyExist over all (source, target) names under the manager's channel lock (hook VerifChannelAssignment); all judged facts are monotone, so a late snapshot can miss a violation but not invent one",
			"totality is judged only for placements that a one-partner-per-key mapping within the quota can serve",
		},
		nCases: func(r *vf.Run) int { return r.Pick(480, 9600) },
		gen:    genMapping,
		check: func(run *vf.Run, res *caseResult) {
			st := &c16mStats{}
			for _, v := range checkC16M(res.rt, st) {
				run.Violate(v.key, v.desc, replayOf(res, map[string]any{"note": res.rt.c.Note, "final": st.final}))
			}
			run.Count("cases_quiescent", 1)
			run.Count("snapshots", st.snaps)
			run.Count("pairs_assigned", st.pairs)
			run.Count("handlers_started", st.started)
			run.Count("handlers_left_waiting", st.waiting)
			if placementConflict(res.rt.c) {
				run.Count("cases_conflicting_pairing", 1)
			}
			if st.waiting > 0 {
				run.Count("cases_with_waiting_handlers", 1)
			}
			fam := res.rt.c.Note
			run.Distinct("count_pairs", fam[:strings.Index(fam, " ")])
			if st.final != nil && st.pairs >= 2 {
				run.Nontrivial(fam + "|" + st.final.sig())
			}
			if res.rt.c.Idx < 2 {
				run.Sample(map[string]any{"case": res.rt.c.Idx, "note": fam, "collections": res.rt.c.Colls, "final_assignment": st.final})
			}
		},
		floors: func(run *vf.Run) {
			run.Floor("cases_quiescent", run.Pick(160, 3200))
			run.Floor("pairs_assigned", run.Pick(300, 6000))
			run.Floor("cases_conflicting_pairing", run.Pick(20, 400))
			run.Floor("cases_with_waiting_handlers", run.Pick(5, 100))
			run.Floor("count_pairs", 12)
		}}
}
