package main

// C03 — per downstream channel, emitted time is monotone and packs end with a tick.
//
// The same predicate is evaluated over two orders of the packs of one output channel:
//   computed order — order of the "computed" hook events, taken inside the channel lock (= order in which the
//                    ticks were assigned); isolates the clock logic from delivery;
//   dequeue order  — what the downstream consumer sees; this is what the property is about.
// A dequeue-order violation between two packs of different streams whose dequeue order is the reverse of
// their computed order is "explained by reordering between compute and enqueue" (the known finding); every
// other violation — in computed order, between packs of one stream, or of the pack-local clauses — gets
// its own key.

import (
	"fmt"
	"sort"
)

type c03Stats struct {
	packs, inversions, dataPacks, tickOnly, channels3 int
	orders                                            map[string]struct{}
}

func checkC03(rt *caseRT, st *c03Stats) []vio {
	floorSeen := map[string]bool{}
	var vs []vio
	add := func(k, d string) { vs = append(vs, vio{k, d}) }
	emits := rt.sortedEmits()
	rt.mu.Lock()
	specs := rt.msgSpec
	rt.mu.Unlock()
	for q, packs := range emits {
		st.packs += len(packs)
		streams := map[string]bool{}
		// ---- pack-local clauses (independent of order) ----
		for _, ep := range packs {
			if ep.Rec != nil {
				streams[ep.Rec.srcV] = true
			}
			n := len(ep.Msgs)
			if n == 0 || ep.Msgs[n-1].UID != -1 {
				add("C03/pack-does-not-end-with-a-tick", fmt.Sprintf("q=%s seq=%d: %d messages, last type %v", q, ep.Seq, n, lastType(ep)))
				continue
			}
			tick := ep.Msgs[n-1].End
			data := 0
			var minTs, maxTs uint64
			for i, m := range ep.Msgs {
				if m.UID == -1 {
					if i != 0 && i != n-1 {
						add("C03/tick-in-the-middle-of-a-pack", fmt.Sprintf("q=%s seq=%d index %d", q, ep.Seq, i))
					}
					continue
				}
				data++
				if m.Begin != m.End {
					add("C03/message-begin-end-ts-disagree", fmt.Sprintf("q=%s seq=%d uid=%d begin=%d end=%d", q, ep.Seq, m.UID, m.Begin, m.End))
				}
				for _, r := range m.RowTs {
					if r != m.End {
						add("C03/row-ts-disagrees-with-message-ts", fmt.Sprintf("q=%s seq=%d uid=%d row ts %d, message ts %d", q, ep.Seq, m.UID, r, m.End))
						break
					}
				}
				if m.Pos.Ts != m.End {
					add("C03/message-position-ts-disagrees", fmt.Sprintf("q=%s seq=%d uid=%d position ts %d, message ts %d", q, ep.Seq, m.UID, m.Pos.Ts, m.End))
				}
				if m.End > tick {
					add("C03/message-ts-above-own-closing-tick", fmt.Sprintf("q=%s seq=%d uid=%d ts %d > closing tick %d", q, ep.Seq, m.UID, m.End, tick))
				}
				if data == 1 || m.End < minTs {
					minTs = m.End
				}
				if m.End > maxTs {
					maxTs = m.End
				}
			}
			if data > 0 {
				st.dataPacks++
				if ep.Begin > minTs || ep.End < maxTs {
					add("C03/pack-begin-end-do-not-cover-message-ts", fmt.Sprintf("q=%s seq=%d pack [%d,%d], messages [%d,%d]", q, ep.Seq, ep.Begin, ep.End, minTs, maxTs))
				}
				for _, p := range ep.StartPos {
					if p.Ts != ep.Begin {
						add("C03/start-position-ts-disagrees-with-begin-ts", fmt.Sprintf("q=%s seq=%d start pos ts %d, BeginTs %d", q, ep.Seq, p.Ts, ep.Begin))
					}
				}
				for _, p := range ep.EndPos {
					if p.Ts != ep.End {
						add("C03/end-position-ts-disagrees-with-end-ts", fmt.Sprintf("q=%s seq=%d end pos ts %d, EndTs %d", q, ep.Seq, p.Ts, ep.End))
					}
				}
			} else {
				st.tickOnly++
			}
			// relative order of one shard's messages inside the pack: earlier stays earlier, equal stays equal
			var prevS *MsgSpec
			var prevE uint64
			for _, m := range ep.Msgs {
				if m.UID < 0 || m.Synth {
					continue
				}
				sp, ok := specs[m.UID]
				if !ok {
					continue
				}
				if prevS != nil {
					if (prevS.TS < sp.TS && !(prevE < m.End)) || (prevS.TS == sp.TS && prevE != m.End) || (prevS.TS > sp.TS) {
						add("C03/relative-time-order-of-one-shard-changed", fmt.Sprintf("q=%s seq=%d: uid=%d (src %d -> %d) then uid=%d (src %d -> %d)", q, ep.Seq, prevS.UID, prevS.TS, prevE, sp.UID, sp.TS, m.End))
					}
				}
				spc := sp
				prevS, prevE = &spc, m.End
			}
		}
		if len(streams) >= 3 {
			st.channels3++
		}
		// ---- cross-pack clauses in computed order ----
		comp := make([]*emPack, 0, len(packs))
		for _, ep := range packs {
			if ep.Rec != nil && ep.Rec.computedT != 0 && len(ep.Msgs) > 0 && ep.Msgs[len(ep.Msgs)-1].UID == -1 {
				comp = append(comp, ep)
			}
		}
		sort.SliceStable(comp, func(i, j int) bool { return comp[i].Rec.computedT < comp[j].Rec.computedT })
		for _, v := range crossPack(q, comp, nil) {
			add(v.key+"-in-computed-order", v.desc)
		}
		// ---- the same in dequeue order ----
		deq := make([]*emPack, 0, len(packs))
		for _, ep := range packs {
			if len(ep.Msgs) > 0 && ep.Msgs[len(ep.Msgs)-1].UID == -1 {
				deq = append(deq, ep)
			}
		}
		explained := func(later, earlier *emPack) bool {
			// later was dequeued after earlier; reordering explains the violation iff they come from different
			// stream goroutines and 'later' was computed before 'earlier'
			if later.Rec == nil || earlier.Rec == nil || later.Rec.computedT == 0 || earlier.Rec.computedT == 0 {
				return false
			}
			// (one goroutine enqueues a pack before it computes its next one, so a reversal always involves two
			// goroutines: two streams, or a stream and the handler goroutine that processes its forwarded packs)
			return later.Rec.computedT < earlier.Rec.computedT
		}
		for _, v := range crossPack(q, deq, explained) {
			add(v.key, v.desc)
		}
		// inversions realised (coverage): pairs adjacent in dequeue order whose computed order is reversed
		for i := 1; i < len(deq); i++ {
			a, b := deq[i-1], deq[i]
			if a.Rec != nil && b.Rec != nil && a.Rec.computedT != 0 && b.Rec.computedT != 0 && b.Rec.computedT < a.Rec.computedT && a.Rec.srcV != b.Rec.srcV {
				st.inversions++
			}
		}
		// resume floor: a stream resumed from a checkpoint raises the channel clock to the checkpoint time when it
		// joins the channel. The checkpoint time is the channel's own time of the pack it stands for, so the channel
		// had been at least there before the restart: nothing on the channel may fall below it afterwards. A pack of
		// ANOTHER stream emitted before the resumed stream's first pack on the channel was stamped before that floor
		// could be applied (streams register one by one and start emitting at once): recorded finding, own key.
		type floorOf struct {
			coll int
			ts   uint64
		}
		var floors []floorOf
		for ci, col := range rt.c.Colls {
			for _, sh := range col.Shards {
				if sh.DstP == q && col.SeekTs != 0 {
					floors = append(floors, floorOf{ci, col.SeekTs})
					break
				}
			}
		}
		if len(floors) > 0 {
			addOnce := func(k string, fc int, d string) {
				sig := fmt.Sprintf("%s|%s|%d", k, q, fc)
				if !floorSeen[sig] {
					floorSeen[sig] = true
					add(k, d)
				}
			}
			fwdColl := map[int]bool{} // collections whose packs reach q through the forward path
			for _, ep := range deq {
				if ep.Rec != nil && ep.Rec.forwarded {
					fwdColl[ep.Rec.collIdx] = true
				}
			}
			joined := map[int]bool{} // collections that have emitted on q so far
			for _, ep := range deq {
				own := -1
				if ep.Rec != nil {
					own = ep.Rec.collIdx
				}
				if own >= 0 {
					joined[own] = true
				}
				tick := ep.Msgs[len(ep.Msgs)-1].End
				for _, f := range floors {
					late := f.coll != own && !joined[f.coll]
					// the checkpoint belongs to a stream that reaches q through the forward path: it raised the clock of the
					// reading handler's channel, never q's, so q stays below it until the source times catch up (second
					// recorded finding)
					fwdOwn := fwdColl[f.coll]
					for _, m := range ep.Msgs {
						if m.UID >= 0 && !m.Synth && m.End <= f.ts {
							k := "C03/data-ts-not-above-resume-checkpoint"
							if late {
								k = "C03/below-checkpoint-of-a-stream-that-joins-the-channel-later"
							} else if fwdOwn {
								k = "C03/forwarded-stream-below-its-own-resume-checkpoint"
							}
							addOnce(k, f.coll, fmt.Sprintf("q=%s seq=%d uid=%d ts %d <= checkpoint ts %d of collection %d", q, ep.Seq, m.UID, m.End, f.ts, f.coll))
						}
					}
					if tick < f.ts {
						k := "C03/tick-below-resume-checkpoint"
						if late {
							k = "C03/below-checkpoint-of-a-stream-that-joins-the-channel-later"
						} else if fwdOwn {
							k = "C03/forwarded-stream-below-its-own-resume-checkpoint"
						}
						addOnce(k, f.coll, fmt.Sprintf("q=%s seq=%d tick %d < checkpoint ts %d of collection %d (pack of collection %d)", q, ep.Seq, tick, f.ts, f.coll, own))
					}
				}
			}
		}
	}
	if st.orders != nil {
		st.orders[sigOfCase(rt)] = struct{}{}
	}
	return vs
}

func lastType(ep *emPack) string {
	if len(ep.Msgs) == 0 {
		return "(none)"
	}
	return ep.Msgs[len(ep.Msgs)-1].Type
}

// crossPack checks, over the given order of packs of one channel: closing ticks never decrease; every non-tick
// message is strictly above the closing tick of every earlier pack. With explained != nil a violation that the
// function explains is keyed as the compute/enqueue reordering.
func crossPack(q string, order []*emPack, explained func(later, earlier *emPack) bool) []vio {
	var vs []vio
	var maxTick uint64
	var maxAt *emPack
	for i, ep := range order {
		tick := ep.Msgs[len(ep.Msgs)-1].End
		if i > 0 {
			prev := order[i-1]
			ptick := prev.Msgs[len(prev.Msgs)-1].End
			if tick < ptick {
				k := "C03/closing-tick-decreased"
				if explained != nil && explained(ep, prev) {
					k = "C03/reorder-between-compute-and-enqueue"
				}
				vs = append(vs, vio{k, fmt.Sprintf("q=%s: pack %s closes with tick %d after pack %s closed with %d", q, packName(ep), tick, packName(prev), ptick)})
			}
		}
		for _, m := range ep.Msgs {
			if m.UID == -1 {
				continue
			}
			if maxAt != nil && m.End <= maxTick {
				k := "C03/message-ts-not-above-earlier-closing-tick"
				if explained != nil && explained(ep, maxAt) {
					k = "C03/reorder-between-compute-and-enqueue"
				}
				vs = append(vs, vio{k, fmt.Sprintf("q=%s: message uid=%d ts %d in pack %s is not above closing tick %d of earlier pack %s", q, m.UID, m.End, packName(ep), maxTick, packName(maxAt))})
				break
			}
		}
		if maxAt == nil || tick > maxTick {
			maxTick, maxAt = tick, ep
		}
	}
	return vs
}

func packName(ep *emPack) string {
	if ep.Rec == nil {
		return fmt.Sprintf("seq%d(synthetic)", ep.Seq)
	}
	return fmt.Sprintf("seq%d(%s#%d computed@%d presend@%d)", ep.Seq, ep.Rec.srcV, ep.Rec.idx, ep.Rec.computedT, ep.Rec.presendT)
}
