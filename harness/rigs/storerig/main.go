// storerig decides C12 ("metadata records are isolated per tenant, task, collection and channel") on both
// metadata backends with the real stores:
//
//	etcd : store.EtcdMetaStore + meta.EtcdReplicateStore against one embedded etcd per worker process
//	mysql: store.MySQLMetaStore + MySQLReplicateStore (verif hooks NewMySQL*WithDB) on the fakesql engine
//
// The parent process splits the tier's fixed case list into batches and runs them in child processes (a crash of
// the code under test - e.g. "concurrent map writes" on the unsynchronised txnMap - then costs one batch, which is
// retried once and otherwise counted inconclusive); children hand their partial vf.Run back through a file.
package main

import (
	"bytes"
	"encoding/json"
	"flag"
	"fmt"
	"os"
	"os/exec"
	"path/filepath"
	"strings"
	"sync"
	"time"

	"github.com/sasha-s/go-deadlock"

	"verifharness/internal/fakesql"
	"verifharness/internal/vf"
)

func main() {
	prop := flag.String("prop", "", "property id")
	tier := flag.String("tier", "quick", "quick|thorough")
	child := flag.Bool("child", false, "internal: run one batch")
	be := flag.String("backend", "", "internal")
	from := flag.Int("from", 0, "internal")
	to := flag.Int("to", 0, "internal")
	out := flag.String("out", "", "internal")
	replay := flag.String("replay", "", "replay file written for a violation: regenerate that case and run it alone")
	flag.Parse()
	deadlock.Opts.Disable = true
	if *prop != "C12" {
		fmt.Fprintln(os.Stderr, "storerig: unknown property", *prop)
		os.Exit(64)
	}
	if *child {
		os.Exit(childMain(*tier, *be, *from, *to, *out))
	}
	if *replay != "" {
		os.Exit(replayMain(*tier, *replay))
	}
	run := parentMain(*tier)
	vf.CollectRaces(run)
	os.Exit(run.Finish(vf.Out()))
}

func scratchDir() string {
	d := os.Getenv("VERIF_SCRATCH")
	if d == "" {
		d = filepath.Join(vf.Root(), ".scratch", fmt.Sprintf("storerig-%d", os.Getpid()))
	}
	_ = os.MkdirAll(d, 0o755)
	return d
}

type batch struct {
	backend  string
	from, to int
}

func parentMain(tier string) *vf.Run {
	run := vf.NewRun("C12", tier, "fault_enumeration")
	run.Rule = "case = one backend (real etcd stores on embedded etcd | real MySQL stores on the fakesql engine) x 2-4 tenant root paths from a family with a related pair (string-prefix: cdc/cdc2/cdc/x; LIKE pattern characters: cdc_1~cdcX1, cdc%~cdcABC, cdc\\x~cdcx, cdc'q; nested; plain) x 2-5 task ids (prefix family t1/t10/t1/x/t100, pattern family t_1/tX1/t%1/t\\1/t'1, plain) x collection ids from {-1,-10,1,10,100,5} (+0 as 'all') x channels (ch1/ch10/ch1_/ch%...) x a seeded sequence of 5-30 operations over 24 kinds (raw Get/Put/Delete of the task and position stores with every query shape the callers use, the meta-ops of meta_op.go incl. collection id 0, ReplicateStore Put / Get exact / Get(\"\", prefix) / Remove, DeleteTask with a failure injected before or after one store call or database/sql driver call) x (35% of cases) a burst of 1-4 concurrent clients on disjoint task ids. The whole backend is dumped before and after every operation. Non-trivial = at least one operation ran while the backend held a foreign record related to the addressed one (other root, prefix-related id, or addressed id with pattern characters); distinct by (backend, roots, ids, collections, channels, operation kinds)."
	run.Assumptions = []string{
		"MySQL is represented by internal/fakesql: exactly the statements of server/store/mysql*.go with MySQL's documented string-literal escapes, LIKE (%, _, \\ escape), INSERT .. ON DUPLICATE KEY UPDATE by primary key, transactions as private write sets applied at COMMIT; string '=' and LIKE are case-sensitive and without PAD SPACE (MySQL's default collations match a superset); row locks and write conflicts between concurrent transactions are not modelled; rows are returned in primary-key order; any statement shape the store does not issue (e.g. after a quote in the root path) is a syntax error",
		"the LIKE matcher and the string-literal decoder are checked at start-up against the MySQL manual's examples; a failing self-test makes the run inconclusive",
		"etcd is a real embedded single-node etcd v3.5.5; store failures on etcd are injected by a MetaStoreFactory wrapper (before / after the real call), on MySQL additionally at the n-th database/sql driver call and at COMMIT",
		"a record of another kind returned under the same root by ReplicateStore.Get(\"\", prefix) is counted as tolerated (the statement speaks of root paths, tasks, collections and channels)",
		"ReplicateStore.Get with a non-empty key and withPrefix=true is not driven (no caller in the repository uses it)",
		"task ids and root paths are free-form strings (the HTTP API does not validate task_id; the root path is configuration); ids that path.Join would rewrite (\"..\", trailing or doubled slashes) and empty ids are not generated",
		"in 25% of the etcd cases the factory is built like the server builds it from an etcd block without its own rootPath (EtcdServerConfig.RootPath empty); violations that only concern task_msg records in that configuration carry the backend label etcd-rootpath-empty",
	}
	if err := fakesql.SelfTest(); err != nil {
		run.Inconclusive("fakesql self-test failed: " + err.Error())
		run.Extra("fakesql_selftest", err.Error())
	} else {
		run.Count("fakesql_selftest_ok", 1)
		run.Extra("fakesql_selftest", "ok")
	}
	run.Floor("fakesql_selftest_ok", 1)
	if run.Get("fakesql_selftest_ok") == 0 {
		return run
	}

	nCases := run.Pick(400, 8000)
	per := map[string]int{"etcd": run.Pick(20, 160), "mysql": run.Pick(50, 500)}
	var batches []batch
	for _, b := range []string{"etcd", "mysql"} {
		for f := 0; f < nCases; f += per[b] {
			batches = append(batches, batch{b, f, min(f+per[b], nCases)})
		}
	}
	workers := 10
	exe, _ := os.Executable()
	dir := scratchDir()
	var mu sync.Mutex
	var crashes []string
	ch := make(chan batch)
	var wg sync.WaitGroup
	for w := 0; w < workers; w++ {
		wg.Add(1)
		go func() {
			defer wg.Done()
			for b := range ch {
				okRun := false
				for attempt := 1; attempt <= 2 && !okRun; attempt++ {
					outFile := filepath.Join(dir, fmt.Sprintf("out-%s-%d-%d.json", b.backend, b.from, attempt))
					cmd := exec.Command(exe, "-prop", "C12", "-tier", tier, "-child", "-backend", b.backend,
						"-from", fmt.Sprint(b.from), "-to", fmt.Sprint(b.to), "-out", outFile)
					var tail tailBuf
					cmd.Stdout, cmd.Stderr = &tail, &tail
					cmd.Env = append(os.Environ(), "VERIF_OUT_FD=")
					done := make(chan error, 1)
					if err := cmd.Start(); err != nil {
						run.Inconclusive("cannot start child: " + err.Error())
						break
					}
					go func() { done <- cmd.Wait() }()
					var err error
					select {
					case err = <-done:
					case <-time.After(25 * time.Minute): // watchdog only
						_ = cmd.Process.Kill()
						err = fmt.Errorf("watchdog: batch still running after 25 min: %v", <-done)
					}
					if err == nil {
						if merr := run.Merge(outFile); merr == nil {
							okRun = true
							continue
						} else {
							err = merr
						}
					}
					msg := fmt.Sprintf("batch %s[%d,%d) attempt %d: %v; output tail: %s", b.backend, b.from, b.to, attempt, err, crashLine(tail.String()))
					mu.Lock()
					crashes = append(crashes, msg)
					mu.Unlock()
					fmt.Fprintln(os.Stderr, "storerig:", msg)
					fmt.Fprintln(os.Stderr, tail.String())
				}
				if !okRun {
					run.Inconclusive(fmt.Sprintf("batch %s[%d,%d) could not be completed in two attempts", b.backend, b.from, b.to))
					run.Count("batches_lost", 1)
				}
			}
		}()
	}
	for _, b := range batches {
		ch <- b
	}
	close(ch)
	wg.Wait()
	if len(crashes) > 0 {
		run.Extra("child_crashes", crashes)
	}
	run.Extra("batches", len(batches))
	setFloors(run)
	return run
}

type tailBuf struct {
	mu sync.Mutex
	b  []byte
}

func (t *tailBuf) Write(p []byte) (int, error) {
	t.mu.Lock()
	t.b = append(t.b, p...)
	if len(t.b) > 1<<16 {
		t.b = t.b[len(t.b)-(1<<15):]
	}
	t.mu.Unlock()
	return len(p), nil
}

func (t *tailBuf) String() string { t.mu.Lock(); defer t.mu.Unlock(); return string(t.b) }

// crashLine picks the line that names a Go runtime crash, if any.
func crashLine(s string) string {
	for _, ln := range strings.Split(s, "\n") {
		if strings.HasPrefix(ln, "fatal error:") || strings.HasPrefix(ln, "panic:") {
			return ln
		}
	}
	if len(s) > 300 {
		s = s[len(s)-300:]
	}
	return strings.ReplaceAll(s, "\n", " | ")
}

func setFloors(run *vf.Run) {
	q := !run.Thorough()
	pick := func(a, b int) int {
		if q {
			return a
		}
		return b
	}
	for _, b := range []string{"etcd", "mysql"} {
		for _, k := range opKinds {
			p := "cov/" + b + "/" + k + "/"
			run.Floor(p+"any", pick(40, 800))
			run.Floor(p+"two-roots", pick(5, 100))
			run.Floor(p+"prefix-ids", pick(5, 100))
			run.Floor(p+"pattern-chars", pick(5, 100))
		}
		for _, k := range []string{"get_pos_task_coll", "del_pos_task_coll", "mo_delete_pos", "mo_update_pos", "repl_get_exact", "repl_remove"} {
			run.Floor("cov/"+b+"/"+k+"/longer-sibling-id", pick(3, 60))
		}
		// a failure at every store call of DeleteTask (wrapper: Get, Txn, Delete, Delete, commit), before and after
		// the real call, on a task that has a record and at least one checkpoint
		for i := 1; i <= 5; i++ {
			for _, m := range []string{"before", "after"} {
				run.Floor(fmt.Sprintf("fault/%s/wrap/%d/%s/fired", b, i, m), pick(2, 40))
			}
		}
		run.Floor(fmt.Sprintf("fault_idx/%s/wrap/6", b), pick(2, 40)) // control: plan beyond the last call
		run.Floor("delete_task_full/"+b, pick(15, 300))
		run.Floor("conc_bursts/"+b, pick(40, 800))
		run.Floor("conc_bursts_sharing_a_factory/"+b, pick(20, 400))
		run.Floor("conc_client_checked/"+b, pick(100, 2000))
		run.Floor("fault_outcome/"+b+"/all-kept", pick(10, 200))
		run.Floor("fault_outcome/"+b+"/all-gone", pick(2, 40))
		run.Floor("cases/"+b, pick(400, 8000)*9/10)
		run.Floor("dropped_entry_update_attempts/"+b, pick(20, 400))
	}
	run.Floor("cases/etcd-rootpath-empty", pick(30, 600))
	// MySQL: a failure at each of the 7 driver calls of DeleteTask (SELECT, BEGIN, PREPARE, EXEC, PREPARE, EXEC, COMMIT)
	for i := 1; i <= 7; i++ {
		for _, m := range []string{"before", "after"} {
			run.Floor(fmt.Sprintf("fault/mysql/sql/%d/%s/fired", i, m), pick(1, 20))
		}
	}
	run.Floor("fault_idx/mysql/sql/8", pick(1, 20))
}

// ---- replay ----

// replayMain regenerates the case named by a replay file (backend, case index, seed) and runs it alone; it prints
// the event log and the violations found and exits 1 if there is one. It writes no evidence.
func replayMain(tier, file string) int {
	b, err := os.ReadFile(file)
	if err != nil {
		fmt.Fprintln(os.Stderr, "storerig:", err)
		return 64
	}
	var rf struct {
		First struct {
			Replay struct {
				Backend string `json:"backend"`
				Idx     int    `json:"case_idx"`
				Seed    int64  `json:"seed"`
			} `json:"replay"`
		} `json:"first"`
	}
	if err := json.Unmarshal(b, &rf); err != nil || rf.First.Replay.Backend == "" {
		fmt.Fprintln(os.Stderr, "storerig: not a C12 replay file:", file, err)
		return 64
	}
	rp := rf.First.Replay
	os.Setenv("VERIF_SEED", fmt.Sprint(rp.Seed))
	tmp := filepath.Join(scratchDir(), "replay-out.json")
	if rc := childMain(tier, rp.Backend, rp.Idx, rp.Idx+1, tmp); rc != 0 {
		return rc
	}
	var d struct {
		Violations   []vf.Violation `json:"violations"`
		Inconclusive []string       `json:"inconclusive"`
	}
	rb, _ := os.ReadFile(tmp)
	_ = json.Unmarshal(rb, &d)
	w := vf.Out()
	cs := genCase(rp.Seed, rp.Backend, rp.Idx)
	fmt.Fprintf(w, "replay property=C12 backend=%s case=%d seed=%d roots=%q tasks=%q ops=%d concurrent_clients=%d\n", rp.Backend, rp.Idx, rp.Seed, cs.Roots, cs.Tasks, len(cs.Ops), len(cs.Conc))
	for _, v := range d.Violations {
		fmt.Fprintf(w, "VIOLATION property=C12 %s: %s\n", v.Key, v.Desc)
	}
	for _, s := range d.Inconclusive {
		fmt.Fprintf(w, "INCONCLUSIVE property=C12 %s\n", s)
	}
	if len(d.Violations) > 0 {
		return 1
	}
	if len(d.Inconclusive) > 0 {
		return 2
	}
	fmt.Fprintln(w, "replay: no violation")
	return 0
}

// ---- child ----

func childMain(tier, backendName string, from, to int, out string) int {
	run := vf.NewRun("C12", tier, "fault_enumeration")
	var be backend
	var closer func()
	switch backendName {
	case "etcd":
		dir, err := os.MkdirTemp(scratchDir(), "etcd-")
		if err != nil {
			fmt.Fprintln(os.Stderr, err)
			return 3
		}
		eb, err := newEtcdBackend(dir)
		if err != nil {
			fmt.Fprintln(os.Stderr, "storerig child: cannot start etcd:", err)
			return 3
		}
		be, closer = eb, func() { eb.Close(); _ = os.RemoveAll(dir) }
	case "mysql":
		be, closer = &mysqlBackend{}, func() {}
	default:
		return 64
	}
	fullRep := map[string]int{}
	aborted := false
	for idx := from; idx < to; idx++ {
		cs := genCase(run.Seed, backendName, idx)
		if aborted {
			run.Inconclusive(fmt.Sprintf("%s case %d not run: an earlier case of the batch hung", backendName, idx))
			continue
		}
		// the case is on disk before it runs: a crash leaves the input behind
		writeCurrent(cs)
		done := make(chan struct{})
		go func() {
			defer close(done)
			runCase(run, be, cs, fullRep)
		}()
		select {
		case <-done:
		case <-time.After(10 * time.Minute): // watchdog only
			run.Inconclusive(fmt.Sprintf("%s case %d did not finish within 10 min", backendName, idx))
			aborted = true
		}
	}
	if err := run.Dump(out); err != nil {
		fmt.Fprintln(os.Stderr, "storerig child: cannot write result:", err)
		return 3
	}
	if !aborted {
		closer()
	}
	return 0
}

func writeCurrent(cs *caseSpec) {
	var b bytes.Buffer
	fmt.Fprintf(&b, "%+v\n", *cs)
	_ = os.WriteFile(filepath.Join(scratchDir(), fmt.Sprintf("current-%s-%d.txt", cs.Backend, os.Getpid())), b.Bytes(), 0o644)
}

func runCase(run *vf.Run, be backend, cs *caseSpec, fullRep map[string]int) {
	run.Eval(1)
	tenants, err := be.Begin(cs)
	defer be.End()
	if err != nil {
		run.Inconclusive(fmt.Sprintf("%s case %d: cannot build the stores: %v", cs.Backend, cs.Idx, err))
		return
	}
	st, err := be.Dump()
	if err != nil || len(st) != 0 {
		run.Inconclusive(fmt.Sprintf("%s case %d: backend not empty at start (%d records, err %v)", cs.Backend, cs.Idx, len(st), err))
		return
	}
	c := &caseRun{run: run, be: be, cs: cs, label: cs.Backend, tenants: tenants, state: st, owner: map[string]tuple{}, byTuple: map[tuple]string{}, fullRep: fullRep}
	for i := range cs.Ops {
		if !c.step(i, &cs.Ops[i]) {
			return
		}
	}
	if !c.concurrent() {
		return
	}
	if !c.channelWriters() {
		return
	}
	run.Count("cases/"+cs.Backend, 1)
	run.Count("cases_rootfam/"+cs.Backend+"/"+cs.RootFam, 1)
	run.Count("cases_idfam/"+cs.Backend+"/"+cs.IDFam, 1)
	if cs.ReplShared {
		run.Count("cases/etcd-rootpath-empty", 1)
	}
	if c.nontriv {
		run.Nontrivial(cs.signature())
	}
	if c.nViol == 0 && cs.Idx%97 == 0 {
		run.Sample(map[string]any{"case": cs, "events": c.events})
	}
}
