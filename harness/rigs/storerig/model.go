package main

import (
	"bytes"
	"encoding/json"
	"sort"
	"strconv"
	"strings"

	"verifharness/internal/fakesql"
)

// kind of a metadata record
type kind string

const (
	kInfo kind = "task_info"
	kPos  kind = "task_position"
	kMsg  kind = "task_msg"
)

// tuple is the logical identity of a record: (tenant root path, kind, task id, collection id | message id).
type tuple struct {
	Root string
	Kind kind
	Task string
	Sub  string // task_position: decimal collection id; task_msg: message id; task_info: ""
}

func (t tuple) String() string {
	s := string(t.Kind) + "(root=" + strconv.Quote(t.Root) + ",task=" + strconv.Quote(t.Task)
	if t.Sub != "" {
		s += ",sub=" + t.Sub
	}
	return s + ")"
}

// addr is what an operation addresses: one tenant, one or two kinds, optionally one task, optionally one
// collection / message ("" = all).
type addr struct {
	Root  string
	Kinds []kind
	Task  string
	Sub   string
}

func (a addr) hasKind(k kind) bool {
	for _, x := range a.Kinds {
		if x == k {
			return true
		}
	}
	return false
}

func (a addr) matches(t tuple) bool {
	if t.Root != a.Root || !a.hasKind(t.Kind) {
		return false
	}
	if a.Task != "" && t.Task != a.Task {
		return false
	}
	if a.Sub != "" && t.Kind != kInfo && t.Sub != a.Sub {
		return false
	}
	return true
}

const patternChars = `%_\'`

func hasPat(s string) bool { return strings.ContainsAny(s, patternChars) }

func prefixRelated(a, b string) bool {
	return a != b && (strings.HasPrefix(a, b) || strings.HasPrefix(b, a))
}

// relation names how a foreign record F relates to what the operation addressed. It is used for the violation
// key only (never for the verdict): two different isolation breaks get two different keys. fakesql.Like is used
// here merely to tell "the addressed id, read as a LIKE pattern, covers the foreign id" from "unrelated".
//
// Roots differ: one root being a path inside the other ("cdc/x" and "cdc", either way round) is named first. Otherwise, for a read
// (forRead) the way the two roots relate is named before "same task id" - a task-filtered read can only ever
// return records of that task id, so the coincidence says nothing -, for a write the coinciding task id is named
// first (a write that ignores the root hits whatever root holds that id).
func relation(f tuple, a addr, forRead bool) string {
	if f.Root != a.Root {
		nested := strings.HasPrefix(f.Root, strings.TrimSuffix(a.Root, "/")+"/") || strings.HasPrefix(a.Root, strings.TrimSuffix(f.Root, "/")+"/")
		sameTask := a.Task != "" && f.Task == a.Task && a.hasKind(f.Kind)
		pattern := hasPat(a.Root) && fakesql.Like(f.Root, a.Root+"%")
		prefix := prefixRelated(f.Root, a.Root)
		switch {
		case nested:
			return relNested
		case forRead && pattern:
			return "other-root-pattern-char-match"
		case forRead && prefix:
			return "other-root-prefix-related"
		case sameTask:
			return "other-root-same-task"
		case pattern:
			return "other-root-pattern-char-match"
		case prefix:
			return "other-root-prefix-related"
		}
		return "other-root"
	}
	if !a.hasKind(f.Kind) {
		return "same-root-other-kind"
	}
	if a.Task != "" && f.Task != a.Task {
		switch {
		case hasPat(a.Task) && fakesql.Like(f.Task, a.Task+"%"):
			return "pattern-char-task-match"
		case strings.HasPrefix(f.Task, a.Task+"/") || strings.HasPrefix(a.Task, f.Task+"/"):
			return "task-id-nested-path" // "t1/x" under "t1": apart from a mere string prefix ("t10")
		case prefixRelated(f.Task, a.Task):
			return "prefix-related-task"
		}
		return "other-task"
	}
	if a.Sub != "" && f.Sub != a.Sub {
		what := "collection"
		if f.Kind == kMsg {
			what = "msg"
		}
		if prefixRelated(f.Sub, a.Sub) {
			return "prefix-related-" + what
		}
		return "other-" + what
	}
	return "addressed-record"
}

const relNested = "other-root-nested-path"

// ---- canonical JSON ----

// canon renders v (a Go value or already a JSON tree) as canonical JSON: object keys sorted, numbers kept as
// written, and null / {} / [] members removed (the stores turn nil maps into empty maps and back).
func canon(v any) string {
	b, err := json.Marshal(v)
	if err != nil {
		return "!marshal:" + err.Error()
	}
	return canonJSON(b)
}

func canonJSON(b []byte) string {
	d := json.NewDecoder(bytes.NewReader(b))
	d.UseNumber()
	var t any
	if err := d.Decode(&t); err != nil {
		return "!json:" + string(b)
	}
	out, _ := json.Marshal(norm(t))
	return string(out)
}

func norm(t any) any {
	switch x := t.(type) {
	case map[string]any:
		for k, v := range x {
			nv := norm(v)
			if nv == nil {
				delete(x, k)
			} else {
				x[k] = nv
			}
		}
		if len(x) == 0 {
			return nil
		}
		return x
	case []any:
		if len(x) == 0 {
			return nil
		}
		for i := range x {
			x[i] = norm(x[i])
		}
		return x
	}
	return t
}

func tree(c string) map[string]any {
	d := json.NewDecoder(strings.NewReader(c))
	d.UseNumber()
	var t map[string]any
	_ = d.Decode(&t)
	if t == nil {
		t = map[string]any{}
	}
	return t
}

func sub(t map[string]any, k string) map[string]any {
	if m, ok := t[k].(map[string]any); ok {
		return m
	}
	return map[string]any{}
}

func jstr(v any) string {
	if v == nil {
		return ""
	}
	b, _ := json.Marshal(v)
	return string(b)
}

// ---- dump diff ----

func diffDumps(before, after map[string]string) (added, removed, changed []string) {
	for k, v := range after {
		if bv, ok := before[k]; !ok {
			added = append(added, k)
		} else if bv != v {
			changed = append(changed, k)
		}
	}
	for k := range before {
		if _, ok := after[k]; !ok {
			removed = append(removed, k)
		}
	}
	sort.Strings(added)
	sort.Strings(removed)
	sort.Strings(changed)
	return
}

func multisetDiff(want, got []string) (missing, extra []string) {
	m := map[string]int{}
	for _, w := range want {
		m[w]++
	}
	for _, g := range got {
		if m[g] > 0 {
			m[g]--
		} else {
			extra = append(extra, g)
		}
	}
	for w, n := range m {
		for i := 0; i < n; i++ {
			missing = append(missing, w)
		}
	}
	sort.Strings(missing)
	sort.Strings(extra)
	return
}

func short(s string, n int) string {
	if len(s) > n {
		return s[:n] + "…"
	}
	return s
}

func printable(k string) string { return strings.ReplaceAll(k, "\x1f", "|") }
