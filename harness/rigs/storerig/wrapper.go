package main

import (
	"context"
	"errors"
	"fmt"
	"sync"

	coreapi "github.com/zilliztech/milvus-cdc/core/api"
	"github.com/zilliztech/milvus-cdc/server/api"
	"github.com/zilliztech/milvus-cdc/server/model/meta"
)

// faultFactory wraps a real MetaStoreFactory and fails the n-th store call made through it (Get/Put/Delete of
// either store, Txn, and the commit function), either before the real call (no effect) or after it (the real
// call took effect, the caller sees an error). Unarmed it is a pure pass-through.
type faultFactory struct {
	inner api.MetaStoreFactory

	mu    sync.Mutex
	armed bool
	at    int
	after bool
	calls int
	fired string
	trace []string
}

var errInjected = errors.New("storerig: injected store failure")

func (f *faultFactory) Arm(at int, after bool) {
	f.mu.Lock()
	f.armed, f.at, f.after, f.calls, f.fired, f.trace = true, at, after, 0, "", nil
	f.mu.Unlock()
}

func (f *faultFactory) Disarm() (fired string, calls int, trace []string) {
	f.mu.Lock()
	defer f.mu.Unlock()
	fired, calls, trace = f.fired, f.calls, f.trace
	f.armed = false
	return
}

func (f *faultFactory) hit(what string) (fail, after bool) {
	f.mu.Lock()
	defer f.mu.Unlock()
	if !f.armed {
		return false, false
	}
	f.calls++
	f.trace = append(f.trace, fmt.Sprintf("%d:%s", f.calls, what))
	if f.calls == f.at {
		f.fired = fmt.Sprintf("%d:%s", f.calls, what)
		return true, f.after
	}
	return false, false
}

type faultStore[M any] struct {
	f     *faultFactory
	inner api.MetaStore[M]
	name  string
}

func (s *faultStore[M]) Put(ctx context.Context, m M, txn any) error {
	fail, after := s.f.hit(s.name + ".Put")
	if fail && !after {
		return errInjected
	}
	err := s.inner.Put(ctx, m, txn)
	if fail && err == nil {
		return errInjected
	}
	return err
}

func (s *faultStore[M]) Get(ctx context.Context, m M, txn any) ([]M, error) {
	fail, after := s.f.hit(s.name + ".Get")
	if fail && !after {
		return nil, errInjected
	}
	r, err := s.inner.Get(ctx, m, txn)
	if fail && err == nil {
		return nil, errInjected
	}
	return r, err
}

func (s *faultStore[M]) Delete(ctx context.Context, m M, txn any) error {
	fail, after := s.f.hit(s.name + ".Delete")
	if fail && !after {
		return errInjected
	}
	err := s.inner.Delete(ctx, m, txn)
	if fail && err == nil {
		return errInjected
	}
	return err
}

func (f *faultFactory) GetTaskInfoMetaStore(ctx context.Context) api.MetaStore[*meta.TaskInfo] {
	return &faultStore[*meta.TaskInfo]{f, f.inner.GetTaskInfoMetaStore(ctx), "TaskInfoStore"}
}

func (f *faultFactory) GetTaskCollectionPositionMetaStore(ctx context.Context) api.MetaStore[*meta.TaskCollectionPosition] {
	return &faultStore[*meta.TaskCollectionPosition]{f, f.inner.GetTaskCollectionPositionMetaStore(ctx), "TaskPositionStore"}
}

func (f *faultFactory) GetReplicateStore(ctx context.Context) coreapi.ReplicateStore {
	return f.inner.GetReplicateStore(ctx)
}

func (f *faultFactory) Txn(ctx context.Context) (any, func(err error) error, error) {
	fail, after := f.hit("Txn")
	if fail && !after {
		return nil, nil, errInjected
	}
	txn, commit, err := f.inner.Txn(ctx)
	if err != nil {
		return txn, commit, err
	}
	if fail {
		// the store opened a transaction, the caller never learns: give it back so that nothing stays open
		_ = commit(errInjected)
		return nil, nil, errInjected
	}
	wrapped := func(e error) error {
		what := "commit"
		if e != nil {
			what = "rollback"
		}
		fail, after := f.hit(what)
		if fail && !after {
			// the commit/rollback request never reaches the backend: the transaction is abandoned, which every
			// backend resolves as a rollback
			_ = commit(errInjected)
			return errInjected
		}
		r := commit(e)
		if fail && r == nil {
			return errInjected
		}
		return r
	}
	return txn, wrapped, nil
}
