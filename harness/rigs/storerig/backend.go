package main

import (
	"context"
	"database/sql"
	"encoding/json"
	"fmt"
	"path/filepath"
	"strconv"
	"strings"
	"sync"

	coreapi "github.com/zilliztech/milvus-cdc/core/api"
	"github.com/zilliztech/milvus-cdc/core/config"
	"github.com/zilliztech/milvus-cdc/server/api"
	"github.com/zilliztech/milvus-cdc/server/model/meta"
	"github.com/zilliztech/milvus-cdc/server/store"

	"verifharness/internal/etcdbox"
	"verifharness/internal/fakesql"
)

// tenant = one CDC deployment's view of the shared backend: the real store factory built for its root path,
// plus a fault-injecting wrapper around it.
type tenant struct {
	Root string
	F    api.MetaStoreFactory
	FF   *faultFactory
}

type backend interface {
	Label() string
	Begin(cs *caseSpec) ([]*tenant, error)
	End()
	Dump() (map[string]string, error)
	// AsReturned decodes a physical record the way the store's own Get of kind k decodes it and returns the
	// canonical JSON of the resulting object; false if such a Get could not return this record at all.
	AsReturned(k kind, phys, val string) (string, bool)
	// Sniff tells kind, task id and collection/message id of a physical record from its content.
	Sniff(phys, val string) (k kind, task, sub string, ok bool)
	Engine() *fakesql.Engine
}

// ---- etcd ----

type etcdBackend struct {
	box   *etcdbox.Box
	mu    sync.Mutex
	cache map[string]*store.EtcdMetaStore
}

func newEtcdBackend(scratch string) (*etcdBackend, error) {
	box, err := etcdbox.Start(filepath.Join(scratch, "etcd"))
	if err != nil {
		return nil, err
	}
	return &etcdBackend{box: box, cache: map[string]*store.EtcdMetaStore{}}, nil
}

func (b *etcdBackend) Label() string           { return "etcd" }
func (b *etcdBackend) Engine() *fakesql.Engine { return nil }
func (b *etcdBackend) End()                    {}
func (b *etcdBackend) Close()                  { b.box.Close() }

func (b *etcdBackend) Dump() (map[string]string, error) { return b.box.Dump("") }

func (b *etcdBackend) Begin(cs *caseSpec) ([]*tenant, error) {
	if err := b.box.Wipe(); err != nil {
		return nil, err
	}
	var out []*tenant
	for _, root := range cs.Roots {
		// ReplShared: the configuration the server builds from `metaStoreConfig.etcdEndpoints` or from an
		// `etcd:` block without its own rootPath (server.GetEtcdServerConfigFromMetaConfig): EtcdServerConfig.RootPath
		// is empty and only the separate rootPath argument carries the tenant's root.
		replRoot := root
		if cs.ReplShared {
			replRoot = ""
		}
		key := root + "\x00" + replRoot
		b.mu.Lock()
		f := b.cache[key]
		b.mu.Unlock()
		if f == nil {
			var err error
			f, err = store.NewEtcdMetaStore(context.Background(), config.EtcdServerConfig{Address: []string{b.box.Endpoint}, RootPath: replRoot}, root)
			if err != nil {
				return nil, fmt.Errorf("NewEtcdMetaStore(%q): %w", root, err)
			}
			b.mu.Lock()
			b.cache[key] = f
			b.mu.Unlock()
		}
		out = append(out, &tenant{Root: root, F: f, FF: &faultFactory{inner: f}})
	}
	return out, nil
}

func decodeAs(k kind, raw []byte) (string, bool) {
	switch k {
	case kInfo:
		var x meta.TaskInfo
		if json.Unmarshal(raw, &x) != nil {
			return "", false
		}
		return canon(&x), true
	case kPos:
		var x meta.TaskCollectionPosition
		if json.Unmarshal(raw, &x) != nil {
			return "", false
		}
		return canon(&x), true
	case kMsg:
		var x coreapi.MetaMsg
		if json.Unmarshal(raw, &x) != nil {
			return "", false
		}
		return canon(x), true
	}
	return "", false
}

func (b *etcdBackend) AsReturned(k kind, phys, val string) (string, bool) {
	return decodeAs(k, []byte(val))
}

func (b *etcdBackend) Sniff(phys, val string) (kind, string, string, bool) {
	var t map[string]json.RawMessage
	if json.Unmarshal([]byte(val), &t) != nil {
		return "", "", "", false
	}
	if _, ok := t["base"]; ok {
		var m coreapi.MetaMsg
		if json.Unmarshal([]byte(val), &m) != nil {
			return "", "", "", false
		}
		return kMsg, m.Base.TaskID, m.Base.MsgID, true
	}
	if _, ok := t["Positions"]; ok {
		var p meta.TaskCollectionPosition
		if json.Unmarshal([]byte(val), &p) != nil {
			return "", "", "", false
		}
		return kPos, p.TaskID, strconv.FormatInt(p.CollectionID, 10), true
	}
	if _, ok := t["MilvusConnectParam"]; ok {
		var p meta.TaskInfo
		if json.Unmarshal([]byte(val), &p) != nil {
			return "", "", "", false
		}
		return kInfo, p.TaskID, "", true
	}
	return "", "", "", false
}

// ---- MySQL store on fakesql ----

type mysqlBackend struct {
	eng *fakesql.Engine
	db  *sql.DB
}

func (b *mysqlBackend) Label() string           { return "mysql" }
func (b *mysqlBackend) Engine() *fakesql.Engine { return b.eng }

func (b *mysqlBackend) Begin(cs *caseSpec) ([]*tenant, error) {
	b.eng = fakesql.NewEngine()
	b.db = b.eng.DB()
	var out []*tenant
	for _, root := range cs.Roots {
		f, err := store.NewMySQLMetaStoreWithDB(context.Background(), b.db, root)
		if err != nil {
			return nil, fmt.Errorf("NewMySQLMetaStoreWithDB(%q): %w", root, err)
		}
		out = append(out, &tenant{Root: root, F: f, FF: &faultFactory{inner: f}})
	}
	return out, nil
}

func (b *mysqlBackend) End() {
	if b.db != nil {
		_ = b.db.Close()
	}
	b.db, b.eng = nil, nil
}

func (b *mysqlBackend) Dump() (map[string]string, error) { return b.eng.Dump(), nil }

func tableKind(phys string) kind {
	i := strings.IndexByte(phys, '\x1f')
	if i < 0 {
		return ""
	}
	return kind(phys[:i])
}

func (b *mysqlBackend) AsReturned(k kind, phys, val string) (string, bool) {
	if tableKind(phys) != k {
		return "", false // a SELECT on another table cannot return this row
	}
	var cols map[string]any
	d := json.NewDecoder(strings.NewReader(val))
	d.UseNumber()
	if d.Decode(&cols) != nil {
		return "", false
	}
	s := func(c string) string { v, _ := cols[c].(string); return v }
	switch k {
	case kInfo:
		return decodeAs(kInfo, []byte(s("task_info_value")))
	case kMsg:
		return decodeAs(kMsg, []byte(s("task_msg_value")))
	case kPos:
		var p meta.TaskCollectionPosition
		p.TaskID = s("task_id")
		if n, ok := cols["collection_id"].(json.Number); ok {
			p.CollectionID, _ = n.Int64()
		}
		p.CollectionName = s("collection_name")
		if json.Unmarshal([]byte(s("task_position_value")), &p.Positions) != nil ||
			json.Unmarshal([]byte(s("op_position_value")), &p.OpPositions) != nil ||
			json.Unmarshal([]byte(s("target_position_value")), &p.TargetPositions) != nil {
			return "", false
		}
		return canon(&p), true
	}
	return "", false
}

func (b *mysqlBackend) Sniff(phys, val string) (kind, string, string, bool) {
	k := tableKind(phys)
	var cols map[string]any
	d := json.NewDecoder(strings.NewReader(val))
	d.UseNumber()
	if d.Decode(&cols) != nil {
		return "", "", "", false
	}
	switch k {
	case kInfo:
		t, _ := cols["task_id"].(string)
		return k, t, "", true
	case kPos:
		t, _ := cols["task_id"].(string)
		n, _ := cols["collection_id"].(json.Number)
		return k, t, n.String(), true
	case kMsg:
		v, _ := cols["task_msg_value"].(string)
		var m coreapi.MetaMsg
		if json.Unmarshal([]byte(v), &m) != nil {
			return "", "", "", false
		}
		return k, m.Base.TaskID, m.Base.MsgID, true
	}
	return "", "", "", false
}
