package main

// Second concurrent epilogue: the channel writers of ONE collection. In the service every downstream channel has
// its own writer goroutine and each of them moves its own entry of the collection's checkpoint record; the record is
// read, changed and written back as a whole. "Updating the checkpoint of one channel changes only that entry" must
// hold when they overlap: after K writers (one per channel) have each written an increasing series of positions at
// the same time, every channel's entry must be the last one its own writer wrote.

import (
	"context"
	"fmt"
	"sync"
	"time"

	"github.com/zilliztech/milvus-cdc/server/model/meta"
	"github.com/zilliztech/milvus-cdc/server/store"
)

func (c *caseRun) channelWriters() bool {
	if len(c.tenants) == 0 {
		return true
	}
	tn := c.tenants[0]
	k := 2 + c.cs.Idx%3
	const rounds = 10
	task := fmt.Sprintf("chw%d", c.cs.Idx)
	const coll = int64(4242)
	ctx := context.Background()
	posS := tn.F.GetTaskCollectionPositionMetaStore(ctx)
	var wg sync.WaitGroup
	start := make(chan struct{})
	errs := make([]error, k)
	for j := 0; j < k; j++ {
		wg.Add(1)
		go func(j int) {
			defer wg.Done()
			<-start
			ch := fmt.Sprintf("chw_%d", j)
			for r := 1; r <= rounds; r++ {
				serial := int64(j*1000 + r)
				if err := store.UpdateTaskCollectionPosition(posS, task, coll, collName(task, coll), ch, mkPos(ch, serial, "p"), mkPos(ch, serial, "o"), nil); err != nil {
					errs[j] = err
					return
				}
			}
		}(j)
	}
	close(start)
	done := make(chan struct{})
	go func() { wg.Wait(); close(done) }()
	select {
	case <-done:
	case <-time.After(120 * time.Second):
		c.run.Inconclusive(fmt.Sprintf("%s case %d: channel writers did not finish within 120 s", c.cs.Backend, c.cs.Idx))
		return false
	}
	for j, err := range errs {
		if err != nil {
			c.run.Inconclusive(fmt.Sprintf("%s case %d: channel writer %d: %v", c.cs.Backend, c.cs.Idx, j, err))
			return false
		}
	}
	got, err := posS.Get(ctx, &meta.TaskCollectionPosition{TaskID: task, CollectionID: coll}, nil)
	if err != nil || len(got) != 1 {
		c.run.Inconclusive(fmt.Sprintf("%s case %d: reading the channel writers' record: %d records, %v", c.cs.Backend, c.cs.Idx, len(got), err))
		return false
	}
	c.run.Count("channel_writer_bursts/"+c.cs.Backend, 1)
	c.run.Count("channel_writer_updates/"+c.cs.Backend, k*rounds)
	dummy := &op{Kind: "channel_writers", Task: task, Coll: coll}
	for j := 0; j < k; j++ {
		ch := fmt.Sprintf("chw_%d", j)
		last := int64(j*1000 + rounds)
		for what, m := range map[string]map[string]*meta.PositionInfo{"p": got[0].Positions, "o": got[0].OpPositions} {
			want := canon(mkPos(ch, last, what))
			if have := canon(m[ch]); have != want {
				c.violate(c.cs.Backend+"/concurrent-channel-writers/entry-of-one-channel-rolled-back-by-another-channels-update",
					fmt.Sprintf("%d writers of collection %d of task %s, one per channel, %d updates each at the same time: the entry of channel %s (%s positions) is %s, its writer's last update was %s", k, coll, task, rounds, ch, what, have, want), dummy)
			}
		}
	}
	// leave nothing behind for the bystander checks of later cases
	_ = posS.Delete(ctx, &meta.TaskCollectionPosition{TaskID: task, CollectionID: coll}, nil)
	return true
}
