package main

import (
	"encoding/json"
	"fmt"
	"sort"
	"strconv"
	"strings"

	"verifharness/internal/fakesql"
	"verifharness/internal/vf"
)

func fakesqlPlan(at int, after bool) fakesql.Plan { return fakesql.Plan{Call: at, After: after} }

// caseRun: one case against one backend. The rig's reference is (a) the ownership map phys-record -> logical
// tuple, learned from the records successful writes created, and (b) the previous full dump.
type caseRun struct {
	run       *vf.Run
	be        backend
	cs        *caseSpec
	label     string
	tenants   []*tenant
	state     map[string]string
	owner     map[string]tuple
	byTuple   map[tuple]string
	opIdx     int
	curSerial string // `"Time":<serial>}` of the running operation: marks the entries it supplied itself
	opViol    int    // violations raised for the current operation
	nViol     int
	nontriv   bool
	events    []string
	fullRep   map[string]int // per child: how many full replays were attached per key
}

func (c *caseRun) logf(format string, a ...any) {
	if len(c.events) < 400 {
		c.events = append(c.events, fmt.Sprintf(format, a...))
	}
}

func (c *caseRun) violate(key, desc string, o *op) {
	c.opViol++
	c.nViol++
	c.logf("VIOLATION %s: %s", key, desc)
	rep := map[string]any{"backend": c.cs.Backend, "case_idx": c.cs.Idx, "seed": c.cs.Seed, "op_index": c.opIdx, "op": o, "roots": c.cs.Roots,
		"etcd_rootpath_empty": c.cs.ReplShared}
	if c.fullRep[key] < 2 {
		c.fullRep[key]++
		rep["case"] = c.cs
		rep["events"] = append([]string{}, c.events...)
	}
	c.run.Violate(key, fmt.Sprintf("[%s case %d op %d %s tenant=%q task=%q coll=%d] %s", c.cs.Backend, c.cs.Idx, c.opIdx, o.Kind, c.cs.Roots[o.Tenant], o.Task, o.Coll, desc), rep)
}

func (c *caseRun) key(verb string, k kind, what string) string {
	return fmt.Sprintf("C12/%s/%s-%s/%s", c.labelFor(k), verb, k, what)
}

// foreignKey: the violation key for "foreign record f was touched (verb put/update/delete) or returned (verb get) by
// an operation addressing a"; k is the kind named in the key (the touched record's kind for writes, the queried kind
// for reads). A root path nested under the addressed root has one key per backend, whatever the operation: the
// cause is the key layout <root>/<kind>/<task>, not an individual statement.
func (c *caseRun) foreignKey(verb string, k kind, f tuple, a addr) string {
	rel := relation(f, a, verb == "get")
	if rel == relNested {
		return fmt.Sprintf("C12/%s/nested-root-path", c.cs.Backend)
	}
	if c.labelFor(k) == "etcd-rootpath-empty" && f.Root != a.Root {
		rel = "other-root" // tenants sharing one namespace: how the (non-nested) roots relate is irrelevant
	}
	return c.key(verb, k, rel)
}

// labelFor: with etcd.rootPath empty every tenant's replicate store lives under the same (empty) root; breaks that
// concern task_msg records in that configuration are labelled apart.
func (c *caseRun) labelFor(k kind) string {
	if c.cs.ReplShared && k == kMsg {
		return "etcd-rootpath-empty"
	}
	return c.cs.Backend
}

func (c *caseRun) matching(a addr, dump map[string]string) []string {
	var ks []string
	for k := range dump {
		if t, ok := c.owner[k]; ok && a.matches(t) {
			ks = append(ks, k)
		}
	}
	sort.Strings(ks)
	return ks
}

// coverage: which hostile features the state offers to this operation (counted before it runs).
func (c *caseRun) coverage(o *op, a addr) {
	two, pre, pat := false, false, false
	foreign := false
	sibling := false // same task, another collection / message id that extends the addressed one (1 -> 10, m1 -> m10)
	for k := range c.state {
		t := c.owner[k]
		if !a.hasKind(t.Kind) {
			continue
		}
		if a.Sub != "" && t.Root == a.Root && t.Task == a.Task && t.Sub != a.Sub && strings.HasPrefix(t.Sub, a.Sub) {
			sibling = true
		}
		if t.Root != a.Root {
			foreign = true
			if a.Task == "" || t.Task == a.Task {
				two = true
			}
			if prefixRelated(t.Root, a.Root) {
				pre = true
			}
		} else if a.Task != "" {
			if t.Task != a.Task {
				foreign = true
				if prefixRelated(t.Task, a.Task) {
					pre = true
				}
			} else if a.Sub != "" && prefixRelated(t.Sub, a.Sub) {
				pre = true
			}
		}
	}
	if foreign && (hasPat(a.Root) || hasPat(a.Task)) {
		pat = true
	}
	p := "cov/" + c.cs.Backend + "/" + o.Kind + "/"
	c.run.Count(p+"any", 1)
	if two {
		c.run.Count(p+"two-roots", 1)
	}
	if pre {
		c.run.Count(p+"prefix-ids", 1)
	}
	if pat {
		c.run.Count(p+"pattern-chars", 1)
	}
	if sibling {
		c.run.Count(p+"longer-sibling-id", 1)
	}
	if two || pre || pat {
		c.nontriv = true
	}
}

func (c *caseRun) step(i int, o *op) bool {
	c.opIdx, c.opViol = i, 0
	c.curSerial = fmt.Sprintf(`"Time":%d}`, o.Serial)
	tn := c.tenants[o.Tenant]
	a := addrOf(tn.Root, o)
	c.coverage(o, a)
	res := execOp(c.be, tn, o)
	after, err := c.be.Dump()
	if err != nil {
		c.run.Inconclusive(fmt.Sprintf("%s case %d: dump failed: %v", c.cs.Backend, c.cs.Idx, err))
		return false
	}
	es := "ok"
	if res.Err != nil {
		es = "err: " + short(res.Err.Error(), 120)
		c.run.Count("op_err/"+c.cs.Backend+"/"+o.Kind, 1)
	} else {
		c.run.Count("op_ok/"+c.cs.Backend+"/"+o.Kind, 1)
	}
	c.logf("op %d %s tenant=%q task=%q coll=%d chan=%q msg=%q -> %s (returned %d)%s", i, o.Kind, tn.Root, o.Task, o.Coll, o.Chan, o.Msg, es, len(res.Got), faultNote(o, res))
	c.judge(o, a, res, c.state, after)
	c.state = after
	return true
}

func faultNote(o *op, res result) string {
	if o.Kind != "mo_delete_task_fault" {
		return ""
	}
	return fmt.Sprintf(" fault[%s at=%d after=%v fired=%q calls=%d]", o.FaultVia, o.FaultAt, o.FaultAfter, res.Fired, res.Calls)
}

func creating(kindName string) bool {
	switch kindName {
	case "put_info", "put_pos", "repl_put", "mo_update_pos", "mo_update_pos_coll0":
		return true
	}
	return false
}

func (c *caseRun) judge(o *op, a addr, res result, before, after map[string]string) {
	verb := verbOf(o.Kind)
	isWrite := verb != "get"
	added, removed, changed := diffDumps(before, after)
	ok := res.Err == nil

	// (1) footprint: every pre-existing record that changed or vanished must be addressed by the operation
	touched := append(append([]string{}, removed...), changed...)
	for _, k := range touched {
		t := c.owner[k]
		if isWrite && a.matches(t) {
			continue
		}
		how := "changed"
		if _, still := after[k]; !still {
			how = "removed"
		}
		c.violate(c.foreignKey(verb, t.Kind, t, a),
			fmt.Sprintf("record %s owned by %s was %s by an operation addressing root=%q task=%q sub=%q; before=%s after=%s",
				printable(k), t, how, a.Root, a.Task, a.Sub, short(before[k], 300), short(after[k], 300)), o)
	}
	// (2) new records
	for _, k := range added {
		sk, st, ss, sok := c.be.Sniff(k, after[k])
		t := tuple{Root: a.Root, Kind: sk, Task: st, Sub: ss}
		if !sok {
			t = tuple{Root: a.Root, Kind: "unknown", Sub: k}
		}
		if t.Kind == kInfo {
			t.Sub = ""
		}
		_, dup := c.byTuple[t]
		switch {
		case !isWrite || !sok || !a.matches(t):
			c.violate(c.key(verb, t.Kind, "created-"+relation(t, a, false)),
				fmt.Sprintf("new record %s (%s) appeared that the operation does not address: %s", printable(k), t, short(after[k], 300)), o)
		case dup:
			c.violate(c.key(verb, t.Kind, "second-record-for-same-id"),
				fmt.Sprintf("new record %s holds %s, which already lives in record %s", printable(k), t, printable(c.byTuple[t])), o)
		case !creating(o.Kind):
			key := c.key(verb, t.Kind, "created-record-unexplained")
			src := ""
			if f, found := c.explainNew(k, after[k], before); found {
				key, src = c.foreignKey("get", t.Kind, c.owner[f], a), " from the content of foreign record "+printable(f)+" owned by "+c.owner[f].String()+" (its read step returned that record)"
			}
			c.violate(key, fmt.Sprintf("%s created record %s (%s) although no such record existed%s: %s", o.Kind, printable(k), t, src, short(after[k], 300)), o)
		}
		c.owner[k] = t
		if !dup {
			c.byTuple[t] = k
		}
	}
	defer func() {
		for _, k := range removed {
			t := c.owner[k]
			delete(c.owner, k)
			if c.byTuple[t] == k {
				delete(c.byTuple, t)
			}
		}
	}()

	// (3) reads return exactly the addressed records
	if res.Read && (ok || res.NotFound) {
		c.judgeRead(o, a, res, before)
	}
	if res.Read && !ok && !res.NotFound && o.Kind != "mo_delete_task_fault" {
		c.run.Count("read_error/"+c.cs.Backend, 1)
	}

	// (4) effect of successful writes on the addressed record
	own := func(ks []string) []string {
		var out []string
		for _, k := range ks {
			if a.matches(c.owner[k]) {
				out = append(out, k)
			}
		}
		return out
	}
	switch o.Kind {
	case "put_info", "put_pos", "repl_put":
		if !ok {
			break
		}
		var t tuple
		var want string
		switch o.Kind {
		case "put_info":
			t, want = tuple{a.Root, kInfo, o.Task, ""}, canon(mkInfo(a.Root, o.Task, o.Serial, o.State))
		case "put_pos":
			t = tuple{a.Root, kPos, o.Task, strconv.FormatInt(o.Coll, 10)}
			m := map[string]any{}
			for _, ch := range o.Chans {
				m[ch] = mkPos(ch, o.Serial, "p")
			}
			want = canon(map[string]any{"TaskID": o.Task, "CollectionID": o.Coll, "CollectionName": collName(o.Task, o.Coll), "Positions": m})
		case "repl_put":
			t, want = tuple{a.Root, kMsg, o.Task, o.Msg}, canon(mkMsg(o.Task, o.Msg, o.Serial))
		}
		k, have := c.byTuple[t]
		if !have {
			if c.opViol == 0 {
				c.violate(c.key(verb, t.Kind, "no-effect"), fmt.Sprintf("successful put of %s left no such record", t), o)
			}
			break
		}
		if got, _ := c.be.AsReturned(t.Kind, k, after[k]); got != want {
			c.violate(c.key(verb, t.Kind, "wrong-result"), fmt.Sprintf("record %s after put = %s, want %s", printable(k), short(got, 300), short(want, 300)), o)
		}
	case "mo_update_state":
		if !ok {
			break
		}
		t := tuple{a.Root, kInfo, o.Task, ""}
		k, have := c.byTuple[t]
		if _, was := before[k]; !have || !was {
			break // creation out of nothing is reported by (2)
		}
		patch := func(s string) string {
			tr := tree(s)
			tr["State"] = json.Number(strconv.Itoa(o.State))
			tr["Reason"] = fmt.Sprintf("reason-%d", o.Serial)
			return canon(tr)
		}
		b, _ := c.be.AsReturned(kInfo, k, before[k])
		got, _ := c.be.AsReturned(kInfo, k, after[k])
		if want := patch(b); got != want {
			key := c.key(verb, kInfo, "wrong-result")
			for _, k2 := range sortedKeys(before) {
				if k2 == k {
					continue
				}
				if f, fok := c.be.AsReturned(kInfo, k2, before[k2]); fok && patch(f) == got {
					key = c.foreignKey("get", kInfo, c.owner[k2], a) // the read step returned the foreign record
					break
				}
			}
			c.violate(key, fmt.Sprintf("record %s after UpdateTaskState = %s, want the previous record with only State/Reason changed = %s", printable(k), short(got, 300), short(want, 300)), o)
		}
	case "mo_update_pos", "mo_update_pos_coll0":
		if ok {
			c.judgeUpdatePos(o, a, before, after, own(append(append([]string{}, added...), changed...)), len(added) > 0)
		}
	case "mo_drop_state":
		if !ok {
			break
		}
		x := own(changed)
		if len(x) > 1 {
			c.violate(c.key(verb, kPos, "more-than-one-record-changed"), fmt.Sprintf("%d records changed: %v", len(x), printableAll(x)), o)
		}
		for _, k := range x {
			dropAll := func(s string) string {
				tr := tree(s)
				for _, f := range []string{"Positions", "OpPositions", "TargetPositions"} {
					for _, e := range sub(tr, f) {
						if em, isM := e.(map[string]any); isM {
							em["Dropped"] = true
						}
					}
				}
				return canon(tr)
			}
			b, _ := c.be.AsReturned(kPos, k, before[k])
			got, _ := c.be.AsReturned(kPos, k, after[k])
			if want := dropAll(b); got != want {
				key := c.key(verb, kPos, "wrong-result")
				for _, k2 := range sortedKeys(before) {
					if k2 == k {
						continue
					}
					if f, fok := c.be.AsReturned(kPos, k2, before[k2]); fok && c.owner[k2].Kind == kPos && sameButIdentity(dropAll(f), got) {
						key = c.foreignKey("get", kPos, c.owner[k2], a)
						break
					}
				}
				c.violate(key, fmt.Sprintf("record %s after UpdateDropState = %s, want the previous record with every entry dropped = %s", printable(k), short(got, 300), short(want, 300)), o)
			}
		}
	case "del_info", "del_pos_task", "del_pos_task_coll", "mo_delete_pos", "mo_delete_pos_coll0":
		if !ok {
			break
		}
		for _, k := range c.matching(a, before) {
			if _, still := after[k]; still && c.opViol == 0 {
				c.violate(c.key(verb, c.owner[k].Kind, "no-effect"), fmt.Sprintf("successful delete left the addressed record %s", printable(k)), o)
			}
		}
	case "mo_delete_task", "mo_delete_task_fault":
		c.judgeDeleteTask(o, a, res, before, after)
	}
}

func sortedKeys(m map[string]string) []string {
	ks := make([]string, 0, len(m))
	for k := range m {
		ks = append(ks, k)
	}
	sort.Strings(ks)
	return ks
}

func printableAll(ks []string) []string {
	out := make([]string, len(ks))
	for i, k := range ks {
		out[i] = printable(k)
	}
	return out
}

// sameButIdentity compares two canonical position records ignoring TaskID / CollectionID / CollectionName.
func sameButIdentity(x, y string) bool {
	tx, ty := tree(x), tree(y)
	for _, f := range []string{"TaskID", "CollectionID", "CollectionName"} {
		delete(tx, f)
		delete(ty, f)
	}
	return canon(tx) == canon(ty)
}

// explainNew: an update created a record out of nothing; find the foreign record its content was taken from.
func (c *caseRun) explainNew(k, val string, before map[string]string) (string, bool) {
	sk, _, _, _ := c.be.Sniff(k, val)
	got, ok := c.be.AsReturned(sk, k, val)
	if !ok {
		return "", false
	}
	strip := func(s string) string {
		tr := tree(s)
		for _, f := range []string{"State", "Reason", "TaskID", "CollectionID", "CollectionName"} {
			delete(tr, f)
		}
		return stripDropped(canon(tr))
	}
	for _, k2 := range sortedKeys(before) {
		if f, fok := c.be.AsReturned(sk, k2, before[k2]); fok && c.owner[k2].Kind == sk && strip(f) == strip(got) {
			return k2, true
		}
	}
	return "", false
}

func stripDropped(s string) string { return strings.ReplaceAll(s, `"Dropped":true`, `"Dropped":false`) }

func (c *caseRun) judgeRead(o *op, a addr, res result, before map[string]string) {
	q := a
	if o.Kind == "mo_delete_task" || o.Kind == "mo_delete_task_fault" {
		q = addr{Root: a.Root, Kinds: []kind{kInfo}, Task: a.Task}
	}
	K := q.Kinds[0]
	expKeys := c.matching(q, before)
	inExp := map[string]bool{}
	var want []string
	for _, k := range expKeys {
		inExp[k] = true
		if s, ok := c.be.AsReturned(K, k, before[k]); ok {
			want = append(want, s)
		}
	}
	got := res.Got
	var missing, extra []string
	if res.Single {
		if len(got) == 0 {
			missing = want
		} else {
			found := false
			for _, w := range want {
				if w == got[0] {
					found = true
				}
			}
			if !found {
				extra = got[:1]
				if len(want) > 0 {
					missing = want
				}
			}
		}
	} else {
		missing, extra = multisetDiff(want, got)
	}
	verb := "get"
	if len(missing) > 0 {
		what := "own-record-not-returned"
		if hasPat(q.Root) || hasPat(q.Task) {
			what += "-pattern-char-id"
		}
		c.violate(c.key(verb, K, what),
			fmt.Sprintf("query root=%q task=%q sub=%q returned %d record(s); %d addressed record(s) missing, first: %s", q.Root, q.Task, q.Sub, len(got), len(missing), short(missing[0], 300)), o)
	}
	if len(extra) == 0 {
		return
	}
	// explain every extra result by a record outside the query. Records with identical decoded content (e.g. records
	// of another kind, which decode to the zero value) are indistinguishable: the most plausible source is taken
	// first - same tenant's other kind (tolerated), then a root nested under the addressed one, then the rest.
	used := map[string]bool{}
	type cand struct {
		k    string
		rank int
	}
	rankOf := func(t tuple) int {
		switch r := relation(t, q, true); {
		case r == "same-root-other-kind":
			if o.Kind != "repl_get_all" {
				return 4 // only a whole-root prefix read can plausibly return the tenant's other kinds
			}
			return 0
		case r == relNested:
			return 1
		case r == "other-root-pattern-char-match" || r == "other-root-prefix-related" || r == "prefix-related-task" || r == "task-id-nested-path" || r == "pattern-char-task-match":
			return 2
		default:
			return 3
		}
	}
	for _, e := range extra {
		var cands []cand
		for _, k2 := range sortedKeys(before) {
			if inExp[k2] || used[k2] {
				continue
			}
			if s, ok := c.be.AsReturned(K, k2, before[k2]); ok && s == e {
				cands = append(cands, cand{k2, rankOf(c.owner[k2])})
			}
		}
		if len(cands) == 0 {
			c.violate(c.key(verb, K, "unexplained-extra-result"), fmt.Sprintf("query root=%q task=%q sub=%q returned a record that is not stored: %s", q.Root, q.Task, q.Sub, short(e, 300)), o)
			continue
		}
		sort.SliceStable(cands, func(i, j int) bool { return cands[i].rank < cands[j].rank })
		ch := cands[0]
		used[ch.k] = true
		if ch.rank == 0 && (o.Kind == "repl_get_all") {
			// the statement speaks of tasks, collections, channels and root paths; a record of another kind under the
			// same root is the same tenant's own data: counted, not a violation
			c.run.Count("tolerated/"+c.cs.Backend+"/read-returned-same-root-other-kind", 1)
			continue
		}
		c.violate(c.foreignKey(verb, K, c.owner[ch.k], q),
			fmt.Sprintf("query root=%q task=%q sub=%q returned foreign record %s owned by %s: %s", q.Root, q.Task, q.Sub, printable(ch.k), c.owner[ch.k], short(e, 300)), o)
	}
}

func (c *caseRun) judgeUpdatePos(o *op, a addr, before, after map[string]string, x []string, created bool) {
	verb := "update"
	cands := c.matching(a, before)
	if len(x) > 1 {
		c.violate(c.key(verb, kPos, "more-than-one-record-changed"), fmt.Sprintf("%d addressed records changed: %v", len(x), printableAll(x)), o)
		return
	}
	for _, k := range cands {
		if b, bok := c.be.AsReturned(kPos, k, before[k]); bok {
			if e, _ := sub(tree(b), "Positions")[o.Chan].(map[string]any); e["Dropped"] == true {
				c.run.Count("dropped_entry_update_attempts/"+c.cs.Backend, 1)
				break
			}
		}
	}
	anyDropped := func() bool {
		for _, k := range cands {
			if strings.Contains(before[k], "Dropped") && strings.Contains(strings.ReplaceAll(before[k], `\"`, `"`), `"Dropped":true`) {
				return true
			}
		}
		return false
	}
	if len(x) == 0 {
		if c.opViol == 0 && !anyDropped() {
			// the update vanished: was it absorbed by a related foreign record whose entry for this channel is dropped
			// (the update's read step returned that record instead of the addressed one)?
			key, src := c.key(verb, kPos, "no-effect"), ""
			for _, k2 := range sortedKeys(before) {
				t2 := c.owner[k2]
				if t2.Kind != kPos || a.matches(t2) {
					continue
				}
				f, fok := c.be.AsReturned(kPos, k2, before[k2])
				if !fok {
					continue
				}
				e, _ := sub(tree(f), "Positions")[o.Chan].(map[string]any)
				if e["Dropped"] != true {
					continue
				}
				switch relation(t2, a, true) {
				case "other-root", "other-task", "other-collection", "same-root-other-kind":
					continue
				}
				key, src = c.foreignKey("get", kPos, t2, a), "; absorbed by the dropped entry of foreign record "+printable(k2)+" owned by "+t2.String()
				break
			}
			c.violate(key, fmt.Sprintf("successful position update changed no addressed record (%d candidate(s))%s", len(cands), src), o)
		}
		return
	}
	k := x[0]
	_, existed := before[k]
	bt := map[string]any{}
	if existed {
		b, _ := c.be.AsReturned(kPos, k, before[k])
		bt = tree(b)
	}
	as, _ := c.be.AsReturned(kPos, k, after[k])
	at := tree(as)
	if existed {
		for _, f := range []string{"TaskID", "CollectionID", "CollectionName"} {
			if jstr(bt[f]) != jstr(at[f]) {
				c.violate(c.key(verb, kPos, "identity-field-changed"), fmt.Sprintf("record %s: %s changed from %s to %s", printable(k), f, jstr(bt[f]), jstr(at[f])), o)
			}
		}
	} else {
		wantColl := o.Coll
		if o.Kind == "mo_update_pos_coll0" {
			wantColl = -1
		}
		if jstr(at["TaskID"]) != jstr(o.Task) || jstr(at["CollectionID"]) != strconv.FormatInt(wantColl, 10) {
			key := c.key(verb, kPos, "wrong-result")
			if f, found := c.explainPos(k, at, before, [][2]string{{"Positions", o.Chan}, {"OpPositions", o.Chan}, {"TargetPositions", targetKey(o.Chan)}}); found {
				key = c.foreignKey("get", kPos, c.owner[f], a)
			}
			c.violate(key, fmt.Sprintf("created record %s is for task %s collection %s, want %q / %d", printable(k), jstr(at["TaskID"]), jstr(at["CollectionID"]), o.Task, wantColl), o)
			return
		}
	}
	type slot struct {
		field, key string
		supplied   string // canonical new value, "" = not supplied
	}
	slots := []slot{{"Positions", o.Chan, canon(mkPos(o.Chan, o.Serial, "p"))}, {"OpPositions", o.Chan, ""}, {"TargetPositions", targetKey(o.Chan), ""}}
	if o.WithOp {
		slots[1].supplied = canon(mkPos(o.Chan, o.Serial, "o"))
	}
	if o.WithTg && o.Kind == "mo_update_pos" {
		tg := mkPos(o.Chan, o.Serial, "t")
		tg.DataPair.Key = targetKey(o.Chan)
		slots[2].supplied = canon(tg)
	}
	// an existing record rewritten as if it had not existed (exactly the supplied entries, everything else gone):
	// the operation's own read step did not return the addressed record
	if existed {
		fresh, lost := true, false
		for _, s := range slots {
			bm, am := sub(bt, s.field), sub(at, s.field)
			for e := range am {
				if e != s.key || s.supplied == "" {
					fresh = false
				}
			}
			for e := range bm {
				if _, still := am[e]; !still {
					lost = true
				}
			}
		}
		// (a dropped entry replaced by the fresh record counts like a lost one)
		for _, s := range slots {
			if em, isM := sub(bt, s.field)[s.key].(map[string]any); isM && em["Dropped"] == true && jstr(em) != jstr(sub(at, s.field)[s.key]) {
				lost = true
			}
		}
		if fresh && lost {
			what := "own-record-not-returned"
			if hasPat(a.Root) || hasPat(a.Task) {
				what += "-pattern-char-id"
			}
			c.violate(c.key("get", kPos, what), fmt.Sprintf("record %s existed (%s) and was rewritten with only the new entry (%s): the update's read step did not see the addressed record, other channels' checkpoints are lost", printable(k), short(canon(bt), 200), short(as, 200)), o)
			return
		}
	}
	otherChanged := ""
	type finding struct{ what, desc string }
	var finds []finding
	for _, s := range slots {
		bm, am := sub(bt, s.field), sub(at, s.field)
		names := map[string]bool{}
		for e := range bm {
			names[e] = true
		}
		for e := range am {
			names[e] = true
		}
		for e := range names {
			bv, av := jstr(bm[e]), jstr(am[e])
			if e != s.key {
				if bv != av && otherChanged == "" {
					otherChanged = fmt.Sprintf("%s[%q]: %s -> %s", s.field, e, short(bv, 120), short(av, 120))
				}
				continue
			}
			dropped := false
			if em, isM := bm[e].(map[string]any); isM && em["Dropped"] == true {
				dropped = true
			}
			switch {
			case dropped && bv != av:
				finds = append(finds, finding{"dropped-entry-overwritten", fmt.Sprintf("record %s: dropped entry %s[%q] changed from %s to %s", printable(k), s.field, e, short(bv, 150), short(av, 150))})
			case !dropped && s.supplied != "" && av != s.supplied:
				finds = append(finds, finding{"addressed-entry-not-written", fmt.Sprintf("record %s: %s[%q] = %s, want %s", printable(k), s.field, e, short(av, 150), short(s.supplied, 150))})
			case !dropped && s.supplied == "" && bv != av:
				finds = append(finds, finding{"unaddressed-slot-changed", fmt.Sprintf("record %s: %s[%q] changed from %s to %s though no value was supplied", printable(k), s.field, e, short(bv, 150), short(av, 150))})
			}
		}
		if s.supplied != "" {
			if _, have := am[s.key]; !have {
				finds = append(finds, finding{"addressed-entry-not-written", fmt.Sprintf("record %s: %s[%q] absent after the update", printable(k), s.field, s.key)})
			}
		}
	}
	if otherChanged == "" && len(finds) == 0 {
		return
	}
	var skip [][2]string
	for _, s := range slots {
		skip = append(skip, [2]string{s.field, s.key})
	}
	// was the record rebuilt from a foreign one (the update's read step returned it)? Then that is the finding; the
	// individual symptoms (other channels changed, a dropped entry replaced) are listed in its description.
	// (b) the record equals a foreign record with the supplied entries applied to it: the read step returned that one
	apply := func(ft map[string]any) (string, bool) {
		cp := tree(canon(ft))
		rest := false
		for _, s := range slots {
			m := sub(cp, s.field)
			for e := range m {
				if e != s.key {
					rest = true
				}
			}
			if s.supplied == "" {
				continue
			}
			if em, isM := m[s.key].(map[string]any); isM && em["Dropped"] == true {
				continue
			}
			if cp[s.field] == nil {
				cp[s.field] = map[string]any{}
			}
			cp[s.field].(map[string]any)[s.key] = tree(s.supplied)
		}
		return canon(cp), rest
	}
	f, found := "", false
	for _, k2 := range sortedKeys(before) {
		t2 := c.owner[k2]
		if k2 == k || t2.Kind != kPos {
			continue
		}
		fs, fok := c.be.AsReturned(kPos, k2, before[k2])
		if !fok {
			continue
		}
		applied, rest := apply(tree(fs))
		if !sameButIdentity(applied, as) {
			continue
		}
		if !rest {
			switch relation(t2, a, true) {
			case "other-root", "other-task", "other-collection", "same-root-other-kind":
				continue // a record with nothing but the addressed entries proves nothing
			}
		}
		f, found = k2, true
		break
	}
	if !found {
		f, found = c.explainPos(k, at, before, skip)
	}
	for _, fd := range finds {
		if !found {
			c.violate(c.key(verb, kPos, fd.what), fd.desc, o)
		}
	}
	if found {
		c.violate(c.foreignKey("get", kPos, c.owner[f], a), fmt.Sprintf("record %s after updating channel %q carries the entries of foreign record %s owned by %s (the update's read step returned it); changed: %s %v", printable(k), o.Chan, printable(f), c.owner[f], otherChanged, finds), o)
		return
	}
	if otherChanged != "" {
		c.violate(c.key(verb, kPos, "other-channel"), fmt.Sprintf("record %s: updating channel %q also changed %s (created=%v)", printable(k), o.Chan, otherChanged, created), o)
	}
}

// explainPos: the position record t (after the update) carries channel entries that neither its previous content
// nor the supplied values account for (skip = the addressed slots): which single other record holds all of them?
// Written values carry unique serials, so an entry identifies the record it was copied from.
func (c *caseRun) explainPos(self string, t map[string]any, before map[string]string, skip [][2]string) (string, bool) {
	prev := map[string]any{}
	if b, ok := before[self]; ok {
		if s, ok := c.be.AsReturned(kPos, self, b); ok {
			prev = tree(s)
		}
	}
	type ent struct{ field, key, val string }
	var alien []ent
	for _, f := range []string{"Positions", "OpPositions", "TargetPositions"} {
		pm := sub(prev, f)
		for e, v := range sub(t, f) {
			val := stripDropped(jstr(v))
			if stripDropped(jstr(pm[e])) == val {
				continue
			}
			alien = append(alien, ent{f, e, val})
		}
	}
	// drop the entries the operation itself supplied (they carry the operation's serial)
	var rest []ent
	for _, a := range alien {
		mine := false
		for _, s := range skip {
			if s[0] == a.field && s[1] == a.key && strings.Contains(a.val, c.curSerial) {
				mine = true
			}
		}
		if !mine {
			rest = append(rest, a)
		}
	}
	if len(rest) == 0 {
		// nothing copied; a created record may still carry a foreign record's identity (task id, collection id)
		// (several records may qualify; the one whose root the addressed root covers as a pattern or prefix is the
		// plausible source)
		if _, existed := before[self]; !existed {
			best, bestRank := "", 99
			me := c.owner[self]
			for _, k2 := range sortedKeys(before) {
				if k2 == self || c.owner[k2].Kind != kPos {
					continue
				}
				if f, fok := c.be.AsReturned(kPos, k2, before[k2]); fok {
					ft := tree(f)
					if jstr(ft["TaskID"]) == jstr(t["TaskID"]) && jstr(ft["CollectionID"]) == jstr(t["CollectionID"]) && c.owner[k2].Root != me.Root {
						rank := 3
						switch relation(c.owner[k2], addr{Root: me.Root, Kinds: []kind{kPos}}, true) {
						case "other-root-pattern-char-match":
							rank = 0
						case relNested:
							rank = 1
						case "other-root-prefix-related":
							rank = 2
						}
						if rank < bestRank {
							best, bestRank = k2, rank
						}
					}
				}
			}
			if best != "" {
				return best, true
			}
		}
		return "", false
	}
	for _, k2 := range sortedKeys(before) {
		if k2 == self || c.owner[k2].Kind != kPos {
			continue
		}
		f, fok := c.be.AsReturned(kPos, k2, before[k2])
		if !fok {
			continue
		}
		ft := tree(f)
		all := true
		for _, a := range rest {
			if stripDropped(jstr(sub(ft, a.field)[a.key])) != a.val {
				all = false
				break
			}
		}
		if all {
			return k2, true
		}
	}
	return "", false
}

func (c *caseRun) judgeDeleteTask(o *op, a addr, res result, before, after map[string]string) {
	ownKeys := c.matching(a, before)
	hasInfo := false
	for _, k := range ownKeys {
		if c.owner[k].Kind == kInfo {
			hasInfo = true
		}
	}
	gone, kept, altered := 0, 0, 0
	for _, k := range ownKeys {
		v, still := after[k]
		switch {
		case !still:
			gone++
		case v == before[k]:
			kept++
		default:
			altered++
		}
	}
	if o.Kind == "mo_delete_task_fault" {
		mode := "before"
		if o.FaultAfter {
			mode = "after"
		}
		fired := "fired"
		if res.Fired == "" {
			fired = "not-reached"
		}
		if hasInfo && len(ownKeys) >= 2 {
			c.run.Count(fmt.Sprintf("fault/%s/%s/%d/%s/%s", c.cs.Backend, o.FaultVia, o.FaultAt, mode, fired), 1)
			c.run.Count(fmt.Sprintf("fault_idx/%s/%s/%d", c.cs.Backend, o.FaultVia, o.FaultAt), 1)
			if res.Fired != "" {
				c.run.Distinct("fault_points/"+c.cs.Backend+"/"+o.FaultVia, strings.SplitN(res.Fired, " ", 2)[0]+"/"+mode)
				if gone == 0 {
					c.run.Count("fault_outcome/"+c.cs.Backend+"/all-kept", 1)
				} else if kept == 0 {
					c.run.Count("fault_outcome/"+c.cs.Backend+"/all-gone", 1)
				}
			}
		}
	}
	if len(ownKeys) == 0 {
		return
	}
	if gone > 0 && (kept > 0 || altered > 0) || altered > 0 {
		c.violate(fmt.Sprintf("C12/%s/delete-task/not-atomic", c.label),
			fmt.Sprintf("DeleteTask(%q) (err=%v, injected=%q) left the task half deleted: %d record(s) gone, %d kept, %d altered; gone/kept: %s", o.Task, res.Err, res.Fired, gone, kept, altered, c.goneKept(ownKeys, after)), o)
		return
	}
	if res.Err == nil && hasInfo && gone == 0 && c.opViol == 0 {
		c.violate(fmt.Sprintf("C12/%s/delete-task/no-effect", c.label), fmt.Sprintf("DeleteTask(%q) reported success and deleted nothing (%d records)", o.Task, len(ownKeys)), o)
	}
	if hasInfo && len(ownKeys) >= 2 && res.Err == nil && gone == len(ownKeys) {
		c.run.Count("delete_task_full/"+c.cs.Backend, 1)
	}
}

func (c *caseRun) goneKept(keys []string, after map[string]string) string {
	var g, k []string
	for _, x := range keys {
		if _, still := after[x]; still {
			k = append(k, printable(x))
		} else {
			g = append(g, printable(x))
		}
	}
	return fmt.Sprintf("gone=%v kept=%v", g, k)
}
