package main

import (
	"context"
	"errors"
	"fmt"
	"strconv"

	"github.com/milvus-io/milvus-proto/go-api/v2/commonpb"

	coreapi "github.com/zilliztech/milvus-cdc/core/api"
	coremeta "github.com/zilliztech/milvus-cdc/core/meta"
	servererror "github.com/zilliztech/milvus-cdc/server/error"
	"github.com/zilliztech/milvus-cdc/server/model"
	"github.com/zilliztech/milvus-cdc/server/model/meta"
	"github.com/zilliztech/milvus-cdc/server/store"
)

// ---- payload builders: every written value carries the operation's unique serial ----

func mkInfo(root, task string, serial int64, state int) *meta.TaskInfo {
	return &meta.TaskInfo{
		TaskID:             task,
		MilvusConnectParam: model.MilvusConnectParam{Host: fmt.Sprintf("h-%d", serial), Port: 19530, URI: "tenant:" + root},
		CollectionInfos:    []model.CollectionInfo{{Name: fmt.Sprintf("c%d", serial)}},
		State:              meta.TaskState(state),
		Reason:             fmt.Sprintf("created-%d", serial),
	}
}

func mkPos(ch string, serial int64, what string) *meta.PositionInfo {
	return &meta.PositionInfo{StartTime: serial, Time: serial,
		DataPair: &commonpb.KeyDataPair{Key: what + ch + "_v0", Data: []byte(fmt.Sprintf("%s-%d", what, serial))}}
}

func targetKey(ch string) string { return "tgt-" + ch + "_v0" }

// collName: constant per task (MySQL's ON DUPLICATE KEY UPDATE does not rewrite collection_name, etcd does)
func collName(task string, coll int64) string { return "coll_of_" + task }

func mkMsg(task, msg string, serial int64) coreapi.MetaMsg {
	return coreapi.MetaMsg{
		Base: coreapi.BaseTaskMsg{TaskID: task, MsgID: msg, TargetChannels: []string{"a", "b"}, ReadyChannels: []string{fmt.Sprintf("r%d", serial)}},
		Type: coreapi.DropCollectionMetaMsgType,
		Data: map[string]interface{}{"collection_name": fmt.Sprintf("c%d", serial), "database_name": "default"},
	}
}

// result of executing one operation against the real store
type result struct {
	Err      error
	Read     bool     // the operation returns records
	Single   bool     // ... only the first of the matching ones (GetTaskInfo)
	Got      []string // canonical JSON of the returned records
	Fired    string   // injected fault that fired ("" = none)
	Calls    int      // store / driver calls seen while the fault plan was armed
	Trace    []string
	NotFound bool
}

func verbOf(kindName string) string {
	switch kindName {
	case "put_info", "put_pos", "repl_put":
		return "put"
	case "get_info_all", "get_info_task", "mo_get_task_info", "mo_get_all_task_info", "get_pos_all", "get_pos_task", "get_pos_task_coll",
		"repl_get_exact", "repl_get_all":
		return "get"
	case "mo_update_state", "mo_update_pos", "mo_update_pos_coll0", "mo_drop_state":
		return "update"
	}
	return "delete"
}

// addrOf: what the operation addresses, from its arguments alone.
func addrOf(root string, o *op) addr {
	subOf := func() string {
		if o.Coll == 0 {
			return ""
		}
		return strconv.FormatInt(o.Coll, 10)
	}
	switch o.Kind {
	case "put_info", "get_info_task", "del_info", "mo_get_task_info", "mo_update_state":
		return addr{Root: root, Kinds: []kind{kInfo}, Task: o.Task}
	case "get_info_all", "mo_get_all_task_info":
		return addr{Root: root, Kinds: []kind{kInfo}}
	case "get_pos_all":
		return addr{Root: root, Kinds: []kind{kPos}}
	case "get_pos_task", "del_pos_task", "mo_update_pos_coll0", "mo_delete_pos_coll0":
		return addr{Root: root, Kinds: []kind{kPos}, Task: o.Task}
	case "put_pos", "get_pos_task_coll", "del_pos_task_coll", "mo_update_pos", "mo_drop_state", "mo_delete_pos":
		return addr{Root: root, Kinds: []kind{kPos}, Task: o.Task, Sub: subOf()}
	case "mo_delete_task", "mo_delete_task_fault":
		return addr{Root: root, Kinds: []kind{kInfo, kPos}, Task: o.Task}
	case "repl_put", "repl_get_exact", "repl_remove":
		return addr{Root: root, Kinds: []kind{kMsg}, Task: o.Task, Sub: o.Msg}
	case "repl_get_all":
		return addr{Root: root, Kinds: []kind{kMsg}}
	}
	panic("unknown op kind " + o.Kind)
}

func canonList[T any](xs []T) []string {
	out := make([]string, 0, len(xs))
	for _, x := range xs {
		out = append(out, canon(x))
	}
	return out
}

// execOp calls the real code.
func execOp(be backend, tn *tenant, o *op) (res result) {
	ctx := context.Background()
	f := tn.F
	infoS := f.GetTaskInfoMetaStore(ctx)
	posS := f.GetTaskCollectionPositionMetaStore(ctx)
	repl := f.GetReplicateStore(ctx)
	switch o.Kind {
	case "put_info":
		res.Err = infoS.Put(ctx, mkInfo(tn.Root, o.Task, o.Serial, o.State), nil)
	case "get_info_all":
		r, err := infoS.Get(ctx, &meta.TaskInfo{}, nil)
		res.Read, res.Err, res.Got = true, err, canonList(r)
	case "get_info_task":
		r, err := infoS.Get(ctx, &meta.TaskInfo{TaskID: o.Task}, nil)
		res.Read, res.Err, res.Got = true, err, canonList(r)
	case "del_info":
		res.Err = infoS.Delete(ctx, &meta.TaskInfo{TaskID: o.Task}, nil)
	case "mo_get_task_info":
		r, err := store.GetTaskInfo(infoS, o.Task)
		res.Read, res.Single, res.Err = true, true, err
		if err == nil {
			res.Got = []string{canon(r)}
		}
	case "mo_get_all_task_info":
		r, err := store.GetAllTaskInfo(infoS)
		res.Read, res.Err, res.Got = true, err, canonList(r)
	case "mo_update_state":
		var olds []meta.TaskState
		for _, s := range o.Olds {
			olds = append(olds, meta.TaskState(s))
		}
		res.Err = store.UpdateTaskState(infoS, o.Task, meta.TaskState(o.State), olds, fmt.Sprintf("reason-%d", o.Serial))
	case "put_pos":
		p := &meta.TaskCollectionPosition{TaskID: o.Task, CollectionID: o.Coll, CollectionName: collName(o.Task, o.Coll),
			Positions: map[string]*meta.PositionInfo{}, OpPositions: map[string]*meta.PositionInfo{}, TargetPositions: map[string]*meta.PositionInfo{}}
		for _, ch := range o.Chans {
			p.Positions[ch] = mkPos(ch, o.Serial, "p")
		}
		res.Err = posS.Put(ctx, p, nil)
	case "get_pos_all":
		r, err := posS.Get(ctx, &meta.TaskCollectionPosition{}, nil)
		res.Read, res.Err, res.Got = true, err, canonList(r)
	case "get_pos_task":
		r, err := posS.Get(ctx, &meta.TaskCollectionPosition{TaskID: o.Task}, nil)
		res.Read, res.Err, res.Got = true, err, canonList(r)
	case "get_pos_task_coll":
		r, err := posS.Get(ctx, &meta.TaskCollectionPosition{TaskID: o.Task, CollectionID: o.Coll}, nil)
		res.Read, res.Err, res.Got = true, err, canonList(r)
	case "del_pos_task":
		res.Err = posS.Delete(ctx, &meta.TaskCollectionPosition{TaskID: o.Task}, nil)
	case "del_pos_task_coll":
		res.Err = posS.Delete(ctx, &meta.TaskCollectionPosition{TaskID: o.Task, CollectionID: o.Coll}, nil)
	case "mo_update_pos", "mo_update_pos_coll0":
		coll := o.Coll
		if o.Kind == "mo_update_pos_coll0" {
			coll = 0
		}
		var opP, tgP *meta.PositionInfo
		if o.WithOp {
			opP = mkPos(o.Chan, o.Serial, "o")
		}
		if o.WithTg {
			tgP = mkPos(o.Chan, o.Serial, "t")
			tgP.DataPair.Key = targetKey(o.Chan)
		}
		res.Err = store.UpdateTaskCollectionPosition(posS, o.Task, coll, collName(o.Task, o.Coll), o.Chan, mkPos(o.Chan, o.Serial, "p"), opP, tgP)
	case "mo_drop_state":
		res.Err = store.UpdateDropStateTaskCollectionPosition(posS, o.Task, o.Coll)
	case "mo_delete_pos":
		res.Err = store.DeleteTaskCollectionPosition(posS, o.Task, o.Coll)
	case "mo_delete_pos_coll0":
		res.Err = store.DeleteTaskCollectionPosition(posS, o.Task, 0)
	case "mo_delete_task":
		r, err := store.DeleteTask(f, o.Task)
		res.Read, res.Single, res.Err = true, true, err
		if err == nil {
			res.Got = []string{canon(r)}
		}
	case "mo_delete_task_fault":
		var r *meta.TaskInfo
		var err error
		if o.FaultVia == "sql" {
			eng := be.Engine()
			eng.Arm(fakesqlPlan(o.FaultAt, o.FaultAfter))
			r, err = store.DeleteTask(f, o.Task)
			res.Fired, res.Calls, res.Trace = eng.Disarm()
		} else {
			tn.FF.Arm(o.FaultAt, o.FaultAfter)
			r, err = store.DeleteTask(tn.FF, o.Task)
			res.Fired, res.Calls, res.Trace = tn.FF.Disarm()
		}
		res.Read, res.Single, res.Err = true, true, err
		if err == nil {
			res.Got = []string{canon(r)}
		}
	case "repl_put":
		res.Err = repl.Put(ctx, coremeta.GetMetaKey(o.Task, o.Msg), mkMsg(o.Task, o.Msg, o.Serial))
	case "repl_get_exact":
		r, err := repl.Get(ctx, coremeta.GetMetaKey(o.Task, o.Msg), false)
		res.Read, res.Err, res.Got = true, err, canonList(r)
	case "repl_get_all":
		r, err := repl.Get(ctx, "", true) // what ReplicateMeteImpl.Reload does
		res.Read, res.Err, res.Got = true, err, canonList(r)
	case "repl_remove":
		res.Err = repl.Remove(ctx, coremeta.GetMetaKey(o.Task, o.Msg))
	default:
		panic("unknown op kind " + o.Kind)
	}
	if res.Err != nil && errors.Is(res.Err, servererror.NotFoundErr) {
		res.NotFound = true
	}
	return res
}
