package main

import (
	"fmt"
	"sort"
	"strconv"
	"sync"
	"time"
)

// concurrent epilogue: 1-4 clients, each on its own task id (ids unique to the burst, prefix-related among each
// other and with nothing else), run their scripts at the same time against the shared factories (clients of one
// tenant share the factory and therefore its txnMap). Checks after the burst:
//
//	(a) every record that existed before the burst (bystanders: other tasks, other tenants) is unchanged;
//	(b) every new record belongs to one of the clients' (tenant, task);
//	(c) each client's own records are what its own script, run alone, leaves behind (presence, state, last
//	    written position per collection/channel) - scripts on disjoint keys commute;
//	(d) reads a client made of its own task returned only its own records.
var relPrio = []string{"other-root-same-task", "other-root-pattern-char-match", "other-root-prefix-related", "pattern-char-task-match",
	"task-id-nested-path", "prefix-related-task", "prefix-related-collection", "prefix-related-msg", "other-collection", "other-msg", "other-task", "other-root", "same-root-other-kind", "addressed-record"}

type concOutcome struct {
	res []result
}

func (c *caseRun) concurrent() bool {
	cl := c.cs.Conc
	if len(cl) == 0 {
		return true
	}
	c.opIdx = len(c.cs.Ops)
	before := c.state
	outs := make([]concOutcome, len(cl))
	var wg sync.WaitGroup
	start := make(chan struct{})
	for i := range cl {
		wg.Add(1)
		go func(i int) {
			defer wg.Done()
			<-start
			for j := range cl[i].Ops {
				o := &cl[i].Ops[j]
				outs[i].res = append(outs[i].res, execOp(c.be, c.tenants[o.Tenant], o))
			}
		}(i)
	}
	close(start)
	done := make(chan struct{})
	go func() { wg.Wait(); close(done) }()
	select {
	case <-done:
	case <-time.After(180 * time.Second): // watchdog only: three orders of magnitude above a burst's run time
		c.run.Inconclusive(fmt.Sprintf("%s case %d: concurrent burst did not finish within 180 s", c.cs.Backend, c.cs.Idx))
		return false
	}
	after, err := c.be.Dump()
	if err != nil {
		c.run.Inconclusive(fmt.Sprintf("%s case %d: dump failed: %v", c.cs.Backend, c.cs.Idx, err))
		return false
	}
	c.run.Count("conc_bursts/"+c.cs.Backend, 1)
	c.run.Count(fmt.Sprintf("conc_clients/%s/%d", c.cs.Backend, len(cl)), 1)
	shared := map[int]int{}
	for _, x := range cl {
		shared[x.Tenant]++
	}
	for _, n := range shared {
		if n > 1 {
			c.run.Count("conc_bursts_sharing_a_factory/"+c.cs.Backend, 1)
			break
		}
	}
	dummy := &op{Kind: "concurrent_burst"}
	var addrs []addr
	byTask := map[string]int{}
	for i, x := range cl {
		byTask[x.Task] = i
		for j := range x.Ops {
			addrs = append(addrs, addrOf(c.tenants[x.Tenant].Root, &x.Ops[j]))
		}
	}
	bestRel := func(t tuple) string {
		best := len(relPrio)
		for _, a := range addrs {
			r := relation(t, a, false)
			for p, name := range relPrio {
				if name == r && p < best {
					best = p
				}
			}
		}
		if best == len(relPrio) {
			return "unrelated"
		}
		return relPrio[best]
	}
	added, removed, changed := diffDumps(before, after)
	// (a)
	for _, k := range append(append([]string{}, removed...), changed...) {
		t := c.owner[k]
		c.violate(fmt.Sprintf("C12/%s/concurrent-%s/%s", c.labelFor(t.Kind), t.Kind, bestRel(t)),
			fmt.Sprintf("bystander record %s owned by %s changed during a burst of %d clients on tasks %v; before=%s after=%s", printable(k), t, len(cl), taskList(cl), short(before[k], 200), short(after[k], 200)), dummy)
	}
	// (b)
	for _, k := range added {
		sk, st, ss, ok := c.be.Sniff(k, after[k])
		i, mine := byTask[st]
		t := tuple{Root: "?", Kind: sk, Task: st, Sub: ss}
		if mine {
			t.Root = c.tenants[cl[i].Tenant].Root
		}
		if t.Kind == kInfo {
			t.Sub = ""
		}
		if !ok || !mine {
			c.violate(fmt.Sprintf("C12/%s/concurrent-%s/created-foreign-record", c.labelFor(sk), sk), fmt.Sprintf("new record %s (%s) belongs to none of the clients: %s", printable(k), t, short(after[k], 200)), dummy)
		}
		c.owner[k] = t
		if _, dup := c.byTuple[t]; !dup {
			c.byTuple[t] = k
		} else {
			c.violate(fmt.Sprintf("C12/%s/concurrent-%s/second-record-for-same-id", c.labelFor(sk), sk), fmt.Sprintf("new record %s duplicates %s", printable(k), t), dummy)
		}
	}
	for _, k := range removed {
		t := c.owner[k]
		delete(c.owner, k)
		if c.byTuple[t] == k {
			delete(c.byTuple, t)
		}
	}
	c.state = after
	// (c) + (d)
	for i, x := range cl {
		c.judgeClient(x, outs[i], after, dummy)
	}
	return true
}

func taskList(cl []concClient) []string {
	var out []string
	for _, x := range cl {
		out = append(out, x.Task)
	}
	return out
}

func (c *caseRun) judgeClient(x concClient, out concOutcome, after map[string]string, dummy *op) {
	root := c.tenants[x.Tenant].Root
	predictable := true
	exists := false
	state, reason := 0, ""
	pos := map[int64]map[string]int64{}
	msgs := map[string]int64{}
	for j, o := range x.Ops {
		r := out.res[j]
		switch o.Kind {
		case "put_info":
			if r.Err != nil {
				predictable = false
				break
			}
			exists, state, reason = true, o.State, fmt.Sprintf("created-%d", o.Serial)
		case "mo_update_state":
			if r.Err != nil || !exists {
				predictable = predictable && (r.Err != nil) == !exists
				break
			}
			state, reason = o.State, fmt.Sprintf("reason-%d", o.Serial)
		case "mo_update_pos":
			if r.Err != nil {
				predictable = false
				break
			}
			if pos[o.Coll] == nil {
				pos[o.Coll] = map[string]int64{}
			}
			pos[o.Coll][o.Chan] = o.Serial
		case "mo_delete_task":
			if r.Err == nil && exists {
				exists = false
				pos = map[int64]map[string]int64{}
			} else if !(r.NotFound && !exists) {
				predictable = false
			}
		case "repl_put":
			if r.Err != nil {
				predictable = false
				break
			}
			msgs[o.Msg] = o.Serial
		case "mo_get_task_info", "get_pos_task":
			// (d) every returned record names the client's own task and is one of its own records
			if r.Err != nil {
				break
			}
			for _, g := range r.Got {
				if id := jstr(tree(g)["TaskID"]); id != strconv.Quote(x.Task) {
					c.violate(fmt.Sprintf("C12/%s/concurrent-get/foreign-record-returned", c.label), fmt.Sprintf("client on task %q got a record of task %s: %s", x.Task, id, short(g, 200)), dummy)
				}
			}
		}
	}
	if !predictable {
		c.run.Count("conc_client_unpredictable/"+c.cs.Backend, 1)
		return
	}
	c.run.Count("conc_client_checked/"+c.cs.Backend, 1)
	suffix := ""
	if hasPat(root) {
		suffix = "+pattern-char-root"
	}
	bad := func(what string) {
		c.violate(fmt.Sprintf("C12/%s/concurrent/own-final-state-wrong%s", c.label, suffix), fmt.Sprintf("client tenant=%q task=%q: %s", root, x.Task, what), dummy)
	}
	ki, have := c.byTuple[tuple{root, kInfo, x.Task, ""}]
	if have != exists {
		bad(fmt.Sprintf("task record present=%v, the client's own script leaves present=%v", have, exists))
	} else if have {
		s, _ := c.be.AsReturned(kInfo, ki, after[ki])
		tr := tree(s)
		if jstr(tr["State"]) != strconv.Itoa(state) || jstr(tr["Reason"]) != strconv.Quote(reason) {
			bad(fmt.Sprintf("task record has State=%s Reason=%s, the client's own script leaves %d / %q", jstr(tr["State"]), jstr(tr["Reason"]), state, reason))
		}
	}
	var colls []int64
	for cID := range pos {
		colls = append(colls, cID)
	}
	sort.Slice(colls, func(i, j int) bool { return colls[i] < colls[j] })
	seen := map[string]bool{}
	for _, cID := range colls {
		t := tuple{root, kPos, x.Task, strconv.FormatInt(cID, 10)}
		seen[t.Sub] = true
		k, have := c.byTuple[t]
		if !have {
			bad(fmt.Sprintf("checkpoint record of collection %d is missing", cID))
			continue
		}
		s, _ := c.be.AsReturned(kPos, k, after[k])
		ps := sub(tree(s), "Positions")
		for ch, serial := range pos[cID] {
			e, _ := ps[ch].(map[string]any)
			if jstr(e["Time"]) != strconv.FormatInt(serial, 10) {
				bad(fmt.Sprintf("collection %d channel %q holds Time=%s, last written %d", cID, ch, jstr(e["Time"]), serial))
			}
		}
		if len(ps) != len(pos[cID]) {
			bad(fmt.Sprintf("collection %d holds %d channel entries, the client wrote %d", cID, len(ps), len(pos[cID])))
		}
	}
	for t := range c.byTuple {
		if t.Root == root && t.Task == x.Task && t.Kind == kPos && !seen[t.Sub] {
			bad(fmt.Sprintf("unexpected checkpoint record %s", t))
		}
	}
	for m, serial := range msgs {
		k, have := c.byTuple[tuple{root, kMsg, x.Task, m}]
		if !have {
			// with etcd.rootPath empty all tenants share one replicate-store namespace; reported by the sequential part
			if !c.cs.ReplShared {
				bad(fmt.Sprintf("message %q is missing", m))
			}
			continue
		}
		s, _ := c.be.AsReturned(kMsg, k, after[k])
		if s != canon(mkMsg(x.Task, m, serial)) {
			bad(fmt.Sprintf("message %q = %s, last written serial %d", m, short(s, 200), serial))
		}
	}
}
