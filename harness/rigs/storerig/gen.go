package main

import (
	"fmt"
	"math/rand"
	"sort"
	"strings"

	"verifharness/internal/vf"
)

// op is one generated operation. All fields are plain data so that a case can be written into a replay file.
type op struct {
	Kind   string   `json:"kind"`
	Tenant int      `json:"tenant"`
	Task   string   `json:"task,omitempty"`
	Coll   int64    `json:"coll,omitempty"`
	Chan   string   `json:"chan,omitempty"`
	Chans  []string `json:"chans,omitempty"`
	Msg    string   `json:"msg,omitempty"`
	Serial int64    `json:"serial"`
	State  int      `json:"state,omitempty"`
	Olds   []int    `json:"olds,omitempty"`
	WithOp bool     `json:"with_op,omitempty"`
	WithTg bool     `json:"with_target,omitempty"`
	// fault plan (mo_delete_task_fault)
	FaultVia   string `json:"fault_via,omitempty"` // "sql" (fakesql call index) | "wrap" (store-call wrapper)
	FaultAt    int    `json:"fault_at,omitempty"`
	FaultAfter bool   `json:"fault_after,omitempty"`
}

type concClient struct {
	Tenant int    `json:"tenant"`
	Task   string `json:"task"`
	Ops    []op   `json:"ops"`
}

type caseSpec struct {
	Backend    string       `json:"backend"`
	Idx        int          `json:"idx"`
	Seed       int64        `json:"seed"`
	RootFam    string       `json:"root_family"`
	IDFam      string       `json:"id_family"`
	Roots      []string     `json:"roots"`
	ReplShared bool         `json:"etcd_rootpath_empty,omitempty"`
	Tasks      []string     `json:"tasks"`
	Colls      []int64      `json:"colls"`
	Chans      []string     `json:"chans"`
	Ops        []op         `json:"ops"`
	Conc       []concClient `json:"concurrent_clients,omitempty"`
}

var opKinds = []string{
	"put_info", "get_info_all", "get_info_task", "del_info", "mo_get_task_info", "mo_get_all_task_info", "mo_update_state",
	"put_pos", "get_pos_all", "get_pos_task", "get_pos_task_coll", "del_pos_task", "del_pos_task_coll",
	"mo_update_pos", "mo_update_pos_coll0", "mo_drop_state", "mo_delete_pos", "mo_delete_pos_coll0",
	"mo_delete_task", "mo_delete_task_fault",
	"repl_put", "repl_get_exact", "repl_get_all", "repl_remove",
}

// root path families: each has at least one related pair.
var rootFamilies = map[string][]string{
	"prefix":  {"cdc", "cdc2", "cdc/x", "/cdc", "cdc-by-dev"},
	"pattern": {"cdc_1", "cdcX1", "cdc%", "cdcABC", `cdc\x`, "cdcx", "cdc'q", "cd"},
	"nested":  {"cdc", "cdc/task_info", "cdc/task_position/t1", "cdc/task_msg"},
	"plain":   {"alpha", "beta", "gamma"},
}

var rootFamilyWeights = []struct {
	name string
	w    int
}{{"prefix", 38}, {"pattern", 40}, {"nested", 7}, {"plain", 15}}

var idFamilies = map[string][]string{
	"prefix":  {"t1", "t10", "t1/x", "t100", "t1/5"},
	"pattern": {"t_1", "tX1", "t%1", "tZZ1", `t\1`, "t'1", "t"},
	"plain":   {"a", "b", "c8f3"},
}

var collPool = []int64{-1, -10, 1, 10, 100, 5}
var chanPool = []string{"ch1", "ch10", "ch1_", "chX1", "ch%", "by-dev-dml_1", "by-dev-dml_10"}
var msgPool = []string{"m1", "m10", "m1/x", "m100", "m_1", "mX1"}

func pickDistinct(r *rand.Rand, pool []string, n int) []string {
	idx := r.Perm(len(pool))
	if n > len(pool) {
		n = len(pool)
	}
	out := make([]string, 0, n)
	for _, i := range idx[:n] {
		out = append(out, pool[i])
	}
	return out
}

// genState is the generator's own rough idea of what exists (assuming every operation succeeds); it only biases
// the choice of operations towards existing records and plays no role in the oracle.
type genState struct {
	info map[[2]string]bool            // tenant|task
	pos  map[[2]string]map[int64]bool  // tenant|task -> colls
	msg  map[[2]string]map[string]bool // tenant|task -> msgs
	// channels written per (tenant, task, coll) and the records on which UpdateDropState was called
	chans   map[[3]string][]string
	dropped map[[3]string]bool
}

func tkc(t int, task string, coll int64) [3]string {
	return [3]string{fmt.Sprint(t), task, fmt.Sprint(coll)}
}

func tk(t int, task string) [2]string { return [2]string{fmt.Sprint(t), task} }

func genCase(seed int64, backend string, idx int) *caseSpec {
	r := vf.Rand(seed, "C12/"+backend, idx)
	cs := &caseSpec{Backend: backend, Idx: idx, Seed: seed}
	// roots
	w := r.Intn(100)
	for _, f := range rootFamilyWeights {
		if w < f.w {
			cs.RootFam = f.name
			break
		}
		w -= f.w
	}
	fam := rootFamilies[cs.RootFam]
	nRoots := 2 + r.Intn(3)
	switch cs.RootFam {
	case "pattern":
		// keep the related pairs together: (cdc_1,cdcX1) (cdc%,cdcABC) (cdc\x,cdcx)
		pairs := [][]string{{"cdc_1", "cdcX1"}, {"cdc%", "cdcABC"}, {`cdc\x`, "cdcx"}, {"cdc'q", "cd"}}
		pw := []int{34, 30, 26, 10}
		x := r.Intn(100)
		pi := 0
		for i, v := range pw {
			if x < v {
				pi = i
				break
			}
			x -= v
		}
		cs.Roots = append(cs.Roots, pairs[pi]...)
		rest := pickDistinct(r, fam, len(fam))
		for _, c := range rest {
			if len(cs.Roots) >= nRoots {
				break
			}
			if c != pairs[pi][0] && c != pairs[pi][1] {
				cs.Roots = append(cs.Roots, c)
			}
		}
	case "nested", "prefix":
		cs.Roots = append(cs.Roots, fam[0])
		rest := pickDistinct(r, fam[1:], len(fam)-1)
		cs.Roots = append(cs.Roots, rest[:min(nRoots-1, len(rest))]...)
	default:
		cs.Roots = pickDistinct(r, fam, min(nRoots, len(fam)))
	}
	r.Shuffle(len(cs.Roots), func(i, j int) { cs.Roots[i], cs.Roots[j] = cs.Roots[j], cs.Roots[i] })
	if backend == "etcd" && r.Intn(100) < 25 {
		cs.ReplShared = true
	}
	// ids
	switch x := r.Intn(100); {
	case x < 45:
		cs.IDFam = "prefix"
	case x < 85:
		cs.IDFam = "pattern"
	default:
		cs.IDFam = "plain"
	}
	cs.Tasks = pickDistinct(r, idFamilies[cs.IDFam], 2+r.Intn(3))
	if cs.IDFam == "prefix" && !contains(cs.Tasks, "t1") {
		cs.Tasks[0] = "t1"
	}
	if cs.IDFam == "pattern" && !contains(cs.Tasks, "t_1") && !contains(cs.Tasks, "t%1") {
		cs.Tasks[0] = "t_1"
	}
	if r.Intn(4) == 0 {
		cs.Tasks = append(cs.Tasks, pickDistinct(r, idFamilies["plain"], 1)...)
	}
	// collections: a prefix-related pair first (1/10, 10/100, -1/-10), then random others
	pair := [][]int64{{1, 10}, {10, 100}, {-1, -10}, {1, 100}}[r.Intn(4)]
	cs.Colls = append(cs.Colls, pair...)
	for _, i := range r.Perm(len(collPool))[:r.Intn(3)] {
		if collPool[i] != pair[0] && collPool[i] != pair[1] {
			cs.Colls = append(cs.Colls, collPool[i])
		}
	}
	cs.Chans = pickDistinct(r, chanPool, 2+r.Intn(3))

	g := &genState{info: map[[2]string]bool{}, pos: map[[2]string]map[int64]bool{}, msg: map[[2]string]map[string]bool{}, chans: map[[3]string][]string{}, dropped: map[[3]string]bool{}}
	serial := int64(idx)*1000 + 1
	next := func() int64 { serial++; return serial }
	nT := len(cs.Roots)
	total := 5 + r.Intn(26)
	// prologue: the same task ids under several tenants, a few positions and messages each
	pro := 2 + r.Intn(min(8, total-2))
	for i := 0; i < pro; i++ {
		t := i % nT
		task := cs.Tasks[(i/nT)%len(cs.Tasks)]
		if r.Intn(3) == 0 {
			task = cs.Tasks[r.Intn(len(cs.Tasks))]
		}
		switch x := r.Intn(10); {
		case x < 4:
			cs.Ops = append(cs.Ops, g.apply(op{Kind: "put_info", Tenant: t, Task: task, Serial: next(), State: r.Intn(3)}))
		case x < 8:
			cs.Ops = append(cs.Ops, g.apply(genUpdatePos(r, cs, t, task, cs.Colls[r.Intn(2)], next())))
		default:
			cs.Ops = append(cs.Ops, g.apply(op{Kind: "repl_put", Tenant: t, Task: task, Msg: msgPool[r.Intn(len(msgPool))], Serial: next()}))
		}
	}
	for len(cs.Ops) < total {
		o := genOp(r, cs, g, next)
		// DeleteTask is only interesting on a task that has its record and some checkpoints: build them first
		if (o.Kind == "mo_delete_task" || o.Kind == "mo_delete_task_fault") && len(cs.Ops)+4 <= total {
			k := tk(o.Tenant, o.Task)
			if !g.info[k] {
				cs.Ops = append(cs.Ops, g.apply(op{Kind: "put_info", Tenant: o.Tenant, Task: o.Task, Serial: next(), State: r.Intn(3)}))
			}
			for len(g.pos[k]) < 2 {
				coll := cs.Colls[r.Intn(len(cs.Colls))]
				cs.Ops = append(cs.Ops, g.apply(genUpdatePos(r, cs, o.Tenant, o.Task, coll, next())))
				if len(cs.Colls) < 2 {
					break
				}
			}
			o.Serial = next()
		}
		cs.Ops = append(cs.Ops, g.apply(o))
		// exact-id operations next to a longer sibling id: once a task holds m1 and m10 (or collections 1 and 10),
		// address the shorter one
		if len(cs.Ops) < total {
			k := tk(o.Tenant, o.Task)
			switch o.Kind {
			case "repl_put":
				var ids []string
				for x := range g.msg[k] {
					ids = append(ids, x)
				}
				if sh := withLongerSibling(ids); len(sh) > 0 && r.Intn(100) < 70 {
					f := op{Kind: "repl_get_exact", Tenant: o.Tenant, Task: o.Task, Msg: sh[r.Intn(len(sh))], Serial: next()}
					if r.Intn(4) == 0 {
						f.Kind = "repl_remove"
					}
					cs.Ops = append(cs.Ops, g.apply(f))
				}
			case "mo_update_pos", "put_pos":
				var ids []string
				for c := range g.pos[k] {
					ids = append(ids, fmt.Sprint(c))
				}
				if sh := withLongerSibling(ids); len(sh) > 0 && r.Intn(100) < 25 {
					f := op{Kind: []string{"get_pos_task_coll", "get_pos_task_coll", "del_pos_task_coll", "mo_delete_pos", "mo_drop_state"}[r.Intn(5)], Tenant: o.Tenant, Task: o.Task, Serial: next()}
					fmt.Sscan(sh[r.Intn(len(sh))], &f.Coll)
					cs.Ops = append(cs.Ops, g.apply(f))
				}
			}
		}
		// the dropped-entry clause: right after marking a collection dropped, try to move one of its checkpoints
		if kc := tkc(o.Tenant, o.Task, o.Coll); o.Kind == "mo_drop_state" && g.dropped[kc] && len(g.chans[kc]) > 0 && len(cs.Ops) < total && r.Intn(100) < 75 {
			u := genUpdatePos(r, cs, o.Tenant, o.Task, o.Coll, next())
			u.Chan = g.chans[kc][r.Intn(len(g.chans[kc]))]
			cs.Ops = append(cs.Ops, g.apply(u))
		}
	}
	// concurrent epilogue on disjoint task ids
	if r.Intn(100) < 35 {
		k := 1 + r.Intn(4)
		ids := []string{"w1", "w10", "w100", "w1_"}
		for c := 0; c < k; c++ {
			// clients work under roots without pattern characters where there is one (bystanders keep theirs)
			var plainRoots []int
			for ti, rt := range cs.Roots {
				if !hasPat(rt) {
					plainRoots = append(plainRoots, ti)
				}
			}
			cl := concClient{Tenant: r.Intn(nT), Task: ids[c]}
			if len(plainRoots) > 0 {
				cl.Tenant = plainRoots[r.Intn(len(plainRoots))]
			}
			n := 3 + r.Intn(6)
			exists := false
			for i := 0; i < n; i++ {
				var o op
				switch x := r.Intn(12); {
				case !exists || x == 0:
					o = op{Kind: "put_info", State: r.Intn(3)}
					exists = true
				case x < 5:
					o = genUpdatePos(r, cs, cl.Tenant, cl.Task, cs.Colls[r.Intn(len(cs.Colls))], 0)
				case x < 7:
					o = op{Kind: "mo_update_state", State: r.Intn(3)}
				case x < 8:
					o = op{Kind: "mo_get_task_info"}
				case x < 9:
					o = op{Kind: "get_pos_task"}
				case x < 10:
					o = op{Kind: "repl_put", Msg: msgPool[r.Intn(len(msgPool))]}
				default:
					o = op{Kind: "mo_delete_task"}
					exists = false
				}
				o.Tenant, o.Task, o.Serial = cl.Tenant, cl.Task, next()
				cl.Ops = append(cl.Ops, o)
			}
			cs.Conc = append(cs.Conc, cl)
		}
	}
	return cs
}

func contains(s []string, x string) bool {
	for _, v := range s {
		if v == x {
			return true
		}
	}
	return false
}

func genUpdatePos(r *rand.Rand, cs *caseSpec, t int, task string, coll int64, serial int64) op {
	return op{Kind: "mo_update_pos", Tenant: t, Task: task, Coll: coll, Chan: cs.Chans[r.Intn(len(cs.Chans))], Serial: serial,
		WithOp: r.Intn(3) == 0, WithTg: r.Intn(3) == 0}
}

func (g *genState) apply(o op) op {
	k := tk(o.Tenant, o.Task)
	switch o.Kind {
	case "put_info":
		g.info[k] = true
	case "del_info":
		delete(g.info, k)
	case "put_pos", "mo_update_pos":
		if g.pos[k] == nil {
			g.pos[k] = map[int64]bool{}
		}
		g.pos[k][o.Coll] = true
		kc := tkc(o.Tenant, o.Task, o.Coll)
		if o.Kind == "put_pos" {
			g.chans[kc] = append([]string{}, o.Chans...)
			delete(g.dropped, kc)
		} else if !contains(g.chans[kc], o.Chan) {
			g.chans[kc] = append(g.chans[kc], o.Chan)
		}
	case "mo_drop_state":
		if o.Coll != 0 && g.pos[k][o.Coll] {
			g.dropped[tkc(o.Tenant, o.Task, o.Coll)] = true
		}
	case "mo_update_pos_coll0":
		if len(g.pos[k]) == 0 {
			g.pos[k] = map[int64]bool{-1: true}
		}
	case "del_pos_task", "mo_delete_pos_coll0":
		for c := range g.pos[k] {
			delete(g.chans, tkc(o.Tenant, o.Task, c))
			delete(g.dropped, tkc(o.Tenant, o.Task, c))
		}
		delete(g.pos, k)
	case "del_pos_task_coll", "mo_delete_pos":
		delete(g.pos[k], o.Coll)
		delete(g.chans, tkc(o.Tenant, o.Task, o.Coll))
		delete(g.dropped, tkc(o.Tenant, o.Task, o.Coll))
	case "mo_delete_task":
		if g.info[k] {
			for c := range g.pos[k] {
				delete(g.chans, tkc(o.Tenant, o.Task, c))
				delete(g.dropped, tkc(o.Tenant, o.Task, c))
			}
			delete(g.info, k)
			delete(g.pos, k)
		}
	case "repl_put":
		if g.msg[k] == nil {
			g.msg[k] = map[string]bool{}
		}
		g.msg[k][o.Msg] = true
	case "repl_remove":
		delete(g.msg[k], o.Msg)
	}
	return o
}

// existing returns a (tenant, task) the generator believes to hold a record of the wanted sort, preferring ones
// whose task id also exists under another tenant.
func (g *genState) existing(r *rand.Rand, what string) (int, string, bool) {
	var keys [][2]string
	switch what {
	case "info":
		for k := range g.info {
			keys = append(keys, k)
		}
	case "pos":
		for k, v := range g.pos {
			if len(v) > 0 {
				keys = append(keys, k)
			}
		}
	case "msg":
		for k, v := range g.msg {
			if len(v) > 0 {
				keys = append(keys, k)
			}
		}
	case "task": // info and at least one position
		for k := range g.info {
			if len(g.pos[k]) > 0 {
				keys = append(keys, k)
			}
		}
	}
	if len(keys) == 0 {
		return 0, "", false
	}
	sort.Slice(keys, func(i, j int) bool { return keys[i][0]+"\x00"+keys[i][1] < keys[j][0]+"\x00"+keys[j][1] })
	k := keys[r.Intn(len(keys))]
	var t int
	fmt.Sscan(k[0], &t)
	return t, k[1], true
}

func anyKey[V any](r *rand.Rand, m map[int64]V) int64 {
	var ks []int64
	for k := range m {
		ks = append(ks, k)
	}
	sort.Slice(ks, func(i, j int) bool { return ks[i] < ks[j] })
	return ks[r.Intn(len(ks))]
}

func anyStr[V any](r *rand.Rand, m map[string]V) string {
	var ks []string
	for k := range m {
		ks = append(ks, k)
	}
	sort.Strings(ks)
	return ks[r.Intn(len(ks))]
}

// withLongerSibling returns the ids of ids that are a proper prefix of another id of the set ("1" of {1,10}).
func withLongerSibling(ids []string) []string {
	var out []string
	for _, x := range ids {
		for _, y := range ids {
			if x != y && strings.HasPrefix(y, x) {
				out = append(out, x)
				break
			}
		}
	}
	sort.Strings(out)
	return out
}

func genOp(r *rand.Rand, cs *caseSpec, g *genState, next func() int64) op {
	nT := len(cs.Roots)
	kindName := opKinds[r.Intn(len(opKinds))]
	// the multi-record operation gets extra weight
	if x := r.Intn(100); x < 10 {
		kindName = "mo_delete_task_fault"
	} else if x < 14 {
		kindName = "mo_delete_task"
	} else if x < 20 {
		kindName = "mo_drop_state"
	}
	o := op{Kind: kindName, Tenant: r.Intn(nT), Task: cs.Tasks[r.Intn(len(cs.Tasks))], Serial: next()}
	pickExisting := func(what string, p int) {
		if r.Intn(100) < p {
			if t, task, ok := g.existing(r, what); ok {
				o.Tenant, o.Task = t, task
			}
		}
	}
	k := func() [2]string { return tk(o.Tenant, o.Task) }
	pickColl := func(p int) {
		o.Coll = cs.Colls[r.Intn(len(cs.Colls))]
		if m := g.pos[k()]; len(m) > 0 && r.Intn(100) < p {
			o.Coll = anyKey(r, m)
			// prefer the collection id that another one of the task extends (1 when 10 exists)
			var ids []string
			for c := range m {
				ids = append(ids, fmt.Sprint(c))
			}
			if sh := withLongerSibling(ids); len(sh) > 0 && r.Intn(100) < 50 {
				fmt.Sscan(sh[r.Intn(len(sh))], &o.Coll)
			}
		}
	}
	switch kindName {
	case "put_info":
		o.State = r.Intn(3)
	case "get_info_all", "mo_get_all_task_info", "get_pos_all", "repl_get_all":
		o.Task = ""
	case "get_info_task", "mo_get_task_info", "del_info":
		pickExisting("info", 75)
	case "mo_update_state":
		pickExisting("info", 85)
		o.State = r.Intn(3)
		if r.Intn(3) == 0 {
			o.Olds = []int{r.Intn(3)}
			if r.Intn(2) == 0 {
				o.Olds = append(o.Olds, r.Intn(3))
			}
		}
	case "put_pos":
		pickExisting("pos", 40)
		pickColl(50)
		o.Chans = pickDistinct(r, cs.Chans, 1+r.Intn(2))
	case "get_pos_task", "del_pos_task":
		pickExisting("pos", 75)
	case "get_pos_task_coll", "del_pos_task_coll", "mo_delete_pos", "mo_drop_state":
		pickExisting("pos", 80)
		pickColl(85)
		if kindName == "mo_drop_state" && r.Intn(8) == 0 {
			o.Coll = 0
		}
	case "mo_update_pos":
		pickExisting("pos", 70)
		pickColl(75)
		o.Chan = cs.Chans[r.Intn(len(cs.Chans))]
		o.WithOp, o.WithTg = r.Intn(3) == 0, r.Intn(3) == 0
		if len(g.dropped) > 0 && r.Intn(100) < 30 { // an entry of a dropped collection
			var ks [][3]string
			for kc := range g.dropped {
				if len(g.chans[kc]) > 0 {
					ks = append(ks, kc)
				}
			}
			sort.Slice(ks, func(i, j int) bool { return fmt.Sprint(ks[i]) < fmt.Sprint(ks[j]) })
			if len(ks) > 0 {
				kc := ks[r.Intn(len(ks))]
				fmt.Sscan(kc[0], &o.Tenant)
				o.Task = kc[1]
				fmt.Sscan(kc[2], &o.Coll)
				o.Chan = g.chans[kc][r.Intn(len(g.chans[kc]))]
			}
		}
	case "mo_update_pos_coll0":
		pickExisting("pos", 50)
		o.Chan = cs.Chans[r.Intn(len(cs.Chans))]
		o.WithOp = r.Intn(3) == 0
	case "mo_delete_pos_coll0":
		pickExisting("pos", 75)
	case "mo_delete_task":
		pickExisting("task", 90)
	case "mo_delete_task_fault":
		pickExisting("task", 95)
		if cs.Backend == "mysql" && r.Intn(2) == 0 {
			o.FaultVia, o.FaultAt = "sql", 1+r.Intn(8) // 7 driver calls, 8 = beyond the last
		} else {
			o.FaultVia, o.FaultAt = "wrap", 1+r.Intn(6) // 5 store calls, 6 = beyond the last
		}
		o.FaultAfter = r.Intn(2) == 0
	case "repl_put":
		pickExisting("msg", 60) // several messages under one task (m1, m10, m1/x ...)
		o.Msg = msgPool[r.Intn(len(msgPool))]
		if m := g.msg[k()]; len(m) > 0 && r.Intn(100) < 60 {
			// a message id that is prefix-related to one the task already has
			have := anyStr(r, m)
			var rel []string
			for _, x := range msgPool {
				if prefixRelated(x, have) {
					rel = append(rel, x)
				}
			}
			if len(rel) > 0 {
				o.Msg = rel[r.Intn(len(rel))]
			}
		}
	case "repl_get_exact", "repl_remove":
		pickExisting("msg", 80)
		o.Msg = msgPool[r.Intn(len(msgPool))]
		if m := g.msg[k()]; len(m) > 0 && r.Intn(100) < 85 {
			o.Msg = anyStr(r, m)
			var ids []string
			for x := range m {
				ids = append(ids, x)
			}
			if sh := withLongerSibling(ids); len(sh) > 0 && r.Intn(100) < 60 {
				o.Msg = sh[r.Intn(len(sh))]
			}
		}
	}
	return o
}

func (cs *caseSpec) signature() string {
	kinds := map[string]bool{}
	for _, o := range cs.Ops {
		kinds[o.Kind] = true
	}
	var ks []string
	for k := range kinds {
		ks = append(ks, k)
	}
	sort.Strings(ks)
	return fmt.Sprintf("%s|%s|%s|%s|%s|%d|%s", cs.Backend, strings.Join(cs.Roots, ","), strings.Join(cs.Tasks, ","), fmt.Sprint(cs.Colls), strings.Join(cs.Chans, ","), len(cs.Conc), strings.Join(ks, ","))
}
