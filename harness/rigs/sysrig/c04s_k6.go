package main

// K6 of the end-to-end part of C04: a collection drop whose api event meets a FULL event queue while its task is
// being paused, with other running tasks on the same target keeping the shared reader (channel manager, event
// loop, event queue) alive over the pause.
//
//	task 1 replicates database db_b (empty): it is created first and only keeps the target's reader and its etcd
//	watches alive; task 0 replicates database default with collection u0; both go to the one target;
//	collection c1 with 30 partitions is created upstream in database db_c, then task 2 (db_c) is created: its
//	start-up scan registers the partitions one after the other, the first CreatePartition call is held (the event
//	loop is busy), the next ten events fill the queue (capacity 10), the scan (and the create request) hangs;
//	collection default.u0 is dropped: drop message on every shard (its pack arrived downstream = read by the reader;
//	the replies are held so that the checkpoints stay before the drop messages), so its barrier is complete and its
//	drop event waits for room in the queue; catalog state changed;
//	task 0 is paused (its barriers are closed), then resumed while the reply is still held; the reply is released
//	as soon as the task is Running again, so every queued event is handled for a running task.
//
// Expected: exactly one DropCollection(default, u0) after the resume (the resumed reader finds the collection
// dropped upstream and present downstream and reads the drop messages again).
//
// Things this scenario has to steer clear of, all outside C04 (reported): a partition seen by the etcd WATCH is
// handed to the first subscribed task only, and a task that does not replicate it still reports it as consumed
// (collection_reader.go partition callback: "the partition should not be read" -> return true), so the queue is
// filled through a start-up scan; the watches run under the context of the task started first; pausing a task
// closes every stream of the channel handlers it uses (handler.Close()), so the tasks use different channels; a
// pack of a paused task ends the target channel's consumer for good, so no pack is in flight at the pause.

import "fmt"

const c04DBC = "db_c"

func (g *c04Gen) genK6() {
	rnd, w := g.rnd, g.w
	two := rnd.Perm(2)
	c1 := collDef{DB: c04DBC, Name: "c1", PChannels: []int{2}}
	for k := 1; k <= 30; k++ {
		c1.Parts = append(c1.Parts, fmt.Sprintf("q%d", k))
	}
	w.Colls = []collDef{{DB: "default", Name: "u0", PChannels: []int{two[0], two[1]}, Parts: []string{"p1"}}, c1}
	w.Tasks = []taskDef{{Target: 0, Collections: "*", DB: "default"}, {Target: 0, Collections: "*", DB: c04DBB}, {Target: 0, Collections: "*", DB: c04DBC}}
	g.sc.LastListedDB = c04DBC
	for _, cd := range w.Colls {
		g.parts = append(g.parts, append([]string{"_default"}, cd.Parts...))
	}
	g.add(c04Step{Op: "create_coll", Coll: 0})
	g.add(c04Step{Op: "create_task", Task: 1}, c04Step{Op: "create_task", Task: 0})
	g.add(c04Step{Op: "wait_parts"}, c04Step{Op: "settle"})
	for si := 0; si < 2; si++ {
		g.add(c04Step{Op: "insert", Coll: 0, Shard: si, Part: rnd.Intn(2), Rows: 1 + rnd.Intn(2)})
	}
	g.add(c04Step{Op: "settle"})
	// the event loop gets stuck in the first CreatePartition call of task 2's start-up scan
	g.add(c04Step{Op: "create_coll", Coll: 1})
	g.add(c04Step{Op: "hold_next", Name: "CreatePartition"})
	g.add(c04Step{Op: "create_task_async", Task: 2}, c04Step{Op: "wait_held"}, c04Step{Op: "sleep", N: 1500})
	// the packs that carry u0's drop message are not acknowledged (their replies are held)
	g.add(c04Step{Op: "hold_rm_drop", Name: "u0"})
	g.drop(0, -1, -1, nil)
	// every shard's drop message has been read (its pack arrived downstream): the barrier is complete and its
	// callback waits for room in the queue
	g.add(c04Step{Op: "wait_rm_held", N: 2}, c04Step{Op: "sleep", N: 400})
	g.add(c04Step{Op: "pump_off"}, c04Step{Op: "sleep", N: 500})
	g.add(c04Step{Op: "pause", Task: 0}, c04Step{Op: "pump_on"}, c04Step{Op: "sleep", N: 200})
	g.add(c04Step{Op: "resume_async", Task: 0}, c04Step{Op: "wait_running", Task: 0}, c04Step{Op: "sleep", N: 300})
	// first the pending create of task 2, then the resume of task 0
	g.add(c04Step{Op: "release"}, c04Step{Op: "wait_resumed"}, c04Step{Op: "wait_resumed"}, c04Step{Op: "sleep", N: 500})
	g.add(c04Step{Op: "release_rm"})
}
