package main

// Scenario executor shared by the data-path properties (C05, C06, C11): a supervisor-side script of upstream
// activity (catalog writes, inserts/deletes/drops, ticks), API calls to the CDC child, faults (downstream
// failures, held replies, store failures), kills and restarts. Steps are plain data (replayable).

import (
	"context"
	"encoding/json"
	"fmt"
	"sort"
	"sync"
	"time"

	"github.com/milvus-io/milvus/pkg/mq/msgstream"

	"verifharness/internal/sysboot"
)

type collDef struct {
	DB        string   `json:"db"`
	Name      string   `json:"name"`
	PChannels []int    `json:"pchannels"` // indices into the source pchannel list
	Parts     []string `json:"parts,omitempty"`
}

type taskDef struct {
	Target      int            `json:"target"`
	Collections string         `json:"collections"` // "*" or a collection name
	DB          string         `json:"db,omitempty"`
	Extra       map[string]any `json:"extra,omitempty"`
}

type step struct {
	Op    string `json:"op"`
	Task  int    `json:"task,omitempty"`
	Coll  int    `json:"coll,omitempty"`
	Shard int    `json:"shard,omitempty"`
	Part  int    `json:"part,omitempty"`
	Rows  int    `json:"rows,omitempty"`
	N     int    `json:"n,omitempty"`
	Note  string `json:"note,omitempty"`
}

type scenario struct {
	Idx      int       `json:"case"`
	NSrcP    int       `json:"source_pchannels"`
	Targets  int       `json:"targets"`
	Colls    []collDef `json:"collections"`
	Tasks    []taskDef `json:"tasks"`
	Steps    []step    `json:"steps"`
	PackCnt  int       `json:"packer_max_count"`
	PackMs   int       `json:"packer_timer_ms,omitempty"`
	PackKB   int       `json:"packer_max_msg_kb,omitempty"`
	SharedDS bool      `json:"all_shards_on_one_downstream_channel"`
}

type dataMsg struct {
	UID    int64  `json:"uid"`
	Kind   string `json:"kind"`
	Coll   int    `json:"coll"`
	Shard  int    `json:"shard"`
	PChan  string `json:"pchannel"`
	MsgID  uint64 `json:"msg_id"` // id on the source topic
	TS     uint64 `json:"ts"`
	SentAt int64  `json:"sent_at"` // supervisor clock
}

type runState struct {
	s       *super
	sc      *scenario
	pch     []string
	colls   []*sysboot.SrcColl
	taskIDs []string
	mu      sync.Mutex
	sent    []dataMsg
	nextUID int64
	pumpOn  bool
	pumpEnd chan struct{}
	pumpWG  sync.WaitGroup
	notes   []string
}

func (rs *runState) pchannels() []string { return rs.pch }

func newRunState(s *super, sc *scenario) *runState {
	rs := &runState{s: s, sc: sc, nextUID: int64(sc.Idx%1000)*100000 + 1}
	for i := 0; i < sc.NSrcP; i++ {
		rs.pch = append(rs.pch, fmt.Sprintf("by-dev-rootcoord-dml_%d", i))
	}
	rs.taskIDs = make([]string, len(sc.Tasks))
	rs.colls = make([]*sysboot.SrcColl, len(sc.Colls))
	return rs
}

// startPump keeps every source pchannel ticking (like a live Milvus) so that the tt streams keep cutting packs.
func (rs *runState) startPump(every time.Duration) {
	rs.pumpEnd = make(chan struct{})
	rs.pumpWG.Add(1)
	go func() {
		defer rs.pumpWG.Done()
		for {
			select {
			case <-rs.pumpEnd:
				return
			case <-time.After(every):
				_, _ = rs.s.w.Src.TickAll(rs.pch)
			}
		}
	}()
}

func (rs *runState) stopPump() {
	if rs.pumpEnd != nil {
		close(rs.pumpEnd)
		rs.pumpWG.Wait()
		rs.pumpEnd = nil
	}
}

func (rs *runState) createTask(i int) sysboot.Response {
	td := rs.sc.Tasks[i]
	t := rs.s.w.Targets[td.Target]
	chNum := rs.sc.NSrcP
	if rs.sc.SharedDS {
		chNum = 1 // more source than downstream channels: the streams are multiplexed onto the one downstream channel
	}
	req := map[string]any{
		"milvus_connect_param": map[string]any{"uri": t.URI(), "token": "root:Milvus", "connect_timeout": 10, "channel_num": chNum},
	}
	if td.DB != "" {
		req["db_collections"] = map[string]any{td.DB: []map[string]any{{"name": td.Collections}}}
	} else {
		req["collection_infos"] = []map[string]any{{"name": td.Collections}}
	}
	for k, v := range td.Extra {
		req[k] = v
	}
	r := rs.s.api("create", req)
	if r.Code == 200 {
		if id, ok := r.Data["task_id"].(string); ok {
			rs.taskIDs[i] = id
		}
	}
	return r
}

func (rs *runState) createColl(i int) error {
	cd := rs.sc.Colls[i]
	var ps []string
	for _, pi := range cd.PChannels {
		ps = append(ps, rs.pch[pi])
	}
	c, err := rs.s.w.Src.CreateCollection(context.Background(), cd.DB, cd.Name, ps)
	if err != nil {
		return err
	}
	for _, pn := range cd.Parts {
		if _, err := rs.s.w.Src.CreatePartition(context.Background(), c, pn); err != nil {
			return err
		}
	}
	rs.colls[i] = c
	return nil
}

func (rs *runState) send(kind string, ci, si, pi, rows int) (dataMsg, error) {
	src := rs.s.w.Src
	c := rs.colls[ci]
	rs.mu.Lock()
	uid := rs.nextUID
	rs.nextUID++
	rs.mu.Unlock()
	p := c.Shards[si].PChannel
	ids, ts, err := src.SendStamped(p, func(ts uint64) msgstream.TsMsg {
		switch kind {
		case "delete":
			return src.DeleteMsg(c, si, c.Parts[pi], uid, ts, []int64{uid*1000 + 1})
		case "droppart":
			return src.DropPartitionMsg(c, c.Parts[pi], uid, ts)
		case "dropcoll":
			return src.DropCollectionMsg(c, uid, ts)
		}
		return src.InsertMsg(c, si, c.Parts[pi], uid, ts, rows)
	})
	if err != nil {
		return dataMsg{}, err
	}
	d := dataMsg{UID: uid, Kind: kind, Coll: ci, Shard: si, PChan: p, MsgID: ids[0], TS: ts, SentAt: rs.s.tick()}
	rs.mu.Lock()
	rs.sent = append(rs.sent, d)
	rs.mu.Unlock()
	return d, nil
}

// ackedUIDs returns, per uid, the clocks of its acks (all incarnations).
func (rs *runState) ackedUIDs() map[int64][]int64 {
	out := map[int64][]int64{}
	for _, e := range rs.s.events() {
		if e.Kind != "ack" {
			continue
		}
		for _, u := range e.UIDs {
			if u >= 0 {
				out[u] = append(out[u], e.Clock)
			}
		}
	}
	return out
}

// waitAcked ticks the source until every message in want has been acked at least once, or progress has stopped
// for stallTicks consecutive checks; the watchdog only ends the wait (the verdict is taken by the caller).
func (rs *runState) waitAcked(want []int64, watchdog time.Duration) (missing []int64) {
	deadline := time.Now().Add(watchdog)
	for {
		acked := rs.ackedUIDs()
		missing = missing[:0]
		for _, u := range want {
			if len(acked[u]) == 0 {
				missing = append(missing, u)
			}
		}
		if len(missing) == 0 || time.Now().After(deadline) || !rs.s.childAlive() {
			sort.Slice(missing, func(i, j int) bool { return missing[i] < missing[j] })
			return missing
		}
		if rs.pumpEnd == nil {
			_, _ = rs.s.w.Src.TickAll(rs.pch)
		}
		time.Sleep(20 * time.Millisecond)
	}
}

func (rs *runState) allDataUIDs() []int64 {
	rs.mu.Lock()
	defer rs.mu.Unlock()
	var out []int64
	for _, d := range rs.sent {
		if d.Kind == "insert" || d.Kind == "delete" {
			out = append(out, d.UID)
		}
	}
	return out
}

func (rs *runState) taskState(id string) (state string, reason string, ok bool) {
	r := rs.s.api("get", map[string]any{"task_id": id})
	if r.Code != 200 {
		return "", r.Message, false
	}
	t, _ := r.Data["task"].(map[string]any)
	if t == nil {
		b, _ := json.Marshal(r.Data)
		return "", string(b), false
	}
	st, _ := t["state"].(string)
	rsn, _ := t["reason"].(string)
	return st, rsn, true
}
