package main

// C05 — checkpoints never run ahead of acknowledged writes; resume loses nothing.
//
// For each generated input (collections x shards, rounds of inserts/deletes/ticks) the supervisor first does a
// fault-free run to count the externally visible steps (downstream acks, checkpoint writes), then re-runs the
// same input with ONE fault placed at an enumerated step: SIGKILL while the k-th ReplicateMessage reply is
// held (applied downstream, ack never seen), SIGKILL just before / just after the n-th checkpoint Put, a
// rejected k-th ReplicateMessage, a failing n-th checkpoint Put, a pause/resume, and "skewed" variants in
// which one stream is read slowly (consumer gate) while another runs ahead on the same downstream channel.
// After the fault the supervisor restarts the child / resumes paused tasks and keeps the source ticking.
//
// Oracle over the supervisor's single-clock event log:
//   (a) every checkpoint Put announced by the child (BEFORE it is performed) for (task, collection, source
//       channel) with position id P: every data message of that stream with source id <= P has an ack earlier
//       in the log;
//   (b) an entry persisted with Dropped=true never changes afterwards;
//   (c) at the end every data message was acked at least once in some incarnation; a message is LOST when a
//       later message of the same stream was acked in the last incarnation although it never was.

import (
	"context"
	"fmt"
	"os"
	"sort"
	"strings"
	"sync"
	"sync/atomic"
	"time"

	"google.golang.org/grpc/codes"

	"verifharness/internal/fakemilvus"
	"verifharness/internal/sysboot"
	"verifharness/internal/vf"
)

type c05Fault struct {
	Kind  string `json:"kind"` // none | kill-at-ack | kill-before-put | kill-after-put | nack | nack-pack | nack-uid | put-fail | pause-resume | skew-kill
	N     int    `json:"n"`
	Round int    `json:"round,omitempty"`
	UID   int64  `json:"uid,omitempty"` // nack-uid: the pack that carries this row is rejected on every attempt
}

type c05Case struct {
	Input int       `json:"input"`
	Sc    *scenario `json:"scenario"`
	Fault c05Fault  `json:"fault"`
}

func genC05Input(seed int64, idx int) *scenario {
	rnd := vf.Rand(seed, "c05-input", idx)
	sc := &scenario{Idx: idx, NSrcP: 2 + rnd.Intn(2), Targets: 1, PackCnt: []int{1, 3}[rnd.Intn(2)], SharedDS: true}
	nColl := 1 + rnd.Intn(2)
	perm := rnd.Perm(sc.NSrcP)
	variant := idx % 3
	if idx == 3 || (idx > 3 && idx%4 == 3) {
		variant = 3
	}
	switch {
	case variant == 3:
		// twelve source pchannels; the shards sit on channels whose names are prefixes of one another (dml_1 / dml_10,
		// dml_1 / dml_11): a checkpoint must be looked up under exactly its own channel's name
		sc.NSrcP = 12
		sc.Colls = []collDef{{DB: "default", Name: "c05_a", PChannels: []int{10, 1}}, {DB: "default", Name: "c05_b", PChannels: []int{1, 11}}}
	case variant == 1:
		// two collections SHARE a source pchannel (two streams of one topic with their own checkpoints)
		sc.Colls = []collDef{{DB: "default", Name: "c05_a", PChannels: perm[:2]}, {DB: "default", Name: "c05_b", PChannels: perm[:1+rnd.Intn(2)]}}
	case nColl == 1:
		// every source pchannel hosts exactly one stream
		sc.Colls = []collDef{{DB: "default", Name: "c05_a", PChannels: perm[:1+rnd.Intn(sc.NSrcP)]}}
	default:
		cut := 1 + rnd.Intn(sc.NSrcP-1)
		sc.Colls = []collDef{{DB: "default", Name: "c05_a", PChannels: perm[:cut]}, {DB: "default", Name: "c05_b", PChannels: perm[cut:]}}
	}
	if variant == 2 {
		// a batcher that holds packs for a while, and packs larger than its MaxMsgSize (1 KB): the oversize flush path
		sc.PackCnt, sc.PackMs, sc.PackKB = 6, 250, 1
	}
	sc.Tasks = []taskDef{{Target: 0, Collections: "*"}}
	sc.Steps = append(sc.Steps, step{Op: "create_task", Task: 0})
	for ci := range sc.Colls {
		sc.Steps = append(sc.Steps, step{Op: "create_coll", Coll: ci})
	}
	rounds := 6 + rnd.Intn(6)
	dropped := map[int]bool{}
	for r := 0; r < rounds; r++ {
		sc.Steps = append(sc.Steps, step{Op: "round", N: r})
		if variant == 1 && r == rounds-3 {
			// the second collection is dropped upstream while the first goes on: once the drop has been replayed its
			// checkpoints are frozen; a marker collection created behind it passes the same event loop
			sc.Steps = append(sc.Steps, step{Op: "drop_coll", Coll: 1}, step{Op: "marker_coll"})
			dropped[1] = true
		}
		for ci, cd := range sc.Colls {
			if dropped[ci] {
				continue
			}
			for si := range cd.PChannels {
				switch q := rnd.Intn(10); {
				case q < 6:
					sc.Steps = append(sc.Steps, step{Op: "insert", Coll: ci, Shard: si, Rows: 1 + rnd.Intn(3)})
				case q < 8:
					sc.Steps = append(sc.Steps, step{Op: "delete", Coll: ci, Shard: si})
				case q < 9: // a burst inside one tick interval
					sc.Steps = append(sc.Steps, step{Op: "insert", Coll: ci, Shard: si, Rows: 1}, step{Op: "insert", Coll: ci, Shard: si, Rows: 2}, step{Op: "delete", Coll: ci, Shard: si})
				}
				if variant == 2 && r%2 == 1 && si == 0 {
					// small packs first (they stay buffered), then one oversized pack of the same stream
					sc.Steps = append(sc.Steps, step{Op: "insert", Coll: ci, Shard: si, Rows: 1}, step{Op: "tick"}, step{Op: "insert", Coll: ci, Shard: si, Rows: 1}, step{Op: "tick"}, step{Op: "insert", Coll: ci, Shard: si, Rows: 120})
				}
			}
		}
		sc.Steps = append(sc.Steps, step{Op: "tick"})
	}
	return sc
}

type c05Result struct {
	vios         []vio
	inconclusive string
	acks, puts   int
	dataAcks     int // acknowledged calls that carried at least one row message
	faultHit     bool
	frozenJudged int
	restarts     int
	replay       map[string]any
	c03          []vio // end-to-end part of C03's resume clause over the same execution (see c03s.go)
	c03st        c03sStats
}

type vio struct{ key, desc string }

func runC05Case(c *c05Case, name string) *c05Result {
	res := &c05Result{}
	dir := scratchDir(name)
	s, err := newSuper(dir, 1)
	if err != nil {
		res.inconclusive = "world: " + err.Error()
		return res
	}
	defer s.close()
	sc := c.Sc
	rs := newRunState(s, sc)
	tgt := s.w.Targets[0]
	if sc.SharedDS {
		// every downstream shard lives on ONE physical channel: streams of different clocks get multiplexed
		var mu sync.Mutex
		next := int64(5000)
		tgt.SetIDAssigner(func(db, name string) (int64, []string, []string) {
			mu.Lock()
			defer mu.Unlock()
			next += 10
			id := next
			var shards int
			for _, cd := range sc.Colls {
				if cd.Name == name {
					shards = len(cd.PChannels)
				}
			}
			var vs, ps []string
			for i := 0; i < shards; i++ {
				ps = append(ps, "ds-rootcoord-dml_0")
				vs = append(vs, fmt.Sprintf("ds-rootcoord-dml_0_%dv%d", id, i))
			}
			return id, vs, ps
		})
	}
	f := c.Fault
	// ---- fault wiring ----
	var fmu sync.Mutex
	var pauseWriteFailed atomic.Bool
	repN, putN := 0, 0
	seenPack := map[int64]bool{}
	var nackUID int64 = -1
	nackCnt := 0
	hold := fakemilvus.NewHold()
	killedByPlan := make(chan struct{}, 1)
	tgt.SetHook(func(call *fakemilvus.Call) *fakemilvus.Decision {
		if call.Method == "DropCollection" || call.Method == "CreateCollection" {
			s.log(sevt{Kind: "note", Note: "downstream " + call.Method + " " + fmt.Sprint(call.Req)})
		}
		if call.Method != "ReplicateMessage" {
			return nil
		}
		if f.Kind == "nack-uid" && call.Replicate != nil {
			has := false
			for _, m := range call.Replicate.Msgs {
				if m != nil && uidOf(m) == f.UID {
					has = true
				}
			}
			if has {
				fmu.Lock()
				reject := nackCnt < 3
				if reject {
					nackCnt++
				}
				fmu.Unlock()
				if reject {
					res.faultHit = true
					return fakemilvus.FailGRPC(codes.Internal, "injected downstream rejection of one pack")
				}
			}
			return nil
		}
		if (f.Kind == "nack-pack" || f.Kind == "nack-pack-pause-write-fails") && call.Replicate != nil {
			// the N-th distinct pack that carries rows is rejected on every attempt the service makes for it (three,
			// the retry budget of the rig's configuration); every other pack - also the next one of the same batch - is
			// accepted
			var first int64 = -1
			for _, m := range call.Replicate.Msgs {
				if m != nil {
					if u := uidOf(m); u >= 0 {
						first = u
						break
					}
				}
			}
			if first >= 0 {
				fmu.Lock()
				if !seenPack[first] {
					seenPack[first] = true
					if len(seenPack) == f.N {
						nackUID = first
					}
				}
				reject := nackUID == first && nackCnt < 3
				if f.Kind == "nack-pack-pause-write-fails" {
					// rejected until the service has given up on it and tried to record the pause
					reject = nackUID == first && !pauseWriteFailed.Load()
				}
				if reject {
					nackCnt++
				}
				fmu.Unlock()
				if reject {
					res.faultHit = true
					return fakemilvus.FailGRPC(codes.Internal, "injected downstream rejection of one pack")
				}
			}
			return nil
		}
		fmu.Lock()
		repN++
		n := repN
		fmu.Unlock()
		switch {
		case (f.Kind == "kill-at-ack" || f.Kind == "skew-kill") && n == f.N:
			res.faultHit = true
			return fakemilvus.HoldReply(hold)
		case f.Kind == "nack" && n == f.N:
			res.faultHit = true
			return fakemilvus.FailGRPC(codes.Internal, "injected downstream rejection")
		}
		return nil
	})
	go func() {
		select {
		case <-hold.Applied():
			s.killChild(fmt.Sprintf("SIGKILL while reply of ReplicateMessage #%d is held (applied downstream, ack not seen)", f.N))
			hold.Release()
			killedByPlan <- struct{}{}
		case <-time.After(10 * time.Minute):
		}
	}()
	s.setStoreDecide(func(ev sysboot.StoreEvent) sysboot.StoreDecision {
		if f.Kind == "nack-pack-pause-write-fails" && ev.Kind == "task_info" && ev.Op == "put" && ev.Phase == "before" && ev.State == 2 {
			// the write that records the task as Paused is refused (a transient failure of the task table only)
			fmu.Lock()
			armed := nackCnt > 0
			fmu.Unlock()
			if armed {
				pauseWriteFailed.Store(true)
				return sysboot.StoreDecision{Fail: "injected store failure of the pause write"}
			}
		}
		if ev.Kind != "task_position" || ev.Op != "put" || ev.Coll <= 0 {
			return sysboot.StoreDecision{}
		}
		if ev.Phase == "before" {
			fmu.Lock()
			putN++
			fmu.Unlock()
		}
		fmu.Lock()
		n := putN
		fmu.Unlock()
		switch {
		case f.Kind == "kill-before-put" && ev.Phase == "before" && n == f.N:
			res.faultHit = true
			return sysboot.StoreDecision{Kill: true}
		case f.Kind == "kill-after-put" && ev.Phase == "after" && n == f.N:
			res.faultHit = true
			return sysboot.StoreDecision{Kill: true}
		case f.Kind == "put-fail" && ev.Phase == "before" && n == f.N:
			res.faultHit = true
			return sysboot.StoreDecision{Fail: "injected store failure"}
		}
		return sysboot.StoreDecision{}
	})
	copts := childOpts{PackCount: sc.PackCnt, PackTimer: 30, SrcChannels: sc.NSrcP, PackMaxKB: sc.PackKB}
	if sc.PackMs > 0 {
		copts.PackTimer = sc.PackMs
	}
	if err := s.startChild(copts); err != nil {
		res.inconclusive = "child: " + err.Error()
		return res
	}
	ensureChild := func() bool {
		if s.childAlive() {
			return true
		}
		res.restarts++
		if res.restarts > 4 {
			return false
		}
		if err := s.startChild(copts); err != nil {
			res.inconclusive = "restart: " + err.Error()
			return false
		}
		return true
	}
	// ---- execute ----
	droppedColl := map[int]bool{}
	markerSent := false
	wantUIDs := func() []int64 {
		// rows of a collection dropped upstream are not owed to the downstream any more
		rs.mu.Lock()
		defer rs.mu.Unlock()
		var out []int64
		for _, d := range rs.sent {
			if (d.Kind == "insert" || d.Kind == "delete") && !droppedColl[d.Coll] {
				out = append(out, d.UID)
			}
		}
		return out
	}
	rs.startPump(25 * time.Millisecond)
	defer rs.stopPump()
	skewTopic := ""
	for _, st := range sc.Steps {
		switch st.Op {
		case "create_task":
			if !ensureChild() {
				break
			}
			if r := rs.createTask(st.Task); r.Code != 200 {
				res.inconclusive = fmt.Sprintf("create task: %d %s", r.Code, r.Message)
				return res
			}
		case "create_coll":
			if err := rs.createColl(st.Coll); err != nil {
				res.inconclusive = "create collection: " + err.Error()
				return res
			}
		case "insert", "delete":
			if _, err := rs.send(st.Op, st.Coll, st.Shard, 0, st.Rows); err != nil {
				res.inconclusive = "send: " + err.Error()
				return res
			}
		case "drop_coll":
			if c := rs.colls[st.Coll]; c != nil {
				for si := range c.Shards {
					_, _ = rs.send("dropcoll", st.Coll, si, 0, 0)
				}
				_ = s.w.Src.DropCollectionMeta(context.Background(), c)
				droppedColl[st.Coll] = true
				s.log(sevt{Kind: "note", Note: fmt.Sprintf("collection %d (%s) dropped upstream", c.ID, c.Name)})
			}
		case "marker_coll":
			// created only once the drop request has arrived downstream (the drop travels through the data streams, a
			// create through the catalog watch: created earlier, the marker would overtake it); its own create request
			// then passes the event loop behind the handling of the drop
			seen := false
			for deadline := time.Now().Add(20 * time.Second); time.Now().Before(deadline) && !seen && s.childAlive(); time.Sleep(20 * time.Millisecond) {
				for _, e := range s.events() {
					if e.Kind == "note" && strings.HasPrefix(e.Note, "downstream DropCollection") {
						seen = true
					}
				}
			}
			if seen {
				if _, err := s.w.Src.CreateCollection(context.Background(), "default", "c05_marker", []string{rs.pch[0]}); err == nil {
					markerSent = true
				}
			}
		case "tick":
			_, _ = s.w.Src.TickAll(rs.pch)
			time.Sleep(15 * time.Millisecond)
		case "round":
			if f.Kind == "skew-kill" && st.N == 1 && rs.colls[0] != nil {
				// from now on the first stream is read slowly: its consumer gets nothing beyond what exists now
				skewTopic = rs.colls[0].Shards[0].PChannel
				s.w.Broker.SetGate(skewTopic, s.w.Broker.Len(skewTopic))
				s.log(sevt{Kind: "note", Note: "gate " + skewTopic})
			}
			if f.Kind == "skew-kill" && st.N == f.Round && skewTopic != "" {
				// let the slow stream deliver a little more (stamped on the channel clock of the fast ones)
				s.w.Broker.SetGate(skewTopic, s.w.Broker.Len(skewTopic)-2)
			}
			if f.Kind == "pause-resume" && st.N == f.Round && ensureChild() {
				r := s.api("pause", map[string]any{"task_id": rs.taskIDs[0]})
				res.faultHit = r.Code == 200
				time.Sleep(100 * time.Millisecond)
				s.api("resume", map[string]any{"task_id": rs.taskIDs[0]})
			}
		}
	}
	if skewTopic != "" {
		time.Sleep(300 * time.Millisecond)
		s.w.Broker.SetGate(skewTopic, 0)
	}
	if f.Kind == "nack-pack-pause-write-fails" {
		// the stored task record still says Running (the pause could not be recorded): the operator's way out is a
		// restart of the service, which reloads the task as Running and resumes from the checkpoints
		for deadline := time.Now().Add(20 * time.Second); time.Now().Before(deadline) && !pauseWriteFailed.Load() && s.childAlive(); time.Sleep(20 * time.Millisecond) {
		}
		time.Sleep(300 * time.Millisecond)
		res.faultHit = res.faultHit && pauseWriteFailed.Load()
		s.killChild("restart after a rejected pack whose pause could not be recorded")
	}
	// ---- recovery: restart a dead child, resume paused tasks, until everything is acked or no progress ----
	var missing []int64
	for attempt := 0; attempt < 4; attempt++ {
		select {
		case <-killedByPlan:
		default:
		}
		if !ensureChild() {
			break
		}
		for _, id := range rs.taskIDs {
			if id == "" {
				continue
			}
			if st, _, ok := rs.taskState(id); ok && st == "Paused" {
				s.api("resume", map[string]any{"task_id": id})
			}
		}
		// a sentinel row at the end of every stream: a stream delivers in order, so once the sentinel is acked by
		// the current incarnation, every earlier row of that stream has either been acked or will never be
		// (the verdict on it is final and does not wait for a watchdog)
		var sentinels []int64
		for ci, c := range rs.colls {
			if c == nil || droppedColl[ci] {
				continue
			}
			for si := range c.Shards {
				if d, err := rs.send("insert", ci, si, 0, 1); err == nil {
					sentinels = append(sentinels, d.UID)
				}
			}
		}
		s.log(sevt{Kind: "note", Note: fmt.Sprintf("sentinels %v", sentinels)})
		missing = c05WaitAcked(rs, wantUIDs(), sentinels, 25*time.Second)
		if len(missing) == 0 {
			break
		}
		if s.childAlive() {
			// paused by the fault after the first resume? look again once, then give up
			paused := false
			for _, id := range rs.taskIDs {
				if st, _, ok := rs.taskState(id); ok && st == "Paused" {
					paused = true
				}
			}
			if !paused {
				break
			}
		}
	}
	rs.stopPump()
	c05Oracle(rs, res, missing)
	c05Frozen(rs, res, droppedColl, markerSent)
	res.c03, res.c03st = c03ResumeOracle(rs)
	if os.Getenv("C05_DEBUG") != "" {
		for _, e := range s.events() {
			if e.Kind == "note" || e.Kind == "api" || e.Kind == "kill" || e.Kind == "child-start" {
				fmt.Printf("C05-DEBUG %s clock=%d kind=%s api=%s code=%d note=%s\n", name, e.Clock, e.Kind, e.API, e.Code, e.Note)
			}
		}
		fmt.Printf("C05-DEBUG %s fault=%+v hit=%v dropped=%v marker=%v missing=%v inconclusive=%q vios=%d packCnt=%d\n", name, c.Fault, res.faultHit, droppedColl, markerSent, missing, res.inconclusive, len(res.vios), sc.PackCnt)
		kc := map[string]int{}
		for _, v := range res.vios {
			kc[v.key]++
		}
		fmt.Printf("C05-DEBUG %s vio-keys=%v\n", name, kc)
	}
	res.replay = map[string]any{"case": c, "sent": rs.sent, "events": tailEvents(s.events(), 1500), "missing": missing, "child_log_tail": s.tailChildLog(1500)}
	return res
}

// c05WaitAcked waits until every message of want is acked, or every sentinel is acked after the wait began while
// the child is alive (then the missing rows are decided), or the watchdog fires / the child dies.
func c05WaitAcked(rs *runState, want, sentinels []int64, watchdog time.Duration) (missing []int64) {
	from := rs.s.clock.Load()
	deadline := time.Now().Add(watchdog)
	for {
		acked := rs.ackedUIDs()
		missing = missing[:0]
		for _, u := range want {
			if len(acked[u]) == 0 {
				missing = append(missing, u)
			}
		}
		sentDone := len(sentinels) > 0
		for _, u := range sentinels {
			ok := false
			for _, c := range acked[u] {
				if c > from {
					ok = true
				}
			}
			if !ok {
				sentDone = false
			}
		}
		if len(missing) == 0 || sentDone || time.Now().After(deadline) || !rs.s.childAlive() {
			sort.Slice(missing, func(i, j int) bool { return missing[i] < missing[j] })
			return missing
		}
		time.Sleep(20 * time.Millisecond)
	}
}

// tailEvents trims the event log for a replay file: store reads and the "after" halves of store calls are
// dropped; everything up to shortly after the last restart is kept, the long tick-only tail is cut.
func tailEvents(all []sevt, n int) []sevt {
	var e []sevt
	lastStart := 0
	for _, x := range all {
		if x.Kind == "store" && (x.Store.Op == "get" || x.Store.Phase == "after") {
			continue
		}
		e = append(e, x)
		if x.Kind == "child-start" || x.Kind == "kill" || x.Kind == "child-exit" {
			lastStart = len(e)
		}
	}
	keep := lastStart + 600
	if keep < n {
		keep = n
	}
	if len(e) > keep {
		e = e[:keep]
	}
	return e
}

func c05Oracle(rs *runState, res *c05Result, missing []int64) {
	evs := rs.s.events()
	add := func(k, d string) { res.vios = append(res.vios, vio{k, d}) }
	collIdx := map[int64]int{}
	for i, c := range rs.colls {
		if c != nil {
			collIdx[c.ID] = i
		}
	}
	ackClock := map[int64]int64{} // first ack per uid
	lastInc := 0
	for _, e := range evs {
		if e.Inc > lastInc {
			lastInc = e.Inc
		}
		if e.Kind == "ack" {
			res.acks++
			for _, u := range e.UIDs {
				if u >= 0 {
					res.dataAcks++
					break
				}
			}
			for _, u := range e.UIDs {
				if u >= 0 {
					if _, ok := ackClock[u]; !ok {
						ackClock[u] = e.Clock
					}
				}
			}
		}
	}
	// (re)start points of the readers: a restarted child or a resumed task. For each: the clock from which the new
	// readers are up, and which (collection, channel) had a performed checkpoint when the old ones went away.
	type restartPoint struct {
		from, ready int64
		have        map[string]bool
	}
	var points []*restartPoint
	{
		have := map[string]bool{}
		snap := func() map[string]bool {
			m := map[string]bool{}
			for k := range have {
				m[k] = true
			}
			return m
		}
		for _, e := range evs {
			if e.Kind == "store" && e.Store.Kind == "task_position" && e.Store.Op == "put" && e.Store.Coll > 0 && e.Store.Phase == "after" && e.Store.Err == "" {
				for ch := range e.Store.Positions {
					have[fmt.Sprintf("%d/%s", e.Store.Coll, ch)] = true
					// a collection with a checkpoint for SOME of its channels resumes the others from its start position
					// (fix 3bb301f): the recorded finding is about collections without any checkpoint record
					have[fmt.Sprintf("%d/*", e.Store.Coll)] = true
				}
			}
			switch {
			case e.Kind == "child-exit", e.Kind == "api" && e.API == "resume call":
				points = append(points, &restartPoint{from: e.Clock, have: snap()})
			case e.Kind == "child-start" && e.Inc > 1, e.Kind == "api" && e.API == "resume reply":
				if n := len(points); n > 0 && points[n-1].ready == 0 {
					points[n-1].ready = e.Clock
				}
			}
		}
	}
	lastPoint := func(t int64) *restartPoint {
		var r *restartPoint
		for _, p := range points {
			if p.from <= t && p.ready != 0 {
				r = p
			}
		}
		return r
	}
	type pkey struct {
		task string
		coll int64
		ch   string
	}
	last := map[pkey]sysboot.PosEntry{}
	flagged := map[string]bool{}
	for _, e := range evs {
		if e.Kind != "store" || e.Store.Kind != "task_position" || e.Store.Op != "put" || e.Store.Phase != "before" || e.Store.Coll <= 0 {
			continue
		}
		res.puts++
		ci, known := collIdx[e.Store.Coll]
		for ch, pe := range e.Store.Positions {
			k := pkey{e.Store.Task, e.Store.Coll, ch}
			prev, had := last[k]
			if had && prev.Dropped && (pe.MsgID != prev.MsgID || pe.Time != prev.Time || !pe.Dropped) {
				add("C05/dropped-checkpoint-entry-overwritten", fmt.Sprintf("task %s collection %d channel %s: entry persisted as dropped (%+v) rewritten to %+v at clock %d", e.Store.Task, e.Store.Coll, ch, prev, pe, e.Clock))
			}
			last[k] = pe
			if !known || (had && prev.MsgID == pe.MsgID) {
				continue
			}
			// (a) A checkpoint (P, Time) makes a resumed stream start at message id P (a tt stream's end position is
			// the closing tick or the first message it has buffered beyond it) and drop what is not newer than
			// ComposeTS(Time+1, 0). So at the moment the Put is announced, every message of the stream that a
			// resume from it would NOT deliver again must already be acked:
			//   (a1) messages with id < P;
			//   (a2) messages with id >= P whose source time is not above the checkpoint time.
			cpTs := uint64(pe.Time+1) << 18
			for _, d := range rs.sent {
				if d.Coll != ci || d.PChan != ch || (d.Kind != "insert" && d.Kind != "delete") {
					continue
				}
				a1 := d.MsgID < pe.MsgID
				a2 := d.MsgID >= pe.MsgID && d.TS <= cpTs && d.SentAt < e.Clock
				if !a1 && !a2 {
					continue
				}
				ac, ok := ackClock[d.UID]
				if ok && ac < e.Clock {
					continue
				}
				sig := fmt.Sprintf("%s/%d/%s/%d", e.Store.Task, e.Store.Coll, ch, d.UID)
				if flagged[sig] {
					continue
				}
				flagged[sig] = true
				when := "never acked"
				if ok {
					when = fmt.Sprintf("first acked at clock %d", ac)
				}
				rp := lastPoint(e.Clock)
				if a1 && rp != nil && !rp.have[fmt.Sprintf("%d/*", e.Store.Coll)] && d.SentAt < rp.ready {
					add("C05/crash-before-first-checkpoint-of-new-collection-resumes-from-latest", fmt.Sprintf("the readers restarted at clock %d (incarnation %d) found no checkpoint for collection %d channel %s (the previous ones went away before one was written): the stream was subscribed at the latest message and message uid=%d (source id %d, %s), written before the new reader was up, is %s while the checkpoint moved on to id %d at clock %d", rp.ready, e.Inc, e.Store.Coll, ch, d.UID, d.MsgID, d.Kind, when, pe.MsgID, e.Clock))
				} else if a1 {
					add("C05/checkpoint-ahead-of-acknowledged-writes", fmt.Sprintf("checkpoint Put announced at clock %d (incarnation %d) for collection %d channel %s position id %d lies beyond message uid=%d (source id %d, %s), %s", e.Clock, e.Inc, e.Store.Coll, ch, pe.MsgID, d.UID, d.MsgID, d.Kind, when))
				} else {
					add("C05/checkpoint-time-from-shared-downstream-clock-covers-unacked-rows", fmt.Sprintf("checkpoint Put announced at clock %d (incarnation %d) for collection %d channel %s: position id %d, time %d ms (the downstream channel's clock) is not below the source time %d ms of message uid=%d (source id %d, %s) which is %s; a resume from this checkpoint filters that message out", e.Clock, e.Inc, e.Store.Coll, ch, pe.MsgID, pe.Time, d.TS>>18, d.UID, d.MsgID, d.Kind, when))
				}
			}
		}
	}
	// (c) at-least-once
	if len(missing) > 0 {
		// acks of the last incarnation per stream
		type skey struct {
			coll, shard int
		}
		maxAckedLast := map[skey]uint64{}
		uidMsg := map[int64]dataMsg{}
		for _, d := range rs.sent {
			uidMsg[d.UID] = d
		}
		for _, e := range evs {
			if e.Kind != "ack" || e.Inc != lastInc {
				continue
			}
			for _, u := range e.UIDs {
				if d, ok := uidMsg[u]; ok {
					k := skey{d.Coll, d.Shard}
					if d.MsgID > maxAckedLast[k] {
						maxAckedLast[k] = d.MsgID
					}
				}
			}
		}
		// checkpoints a restarted incarnation can have resumed from: per stream, the puts announced before each
		// child start (the last performed one and, when the process died inside a Put, the announced one)
		type cp struct {
			id        uint64
			time      int64
			performed bool // false: the process died between the announcement and the end of the Put
		}
		resumedFrom := map[string][]cp{} // collID/channel -> candidates
		cur, pending := map[string]cp{}, map[string]cp{}
		for _, e := range evs {
			if e.Kind == "store" && e.Store.Kind == "task_position" && e.Store.Op == "put" && e.Store.Coll > 0 {
				for ch, pe := range e.Store.Positions {
					k := fmt.Sprintf("%d/%s", e.Store.Coll, ch)
					if e.Store.Phase == "before" {
						pending[k] = cp{pe.MsgID, pe.Time, false}
					} else {
						if e.Store.Err == "" {
							cur[k] = cp{pe.MsgID, pe.Time, true}
						}
						delete(pending, k)
					}
				}
			}
			if e.Kind == "child-exit" || (e.Kind == "api" && e.API == "resume call") {
				for k, v := range cur {
					resumedFrom[k] = append(resumedFrom[k], v)
				}
				for k, v := range pending { // the process died inside this Put: it may or may not have been applied
					resumedFrom[k] = append(resumedFrom[k], v)
				}
				if e.Kind == "child-exit" {
					pending = map[string]cp{}
				}
			}
		}
		lost, lostByTime, lostNoCp, stuck := []string{}, []string{}, []string{}, 0
		lastStart := int64(0) // clock at which the readers were (re)started last: child restart or task resume
		for _, e := range evs {
			if (e.Kind == "child-start" && e.Inc == lastInc && e.Inc > 1) || (e.Kind == "api" && e.API == "resume reply" && e.Code == 200) {
				lastStart = e.Clock
			}
		}
		for _, u := range missing {
			d := uidMsg[u]
			if maxAckedLast[skey{d.Coll, d.Shard}] <= d.MsgID {
				stuck++
				continue
			}
			desc := fmt.Sprintf("uid=%d(%s %s id %d, source time %d ms)", u, d.Kind, d.PChan, d.MsgID, d.TS>>18)
			explained := false
			if c := rs.colls[d.Coll]; c != nil {
				for _, v := range resumedFrom[fmt.Sprintf("%d/%s", c.ID, d.PChan)] {
					if d.MsgID >= v.id && d.TS <= uint64(v.time+1)<<18 {
						explained = true
						desc += fmt.Sprintf(" [resumed from checkpoint id %d time %d ms]", v.id, v.time)
						break
					}
				}
			}
			if c := rs.colls[d.Coll]; c != nil && !explained && d.SentAt < lastStart {
				// no checkpoint of this stream had been written for certain when the readers went away
				performed := false
				for k, vs := range resumedFrom {
					// any channel of the collection: a collection with a checkpoint for some of its channels resumes
					// the others from its start position
					if strings.HasPrefix(k, fmt.Sprintf("%d/", c.ID)) {
						for _, v := range vs {
							performed = performed || v.performed
						}
					}
				}
				if !performed {
					lostNoCp = append(lostNoCp, desc)
					continue
				}
			}
			if explained {
				lostByTime = append(lostByTime, desc)
			} else {
				lost = append(lost, desc)
			}
		}
		cut := func(l []string) []string {
			sort.Strings(l)
			if len(l) > 6 {
				l = append(l[:6], "…")
			}
			return l
		}
		if len(lost) > 0 {
			add("C05/row-never-reached-downstream-although-later-rows-of-its-stream-did", fmt.Sprintf("%d message(s) never acked in any incarnation while a later message of the same stream was acked in the last incarnation (%d): %s", len(lost), lastInc, strings.Join(cut(lost), ", ")))
		}
		if len(lostNoCp) > 0 {
			add("C05/crash-before-first-checkpoint-of-new-collection-resumes-from-latest", fmt.Sprintf("%d message(s) lost: %s", len(lostNoCp), strings.Join(cut(lostNoCp), ", ")))
		}
		if len(lostByTime) > 0 {
			add("C05/rows-skipped-on-resume-by-checkpoint-time-from-shared-downstream-clock", fmt.Sprintf("%d message(s) of a lagging stream never reached the downstream: the stream was resumed from a checkpoint whose time (taken from the downstream channel's clock, which faster streams had pushed ahead) is not below their source time, so the seek filtered them out: %s", len(lostByTime), strings.Join(cut(lostByTime), ", ")))
		}
		if stuck > 0 && len(lost) == 0 {
			res.inconclusive = fmt.Sprintf("%d message(s) not acked and their streams made no further progress (watchdog)", stuck)
		}
	}
}

func runC05(tier string) *vf.Run {
	run := vf.NewRun("C05", tier, "fault_enumeration")
	run.Rule = "input = 1-2 collections x 1-3 shards (variant 0: one stream per source pchannel; variant 1: two collections sharing a source pchannel; variant 2: batcher count 6 / 250 ms / MaxMsgSize 1 KB with small packs followed by an oversized pack of the same stream; all downstream shards on ONE downstream channel; in variant 1 the second collection is dropped upstream three rounds before the end and a marker collection is created behind the drop), 6-11 rounds of inserts/deletes (bursts inside one tick interval) + ticks, batcher count 1 or 3; a fault-free run of the input counts the acks K and checkpoint Puts P; then the same input is re-run with one fault at an enumerated step: SIGKILL with the k-th ReplicateMessage applied but its reply held, SIGKILL just before / after the n-th checkpoint Put, k-th ReplicateMessage rejected once (absorbed by the service's retry) or the n-th pack that carries rows rejected on every attempt while the next pack of its batch is accepted (also aimed at the first of two small packs that an oversized pack of the same stream flushes in one batch), n-th checkpoint Put failing, pause+resume, and a skewed variant (one stream read slowly through a consumer gate, then killed). a pack that carries rows rejected on every attempt while the write that records the task as Paused fails too, followed by a restart of the service (the stored record still says Running), and a fourth input variant with twelve source channels whose shards sit on channels with prefix-related names (dml_1 / dml_10 / dml_11). Quick: a fixed subset of the steps of four inputs (one per variant); thorough: every k and n of twelve inputs. Non-trivial = the fault was delivered at the intended step and the run ended with all rows acked or a verdict; distinct by (input, fault kind, step)."
	run.Assumptions = []string{
		"the fake downstream acks a ReplicateMessage when it ACCEPTS it (logged before replying); the child announces every store call to the supervisor BEFORE performing it, so 'checkpoint after ack' is judged on one clock without observation lag",
		"message ids are unique over all topics (memq allocates them from one counter), so a checkpoint position identifies its stream's messages",
		"frozen clause: judged in runs without a process death once the DropCollection of the dropped collection and the CreateCollection of the marker created behind it have both been seen downstream (one event loop handles them in that order): by then every checkpoint entry of the dropped collection must have been persisted as dropped; rows of a collection dropped upstream are not owed to the downstream any more",
		"liveness is restated as bounded progress: after the fault the supervisor restarts a dead child, resumes paused tasks and keeps ticking; a row counts as LOST only when a later row of the same stream was acked in the last incarnation; otherwise the case is inconclusive",
	}
	nInputs := run.Pick(4, 12)
	if os.Getenv("C05_PART") == "op" { // debug: the operation-channel part alone
		runC05op(run)
		return run
	}
	var cases []*c05Case
	// baseline runs first (sequentially cheap): they size the enumeration
	type base struct{ acks, puts, dataAcks int }
	bases := make([]base, nInputs)
	var bmu sync.Mutex
	parallel(nInputs, 9, func(i int) {
		sc := genC05Input(run.Seed, i)
		r := runC05Case(&c05Case{Input: i, Sc: sc, Fault: c05Fault{Kind: "none"}}, fmt.Sprintf("c05-base-%d", i))
		run.Eval(1)
		if r.inconclusive != "" {
			run.Inconclusive(fmt.Sprintf("input %d baseline: %s", i, r.inconclusive))
		}
		for _, v := range r.vios {
			run.Violate(v.key, fmt.Sprintf("[input %d, no fault] %s", i, v.desc), r.replay)
		}
		bmu.Lock()
		bases[i] = base{r.acks, r.puts, r.dataAcks}
		bmu.Unlock()
		run.Count("baseline_acks", r.acks)
		run.Count("baseline_checkpoint_puts", r.puts)
		run.Count("replayed_drops_judged_for_frozen_checkpoints", r.frozenJudged)
		if i == 0 {
			run.Sample(map[string]any{"input": 0, "scenario": sc, "acks": r.acks, "checkpoint_puts": r.puts})
		}
	})
	for i := 0; i < nInputs; i++ {
		sc := genC05Input(run.Seed, i)
		K, P := bases[i].acks, bases[i].puts
		if K < 4 || P < 4 {
			run.Inconclusive(fmt.Sprintf("input %d: baseline too small (acks %d puts %d)", i, K, P))
			continue
		}
		stepK := 1
		stepP := 1
		if !run.Thorough() {
			stepK = max(1, K/3)
			stepP = max(1, P/3)
		}
		for k := 2; k <= K; k += stepK {
			cases = append(cases, &c05Case{Input: i, Sc: sc, Fault: c05Fault{Kind: "kill-at-ack", N: k}})
		}
		for n := 1; n <= P; n += stepP {
			cases = append(cases, &c05Case{Input: i, Sc: sc, Fault: c05Fault{Kind: "kill-before-put", N: n}})
			cases = append(cases, &c05Case{Input: i, Sc: sc, Fault: c05Fault{Kind: "kill-after-put", N: n}})
		}
		nacks, pfails, skews := []int{2, K / 2, K - 1}, []int{1, P / 2, P - 1}, []int{K / 2, K - 2}
		if !run.Thorough() {
			nacks, pfails, skews = []int{K / 2}, []int{[]int{1, P / 2, P - 1}[i%3]}, []int{K / 2}
			if sc.PackCnt > 1 {
				// a batch of several packs: three consecutive packs that carry rows, each rejected on every attempt while
				// the next pack of the batch is accepted (a rejection in the middle of a batch differs from one at its end)
				D := bases[i].dataAcks
				for _, n := range []int{D / 2, D/2 + 1, D/2 + 2} {
					if n >= 1 && n <= D {
						cases = append(cases, &c05Case{Input: i, Sc: sc, Fault: c05Fault{Kind: "nack-pack", N: n}})
					}
				}
			}
			if len(sc.Colls[0].PChannels) > 1 {
				// the start positions of a multi-shard collection created while the service runs are written one by
				// one: a failure / a crash between the first and the second leaves a partial set of checkpoints
				pfails = append(pfails, 2)
				cases = append(cases, &c05Case{Input: i, Sc: sc, Fault: c05Fault{Kind: "kill-before-put", N: 2}})
			}
		}
		if run.Thorough() && sc.PackCnt > 1 {
			for n := 1; n <= bases[i].dataAcks; n++ {
				cases = append(cases, &c05Case{Input: i, Sc: sc, Fault: c05Fault{Kind: "nack-pack", N: n}})
			}
		}
		for _, k := range nacks {
			cases = append(cases, &c05Case{Input: i, Sc: sc, Fault: c05Fault{Kind: "nack", N: max(2, k)}})
		}
		for _, n := range pfails {
			cases = append(cases, &c05Case{Input: i, Sc: sc, Fault: c05Fault{Kind: "put-fail", N: max(1, n)}})
		}
		// the batcher holds two small packs of a stream until an oversized pack of the same stream flushes all three in
		// one batch (variant 2): the FIRST of the three is rejected on every attempt, the two behind it are accepted
		{
			uid := int64(sc.Idx%1000)*100000 + 1
			trios := 0
			for j, st := range sc.Steps {
				if st.Op != "insert" && st.Op != "delete" {
					continue
				}
				if j+4 < len(sc.Steps) && st.Op == "insert" && st.Rows == 1 && sc.Steps[j+1].Op == "tick" && sc.Steps[j+2].Op == "insert" && sc.Steps[j+2].Rows == 1 && sc.Steps[j+3].Op == "tick" && sc.Steps[j+4].Op == "insert" && sc.Steps[j+4].Rows == 120 {
					trios++
					if run.Thorough() || trios <= 2 {
						cases = append(cases, &c05Case{Input: i, Sc: sc, Fault: c05Fault{Kind: "nack-uid", N: trios, UID: uid}})
					}
				}
				uid++
			}
		}
		cases = append(cases, &c05Case{Input: i, Sc: sc, Fault: c05Fault{Kind: "pause-resume", Round: 3}})
		{
			// a pack that carries rows is rejected on every attempt AND the write that records the pause fails
			D := bases[i].dataAcks
			ns := []int{D / 3, D / 2}
			if run.Thorough() {
				ns = []int{2, D / 4, D / 3, D / 2, 2 * D / 3}
			}
			for _, n := range ns {
				if n >= 1 && n <= D {
					cases = append(cases, &c05Case{Input: i, Sc: sc, Fault: c05Fault{Kind: "nack-pack-pause-write-fails", N: n}})
				}
			}
		}
		for _, k := range skews {
			cases = append(cases, &c05Case{Input: i, Sc: sc, Fault: c05Fault{Kind: "skew-kill", N: max(3, k), Round: 4}})
		}
	}
	{
		seen := map[string]bool{}
		var uniq []*c05Case
		for _, c := range cases {
			k := fmt.Sprintf("%d/%s/%d/%d", c.Input, c.Fault.Kind, c.Fault.N, c.Fault.Round)
			if !seen[k] {
				seen[k] = true
				uniq = append(uniq, c)
			}
		}
		cases = uniq
	}
	if only := os.Getenv("C05_ONLY"); only != "" {
		var sel []*c05Case
		for _, c := range cases {
			if fmt.Sprintf("%s:%d", c.Fault.Kind, c.Fault.N) == only {
				sel = append(sel, c)
			}
		}
		cases = sel
	}
	parallel(len(cases), 10, func(ci int) {
		c := cases[ci]
		r := runC05Case(c, fmt.Sprintf("c05-%d", ci))
		run.Eval(1)
		tag := fmt.Sprintf("[input %d, %s n=%d] ", c.Input, c.Fault.Kind, c.Fault.N)
		if r.inconclusive != "" {
			run.Inconclusive(tag + r.inconclusive)
		}
		for _, v := range r.vios {
			run.Violate(v.key, tag+v.desc, r.replay)
		}
		run.Count("cases_"+c.Fault.Kind, 1)
		if r.faultHit || c.Fault.Kind == "none" {
			run.Count("faults_delivered_at_intended_step", 1)
			run.Count("delivered_"+c.Fault.Kind, 1)
			if r.inconclusive == "" {
				run.Nontrivial(fmt.Sprintf("%d/%s/%d/%d", c.Input, c.Fault.Kind, c.Fault.N, c.Fault.Round))
			}
		}
		run.Count("child_restarts", r.restarts)
		run.Count("acks_observed", r.acks)
		run.Count("checkpoint_puts_observed", r.puts)
		run.Count("replayed_drops_judged_for_frozen_checkpoints", r.frozenJudged)
	})
	run.Extra("enumerated_fault_cases", len(cases))
	if os.Getenv("C05_ONLY") == "" {
		runC05op(run)
	}
	run.Floor("faults_delivered_at_intended_step", len(cases)*6/10)
	run.Floor("delivered_kill-at-ack", 2)
	run.Floor("delivered_kill-before-put", 2)
	run.Floor("delivered_kill-after-put", 2)
	run.Floor("delivered_nack", 1)
	run.Floor("delivered_put-fail", 1)
	run.Floor("replayed_drops_judged_for_frozen_checkpoints", 1)
	return run
}

// c05Frozen: "checkpoints of a collection whose drop has been replayed are frozen". For a collection dropped
// upstream in a run whose process was never killed: once the DropCollection call for it AND the CreateCollection of
// the marker collection (created upstream behind the drop; both pass the one event loop in that order) have been
// seen downstream, the handling of the drop request is over, so the collection's checkpoint entries must have been
// persisted as dropped by then; and from the first performed dropped entry on no Put may change an entry (that
// part is clause (b) of c05Oracle).
func c05Frozen(rs *runState, res *c05Result, droppedColl map[int]bool, markerSent bool) {
	if len(droppedColl) == 0 || !markerSent {
		return
	}
	evs := rs.s.events()
	for _, e := range evs {
		if e.Kind == "kill" || e.Kind == "child-exit" {
			return // a restarted service learns about the drop in another way (C04)
		}
	}
	for ci := range droppedColl {
		c := rs.colls[ci]
		if c == nil {
			continue
		}
		var dropAt, markerAt int64
		for _, e := range evs {
			if e.Kind != "note" {
				continue
			}
			if dropAt == 0 && strings.HasPrefix(e.Note, "downstream DropCollection") && strings.Contains(e.Note, c.Name) {
				dropAt = e.Clock
			}
			if dropAt != 0 && markerAt == 0 && strings.HasPrefix(e.Note, "downstream CreateCollection") && strings.Contains(e.Note, "c05_marker") {
				markerAt = e.Clock
			}
		}
		if dropAt == 0 || markerAt == 0 {
			continue // the drop was not replayed in this run (task paused by the fault ...): nothing to judge
		}
		res.frozenJudged++
		frozen := map[string]bool{}
		seen := map[string]bool{}
		for _, e := range evs {
			if e.Kind != "store" || e.Store.Kind != "task_position" || e.Store.Op != "put" || e.Store.Coll != c.ID || e.Clock > markerAt {
				continue
			}
			for ch, pe := range e.Store.Positions {
				seen[ch] = true
				if e.Store.Phase == "after" && e.Store.Err == "" && pe.Dropped {
					frozen[ch] = true
				}
			}
		}
		for ch := range seen {
			if !frozen[ch] {
				res.vios = append(res.vios, vio{"C05/checkpoint-of-replayed-drop-not-frozen", fmt.Sprintf("collection %d (%s) was dropped upstream, its DropCollection was replayed downstream at clock %d and the marker collection created behind it at clock %d, yet no Put up to then persisted the entry of channel %s as dropped: the checkpoint of the dropped collection can still move", c.ID, c.Name, dropAt, markerAt, ch)})
				break
			}
		}
	}
}
