package main

// C03, end-to-end part ("-prop C03S") — "... and across pause/resume or restart when streams are resumed from the
// persisted checkpoint". The reader rig takes seek positions as given; here the whole path is real: the server
// persists (position id, time of the emitted pack) after the downstream acknowledged the pack, turns that record into
// the seek position and the clock floor of the resumed stream, and the reader stamps what it re-reads.
//
// Runs a subset of C05's fault cases (all downstream shards on ONE channel, one stream read slowly through a gate so
// that its packs are stamped on a clock the other streams pushed ahead: skew-kill; kill with a reply held; kill after
// a checkpoint Put; pause + resume) and judges, per stream, on the supervisor's one clock:
//
//	let k be the pack the stream was resumed from: the last pack of the stream that carries rows, was accepted
//	downstream and whose checkpoint Put had been PERFORMED when the readers went away (a Put the process died in
//	makes the stream's resume point ambiguous: not judged; a checkpoint that stands for a tick-only pack: not
//	judged, its time is on the source clock). Every row message of that stream accepted after the restart / resume
//	must carry a timestamp strictly above the closing tick of pack k - the downstream had seen that tick on this
//	channel before the restart.
//
// Re-sent packs (acknowledged but not yet checkpointed before the stop) are behind pack k as well, so the clause
// covers them. Other streams' ticks are not compared (the recorded findings of C03 are about those).

import (
	"fmt"
	"os"
	"sort"
	"sync"

	"verifharness/internal/vf"
)

type c03sStats struct {
	points, streamsJudged, rowsJudged, ambiguous, tickOnly int
}

func c03ResumeOracle(rs *runState) ([]vio, c03sStats) {
	var out []vio
	var st c03sStats
	evs := rs.s.events()
	rs.mu.Lock()
	sent := append([]dataMsg{}, rs.sent...)
	rs.mu.Unlock()
	streamOf := map[int64]string{} // uid -> "<collection id>/<source pchannel>"
	for _, d := range sent {
		if (d.Kind == "insert" || d.Kind == "delete") && d.Coll < len(rs.colls) && rs.colls[d.Coll] != nil {
			streamOf[d.UID] = fmt.Sprintf("%d/%s", rs.colls[d.Coll].ID, d.PChan)
		}
	}
	type pack struct {
		clock int64
		endID uint64
		tick  uint64
	}
	lastPack := map[string][]pack{} // accepted packs with rows, per stream, in accept order
	type cp struct {
		id   uint64
		time int64 // milliseconds, as persisted
		ok   bool
	}
	cur := map[string]cp{}
	pending := map[string]bool{}
	floor := map[string]uint64{} // closing tick of the pack the stream was resumed from (current incarnation)
	// tickAbove: that closing tick lies at or above the clock floor the persisted checkpoint time yields
	// (ComposeTS(Time+1, 0)): the tick came from the shared channel clock, pushed ahead by other streams, while the
	// checkpoint time is the pack's EndTs (its last row) - recorded finding, own key
	tickAbove := map[string]bool{}
	judged := map[string]bool{}
	flagged := map[string]bool{}
	armed := false
	snapshot := func() {
		st.points++
		floor = map[string]uint64{}
		tickAbove = map[string]bool{}
		for k, c := range cur {
			if pending[k] {
				st.ambiguous++
				continue
			}
			if !c.ok {
				continue
			}
			var hit *pack
			ps := lastPack[k]
			for i := len(ps) - 1; i >= 0; i-- {
				if ps[i].endID == c.id {
					hit = &ps[i]
					break
				}
			}
			if hit == nil || hit.tick == 0 {
				st.tickOnly++
				continue
			}
			floor[k] = hit.tick
			if hit.tick >= uint64(c.time+1)<<18 {
				tickAbove[k] = true
			}
		}
	}
	for _, e := range evs {
		switch {
		case e.Kind == "store" && e.Store != nil && e.Store.Kind == "task_position" && e.Store.Op == "put" && e.Store.Coll > 0:
			for ch, pe := range e.Store.Positions {
				k := fmt.Sprintf("%d/%s", e.Store.Coll, ch)
				if e.Store.Phase == "before" {
					pending[k] = true
				} else {
					delete(pending, k)
					if e.Store.Err == "" {
						cur[k] = cp{pe.MsgID, pe.Time, true}
					}
				}
			}
		case e.Kind == "child-exit", e.Kind == "api" && e.API == "resume call":
			snapshot()
			armed = false
			if e.Kind == "child-exit" {
				pending = map[string]bool{}
			}
		case e.Kind == "child-start" && e.Inc > 1, e.Kind == "api" && e.API == "resume reply" && e.Code == 200:
			armed = true
		case e.Kind == "ack":
			var k string
			var tick uint64
			for i, u := range e.UIDs {
				if u >= 0 && k == "" {
					k = streamOf[u]
				}
				if i < len(e.TSs) && i < len(e.Types) && (e.Types[i] == "TimeTick" || e.Types[i] == "Replicate") {
					tick = e.TSs[i]
				}
			}
			if k == "" {
				continue
			}
			lastPack[k] = append(lastPack[k], pack{e.Clock, e.EndID, tick})
			f, ok := floor[k]
			if !armed || !ok {
				continue
			}
			if !judged[k] {
				judged[k] = true
				st.streamsJudged++
			}
			for i, u := range e.UIDs {
				if u < 0 || i >= len(e.TSs) {
					continue
				}
				st.rowsJudged++
				if os.Getenv("C03S_DEBUG") != "" {
					fmt.Printf("C03S-DEBUG stream %s inc %d floor (%d ms,%d) row uid=%d ts (%d ms,%d) ok=%v\n", k, e.Inc, f>>18, f&0x3ffff, u, e.TSs[i]>>18, e.TSs[i]&0x3ffff, e.TSs[i] > f)
				}
				if e.TSs[i] <= f && !flagged[k] {
					flagged[k] = true
					key := "C03/row-after-resume-not-above-closing-tick-of-the-pack-resumed-from"
					if tickAbove[k] {
						key = "C03/closing-tick-above-the-checkpoint-time-of-its-pack"
					}
					out = append(out, vio{key, fmt.Sprintf("stream %s was resumed (incarnation %d) from the checkpoint of a pack that the downstream had accepted with closing tick %d on channel %s; after the restart / resume the downstream accepted at clock %d row message uid=%d of that stream with timestamp %d, which is not above that tick", k, e.Inc, f, e.Chan, e.Clock, u, e.TSs[i])})
				}
			}
		}
	}
	return out, st
}

func runC03S(tier string) *vf.Run {
	run := vf.NewRun("C03", tier, "exploration")
	run.Rule = "end-to-end part of C03's resume clause (whole service in a killable child, one task, all downstream shards on ONE channel): C05's inputs (one stream per source channel / two collections sharing a source channel / a holding batcher) with a fault that makes the readers go away and come back - SIGKILL with a reply held, SIGKILL after a checkpoint Put, pause + resume, and the skewed variants (one stream read slowly through a gate, so that its packs are stamped on a clock the other streams pushed ahead, then killed) - and, per stream, every row message accepted downstream after the restart / resume compared with the closing tick of the pack the stream was resumed from (the last accepted pack with rows whose checkpoint Put had been performed). Non-trivial = a case in which at least one stream was judged; distinct by (input, fault, step)."
	run.Assumptions = []string{
		"a stream whose checkpoint Put was in flight when the process died, or whose checkpoint stands for a tick-only pack (time on the source clock), is not judged",
		"the fake downstream logs every accepted ReplicateMessage with the timestamps of its messages on the supervisor's clock; a downstream pack carries rows of one stream",
	}
	nInputs := 3
	type base struct{ acks, puts int }
	bases := make([]base, nInputs)
	var bmu sync.Mutex
	parallel(nInputs, 3, func(i int) {
		sc := genC05Input(run.Seed, i)
		r := runC05Case(&c05Case{Input: i, Sc: sc, Fault: c05Fault{Kind: "none"}}, fmt.Sprintf("c03s-base-%d", i))
		bmu.Lock()
		bases[i] = base{r.acks, r.puts}
		bmu.Unlock()
	})
	var cases []*c05Case
	for i := 0; i < nInputs; i++ {
		sc := genC05Input(run.Seed, i)
		K, P := bases[i].acks, bases[i].puts
		if K < 6 || P < 4 {
			run.Inconclusive(fmt.Sprintf("input %d: baseline too small (acks %d puts %d)", i, K, P))
			continue
		}
		ks := []int{K / 2, K - 2}
		ps := []int{P / 2}
		if run.Thorough() {
			ks, ps = nil, nil
			for k := 3; k < K; k += 2 {
				ks = append(ks, k)
			}
			for n := 2; n < P; n += 3 {
				ps = append(ps, n)
			}
		}
		for _, k := range ks {
			cases = append(cases, &c05Case{Input: i, Sc: sc, Fault: c05Fault{Kind: "skew-kill", N: max(3, k), Round: 4}})
			cases = append(cases, &c05Case{Input: i, Sc: sc, Fault: c05Fault{Kind: "kill-at-ack", N: max(2, k)}})
		}
		for _, n := range ps {
			cases = append(cases, &c05Case{Input: i, Sc: sc, Fault: c05Fault{Kind: "kill-after-put", N: n}})
		}
		cases = append(cases, &c05Case{Input: i, Sc: sc, Fault: c05Fault{Kind: "pause-resume", Round: 3}})
	}
	parallel(len(cases), 10, func(ci int) {
		c := cases[ci]
		r := runC05Case(c, fmt.Sprintf("c03s-%d", ci))
		run.Eval(1)
		tag := fmt.Sprintf("[input %d, %s n=%d] ", c.Input, c.Fault.Kind, c.Fault.N)
		if r.inconclusive != "" && r.c03st.streamsJudged == 0 {
			run.Inconclusive(tag + r.inconclusive)
		}
		for _, v := range r.c03 {
			run.Violate(v.key, tag+v.desc, r.replay)
		}
		run.Count("cases_"+c.Fault.Kind, 1)
		run.Count("restart_points", r.c03st.points)
		run.Count("streams_judged", r.c03st.streamsJudged)
		run.Count("rows_judged_after_resume", r.c03st.rowsJudged)
		run.Count("streams_not_judged_put_in_flight", r.c03st.ambiguous)
		run.Count("streams_not_judged_tick_only_checkpoint", r.c03st.tickOnly)
		if r.c03st.streamsJudged > 0 {
			run.Nontrivial(fmt.Sprintf("%d/%s/%d", c.Input, c.Fault.Kind, c.Fault.N))
		}
	})
	run.Floor("streams_judged", run.Pick(5, 40))
	run.Floor("rows_judged_after_resume", run.Pick(20, 200))
	if p := os.Getenv("C03S_DUMP"); p != "" {
		if err := run.Dump(p); err != nil {
			fmt.Fprintln(os.Stderr, "C03S_DUMP:", err)
			os.Exit(70)
		}
		os.Exit(0)
	}
	_ = sort.Strings
	return run
}
