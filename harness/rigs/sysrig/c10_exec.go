package main

// C10: sequence executor and oracle (see c10.go for the overview).

import (
	"encoding/json"
	"fmt"
	"sort"
	"strings"
	"sync"
	"time"

	"github.com/milvus-io/milvus-proto/go-api/v2/schemapb"

	coremodel "github.com/zilliztech/milvus-cdc/core/model"
	"github.com/zilliztech/milvus-cdc/core/pb"
	"github.com/zilliztech/milvus-cdc/server"
	serverapi "github.com/zilliztech/milvus-cdc/server/api"
	"github.com/zilliztech/milvus-cdc/server/model"
	"github.com/zilliztech/milvus-cdc/server/model/meta"

	"verifharness/internal/sysboot"
	"verifharness/internal/vf"
)

// ---------------- set algebra over a finite universe (the reference; no code of the SUT involved) ----------------

var (
	c10DBs   = []string{"default", "d1", "d2", "d9"}
	c10Colls = []string{"a", "b", "c", "z"}
)

type c10Pair struct{ db, coll string }

func c10Split(full string) (string, string, bool) {
	p := strings.Split(full, ".")
	if len(p) != 2 || p[0] == "" || p[1] == "" {
		return "", "", false
	}
	return p[0], p[1], true
}

// c10Sel expands a full name ("db.coll", either part possibly "*") into the set of universe pairs it names.
func c10Sel(full string) map[c10Pair]bool {
	out := map[c10Pair]bool{}
	db, coll, ok := c10Split(full)
	if !ok {
		return out
	}
	for _, d := range c10DBs {
		if db != "*" && db != d {
			continue
		}
		for _, c := range c10Colls {
			if coll != "*" && coll != c {
				continue
			}
			out[c10Pair{d, c}] = true
		}
	}
	return out
}

func c10Subset(a, b map[c10Pair]bool) bool {
	for k := range a {
		if !b[k] {
			return false
		}
	}
	return true
}

func c10Related(a, b string) bool {
	sa, sb := c10Sel(a), c10Sel(b)
	return c10Subset(sa, sb) || c10Subset(sb, sa)
}

func c10SortedSet(in []string) []string {
	m := map[string]bool{}
	for _, s := range in {
		m[s] = true
	}
	out := make([]string, 0, len(m))
	for s := range m {
		out = append(out, s)
	}
	sort.Strings(out)
	return out
}

func c10Sorted(in []string) []string {
	out := append([]string{}, in...)
	sort.Strings(out)
	return out
}

// c10Diff returns the elements of a not in b and of b not in a (multiset difference on sorted copies).
func c10Diff(a, b []string) (onlyA, onlyB []string) {
	cnt := map[string]int{}
	for _, s := range a {
		cnt[s]++
	}
	for _, s := range b {
		cnt[s]--
	}
	for s, n := range cnt {
		for ; n > 0; n-- {
			onlyA = append(onlyA, s)
		}
		for ; n < 0; n++ {
			onlyB = append(onlyB, s)
		}
	}
	sort.Strings(onlyA)
	sort.Strings(onlyB)
	return
}

// ---------------- store failure injection ----------------

type c10Injector struct {
	mu     sync.Mutex
	armed  bool
	n      int
	failAt int
	hit    bool
	calls  []string
}

func (i *c10Injector) observe(ev sysboot.StoreEvent) sysboot.StoreDecision {
	if ev.Phase != "before" {
		return sysboot.StoreDecision{}
	}
	i.mu.Lock()
	defer i.mu.Unlock()
	if !i.armed {
		return sysboot.StoreDecision{}
	}
	i.n++
	i.calls = append(i.calls, ev.Op+":"+ev.Kind)
	if i.n == i.failAt {
		i.hit = true
		return sysboot.StoreDecision{Fail: "c10 injected store failure"}
	}
	return sysboot.StoreDecision{}
}

func (i *c10Injector) arm(failAt int) {
	i.mu.Lock()
	i.armed, i.n, i.failAt, i.hit, i.calls = true, 0, failAt, false, nil
	i.mu.Unlock()
}

func (i *c10Injector) disarm() (bool, []string) {
	i.mu.Lock()
	defer i.mu.Unlock()
	i.armed = false
	return i.hit, i.calls
}

// ---------------- executor ----------------

type c10Task struct {
	ID       string
	Target   int
	Spec     c10Spec
	UserRole bool
	Data     map[string]any
	ExpExcl  []string
}

type c10Inst struct {
	cdc   *sysboot.CDC
	ghost *c10Ghost
	root  string
}

type c10Obs struct {
	Data    map[int][]string // per target: sorted multiset of spec names
	Excl    map[int][]string // per target: sorted multiset of excluded names
	Extra   map[int]bool     // per target: user-role flag
	NameMap string
	Dump    map[string]string
	Infos   map[string]*meta.TaskInfo
}

type c10Exec struct {
	run      *vf.Run
	w        *sysboot.World
	seq      *c10Seq
	prefix   string
	inj      *c10Injector
	main     *c10Inst
	uriIdx   map[string]int
	live     []*c10Task
	deleted  []*c10Task
	nextID   int
	nRef     int
	mism     map[string]bool // implied-state mismatches currently present
	pairs    map[string]bool // exclusivity violations currently present
	seen     map[string]bool // violations already raised in this sequence
	reported map[string]bool // categories of violations raised in this sequence
	trace    []map[string]any
	word     []string
	step     int
	dead     bool
}

func (x *c10Exec) startInst(root string) (*c10Inst, error) {
	x.w.MetaRoot = root
	in := &c10Inst{root: root}
	cdc, err := x.w.StartCDC(sysboot.CDCOptions{WrapStore: func(f serverapi.MetaStoreFactory) serverapi.MetaStoreFactory {
		in.ghost = &c10Ghost{inner: f}
		return sysboot.WrapStore(in.ghost, x.inj.observe, nil)
	}})
	if err != nil {
		return nil, err
	}
	in.cdc = cdc
	return in, nil
}

// do sends one request under a generous watchdog (its firing makes the run inconclusive, never a verdict).
func (x *c10Exec) do(in *c10Inst, typ string, data any) (sysboot.Response, bool) {
	ch := make(chan sysboot.Response, 1)
	go func() { ch <- in.cdc.Do(typ, data) }()
	select {
	case r := <-ch:
		return r, true
	case <-time.After(240 * time.Second):
		x.dead = true
		return sysboot.Response{}, false
	}
}

// shutdown models the exit of the process hosting the instance: its tasks are stopped, the store is not touched.
func (x *c10Exec) shutdown(in *c10Inst) {
	if in == nil || in.cdc == nil {
		return
	}
	in.ghost.ghost.Store(true)
	for _, t := range in.cdc.Svc.VerifSnapshot().Tasks {
		if _, ok := x.do(in, "delete", map[string]any{"task_id": t.TaskID}); !ok {
			return
		}
	}
}

func (x *c10Exec) observe(in *c10Inst) c10Obs {
	s := in.cdc.Svc.VerifSnapshot()
	o := c10Obs{Data: map[int][]string{}, Excl: map[int][]string{}, Extra: map[int]bool{}, Infos: map[string]*meta.TaskInfo{}}
	idx := func(uri string) int {
		if i, ok := x.uriIdx[uri]; ok {
			return i
		}
		return -1
	}
	for k, v := range s.Data {
		if len(v) > 0 {
			o.Data[idx(k)] = c10Sorted(v)
		}
	}
	for k, v := range s.ExcludeData {
		if len(v) > 0 {
			o.Excl[idx(k)] = c10Sorted(v)
		}
	}
	for k, v := range s.ExtraInfos {
		if v {
			o.Extra[idx(k)] = true
		}
	}
	nm, _ := json.Marshal(s.NameMapping)
	o.NameMap = string(nm)
	d, err := x.w.Etcd.Dump(in.root + "/")
	if err != nil {
		x.run.Inconclusive("etcd dump: " + err.Error())
		d = map[string]string{}
	}
	o.Dump = d
	pfx := in.root + "/task_info/"
	for k, v := range d {
		if !strings.HasPrefix(k, pfx) {
			continue
		}
		ti := &meta.TaskInfo{}
		if err := json.Unmarshal([]byte(v), ti); err != nil {
			x.violate("C10/stored-task-record-unreadable", "store", fmt.Sprintf("key %s: %v", k, err))
			continue
		}
		o.Infos[strings.TrimPrefix(k, pfx)] = ti
	}
	return o
}

func (x *c10Exec) violate(key, cat, desc string) {
	sig := key + "|" + desc
	if x.seen[sig] {
		return
	}
	x.seen[sig] = true
	x.reported[cat] = true
	x.run.Violate(key, fmt.Sprintf("sequence %d (%s) step %d: %s", x.seq.Idx, x.seq.Kind, x.step, desc),
		map[string]any{"sequence": x.seq, "step": x.step, "trace": x.trace, "run_one": fmt.Sprintf("-prop C10 -tier %s -case %d", x.run.Tier, x.seq.Idx)})
}

func (x *c10Exec) createData(st c10Step, id string) map[string]any {
	d := map[string]any{
		"task_id":              id,
		"milvus_connect_param": map[string]any{"uri": x.w.Targets[st.Target].URI(), "token": "root:Milvus", "connect_timeout": 10, "channel_num": 4},
	}
	infos := []any{map[string]any{"name": st.Spec.Coll}}
	switch st.Invalid {
	case "empty-name":
		infos = []any{map[string]any{"name": ""}}
	case "two-infos":
		infos = []any{map[string]any{"name": st.Spec.Coll}, map[string]any{"name": "b2"}}
	}
	if st.Spec.DB == "default" && st.Spec.Via == "" {
		d["collection_infos"] = infos
	} else {
		d["db_collections"] = map[string]any{st.Spec.DB: infos}
	}
	if st.Invalid == "both-kinds" {
		d["collection_infos"] = []any{map[string]any{"name": "a"}}
		d["db_collections"] = map[string]any{"d1": []any{map[string]any{"name": "a"}}}
	}
	if st.UserRole {
		d["extra_info"] = map[string]any{"enable_user_role": true}
	}
	if st.NoAuto {
		d["disable_auto_start"] = true
	}
	srcDB, c := st.Spec.DB, st.Spec.Coll
	if srcDB == "*" {
		srcDB = "d1"
	}
	if c == "*" {
		c = "a"
	}
	switch st.Mapping {
	case "coll":
		d["name_mapping"] = []any{map[string]any{"source_db": srcDB, "target_db": srcDB + "_m", "collection_mapping": map[string]any{c: c + "_m"}}}
	case "db":
		d["name_mapping"] = []any{map[string]any{"source_db": srcDB, "target_db": srcDB + "_m"}}
	case "bad":
		d["name_mapping"] = []any{map[string]any{"source_db": "d7", "target_db": "d7", "collection_mapping": map[string]any{"q": "q2"}}}
	}
	return d
}

func c10SpecOfRecord(ti *meta.TaskInfo) (string, bool) {
	if len(ti.CollectionInfos) == 1 && len(ti.DBCollections) == 0 {
		return "default." + ti.CollectionInfos[0].Name, true
	}
	if len(ti.CollectionInfos) == 0 && len(ti.DBCollections) == 1 {
		for db, infos := range ti.DBCollections {
			if len(infos) == 1 {
				return db + "." + infos[0].Name, true
			}
		}
	}
	return "", false
}

func c10DataPath(ti *meta.TaskInfo, db, coll string) bool {
	_, ok := server.GetShouldReadFunc(ti)(&coremodel.DatabaseInfo{Name: db}, &pb.CollectionInfo{Schema: &schemapb.CollectionSchema{Name: coll}})
	return ok
}

// c10DDLPath is the predicate getChannelReader's dataHandleFunc applies to a DDL message carrying (db, coll).
func c10DDLPath(ti *meta.TaskInfo, db, coll string) bool {
	infos := server.GetCollectionInfos(ti, db, coll)
	if infos == nil {
		return false
	}
	if coll != "" && !server.MatchCollection(ti, infos, db, coll) {
		return false
	}
	return true
}

func (x *c10Exec) traceReq(typ string, summary any, resp sysboot.Response, hit bool) {
	x.trace = append(x.trace, map[string]any{"step": x.step, "type": typ, "req": summary, "code": resp.Code, "message": resp.Message, "injected_failure_hit": hit})
}

func (x *c10Exec) liveIndex(id string) int {
	for i, t := range x.live {
		if t.ID == id {
			return i
		}
	}
	return -1
}

// c10Owners: per (database, collection) of the universe the stored tasks of the target that select it (data path).
func (x *c10Exec) c10Owners(obs c10Obs, target int) map[c10Pair][]string {
	out := map[c10Pair][]string{}
	for id, ti := range obs.Infos {
		if t, ok := x.uriIdx[ti.MilvusConnectParam.URI]; !ok || t != target {
			continue
		}
		for _, db := range c10DBs {
			for _, coll := range c10Colls {
				if c10DataPath(ti, db, coll) {
					out[c10Pair{db, coll}] = append(out[c10Pair{db, coll}], id)
				}
			}
		}
	}
	return out
}

func (x *c10Exec) liveOn(target int) []*c10Task {
	var out []*c10Task
	for _, t := range x.live {
		if t.Target == target {
			out = append(out, t)
		}
	}
	return out
}

// ---- oracle (4): a rejected request changes nothing ----
func (x *c10Exec) checkUnchanged(opkind string, before, after c10Obs) {
	for t := range x.w.Targets {
		if a, b := c10Diff(before.Data[t], after.Data[t]); len(a)+len(b) > 0 {
			x.violate("C10/"+opkind+"-changed-data-bookkeeping", "data", fmt.Sprintf("target %d: data lost %v gained %v (before %v, after %v)", t, a, b, before.Data[t], after.Data[t]))
		}
		if a, b := c10Diff(c10SortedSet(before.Excl[t]), c10SortedSet(after.Excl[t])); len(a)+len(b) > 0 {
			x.violate("C10/"+opkind+"-changed-exclude-bookkeeping", "exclude", fmt.Sprintf("target %d: excludeData lost %v gained %v (before %v, after %v)", t, a, b, before.Excl[t], after.Excl[t]))
		} else if a, b := c10Diff(before.Excl[t], after.Excl[t]); len(a)+len(b) > 0 {
			x.run.Count("info_exclude_multiplicity_changed_by_rejected_request", 1)
		}
		if before.Extra[t] != after.Extra[t] {
			key := "C10/" + opkind + "-changed-user-role-flag"
			if opkind == "failed-create" && after.Extra[t] {
				key = "C10/user-role-flag-survives-failed-create"
			}
			x.violate(key, "userrole", fmt.Sprintf("target %d: extraInfos.EnableUserRole %v -> %v although the request was answered with an error", t, before.Extra[t], after.Extra[t]))
		}
	}
	if before.NameMap != after.NameMap {
		x.run.Count("info_namemapping_changed_by_rejected_request", 1)
	}
	var diff []string
	for k, v := range before.Dump {
		if w, ok := after.Dump[k]; !ok {
			diff = append(diff, "removed "+k)
		} else if w != v {
			diff = append(diff, "changed "+k+": "+v+" => "+w)
		}
	}
	for k := range after.Dump {
		if _, ok := before.Dump[k]; !ok {
			diff = append(diff, "added "+k)
		}
	}
	if len(diff) > 0 {
		sort.Strings(diff)
		key := "C10/" + opkind + "-changed-stored-records"
		onlyPos := true
		for _, d := range diff {
			if !strings.HasPrefix(d, "added ") || !strings.Contains(d, "/task_position/") {
				onlyPos = false
			}
		}
		if onlyPos && opkind == "failed-create" {
			key = "C10/failed-create-leaves-position-record"
		}
		x.violate(key, "store", strings.Join(diff, "; "))
	}
}

// ---- oracles (1) (2) (3) (5): evaluated on the state after a request ----
func (x *c10Exec) checkState(opkind string, obs c10Obs) {
	// stored records == accepted live tasks
	liveByID := map[string]*c10Task{}
	for _, t := range x.live {
		liveByID[t.ID] = t
	}
	for id := range obs.Infos {
		if liveByID[id] == nil {
			x.violate("C10/stored-tasks-differ-from-accepted-tasks", "store", "stored task "+id+" is not an accepted live task (after "+opkind+")")
		}
	}
	for id := range liveByID {
		if obs.Infos[id] == nil {
			x.violate("C10/stored-tasks-differ-from-accepted-tasks", "store", "accepted live task "+id+" has no stored record (after "+opkind+")")
		}
	}
	// (2), (3): per task
	type owner struct{ id, spec string }
	owners := map[int]map[c10Pair][]owner{}
	ids := make([]string, 0, len(obs.Infos))
	for id := range obs.Infos {
		ids = append(ids, id)
	}
	sort.Strings(ids)
	for _, id := range ids {
		ti := obs.Infos[id]
		spec, ok := c10SpecOfRecord(ti)
		if !ok {
			x.violate("C10/stored-task-record-has-no-single-spec", "store", "task "+id)
			continue
		}
		if lt := liveByID[id]; lt != nil && lt.Spec.full() != spec {
			x.violate("C10/stored-spec-differs-from-request", "store", fmt.Sprintf("task %s: stored %s, requested %s", id, spec, lt.Spec.full()))
		}
		target, known := x.uriIdx[ti.MilvusConnectParam.URI]
		if !known {
			target = -1
		}
		want := c10Sel(spec)
		for _, ex := range ti.ExcludeCollections {
			for p := range c10Sel(ex) {
				delete(want, p)
			}
		}
		if owners[target] == nil {
			owners[target] = map[c10Pair][]owner{}
		}
		for _, db := range c10DBs {
			for _, coll := range c10Colls {
				x.run.Eval(1)
				p := c10Pair{db, coll}
				dp := c10DataPath(ti, db, coll)
				if ddl := c10DDLPath(ti, db, coll); ddl != dp {
					x.violate("C10/ddl-path-selection-differs-from-data-path", "select", fmt.Sprintf("task %s spec %s exclude %v: (%s,%s) data path %v, DDL path %v", id, spec, ti.ExcludeCollections, db, coll, dp, ddl))
				}
				if dp != want[p] {
					x.violate("C10/selection-differs-from-spec-minus-excludes", "select", fmt.Sprintf("task %s spec %s exclude %v: ShouldRead(%s,%s)=%v, spec minus excludes says %v", id, spec, ti.ExcludeCollections, db, coll, dp, want[p]))
				}
				if dp {
					owners[target][p] = append(owners[target][p], owner{id, spec})
				}
			}
		}
	}
	// (1) exclusivity
	cur := map[string]bool{}
	for target, m := range owners {
		for p, os := range m {
			for i := 0; i < len(os); i++ {
				for j := i + 1; j < len(os); j++ {
					a, b := os[i], os[j]
					sig := a.id + "|" + b.id
					if cur[sig] {
						continue
					}
					cur[sig] = true
					if x.pairs[sig] {
						continue
					}
					rel := "partial-overlap"
					if c10Related(a.spec, b.spec) {
						// which of the two is the containing (wildcard) one, and was it accepted first?
						cont, inner := a, b
						if c10Subset(c10Sel(a.spec), c10Sel(b.spec)) {
							cont, inner = b, a
						}
						if x.liveIndex(cont.id) < x.liveIndex(inner.id) {
							rel = "name-accepted-under-wildcard"
						} else {
							rel = "wildcard-did-not-exclude-name"
						}
					}
					if opkind != "create" {
						rel += "-after-" + opkind
					}
					x.violate("C10/two-tasks-select-same-collection-"+rel, "exclusive", fmt.Sprintf("target %d: (%s,%s) is selected by task %s (spec %s, exclude %v) and task %s (spec %s, exclude %v), first seen after %s",
						target, p.db, p.coll, a.id, a.spec, obs.Infos[a.id].ExcludeCollections, b.id, b.spec, obs.Infos[b.id].ExcludeCollections, opkind))
				}
			}
		}
	}
	x.pairs = cur
	// (5) implied bookkeeping
	report := opkind == "create" || opkind == "delete" || opkind == "restart"
	curM := map[string]bool{}
	note := func(cat, vcat, what, detail string) {
		sig := cat + "|" + what
		curM[sig] = true
		if x.mism[sig] || !report {
			return
		}
		key := "C10/" + cat + "-after-" + opkind
		switch {
		case cat == "user-role-flag-stale" && opkind == "delete":
			key = "C10/user-role-flag-survives-delete"
		case cat == "user-role-flag-lost" && opkind == "restart":
			key = "C10/user-role-flag-lost-on-reload"
		}
		x.violate(key, vcat, detail)
	}
	for t := range x.w.Targets {
		var wantData, wantExcl []string
		wantExtra := false
		for _, lt := range x.liveOn(t) {
			wantData = append(wantData, lt.Spec.full())
			if ti := obs.Infos[lt.ID]; ti != nil {
				wantExcl = append(wantExcl, ti.ExcludeCollections...)
			} else {
				wantExcl = append(wantExcl, lt.ExpExcl...)
			}
			wantExtra = wantExtra || lt.UserRole
		}
		if lost, stale := c10Diff(wantData, obs.Data[t]); len(lost)+len(stale) > 0 {
			if len(lost) > 0 {
				note("data-bookkeeping-lost", "data", fmt.Sprint(t, lost), fmt.Sprintf("target %d: data lacks %v (live tasks imply %v, bookkeeping has %v)", t, lost, c10Sorted(wantData), obs.Data[t]))
			}
			if len(stale) > 0 {
				note("data-bookkeeping-stale", "data", fmt.Sprint(t, stale), fmt.Sprintf("target %d: data has %v owned by no live task (live tasks imply %v, bookkeeping has %v)", t, stale, c10Sorted(wantData), obs.Data[t]))
			}
		}
		if lost, stale := c10Diff(c10SortedSet(wantExcl), c10SortedSet(obs.Excl[t])); len(lost)+len(stale) > 0 {
			if len(lost) > 0 {
				note("exclude-bookkeeping-lost", "exclude", fmt.Sprint(t, lost), fmt.Sprintf("target %d: excludeData lacks %v which a live task still excludes (stored excludes of live tasks %v, bookkeeping %v)", t, lost, c10SortedSet(wantExcl), obs.Excl[t]))
			}
			if len(stale) > 0 {
				note("exclude-bookkeeping-stale", "exclude", fmt.Sprint(t, stale), fmt.Sprintf("target %d: excludeData has %v which no live task excludes (stored excludes of live tasks %v, bookkeeping %v)", t, stale, c10SortedSet(wantExcl), obs.Excl[t]))
			}
		}
		if wantExtra != obs.Extra[t] {
			if obs.Extra[t] {
				note("user-role-flag-stale", "userrole", fmt.Sprint(t), fmt.Sprintf("target %d: extraInfos.EnableUserRole=true but no live task of the target has the flag", t))
			} else {
				note("user-role-flag-lost", "userrole", fmt.Sprint(t), fmt.Sprintf("target %d: extraInfos.EnableUserRole=false but a live task of the target has the flag", t))
			}
		}
	}
	x.mism = curM
}

func (x *c10Exec) stepCreate(st c10Step) bool {
	id := fmt.Sprintf("%s-t%d", x.prefix, x.nextID)
	x.nextID++
	data := x.createData(st, id)
	before := x.observe(x.main)
	x.inj.arm(st.FailAt)
	resp, ok := x.do(x.main, "create", data)
	hit, calls := x.inj.disarm()
	if !ok {
		return false
	}
	x.run.Count("requests", 1)
	x.run.Count("create_requests", 1)
	for _, lt := range x.liveOn(st.Target) {
		x.run.Distinct("shape_pair_order", lt.Spec.shape()+">"+st.Spec.shape())
	}
	sum := map[string]any{"task_id": id, "target": st.Target, "spec": st.Spec.full(), "user_role": st.UserRole, "mapping": st.Mapping, "invalid": st.Invalid, "fail_at": st.FailAt}
	if hit {
		sum["store_calls"] = calls
	}
	x.traceReq("create", sum, resp, hit)
	after := x.observe(x.main)
	flags := ""
	if st.UserRole {
		flags += "U"
	}
	if st.Mapping != "" {
		flags += "M"
	}
	if st.Target != 0 {
		flags += "2"
	}
	opkind := "create"
	if resp.Code != 200 {
		opkind = "rejected-create"
		if hit {
			opkind = "failed-create"
			x.run.Count("injected_store_failures", 1)
			x.run.Distinct("failed_store_call", fmt.Sprintf("create#%d", st.FailAt))
		}
		x.run.Count("rejected_requests", 1)
		switch {
		case strings.Contains(resp.Message, "duplicate with existing"):
			x.run.Count("rejected_duplicate_collection", 1)
			// informational only (the statement does not forbid rejecting): would the request have selected anything
			// that a stored task selects, after excluding the live names it contains?
			would := c10Sel(st.Spec.full())
			for _, lt := range x.liveOn(st.Target) {
				if s := c10Sel(lt.Spec.full()); c10Subset(s, would) && lt.Spec.full() != st.Spec.full() {
					for p := range s {
						delete(would, p)
					}
				}
			}
			owned := false
			for p, ids := range x.c10Owners(before, st.Target) {
				if would[p] && len(ids) > 0 {
					owned = true
				}
			}
			if !owned && st.Invalid == "" {
				x.run.Count("info_rejected_although_nothing_owned", 1)
				// ... and when, in addition, every live task containing the name carries exactly this name in its
				// stored ExcludeCollections (it was carved out for an owner of that name) and no live task has the
				// name, no clause of the statement covers the rejection: the carve-out can never be used.
				carved, exact := 0, false
				for _, lt := range x.liveOn(st.Target) {
					if lt.Spec.full() == st.Spec.full() {
						exact = true
					} else if c10Subset(c10Sel(st.Spec.full()), c10Sel(lt.Spec.full())) {
						has := false
						if ti := before.Infos[lt.ID]; ti != nil {
							for _, ex := range ti.ExcludeCollections {
								has = has || ex == st.Spec.full()
							}
						}
						if !has {
							carved = -1 << 20
						}
						carved++
					}
				}
				if carved > 0 && !exact {
					if x.explained("exclude") {
						x.run.Count("carved_out_rejection_explained", 1)
					} else {
						x.violate("C10/carved-out-name-rejected", "exclude", fmt.Sprintf("create %s on target %d rejected (%s) although every live task containing it stores it in ExcludeCollections and nothing it would select is selected by a stored task", st.Spec.full(), st.Target, resp.Message))
					}
				}
				x.run.Extra("info_rejected_although_nothing_owned_example", fmt.Sprintf("sequence %d step %d: %s rejected: %s", x.seq.Idx, x.step, st.Spec.full(), resp.Message))
			}
		case strings.Contains(resp.Message, "user role"):
			x.run.Count("rejected_duplicate_user_role", 1)
		case strings.Contains(resp.Message, "name mapping"):
			x.run.Count("rejected_name_mapping", 1)
		case strings.Contains(resp.Message, "fail to connect"):
			x.run.Inconclusive(fmt.Sprintf("sequence %d step %d: target not reachable: %s", x.seq.Idx, x.step, resp.Message))
		}
		x.checkUnchanged(opkind, before, after)
	} else {
		if hit {
			x.run.Count("injected_failure_but_accepted", 1)
		}
		x.run.Count("accepted_creates", 1)
		if st.Mapping != "" {
			x.run.Count("accepted_creates_with_mapping", 1)
		}
		if st.UserRole {
			x.run.Count("accepted_creates_with_user_role", 1)
		}
		var exp []string
		want := c10Sel(st.Spec.full())
		for _, lt := range x.liveOn(st.Target) {
			if c10Subset(c10Sel(lt.Spec.full()), want) {
				exp = append(exp, lt.Spec.full())
			}
		}
		t := &c10Task{ID: id, Target: st.Target, Spec: st.Spec, UserRole: st.UserRole, Data: data, ExpExcl: exp}
		if ti := after.Infos[id]; ti != nil {
			if a, b := c10Diff(c10SortedSet(exp), c10SortedSet(ti.ExcludeCollections)); len(a)+len(b) > 0 {
				x.violate("C10/exclude-collections-differ-from-owned-names", "exclude", fmt.Sprintf("task %s spec %s on target %d: stored ExcludeCollections %v, names of live tasks contained in the spec %v", id, st.Spec.full(), st.Target, ti.ExcludeCollections, exp))
			}
			if ti.ExtraInfo.EnableUserRole != st.UserRole {
				x.violate("C10/stored-user-role-flag-differs-from-request", "userrole", fmt.Sprintf("task %s: stored %v requested %v", id, ti.ExtraInfo.EnableUserRole, st.UserRole))
			}
		}
		if len(exp) > 0 {
			x.run.Count("exclusion_cases", 1)
		}
		x.live = append(x.live, t)
	}
	x.word = append(x.word, opkind+":"+st.Spec.shape()+flags)
	x.checkState(opkind, after)
	return true
}

func (x *c10Exec) stepDelete(t *c10Task, failAt int) bool {
	id := fmt.Sprintf("%s-unknown%d", x.prefix, x.nextID)
	if t != nil {
		id = t.ID
	}
	before := x.observe(x.main)
	x.inj.arm(failAt)
	resp, ok := x.do(x.main, "delete", map[string]any{"task_id": id})
	hit, calls := x.inj.disarm()
	if !ok {
		return false
	}
	x.run.Count("requests", 1)
	sum := map[string]any{"task_id": id, "fail_at": failAt}
	if t != nil {
		sum["spec"], sum["target"] = t.Spec.full(), t.Target
	}
	if hit {
		sum["store_calls"] = calls
	}
	x.traceReq("delete", sum, resp, hit)
	after := x.observe(x.main)
	opkind := "delete"
	if resp.Code != 200 {
		opkind = "rejected-delete"
		if hit {
			opkind = "failed-delete"
			x.run.Count("injected_store_failures", 1)
			x.run.Distinct("failed_store_call", fmt.Sprintf("delete#%d", failAt))
		}
		x.run.Count("rejected_requests", 1)
		x.checkUnchanged(opkind, before, after)
	} else {
		x.run.Count("accepted_deletes", 1)
		if t == nil {
			x.violate("C10/delete-of-unknown-task-accepted", "store", "task id "+id)
		} else {
			for i, lt := range x.live {
				if lt == t {
					x.live = append(x.live[:i:i], x.live[i+1:]...)
					break
				}
			}
			x.deleted = append(x.deleted, t)
			if t.UserRole {
				x.run.Count("deleted_user_role_tasks", 1)
			}
		}
	}
	shape := "unknown"
	if t != nil {
		shape = t.Spec.shape()
	}
	x.word = append(x.word, opkind+":"+shape)
	x.checkState(opkind, after)
	if opkind == "delete" && x.run.Thorough() {
		return x.refCheck(false)
	}
	return true
}

func (x *c10Exec) stepRestart() bool {
	x.shutdown(x.main)
	if x.dead {
		return false
	}
	in, err := x.startInst(x.main.root)
	if err != nil {
		x.run.Inconclusive(fmt.Sprintf("sequence %d: restart failed: %v", x.seq.Idx, err))
		x.dead = true
		return false
	}
	x.main = in
	x.run.Count("restarts", 1)
	if len(x.live) > 0 {
		x.run.Count("restarts_with_tasks", 1)
	}
	x.trace = append(x.trace, map[string]any{"step": x.step, "type": "restart"})
	x.word = append(x.word, "restart")
	x.checkState("restart", x.observe(x.main))
	if x.run.Thorough() {
		return x.refCheck(false)
	}
	return true
}

type c10Probe struct {
	target int
	name   string
	role   bool
}

var c10Probes = []c10Probe{
	{0, "d9.z", true}, {0, "default.a", false}, {0, "default.*", false}, {0, "d1.a", false}, {0, "d1.b", false}, {0, "d1.*", false},
	{0, "d2.a", false}, {0, "*.a", false}, {0, "*.b", false}, {0, "default.b", false}, {0, "*.c", false}, {0, "d2.*", false}, {0, "d9.*", false},
	{0, "*.*", false}, {0, "d9.c", true},
	{1, "d9.z", true}, {1, "d1.a", false}, {1, "d1.*", false}, {1, "*.a", false}, {1, "*.*", false}, {1, "d9.c", true},
}

func (x *c10Exec) explained(cat string) bool {
	if cat == "collections" {
		return x.reported["exclude"] || x.reported["data"] || x.reported["exclusive"]
	}
	return x.reported[cat]
}

// refCheck compares the instance with a reference on which only the remaining tasks are created, in their original
// order, on a fresh meta root. It is applicable when no deleted task was related (one name containing the other) to a
// remaining task: otherwise the remaining tasks legitimately carry exclusions / acceptances that depended on the
// deleted task and a re-creation cannot reproduce them.
func (x *c10Exec) refCheck(final bool) bool {
	for _, d := range x.deleted {
		for _, r := range x.live {
			if d.Target == r.Target && c10Related(d.Spec.full(), r.Spec.full()) {
				x.run.Count("reference_skipped_not_comparable", 1)
				return true
			}
		}
	}
	x.nRef++
	ref, err := x.startInst(fmt.Sprintf("%s-ref%d", x.main.root, x.nRef))
	x.w.MetaRoot = x.main.root
	if err != nil {
		x.run.Inconclusive(fmt.Sprintf("sequence %d: reference instance: %v", x.seq.Idx, err))
		return true
	}
	defer x.shutdown(ref)
	refID := map[string]string{}
	for _, r := range x.live {
		data := map[string]any{}
		for k, v := range r.Data {
			data[k] = v
		}
		rid := fmt.Sprintf("R%d-%s", x.nRef, r.ID)
		data["task_id"] = rid
		refID[r.ID] = rid
		resp, ok := x.do(ref, "create", data)
		if !ok {
			return false
		}
		if resp.Code != 200 {
			cat := "collections"
			if strings.Contains(resp.Message, "user role") {
				cat = "userrole"
			}
			if x.explained(cat) {
				x.run.Count("reference_diff_explained_"+cat, 1)
			} else {
				x.violate("C10/reference-instance-rejects-remaining-task", cat, fmt.Sprintf("re-creating the remaining tasks in order on a fresh instance: task %s (spec %s, target %d, user role %v) is rejected: %s", r.ID, r.Spec.full(), r.Target, r.UserRole, resp.Message))
			}
			return true
		}
	}
	mo, ro := x.observe(x.main), x.observe(ref)
	x.run.Count("reference_compared", 1)
	differs := func(cat, desc string) {
		if x.explained(cat) {
			x.run.Count("reference_diff_explained_"+cat, 1)
			return
		}
		x.violate("C10/reference-instance-differs-"+cat, cat, "instance vs reference with only the remaining tasks: "+desc)
	}
	for t := range x.w.Targets {
		if a, b := c10Diff(mo.Data[t], ro.Data[t]); len(a)+len(b) > 0 {
			differs("data", fmt.Sprintf("target %d data: only instance %v, only reference %v", t, a, b))
		}
		if a, b := c10Diff(c10SortedSet(mo.Excl[t]), c10SortedSet(ro.Excl[t])); len(a)+len(b) > 0 {
			differs("exclude", fmt.Sprintf("target %d excludeData: only instance %v, only reference %v", t, a, b))
		}
		if mo.Extra[t] != ro.Extra[t] {
			differs("userrole", fmt.Sprintf("target %d extraInfos.EnableUserRole: instance %v, reference %v", t, mo.Extra[t], ro.Extra[t]))
		}
	}
	for _, r := range x.live {
		mi, ri := mo.Infos[r.ID], ro.Infos[refID[r.ID]]
		if mi == nil || ri == nil {
			continue
		}
		if a, b := c10Diff(c10SortedSet(mi.ExcludeCollections), c10SortedSet(ri.ExcludeCollections)); len(a)+len(b) > 0 {
			differs("exclude", fmt.Sprintf("task %s (spec %s) ExcludeCollections: instance %v, reference %v", r.ID, r.Spec.full(), mi.ExcludeCollections, ri.ExcludeCollections))
		}
	}
	if mo.NameMap != ro.NameMap {
		x.run.Count("info_namemapping_differs_from_reference", 1)
	}
	if !final {
		return true
	}
	// observational comparison: the same probe specifications are put to checkDuplicateCollection on both instances
	// (it mutates the bookkeeping on success: this is the last thing that happens to either instance)
	for _, p := range c10Probes {
		if p.target >= len(x.w.Targets) {
			continue
		}
		uri := x.w.Targets[p.target].URI()
		me, merr := x.main.cdc.Svc.VerifCheckDuplicate(uri, []string{p.name}, model.ExtraInfo{EnableUserRole: p.role}, nil)
		re, rerr := ref.cdc.Svc.VerifCheckDuplicate(uri, []string{p.name}, model.ExtraInfo{EnableUserRole: p.role}, nil)
		x.run.Count("probes", 1)
		a, b := c10Diff(c10SortedSet(me), c10SortedSet(re))
		if (merr == nil) == (rerr == nil) && len(a)+len(b) == 0 {
			continue
		}
		cat := "collections"
		if strings.Contains(fmt.Sprint(merr, rerr), "user role") {
			cat = "userrole"
		}
		desc := fmt.Sprintf("probe (target %d, %s, user role %v): instance -> (exclude %v, err %v), reference -> (exclude %v, err %v)", p.target, p.name, p.role, me, merr, re, rerr)
		if x.explained(cat) {
			x.run.Count("probe_diff_explained_"+cat, 1)
			x.run.Extra("probe_diff_example_"+cat, desc)
		} else {
			x.violate("C10/probe-decision-differs-from-reference-"+cat, cat, desc)
		}
		break
	}
	return true
}

// c10RunSeq executes one sequence on the world; false = the world must be abandoned (watchdog).
func c10RunSeq(run *vf.Run, w *sysboot.World, seq *c10Seq) bool {
	x := &c10Exec{run: run, w: w, seq: seq, prefix: fmt.Sprintf("s%d", seq.Idx), inj: &c10Injector{}, uriIdx: map[string]int{},
		mism: map[string]bool{}, pairs: map[string]bool{}, seen: map[string]bool{}, reported: map[string]bool{}}
	for i, t := range w.Targets {
		x.uriIdx[t.URI()] = i
	}
	in, err := x.startInst(fmt.Sprintf("c10-s%d", seq.Idx))
	if err != nil {
		run.Inconclusive(fmt.Sprintf("sequence %d: start: %v", seq.Idx, err))
		return true
	}
	x.main = in
	defer func() {
		x.shutdown(x.main)
	}()
	for si, st := range seq.Steps {
		x.step = si
		ok := true
		switch st.Op {
		case "create":
			ok = x.stepCreate(st)
		case "toggle", "delspec":
			var found *c10Task
			for _, lt := range x.live {
				if lt.Target == st.Target && lt.Spec.full() == st.Spec.full() {
					found = lt
				}
			}
			if found != nil || st.Op == "delspec" {
				ok = x.stepDelete(found, 0)
			} else {
				ok = x.stepCreate(st)
			}
		case "delete":
			var t *c10Task
			if st.Del >= 0 && len(x.live) > 0 {
				t = x.live[st.Del%len(x.live)]
			}
			ok = x.stepDelete(t, st.FailAt)
		case "restart":
			ok = x.stepRestart()
		}
		if !ok || x.dead {
			return false
		}
		if run.Thorough() && strings.HasPrefix(x.word[len(x.word)-1], "failed-create") {
			if !x.refCheck(false) {
				return false
			}
		}
	}
	x.step = len(seq.Steps)
	if !x.refCheck(true) || x.dead {
		return false
	}
	accepted := false
	for _, wd := range x.word {
		if strings.HasPrefix(wd, "create:") {
			accepted = true
		}
	}
	if accepted {
		run.Nontrivial(strings.Join(x.word, " "))
	}
	run.Count("sequences", 1)
	run.Count("sequences_"+seq.Kind, 1)
	run.Sample(map[string]any{"sequence": seq, "outcome": x.word})
	return true
}
