package main

// C10 — a source collection is replicated by at most one task per target.
//
// Runtime monitoring of the REAL server (server.MetaCDC + the /cdc HTTP handler, real EtcdMetaStore, real readers
// against fakemilvus / memq), in this process. Generated sequences of create / delete requests, "restarts" (the old
// instance is shut down with a ghost store, a new MetaCDC + ReloadTask is built on the same meta root) and store
// failures injected at the k-th store call of a request. After EVERY request the monitor (c10_exec.go) evaluates:
//   (1) exclusivity     per target and (database, collection) of a finite universe at most one stored task selects it
//                       (real server.GetShouldReadFunc on the TaskInfo read back from etcd);
//   (2) differential    DDL path (GetCollectionInfos + MatchCollection as getChannelReader uses them) == data path;
//   (3) selection       ShouldRead == spec(t) minus stored ExcludeCollections, and ExcludeCollections == the names of
//                       the other live tasks of the target contained in spec(t) at creation (set algebra over the
//                       request history);
//   (4) rejection       a request answered with code != 200 leaves data / excludeData / extraInfos and the etcd
//                       records under the meta root unchanged;
//   (5) implied state   after every accepted request and every restart the bookkeeping equals what the live tasks
//                       imply (multiset of their spec names, union of their stored excludes, OR of their user-role
//                       flags); at the end of a sequence (thorough: also after every delete / failed create /
//                       restart) the instance is compared with a REFERENCE instance on a fresh meta root on which
//                       only the remaining tasks were created in their original order, and a fixed probe list is put
//                       to checkDuplicateCollection (hook) on both.

import (
	"fmt"
	"flag"
	"os"
	"os/exec"
	"path/filepath"
	"runtime"
	"sync"

	"verifharness/internal/sysboot"
	"verifharness/internal/vf"
)

type c10Spec struct {
	DB   string `json:"db"`            // default | d1 | d2 | *
	Coll string `json:"coll"`          // a | b | *
	Via  string `json:"via,omitempty"` // "" (collection_infos for default, db_collections otherwise) | "dbc" (db_collections even for default)
}

func (s c10Spec) full() string { return s.DB + "." + s.Coll }

func (s c10Spec) shape() string {
	d, c := "named", "named"
	switch s.DB {
	case "default":
		d = "default"
	case "*":
		d = "star"
	}
	if s.Coll == "*" {
		c = "star"
	}
	return d + "." + c
}

type c10Step struct {
	Op       string  `json:"op"` // create | toggle | delete | delspec | restart
	Target   int     `json:"target"`
	Spec     c10Spec `json:"spec,omitempty"`
	UserRole bool    `json:"user_role,omitempty"`
	Mapping  string  `json:"mapping,omitempty"` // "" | coll | db | bad
	FailAt   int     `json:"fail_at,omitempty"` // k-th store call of this request fails (0: none)
	Del      int     `json:"del,omitempty"`     // delete: index into the live list (mod len); <0: unknown id
	Invalid  string  `json:"invalid,omitempty"` // empty-name | two-infos | both-kinds
	NoAuto   bool    `json:"disable_auto_start,omitempty"`
}

type c10Seq struct {
	Idx   int       `json:"idx"`
	Kind  string    `json:"kind"`
	Steps []c10Step `json:"steps"`
}

var c10Shapes = []c10Spec{
	{DB: "default", Coll: "a"}, {DB: "default", Coll: "*"},
	{DB: "d1", Coll: "a"}, {DB: "d1", Coll: "*"},
	{DB: "*", Coll: "a"}, {DB: "*", Coll: "*"},
}

func c10RandSpec(rnd interface{ Intn(int) int }) c10Spec {
	var s c10Spec
	switch q := rnd.Intn(100); {
	case q < 45:
		s.DB = "d1"
	case q < 65:
		s.DB = "default"
		if rnd.Intn(10) < 3 {
			s.Via = "dbc"
		}
	case q < 93:
		s.DB = "*"
	default:
		s.DB = "d2"
	}
	switch q := rnd.Intn(100); {
	case q < 50:
		s.Coll = "a"
	case q < 88:
		s.Coll = "*"
	default:
		s.Coll = "b"
	}
	return s
}

func c10RandStep(rnd interface{ Intn(int) int }) c10Step {
	target := 0
	if rnd.Intn(4) == 0 {
		target = 1
	}
	mapping := func() string {
		switch q := rnd.Intn(100); {
		case q < 60:
			return ""
		case q < 80:
			return "coll"
		case q < 92:
			return "db"
		}
		return "bad"
	}
	switch q := rnd.Intn(100); {
	case q < 58:
		st := c10Step{Op: "toggle", Target: target, Spec: c10RandSpec(rnd), UserRole: rnd.Intn(4) == 0, Mapping: mapping()}
		if rnd.Intn(10) < 3 {
			st.Op = "create"
		}
		st.NoAuto = rnd.Intn(6) == 0
		if rnd.Intn(100) < 18 {
			st.FailAt = 1 + rnd.Intn(6)
		}
		if rnd.Intn(100) < 4 {
			st.Invalid = []string{"empty-name", "two-infos", "both-kinds"}[rnd.Intn(3)]
		}
		return st
	case q < 76:
		st := c10Step{Op: "delete", Target: target, Del: rnd.Intn(100)}
		if rnd.Intn(10) == 0 {
			st.Del = -1
		}
		if rnd.Intn(100) < 12 {
			st.FailAt = 1 + rnd.Intn(5)
		}
		return st
	case q < 88:
		return c10Step{Op: "restart"}
	default:
		st := c10Step{Op: "create", Target: target, Spec: c10RandSpec(rnd), UserRole: true}
		if rnd.Intn(100) < 25 {
			st.FailAt = 1 + rnd.Intn(6)
		}
		return st
	}
}

// c10Sequences: the case list is a fixed function of (seed, tier).
//
//	A  every ordered pair of the 6 spec shapes, created in that order on one target, followed by 0-3 random steps
//	B  every ordered triple (X, Y, Z) of distinct shapes: create X, create Y, delete X, create Z, create X
//	W  every toggle word of length 5 over {d1.a, d1.*, *.a, *.*} without immediate repetition
//	D  containment chains with a failing / deleted outermost wildcard; U  user-role flag through delete / failure / restart
//	C  random sequences of 1-8 steps: toggles/creates over all shapes, +-user role, +-name mapping, two targets,
//	   deletes, restarts, injected store failures, invalid requests
func c10Sequences(run *vf.Run) []*c10Seq {
	var out []*c10Seq
	add := func(kind string, steps []c10Step) {
		out = append(out, &c10Seq{Idx: len(out), Kind: kind, Steps: steps})
	}
	for i, x := range c10Shapes {
		for j, y := range c10Shapes {
			rnd := vf.Rand(run.Seed, "c10-A", i*6+j)
			y2 := y
			if i == j && y.Coll != "*" {
				y2.Coll = "b" // same shape, different collection
			}
			st := []c10Step{{Op: "create", Spec: x}, {Op: "create", Spec: y2}}
			if i == j {
				st = append(st, c10Step{Op: "create", Spec: x}) // exact duplicate
			}
			if rnd.Intn(3) == 0 {
				st[0].UserRole = true
			}
			if rnd.Intn(3) == 0 {
				st[1].UserRole = true
			}
			for n := rnd.Intn(4); n > 0; n-- {
				st = append(st, c10RandStep(rnd))
			}
			add("A", st)
		}
	}
	nB := 0
	for i, x := range c10Shapes {
		for j, y := range c10Shapes {
			for k, z := range c10Shapes {
				if i == j || j == k || i == k {
					continue
				}
				nB++
				st := []c10Step{{Op: "create", Spec: x}, {Op: "create", Spec: y}, {Op: "delspec", Spec: x}, {Op: "create", Spec: z}, {Op: "create", Spec: x}}
				rnd := vf.Rand(run.Seed, "c10-B", nB)
				if rnd.Intn(4) == 0 {
					st = append(st[:3:3], append([]c10Step{{Op: "restart"}}, st[3:]...)...)
				}
				add("B", st)
			}
		}
	}
	// D: chains of contained specifications x < y < z: create x, y, then z (accepted and deleted again, or failing at the
	//    k-th store call), optionally a restart, then delete x and create x again.
	chains := [][3]c10Spec{
		{{DB: "default", Coll: "a"}, {DB: "default", Coll: "*"}, {DB: "*", Coll: "*"}},
		{{DB: "default", Coll: "a"}, {DB: "*", Coll: "a"}, {DB: "*", Coll: "*"}},
		{{DB: "d1", Coll: "a"}, {DB: "d1", Coll: "*"}, {DB: "*", Coll: "*"}},
		{{DB: "d1", Coll: "a"}, {DB: "*", Coll: "a"}, {DB: "*", Coll: "*"}},
	}
	for ci, ch := range chains {
		for v := 0; v <= 7; v++ {
			st := []c10Step{{Op: "create", Spec: ch[0]}, {Op: "create", Spec: ch[1]}}
			switch {
			case v == 0:
				st = append(st, c10Step{Op: "create", Spec: ch[2]}, c10Step{Op: "delspec", Spec: ch[2]})
			case v == 7:
				st = append(st, c10Step{Op: "create", Spec: ch[2]}, c10Step{Op: "restart"}, c10Step{Op: "delspec", Spec: ch[2]})
			default:
				st = append(st, c10Step{Op: "create", Spec: ch[2], FailAt: v})
			}
			if (ci+v)%3 == 0 {
				st = append(st, c10Step{Op: "restart"})
			}
			st = append(st, c10Step{Op: "delspec", Spec: ch[0]}, c10Step{Op: "create", Spec: ch[0]})
			add("D", st)
		}
	}
	// U: the user-role flag through delete, failed create and restart, on both targets
	for ti := 0; ti < 2; ti++ {
		x, y, z := c10Spec{DB: "d1", Coll: "a"}, c10Spec{DB: "d2", Coll: "a"}, c10Spec{DB: "default", Coll: "b"}
		add("U", []c10Step{{Op: "create", Target: ti, Spec: x, UserRole: true}, {Op: "delspec", Target: ti, Spec: x}, {Op: "create", Target: ti, Spec: y, UserRole: true}})
		add("U", []c10Step{{Op: "create", Target: ti, Spec: x, UserRole: true}, {Op: "create", Target: ti, Spec: y}, {Op: "delspec", Target: ti, Spec: x}, {Op: "restart"}, {Op: "create", Target: ti, Spec: z, UserRole: true}})
		for k := 1; k <= 6; k++ {
			add("U", []c10Step{{Op: "create", Target: ti, Spec: x}, {Op: "create", Target: ti, Spec: y, UserRole: true, FailAt: k}, {Op: "create", Target: ti, Spec: y, UserRole: true}})
		}
		add("U", []c10Step{{Op: "create", Target: ti, Spec: x, UserRole: true}, {Op: "create", Target: ti, Spec: y}, {Op: "restart"}, {Op: "create", Target: ti, Spec: z, UserRole: true}})
		// a task that is not started automatically after a restart still owns its names and the user role
		add("U", []c10Step{{Op: "create", Target: ti, Spec: x, UserRole: true, NoAuto: true}, {Op: "restart"}, {Op: "create", Target: ti, Spec: x}, {Op: "create", Target: ti, Spec: y, UserRole: true}, {Op: "create", Target: ti, Spec: c10Spec{DB: "*", Coll: "*"}}})
		add("U", []c10Step{{Op: "create", Target: ti, Spec: y, NoAuto: true}, {Op: "create", Target: ti, Spec: x}, {Op: "restart"}, {Op: "create", Target: ti, Spec: y}, {Op: "restart"}, {Op: "delspec", Target: ti, Spec: y}, {Op: "create", Target: ti, Spec: y}})
		add("U", []c10Step{{Op: "create", Target: ti, Spec: x}, {Op: "create", Target: ti, Spec: y, UserRole: true}, {Op: "restart"}, {Op: "create", Target: ti, Spec: z, UserRole: true}})
		add("U", []c10Step{{Op: "create", Target: ti, Spec: x, UserRole: true}, {Op: "create", Target: 1 - ti, Spec: x, UserRole: true}, {Op: "create", Target: ti, Spec: y, UserRole: true}, {Op: "delspec", Target: 1 - ti, Spec: x}, {Op: "restart"}, {Op: "create", Target: 1 - ti, Spec: y, UserRole: true}})
	}
	{
		sigma := []c10Spec{{DB: "d1", Coll: "a"}, {DB: "d1", Coll: "*"}, {DB: "*", Coll: "a"}, {DB: "*", Coll: "*"}}
		for w := 0; w < 1024; w++ {
			var st []c10Step
			v, prev, ok := w, -1, true
			for n := 0; n < 5; n++ {
				c := v % 4
				v /= 4
				if c == prev { // toggling the same spec twice in a row: covered by shorter words
					ok = false
					break
				}
				prev = c
				st = append(st, c10Step{Op: "toggle", Spec: sigma[c]})
			}
			if ok {
				add("W", st)
			}
		}
	}
	nC := run.Pick(500, 9000)
	for i := 0; i < nC; i++ {
		rnd := vf.Rand(run.Seed, "c10-C", i)
		n := 1 + rnd.Intn(8)
		var st []c10Step
		for k := 0; k < n; k++ {
			st = append(st, c10RandStep(rnd))
		}
		add("C", st)
	}
	return out
}

const c10BatchSize = 40

var (
	fC10Batch   = flag.Int("c10-batch", -1, "C10 worker: batch number")
	fC10Batches = flag.Int("c10-batches", 1, "C10 worker: number of batches")
	fC10Dump    = flag.String("c10-dump", "", "C10 worker: file for the partial run")
)

// c10RunBatch runs the sequences on nw worlds of this process (sequences of one world run one after the other).
func c10RunBatch(run *vf.Run, seqs []*c10Seq, name string, nw int) {
	if len(seqs) < nw {
		nw = len(seqs)
	}
	var wg sync.WaitGroup
	for wi := 0; wi < nw; wi++ {
		wg.Add(1)
		go func(wi int) {
			defer wg.Done()
			var w *sysboot.World
			var err error
			for try := 0; try < 6; try++ { // free ports are picked, released and bound again: concurrent workers can collide
				if w, err = sysboot.NewWorld(sysboot.WorldOptions{Dir: scratchDir(fmt.Sprintf("c10-%s-w%d-%d", name, wi, try)), Targets: 2}); err == nil {
					break
				}
			}
			if err != nil {
				run.Inconclusive(fmt.Sprintf("batch %s world %d: %v", name, wi, err))
				return
			}
			defer w.Close()
			for i := wi; i < len(seqs); i += nw {
				if !c10RunSeq(run, w, seqs[i]) {
					run.Inconclusive(fmt.Sprintf("batch %s world %d abandoned at sequence %d (watchdog)", name, wi, seqs[i].Idx))
					return
				}
			}
		}(wi)
	}
	wg.Wait()
}

func runC10(tier string) *vf.Run {
	run := vf.NewRun("C10", tier, "exploration")
	run.Rule = "a case is one sequence of create/delete/restart requests (1-8 steps; shape pairs A, delete/re-create triples B, " +
		"random C with user-role flag, name mappings, two targets, injected store failures) sent to the real /cdc handler; " +
		"toggle words W, containment chains D, user-role cases U; non-trivial: at least one create was accepted; distinct by the word of (operation, spec shape, flags, outcome)"
	run.Assumptions = []string{
		"MetaCDC instances run in the rig's process; a restart is a new MetaCDC + ReloadTask on the same etcd meta root after the old instance was stopped through a ghost store (writes dropped) — process-wide singletons (metrics, client cache) are shared with the old incarnation",
		"every task has exactly one specification entry (validCreateRequest admits no more); names contain no '.'",
		"store failures are injected one per request, before the call reaches etcd",
		"the universe of (database, collection) pairs is {default,d1,d2,d9} x {a,b,c,z}; d9 and z are never named by a specification",
	}
	seqs := c10Sequences(run)
	switch {
	case *fCase >= 0: // debug: one sequence, in this process
		var one []*c10Seq
		for _, s := range seqs {
			if s.Idx == *fCase {
				one = append(one, s)
			}
		}
		c10RunBatch(run, one, "one", 1)
	case *fC10Batch >= 0: // worker process: its share of the case list, then dump the partial run for the parent
		var mine []*c10Seq
		for i, s := range seqs {
			if i%*fC10Batches == *fC10Batch {
				mine = append(mine, s)
			}
		}
		c10RunBatch(run, mine, fmt.Sprintf("b%d", *fC10Batch), 2)
		fmt.Fprintf(os.Stderr, "c10 worker %d/%d: %d sequences done, %d goroutines alive\n", *fC10Batch, *fC10Batches, len(mine), runtime.NumGoroutine())
		if err := run.Dump(*fC10Dump); err != nil {
			fmt.Fprintln(os.Stderr, "c10 worker: dump:", err)
			os.Exit(70)
		}
		os.Exit(0)
	default:
		// The SUT leaks gRPC / etcd clients and goroutines per task and per MetaCDC instance (≈ 13 MB per sequence under
		// the race detector), so the case list is executed by short-lived worker processes.
		batches := (len(seqs) + c10BatchSize - 1) / c10BatchSize
		parallel(batches, 7, func(b int) {
			dump := filepath.Join(scratchDir("c10-dumps"), fmt.Sprintf("b%d.json", b))
			cmd := exec.Command(os.Args[0], "-prop", "C10", "-tier", tier, "-c10-batch", fmt.Sprint(b), "-c10-batches", fmt.Sprint(batches), "-c10-dump", dump)
			cmd.Stdout, cmd.Stderr = os.Stdout, os.Stderr
			err := cmd.Run()
			if merr := run.Merge(dump); merr != nil {
				run.Inconclusive(fmt.Sprintf("worker %d of %d: no result (%v, %v)", b, batches, err, merr))
			} else if err != nil {
				run.Inconclusive(fmt.Sprintf("worker %d of %d: %v", b, batches, err))
			}
		})
		fmt.Fprintf(os.Stderr, "c10: %d sequences in %d worker processes\n", len(seqs), batches)
		c10Concurrent(run)
	}
	if *fCase < 0 {
		run.Floor("shape_pair_order", 36)
		run.Floor("rejected_requests", run.Pick(50, 500))
		run.Floor("restarts", run.Pick(20, 200))
		run.Floor("injected_store_failures", run.Pick(10, 100))
		run.Floor("accepted_creates", run.Pick(300, 3000))
		run.Floor("accepted_deletes", run.Pick(60, 600))
		run.Floor("reference_compared", run.Pick(60, 600))
		run.Floor("exclusion_cases", run.Pick(40, 400))
	}
	return run
}
