package main

// C05, operation-channel part — the checkpoint of the source's DDL/RBAC replicate channel (stored as the
// checkpoint of collection -10 of the task) never runs ahead of the operations the downstream acknowledged, and a
// restart / resume from it re-reads every operation that was not acknowledged.
//
// The operation messages (CreateIndex / LoadCollection / ReleaseCollection / Flush for a live
// collection) travel on their own source channel through the non-tt dispatcher, ChannelReader, the task's
// selection predicate, ChannelWriter.HandleOpMessagePack and the SDK; each carries a unique Base.MsgID which the
// SDK passes on, so a downstream call identifies exactly one source operation.
//
// Faults, one per case, at an enumerated step of a fault-free run of the same input: SIGKILL while the reply of
// the k-th operation call is held (applied downstream, ack never seen), SIGKILL just before / after the n-th Put
// of the -10 checkpoint, the k-th operation call rejected on every attempt (task pauses; resumed by the
// supervisor), the n-th -10 Put failing (same), pause + resume between two rounds.
//
// Oracle over the supervisor's one clock:
//   (a) a Put of the -10 checkpoint announced (before it is performed) with position id P: every operation message
//       with source id <= P was accepted downstream earlier in the log;
//   (b) after the recovery (dead child restarted, paused task resumed) a sentinel operation is written; the channel
//       delivers in order, so once the sentinel is accepted in the last incarnation every earlier operation is
//       decided: one that was never accepted in any incarnation is lost. A lost operation written before the new
//       readers were up, when no -10 checkpoint had been performed before the old ones went away, is filed under the
//       recorded finding (the channel is then subscribed at its latest message, like a collection without a
//       checkpoint).

import (
	"context"
	"fmt"
	"os"
	"sort"
	"strings"
	"sync"
	"time"

	"github.com/milvus-io/milvus-proto/go-api/v2/commonpb"
	"github.com/milvus-io/milvus-proto/go-api/v2/milvuspb"
	"github.com/milvus-io/milvus/pkg/mq/msgstream"
	"google.golang.org/grpc/codes"

	mqcommon "github.com/milvus-io/milvus/pkg/mq/common"

	"verifharness/internal/fakemilvus"
	"verifharness/internal/memq"
	"verifharness/internal/sysboot"
	"verifharness/internal/vf"
)

const c05opColl = "c05op_a"

var c05opMethods = map[string]bool{"CreateIndex": true, "DropIndex": true, "LoadCollection": true, "ReleaseCollection": true, "Flush": true}

type c05opCase struct {
	Input  int      `json:"input"`
	Rounds int      `json:"rounds"`
	Kinds  []string `json:"op_kinds"` // one per round, "" = no operation in that round
	Early  bool     `json:"operations_before_first_checkpoint"`
	Fault  c05Fault `json:"fault"`
}

type c05opMsg struct {
	UID    int64  `json:"uid"`
	Kind   string `json:"kind"`
	MsgID  uint64 `json:"msg_id"`
	TS     uint64 `json:"ts"`
	SentAt int64  `json:"sent_at"`
}

type c05opResult struct {
	vios          []vio
	inconclusive  string
	opAcks, puts  int
	faultHit      bool
	restarts      int
	decidedBySent bool
	replay        map[string]any
}

func genC05opInput(seed int64, idx int) *c05opCase {
	rnd := vf.Rand(seed, "c05op-input", idx)
	c := &c05opCase{Input: idx, Rounds: 7 + rnd.Intn(4)}
	// every kind is idempotent downstream (an operation may be applied again after a restart) and none depends on
	// another one except on the index created by the first operation
	kinds := []string{"CreateIndex", "LoadCollection", "Flush", "ReleaseCollection"}
	for r := 0; r < c.Rounds; r++ {
		k := ""
		if r == 0 {
			k = "CreateIndex"
		} else if rnd.Intn(10) < 8 {
			k = kinds[rnd.Intn(len(kinds))]
		}
		c.Kinds = append(c.Kinds, k)
	}
	return c
}

type c05opRun struct {
	s    *super
	rs   *runState
	mu   sync.Mutex
	sent []c05opMsg
	idx  int
}

func (x *c05opRun) sendOp(kind string) (c05opMsg, error) {
	src := x.s.w.Src
	rs := x.rs
	rs.mu.Lock()
	uid := rs.nextUID
	rs.nextUID++
	rs.mu.Unlock()
	topic := x.s.w.ReplicateChan()
	ids, ts, err := src.SendStamped(topic, func(ts uint64) msgstream.TsMsg {
		// recorded before the message exists on the topic: a downstream call is attributed through this list
		x.mu.Lock()
		x.sent = append(x.sent, c05opMsg{UID: uid, Kind: kind, TS: ts})
		x.mu.Unlock()
		base := &commonpb.MsgBase{MsgID: uid, Timestamp: ts, SourceID: 7}
		bm := msgstream.BaseMsg{BeginTimestamp: ts, EndTimestamp: ts, HashValues: []uint32{0}}
		switch kind {
		case "LoadCollection":
			base.MsgType = commonpb.MsgType_LoadCollection
			return &msgstream.LoadCollectionMsg{BaseMsg: bm, LoadCollectionRequest: &milvuspb.LoadCollectionRequest{Base: base, DbName: "default", CollectionName: c05opColl, ReplicaNumber: 1}}
		case "ReleaseCollection":
			base.MsgType = commonpb.MsgType_ReleaseCollection
			return &msgstream.ReleaseCollectionMsg{BaseMsg: bm, ReleaseCollectionRequest: &milvuspb.ReleaseCollectionRequest{Base: base, DbName: "default", CollectionName: c05opColl}}
		case "Flush":
			base.MsgType = commonpb.MsgType_Flush
			return &msgstream.FlushMsg{BaseMsg: bm, FlushRequest: &milvuspb.FlushRequest{Base: base, DbName: "default", CollectionNames: []string{c05opColl}}}
		}
		base.MsgType = commonpb.MsgType_CreateIndex
		return &msgstream.CreateIndexMsg{BaseMsg: bm, CreateIndexRequest: &milvuspb.CreateIndexRequest{Base: base, DbName: "default", CollectionName: c05opColl, FieldName: "vec", IndexName: "c05op_ix",
			ExtraParams: []*commonpb.KeyValuePair{{Key: "index_type", Value: "FLAT"}, {Key: "metric_type", Value: "L2"}}}}
	})
	if err != nil {
		return c05opMsg{}, err
	}
	m := c05opMsg{UID: uid, Kind: kind, MsgID: ids[0], TS: ts, SentAt: x.s.tick()}
	x.mu.Lock()
	for i := range x.sent {
		if x.sent[i].UID == uid {
			x.sent[i] = m
		}
	}
	x.mu.Unlock()
	return m, nil
}

func (x *c05opRun) sentCopy() []c05opMsg {
	x.mu.Lock()
	defer x.mu.Unlock()
	return append([]c05opMsg{}, x.sent...)
}

// opUID attributes a downstream call to its source operation: the SDK passes the source message's base on
// (Base.MsgID = the unique id) for the index and load requests; flush and release requests are built with a base of
// the writer's own that carries only the replication stamp, whose MsgTimestamp is the source operation's timestamp
// (unique per operation: the source clock advances with every message). 0 = not attributable.
func (x *c05opRun) opUID(call *fakemilvus.Call) int64 {
	b, ok := call.Req.(interface{ GetBase() *commonpb.MsgBase })
	if !ok || b.GetBase() == nil {
		return 0
	}
	if id := b.GetBase().GetMsgID(); id != 0 {
		return id
	}
	if ts := b.GetBase().GetReplicateInfo().GetMsgTimestamp(); ts != 0 {
		x.mu.Lock()
		defer x.mu.Unlock()
		for _, m := range x.sent {
			if m.TS == ts {
				return m.UID
			}
		}
	}
	return 0
}

func runC05opCase(c *c05opCase, name string) *c05opResult {
	res := &c05opResult{}
	dir := scratchDir(name)
	s, err := newSuper(dir, 1)
	if err != nil {
		res.inconclusive = "world: " + err.Error()
		return res
	}
	defer s.close()
	sc := &scenario{Idx: 700 + c.Input, NSrcP: 2, Targets: 1, PackCnt: 1,
		Colls: []collDef{{DB: "default", Name: c05opColl, PChannels: []int{0, 1}}},
		Tasks: []taskDef{{Target: 0, Collections: "*"}}}
	rs := newRunState(s, sc)
	x := &c05opRun{s: s, rs: rs}
	tgt := s.w.Targets[0]
	f := c.Fault
	var fmu sync.Mutex
	opN, putN, unattributed := 0, 0, 0
	var nackUID int64
	hold := fakemilvus.NewHold()
	tgt.SetHook(func(call *fakemilvus.Call) *fakemilvus.Decision {
		if !c05opMethods[call.Method] {
			return nil
		}
		uid := x.opUID(call)
		if uid == 0 {
			s.log(sevt{Kind: "note", Note: "operation call not attributable: " + call.Method + " " + fmt.Sprint(call.Req)})
			fmu.Lock()
			unattributed++
			fmu.Unlock()
			return nil
		}
		fmu.Lock()
		opN++
		n := opN
		if f.Kind == "nack-op" && n == f.N && nackUID == 0 {
			nackUID = uid
		}
		reject := f.Kind == "nack-op" && uid == nackUID && n < f.N+3 // every attempt of the retry budget
		fmu.Unlock()
		if reject {
			res.faultHit = true
			s.log(sevt{Kind: "opnack", UIDs: []int64{uid}, Note: call.Method})
			return fakemilvus.FailGRPC(codes.Internal, "injected downstream rejection of one operation")
		}
		if os.Getenv("C05_DEBUG") != "" {
			if b, ok := call.Req.(interface{ GetBase() *commonpb.MsgBase }); ok {
				s.log(sevt{Kind: "note", Note: fmt.Sprintf("DBG %s uid=%d msgTimestamp=%d", call.Method, uid, b.GetBase().GetReplicateInfo().GetMsgTimestamp())})
			}
		}
		s.log(sevt{Kind: "opack", UIDs: []int64{uid}, Note: call.Method})
		if f.Kind == "kill-at-opack" && n == f.N {
			res.faultHit = true
			return fakemilvus.HoldReply(hold)
		}
		return nil
	})
	go func() {
		select {
		case <-hold.Applied():
			s.killChild(fmt.Sprintf("SIGKILL while the reply of operation call #%d is held (applied downstream, ack not seen)", f.N))
			hold.Release()
		case <-time.After(10 * time.Minute):
		}
	}()
	s.setStoreDecide(func(ev sysboot.StoreEvent) sysboot.StoreDecision {
		if ev.Kind != "task_position" || ev.Op != "put" || ev.Coll != -10 {
			return sysboot.StoreDecision{}
		}
		fmu.Lock()
		if ev.Phase == "before" {
			putN++
		}
		n := putN
		fmu.Unlock()
		switch {
		case f.Kind == "kill-before-put" && ev.Phase == "before" && n == f.N:
			res.faultHit = true
			return sysboot.StoreDecision{Kill: true}
		case f.Kind == "kill-after-put" && ev.Phase == "after" && n == f.N:
			res.faultHit = true
			return sysboot.StoreDecision{Kill: true}
		case f.Kind == "put-fail" && ev.Phase == "before" && n == f.N:
			res.faultHit = true
			return sysboot.StoreDecision{Fail: "injected store failure"}
		}
		return sysboot.StoreDecision{}
	})
	copts := childOpts{PackCount: 1, PackTimer: 30, SrcChannels: 2}
	if err := s.startChild(copts); err != nil {
		res.inconclusive = "child: " + err.Error()
		return res
	}
	ensureChild := func() bool {
		if s.childAlive() {
			return true
		}
		res.restarts++
		if res.restarts > 4 {
			return false
		}
		if err := s.startChild(copts); err != nil {
			res.inconclusive = "restart: " + err.Error()
			return false
		}
		return true
	}
	if r := rs.createTask(0); r.Code != 200 {
		res.inconclusive = fmt.Sprintf("create task: %d %s", r.Code, r.Message)
		return res
	}
	if err := rs.createColl(0); err != nil {
		res.inconclusive = "create collection: " + err.Error()
		return res
	}
	rs.startPump(25 * time.Millisecond)
	defer rs.stopPump()
	// the operations name a collection: it has to exist downstream before the first one is written (the create
	// request travels through the catalog watch, the operations through their own channel)
	for deadline := time.Now().Add(40 * time.Second); tgt.GetCollection("default", c05opColl) == nil; time.Sleep(20 * time.Millisecond) {
		if time.Now().After(deadline) || !s.childAlive() {
			res.inconclusive = "the collection never appeared downstream"
			return res
		}
	}
	for r := 0; r < c.Rounds; r++ {
		for si := 0; si < 2; si++ {
			if _, err := rs.send("insert", 0, si, 0, 1); err != nil {
				res.inconclusive = "send: " + err.Error()
				return res
			}
		}
		if c.Kinds[r] != "" {
			if _, err := x.sendOp(c.Kinds[r]); err != nil {
				res.inconclusive = "send operation: " + err.Error()
				return res
			}
		}
		_, _ = s.w.Src.TickAll(rs.pch)
		time.Sleep(25 * time.Millisecond)
		if f.Kind == "pause-resume" && r == f.Round && ensureChild() {
			rp := s.api("pause", map[string]any{"task_id": rs.taskIDs[0]})
			res.faultHit = rp.Code == 200
			// an operation written while the task is paused
			if _, err := x.sendOp("Flush"); err != nil {
				res.inconclusive = "send operation: " + err.Error()
				return res
			}
			time.Sleep(60 * time.Millisecond)
			s.api("resume", map[string]any{"task_id": rs.taskIDs[0]})
		}
	}
	// ---- recovery and the sentinel ----
	acked := func(from int64) map[int64]bool {
		m := map[int64]bool{}
		for _, e := range s.events() {
			if e.Kind == "opack" && e.Clock > from {
				for _, u := range e.UIDs {
					m[u] = true
				}
			}
		}
		return m
	}
	var sentinel c05opMsg
	for attempt := 0; attempt < 4 && !res.decidedBySent; attempt++ {
		if !ensureChild() {
			break
		}
		if st, _, ok := rs.taskState(rs.taskIDs[0]); ok && st == "Paused" {
			s.api("resume", map[string]any{"task_id": rs.taskIDs[0]})
		}
		from := s.clock.Load()
		m, err := x.sendOp("CreateIndex")
		if err != nil {
			res.inconclusive = "send sentinel: " + err.Error()
			return res
		}
		sentinel = m
		s.log(sevt{Kind: "note", Note: fmt.Sprintf("sentinel operation uid=%d", m.UID)})
		for deadline := time.Now().Add(25 * time.Second); time.Now().Before(deadline) && s.childAlive(); time.Sleep(20 * time.Millisecond) {
			if acked(from)[m.UID] {
				res.decidedBySent = true
				break
			}
		}
	}
	rs.stopPump()
	c05opOracle(x, res, sentinel)
	fmu.Lock()
	if unattributed > 0 && res.inconclusive == "" {
		res.inconclusive = fmt.Sprintf("%d downstream operation call(s) could not be attributed to a source operation (neither Base.MsgID nor the replication timestamp matches)", unattributed)
	}
	fmu.Unlock()
	if os.Getenv("C05_DEBUG") != "" {
		for _, e := range s.events() {
			if e.Kind == "note" || e.Kind == "api" || e.Kind == "kill" || e.Kind == "child-start" || e.Kind == "opack" || e.Kind == "opnack" || (e.Kind == "store" && e.Store.Coll == -10 && e.Store.Op == "put") {
				fmt.Printf("C05OP-DEBUG %s clock=%d inc=%d kind=%s api=%s code=%d uids=%v note=%s\n", name, e.Clock, e.Inc, e.Kind, e.API, e.Code, e.UIDs, e.Note)
			}
		}
		fmt.Printf("C05OP-DEBUG %s topic %s len=%d last=%d ops sent=%d\n", name, s.w.ReplicateChan(), s.w.Broker.Len(s.w.ReplicateChan()), s.w.Broker.LastID(s.w.ReplicateChan()), len(x.sentCopy()))
		if ms, err := s.w.Broker.Factory().NewMsgStream(context.Background()); err == nil {
			_ = ms.AsConsumer(context.Background(), []string{s.w.ReplicateChan()}, "dbg", mqcommon.SubscriptionPositionEarliest)
			tmo := time.After(2 * time.Second)
		loop:
			for {
				select {
				case p := <-ms.Chan():
					for _, m := range p.Msgs {
						fmt.Printf("C05OP-DEBUG %s topic record id=%d type=%s ts=%d\n", name, memq.DecodeID(m.GetMessageID()), m.GetType(), m.GetTimestamp())
					}
				case <-tmo:
					break loop
				}
			}
			ms.Close()
		}
		fmt.Printf("C05OP-DEBUG %s fault=%+v hit=%v decided=%v inconclusive=%q vios=%d\n", name, c.Fault, res.faultHit, res.decidedBySent, res.inconclusive, len(res.vios))
	}
	if p := os.Getenv("C05OP_CHILDLOG"); p != "" {
		_ = os.WriteFile(p, []byte(s.tailChildLog(1000000)), 0o644)
	}
	res.replay = map[string]any{"case": c, "operations_sent": x.sentCopy(), "events": tailEvents(s.events(), 1500), "child_log_tail": s.tailChildLog(800)}
	return res
}

func c05opOracle(x *c05opRun, res *c05opResult, sentinel c05opMsg) {
	evs := x.s.events()
	sent := x.sentCopy()
	add := func(k, d string) { res.vios = append(res.vios, vio{k, d}) }
	firstAck := map[int64]int64{}
	lastInc := 0
	for _, e := range evs {
		if e.Inc > lastInc {
			lastInc = e.Inc
		}
		if e.Kind == "opack" {
			res.opAcks++
			for _, u := range e.UIDs {
				if _, ok := firstAck[u]; !ok {
					firstAck[u] = e.Clock
				}
			}
		}
	}
	// restart points: when the readers went away, had a -10 checkpoint been performed?
	type point struct {
		from, ready int64
		have        bool
	}
	var points []*point
	have := false
	for _, e := range evs {
		if e.Kind == "store" && e.Store.Kind == "task_position" && e.Store.Op == "put" && e.Store.Coll == -10 && e.Store.Phase == "after" && e.Store.Err == "" {
			have = true
		}
		switch {
		case e.Kind == "child-exit", e.Kind == "api" && e.API == "resume call":
			points = append(points, &point{from: e.Clock, have: have})
		case e.Kind == "child-start" && e.Inc > 1, e.Kind == "api" && e.API == "resume reply":
			if n := len(points); n > 0 && points[n-1].ready == 0 {
				points[n-1].ready = e.Clock
			}
		}
	}
	// (a) checkpoint after ack
	flagged := map[int64]bool{}
	var lastP uint64
	for _, e := range evs {
		if e.Kind != "store" || e.Store.Kind != "task_position" || e.Store.Op != "put" || e.Store.Phase != "before" || e.Store.Coll != -10 {
			continue
		}
		res.puts++
		for ch, pe := range e.Store.Positions {
			if pe.MsgID == lastP {
				continue
			}
			lastP = pe.MsgID
			for _, m := range sent {
				if m.MsgID > pe.MsgID || flagged[m.UID] {
					continue
				}
				if ac, ok := firstAck[m.UID]; ok && ac < e.Clock {
					continue
				}
				flagged[m.UID] = true
				when := "never accepted downstream"
				if ac, ok := firstAck[m.UID]; ok {
					when = fmt.Sprintf("first accepted downstream at clock %d", ac)
				}
				key := "C05/operation-checkpoint-ahead-of-acknowledged-operations"
				for _, p := range points {
					if !p.have && p.ready != 0 && p.ready <= e.Clock && m.SentAt < p.ready {
						// the readers (re)started without any checkpoint of the channel subscribed at its latest message:
						// the operation was skipped, the checkpoint moves on behind it (recorded finding)
						key = "C05/operation-channel-without-checkpoint-resumes-from-latest"
					}
				}
				add(key, fmt.Sprintf("checkpoint Put of the operation channel announced at clock %d (incarnation %d) for channel %s with position id %d lies at or beyond operation uid=%d (%s, source id %d), %s", e.Clock, e.Inc, ch, pe.MsgID, m.UID, m.Kind, m.MsgID, when))
			}
		}
	}
	// (b) at-least-once, decided by the sentinel
	if !res.decidedBySent {
		if res.inconclusive == "" {
			res.inconclusive = "the sentinel operation was not accepted downstream by the last incarnation (watchdog)"
		}
		return
	}
	var lost, lostNoCp []string
	for _, m := range sent {
		if m.UID == sentinel.UID || m.MsgID > sentinel.MsgID {
			continue
		}
		if _, ok := firstAck[m.UID]; ok {
			continue
		}
		desc := fmt.Sprintf("uid=%d(%s, source id %d)", m.UID, m.Kind, m.MsgID)
		noCp := false
		for _, p := range points {
			if !p.have && p.ready != 0 && m.SentAt < p.ready {
				noCp = true
			}
		}
		if noCp {
			lostNoCp = append(lostNoCp, desc)
		} else {
			lost = append(lost, desc)
		}
	}
	sort.Strings(lost)
	sort.Strings(lostNoCp)
	if len(lost) > 0 {
		add("C05/operation-never-reached-downstream-although-later-operations-did", fmt.Sprintf("%d operation message(s) never accepted downstream in any incarnation while the sentinel operation written behind them was accepted in the last incarnation (%d): %s", len(lost), lastInc, strings.Join(lost, ", ")))
	}
	if len(lostNoCp) > 0 {
		add("C05/operation-channel-without-checkpoint-resumes-from-latest", fmt.Sprintf("%d operation message(s) lost: the readers were restarted / resumed before any checkpoint of the operation channel had been written, the channel was subscribed at its latest message: %s", len(lostNoCp), strings.Join(lostNoCp, ", ")))
	}
}

// runC05op runs the operation-channel part and merges its observations into the run of C05.
func runC05op(run *vf.Run) {
	nInputs := run.Pick(2, 6)
	type base struct{ acks, puts int }
	bases := make([]base, nInputs)
	var bmu sync.Mutex
	parallel(nInputs, 6, func(i int) {
		c := genC05opInput(run.Seed, i)
		c.Fault = c05Fault{Kind: "none"}
		r := runC05opCase(c, fmt.Sprintf("c05op-base-%d", i))
		run.Eval(1)
		if r.inconclusive != "" {
			run.Inconclusive(fmt.Sprintf("operation channel, input %d baseline: %s", i, r.inconclusive))
		}
		for _, v := range r.vios {
			run.Violate(v.key, fmt.Sprintf("[operation channel, input %d, no fault] %s", i, v.desc), r.replay)
		}
		bmu.Lock()
		bases[i] = base{r.opAcks, r.puts}
		bmu.Unlock()
		run.Count("op_baseline_operation_calls", r.opAcks)
		run.Count("op_baseline_checkpoint_puts", r.puts)
	})
	var cases []*c05opCase
	mk := func(i int, f c05Fault) {
		c := genC05opInput(run.Seed, i)
		c.Fault = f
		cases = append(cases, c)
	}
	for i := 0; i < nInputs; i++ {
		K, P := bases[i].acks, bases[i].puts
		if K < 3 || P < 3 {
			run.Inconclusive(fmt.Sprintf("operation channel, input %d: baseline too small (operation calls %d, checkpoint puts %d)", i, K, P))
			continue
		}
		if run.Thorough() {
			for k := 1; k <= K; k++ {
				mk(i, c05Fault{Kind: "kill-at-opack", N: k})
				mk(i, c05Fault{Kind: "nack-op", N: k})
			}
			for n := 1; n <= P; n++ {
				mk(i, c05Fault{Kind: "kill-before-put", N: n})
				mk(i, c05Fault{Kind: "kill-after-put", N: n})
				mk(i, c05Fault{Kind: "put-fail", N: n})
			}
			for r := 1; r < 6; r += 2 {
				mk(i, c05Fault{Kind: "pause-resume", Round: r})
			}
		} else {
			ks := [][]int{{2, K - 1}, {3, K}}[i%2]
			for _, k := range ks {
				mk(i, c05Fault{Kind: "kill-at-opack", N: k})
			}
			mk(i, c05Fault{Kind: "nack-op", N: []int{2, K / 2}[i%2]})
			mk(i, c05Fault{Kind: "kill-before-put", N: []int{2, P - 1}[i%2]})
			mk(i, c05Fault{Kind: "kill-after-put", N: []int{P / 2, 2}[i%2]})
			mk(i, c05Fault{Kind: "put-fail", N: []int{2, P / 2}[i%2]})
			mk(i, c05Fault{Kind: "pause-resume", Round: 3 + i})
			// the first operation of all: no checkpoint of the channel exists yet
			mk(i, c05Fault{Kind: []string{"kill-at-opack", "kill-before-put"}[i%2], N: 1})
		}
	}
	if only := os.Getenv("C05OP_ONLY"); only != "" {
		var sel []*c05opCase
		for _, c := range cases {
			if fmt.Sprintf("%d:%s:%d", c.Input, c.Fault.Kind, c.Fault.N) == only {
				sel = append(sel, c)
			}
		}
		cases = sel
	}
	parallel(len(cases), 10, func(ci int) {
		c := cases[ci]
		r := runC05opCase(c, fmt.Sprintf("c05op-%d", ci))
		run.Eval(1)
		tag := fmt.Sprintf("[operation channel, input %d, %s n=%d round=%d] ", c.Input, c.Fault.Kind, c.Fault.N, c.Fault.Round)
		if r.inconclusive != "" {
			run.Inconclusive(tag + r.inconclusive)
		}
		for _, v := range r.vios {
			run.Violate(v.key, tag+v.desc, r.replay)
		}
		run.Count("op_cases_"+c.Fault.Kind, 1)
		if r.faultHit {
			run.Count("op_faults_delivered_at_intended_step", 1)
			run.Count("op_delivered_"+c.Fault.Kind, 1)
			if r.inconclusive == "" {
				run.Nontrivial(fmt.Sprintf("op/%d/%s/%d/%d", c.Input, c.Fault.Kind, c.Fault.N, c.Fault.Round))
			}
		}
		if r.decidedBySent {
			run.Count("op_cases_decided_by_sentinel_operation", 1)
		}
		run.Count("op_child_restarts", r.restarts)
		run.Count("op_operation_calls_observed", r.opAcks)
		run.Count("op_checkpoint_puts_observed", r.puts)
	})
	run.Extra("op_enumerated_fault_cases", len(cases))
	run.Floor("op_faults_delivered_at_intended_step", len(cases)*6/10)
	run.Floor("op_cases_decided_by_sentinel_operation", len(cases)*6/10)
	run.Floor("op_delivered_kill-at-opack", 1)
	run.Floor("op_delivered_kill-before-put", 1)
	run.Floor("op_delivered_kill-after-put", 1)
	run.Rule += " PLUS the operation-channel part (counters op_*): one task over all collections, one collection with 2 shards, 7-10 rounds of rows plus one operation message (CreateIndex / LoadCollection / ReleaseCollection / Flush, unique Base.MsgID, seen again in the downstream call) on the source's DDL replicate channel; faults at enumerated steps of a fault-free run: SIGKILL with the k-th operation call applied but its reply held, SIGKILL just before / after the n-th Put of the channel's checkpoint (collection -10), k-th operation rejected on every attempt, n-th checkpoint Put failing, pause + resume with an operation written in between; a sentinel operation written after the recovery decides the operations before it."
	run.Assumptions = append(run.Assumptions, "operation-channel part: an operation counts as acknowledged when the fake downstream lets the call proceed (logged before it is applied and answered); the operation channel delivers in order, so a sentinel operation accepted in the last incarnation decides every earlier one")
}
