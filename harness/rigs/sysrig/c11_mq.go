package main

// C11, reader-failure scenario — a task that the service pauses ITSELF because one of its collections could not be
// started (the message queue cannot be reached for that collection's channel) "releases its share of the per-target
// replication resources" like any paused task: once the queue is back, Paused -> Running must succeed and the
// collection must be replicated. Two tasks of ONE target (one per database, disjoint source channels), so the target's
// reader objects outlive the pause of one of them.
//
//	t0 (database ga: collection a1 on channel 0) and t1 (database gb: collection b1 on channel 2) run and replicate;
//	channel 1 becomes unreachable; collection a2 (database ga) is created on channel 1: its start fails at the
//	connection check of the new channel handler, the reader reports the error, t0 ends up Paused with a reason;
//	channel 1 comes back; resume t0; sentinel rows on a1, a2 and b1.

import (
	"context"
	"fmt"
	"os"
	"path/filepath"
	"strings"
	"syscall"
	"time"

	"verifharness/internal/vf"
)

func runC11MQCase(run *vf.Run, idx int) {
	tag := fmt.Sprintf("[queue-failure case %d] ", idx)
	s, err := newSuper(scratchDir(fmt.Sprintf("c11-mq-%d", idx)), 1)
	if err != nil {
		run.Inconclusive(tag + "world: " + err.Error())
		return
	}
	defer s.close()
	sc := &scenario{Idx: 800 + idx, NSrcP: 3, Targets: 1, PackCnt: 1}
	sc.Colls = []collDef{{DB: "ga", Name: "a1", PChannels: []int{0}}, {DB: "gb", Name: "b1", PChannels: []int{2}}, {DB: "ga", Name: "a2", PChannels: []int{1}}}
	sc.Tasks = []taskDef{{Target: 0, Collections: "*", DB: "ga"}, {Target: 0, Collections: "*", DB: "gb"}}
	rs := newRunState(s, sc)
	for _, db := range []string{"ga", "gb"} {
		_ = s.w.Targets[0].AddDatabase(db)
		if _, err := s.w.Src.CreateDatabase(context.Background(), db); err != nil {
			run.Inconclusive(tag + "create database: " + err.Error())
			return
		}
	}
	if err := s.startChild(childOpts{PackCount: 1, PackTimer: 30, SrcChannels: 3}); err != nil {
		run.Inconclusive(tag + "child: " + err.Error())
		return
	}
	rs.startPump(30 * time.Millisecond)
	defer rs.stopPump()
	order := []int{0, 1}
	if idx%2 == 1 {
		order = []int{1, 0}
	}
	for _, i := range order {
		if r := rs.createTask(i); r.Code != 200 {
			run.Inconclusive(tag + fmt.Sprintf("create task %d: %d %s", i, r.Code, r.Message))
			return
		}
	}
	for _, ci := range []int{0, 1} {
		if err := rs.createColl(ci); err != nil {
			run.Inconclusive(tag + "create collection: " + err.Error())
			return
		}
	}
	row := func(ci int) []int64 {
		if d, err := rs.send("insert", ci, 0, 0, 1); err == nil {
			return []int64{d.UID}
		}
		return nil
	}
	if miss := rs.waitAcked(append(row(0), row(1)...), 60*time.Second); len(miss) > 0 {
		run.Inconclusive(tag + "the first rows were not acknowledged")
		return
	}
	run.Eval(1)
	// ---- the queue cannot be reached for channel 1 ----
	deny := filepath.Join(s.dir, "mq", "deny.list")
	if err := os.WriteFile(deny, []byte(rs.pch[1]+"\n"), 0o644); err != nil {
		run.Inconclusive(tag + "deny list: " + err.Error())
		return
	}
	s.log(sevt{Kind: "note", Note: "message queue unreachable for " + rs.pch[1]})
	if err := rs.createColl(2); err != nil {
		run.Inconclusive(tag + "create collection a2: " + err.Error())
		return
	}
	row(2)
	paused, reason := false, ""
	for deadline := time.Now().Add(150 * time.Second); time.Now().Before(deadline) && s.childAlive(); time.Sleep(100 * time.Millisecond) {
		if st, rsn, ok := rs.taskState(rs.taskIDs[0]); ok && st == "Paused" {
			paused, reason = true, rsn
			break
		}
	}
	_ = os.Remove(deny)
	s.log(sevt{Kind: "note", Note: "message queue reachable again"})
	replay := func() map[string]any {
		return map[string]any{"scenario": sc, "events": tailEvents(s.events(), 300), "child_log_tail": s.tailChildLog(4000)}
	}
	if !s.childAlive() {
		run.Violate("C11/process-died-when-a-collection-could-not-be-started", tag+"the CDC process died after the message queue became unreachable for a new collection's channel: "+c06FirstLines(s.tailChildLog(3000), 10), replay())
		return
	}
	if !paused {
		run.Inconclusive(tag + "the task whose new collection could not be started was not Paused within the watchdog (the fault may not have been delivered)")
		return
	}
	run.Count("queue_failure_tasks_paused_by_the_reader_error", 1)
	if reason == "" {
		run.Count("queue_failure_paused_without_reason", 1)
	}
	// t1 is not concerned
	if st, _, ok := rs.taskState(rs.taskIDs[1]); ok && st != "Running" {
		run.Violate("C11/other-task-of-the-target-changed-state-when-a-collection-could-not-be-started", tag+fmt.Sprintf("task %s (database gb, not concerned) is %s", rs.taskIDs[1], st), replay())
	}
	time.Sleep(300 * time.Millisecond)
	// ---- Paused -> Running must succeed, and the collection must be replicated ----
	var r = s.api("resume", map[string]any{"task_id": rs.taskIDs[0]})
	for try := 0; try < 2 && r.Code != 200; try++ { // the first resume may meet the tail of the asynchronous stop
		time.Sleep(2 * time.Second)
		r = s.api("resume", map[string]any{"task_id": rs.taskIDs[0]})
	}
	if r.Code != 200 {
		run.Violate("C11/resume-refused-after-a-collection-could-not-be-started", tag+fmt.Sprintf("task %s was paused by the service (reason %q) because collection ga.a2 could not be started while the message queue was unreachable for its channel; with the queue back, resume is answered %d %s (three attempts): the paused task still holds a registration of that collection in the target's channel manager", rs.taskIDs[0], reason, r.Code, strings.TrimSpace(r.Message)), replay())
		return
	}
	run.Count("queue_failure_resumes_accepted", 1)
	uids := append(append(row(0), row(2)...), row(1)...)
	if miss := rs.waitAcked(uids, 60*time.Second); len(miss) > 0 {
		if st, rsn, ok := rs.taskState(rs.taskIDs[0]); ok && st == "Paused" {
			run.Violate("C11/task-pauses-itself-again-after-resume-following-a-failed-collection-start", tag+fmt.Sprintf("resume of task %s was accepted, the task paused itself again (%q) and %d sentinel row(s) were never acknowledged", rs.taskIDs[0], rsn, len(miss)), replay())
			return
		}
		if p := os.Getenv("C11_MQ_DUMP"); p != "" && s.child != nil {
			_ = s.child.Process.Signal(syscall.SIGQUIT)
			time.Sleep(2 * time.Second)
			_ = os.WriteFile(p, []byte(s.tailChildLog(3000000)), 0o644)
		}
		run.Inconclusive(tag + fmt.Sprintf("%d sentinel row(s) not acknowledged within the watchdog after the resume", len(miss)))
		return
	}
	run.Count("queue_failure_cases_decided", 1)
	run.Nontrivial(fmt.Sprintf("queue-failure/%d", idx))
}

func runC11MQ(run *vf.Run) {
	n := run.Pick(2, 4)
	parallel(n, 3, func(i int) { runC11MQCase(run, i) })
	run.Rule += " PLUS the reader-failure scenario (counters queue_failure_*): two tasks of one target (one per database, disjoint source channels); the message queue becomes unreachable for a channel, a collection of the first task is created on it and cannot be started, the service pauses that task; with the queue back, resume must be accepted, the other task must be untouched, and rows of all three collections must flow."
}
