package main

import "verifharness/internal/vf"

func runC18(tier string) *vf.Run {
	run := vf.NewRun("C18", tier, "exploration")
	run.Rule = "not built yet"
	run.Inconclusive("check not built yet")
	run.Floor("built", 1)
	return run
}
