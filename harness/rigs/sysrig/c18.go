package main

// C18 — credentials never appear in API responses or logs.
//
// Every scenario runs the whole CDC server in its own child process (log level debug; stdout+stderr captured in a
// per-incarnation file) against its own world. Every credential field of the create request carries a fresh canary
// (c18_scan.go). The scenario injects ONE failure at an enumerated site of create / start / pause / resume / delete /
// reload and then drives get / list / position / pause / resume / delete. The oracle is a byte search: no canary, in
// any encoding, may occur in any HTTP response body or in any log byte (child stdout/stderr, and what was appended
// to the shared /tmp/cdc_log/cdc.log while the scenario ran). etcd is not searched (the record must keep secrets).

import (
	"context"
	"encoding/json"
	"fmt"
	"github.com/milvus-io/milvus/pkg/mq/msgstream"
	"net"
	"net/http"
	"os"
	"path/filepath"
	"runtime/debug"
	"sort"
	"strconv"
	"strings"
	"sync"
	"time"

	"google.golang.org/grpc/codes"
	"google.golang.org/grpc/status"

	"verifharness/internal/sysboot"
	"verifharness/internal/vf"
)

type c18Case struct {
	Idx      int          `json:"case"`
	Kind     string       `json:"kind"`           // the injected-failure site (see c18Sites)
	Target   string       `json:"target"`         // milvus | kafka | both
	Cred     string       `json:"cred"`           // token | userpass | token+userpass | sasl | all
	N        int          `json:"n"`              // n-th store call of the faulted operation
	Special  bool         `json:"special"`        // canaries carry a tail of characters that JSON/URL escaping changes
	Data     bool         `json:"data"`           // replicate a collection with rows while the task runs
	HostPort bool         `json:"host_port"`      // deprecated host/port form of the milvus address instead of uri
	DBColls  bool         `json:"db_collections"` // db_collections instead of collection_infos
	Cross    bool         `json:"cross_block"`    // the connect-param block of the downstream kind the task does NOT use carries credentials too (no address)
	Secrets  []*c18Secret `json:"secrets"`
}

// the quick list: one scenario per failure site (N = ordinal of the failing store call where it applies)
type c18Site struct {
	Kind   string
	Target string
	N      int
}

var c18Sites = []c18Site{
	{"happy", "milvus", 0}, {"happy", "milvus", 1}, {"happy", "milvus", 2},
	{"valid/empty-name", "milvus", 0}, {"valid/long-name", "milvus", 0}, {"valid/neg-buffer", "milvus", 0},
	{"valid/only-password", "milvus", 0}, {"valid/both-targets", "both", 0}, {"valid/decode-fail", "milvus", 0},
	{"valid/malformed-json", "milvus", 0}, {"valid/duplicate", "milvus", 0}, {"valid/bad-position", "milvus", 0},
	{"valid/bad-rpc-channel", "milvus", 0},
	{"connect/refused", "milvus", 0}, {"connect/rejected", "milvus", 0},
	{"later/CreateCollection", "milvus", 0}, {"later/DescribeCollection", "milvus", 0}, {"later/ReplicateMessage", "milvus", 0},
	{"later/Connect", "milvus", 0},
	{"store/create", "milvus", 1}, {"store/create", "milvus", 2}, {"store/create", "milvus", 3}, {"store/create", "milvus", 4},
	{"store/create", "milvus", 5}, {"store/create", "milvus", 6}, {"store/create", "milvus", 7},
	{"store/pause", "milvus", 1}, {"store/pause", "milvus", 2},
	{"store/resume", "milvus", 1}, {"store/resume", "milvus", 2}, {"store/resume", "milvus", 3},
	{"store/delete", "milvus", 1}, {"store/delete", "milvus", 3}, {"store/delete", "milvus", 5},
	{"store/get-list", "milvus", 1},
	{"store/corrupt-record", "milvus", 0}, {"store/corrupt-record", "kafka", 0},
	{"reload/unreachable", "milvus", 0}, {"reload/reachable", "milvus", 0}, {"reload/disable-auto-start", "milvus", 0},
	{"reload/store", "milvus", 1}, {"reload/store", "milvus", 2}, {"reload/store", "milvus", 3}, {"reload/store", "milvus", 4},
	{"happy", "kafka", 0}, {"valid/empty-topic", "kafka", 0}, {"store/create", "kafka", 2}, {"store/create", "kafka", 4},
	{"reload/reachable", "kafka", 0}, {"reload/store", "kafka", 2},
}

// thorough only: the same failure sites on the other target kind and the remaining store-call ordinals
var c18SitesMore = []c18Site{
	{"store/create", "kafka", 1}, {"store/create", "kafka", 3}, {"store/create", "kafka", 5}, {"store/create", "kafka", 6},
	{"store/pause", "kafka", 1}, {"store/pause", "kafka", 2},
	{"store/resume", "kafka", 1}, {"store/resume", "kafka", 2}, {"store/resume", "kafka", 3},
	{"store/delete", "kafka", 1}, {"store/delete", "kafka", 2}, {"store/delete", "kafka", 4},
	{"store/delete", "milvus", 2}, {"store/delete", "milvus", 4},
	{"store/get-list", "kafka", 1},
	{"reload/store", "kafka", 1}, {"reload/store", "kafka", 3}, {"reload/store", "kafka", 4}, {"reload/disable-auto-start", "kafka", 0},
	{"valid/empty-name", "kafka", 0}, {"valid/neg-buffer", "kafka", 0}, {"valid/duplicate", "kafka", 0}, {"valid/malformed-json", "kafka", 0},
	{"valid/decode-fail", "kafka", 0},
}

func genC18Cases(seed int64, n int, thorough bool) []*c18Case {
	var out []*c18Case
	sites := c18Sites
	if thorough {
		sites = append(append([]c18Site{}, c18Sites...), c18SitesMore...)
	}
	for i := 0; i < n; i++ {
		site := sites[i%len(sites)]
		round := i / len(sites)
		rnd := vf.Rand(seed, "c18-case", i)
		c := &c18Case{Idx: i, Kind: site.Kind, Target: site.Target, N: site.N}
		switch site.Target {
		case "milvus":
			// rotate the credential shape along the site list (offset by seed and round): every group of neighbouring
			// sites that shares a log statement sees every credential field in every run
			c.Cred = []string{"token", "userpass", "token+userpass"}[(i+int(seed%3+3)+round)%3]
			if site.Kind == "happy" {
				c.Cred = []string{"token", "userpass", "token+userpass"}[(site.N+round)%3]
				c.Data = true
			}
			if site.Kind == "valid/only-password" {
				c.Cred = "userpass"
			}
		case "kafka":
			c.Cred = "sasl"
			c.Data = site.Kind == "happy"
		case "both":
			c.Cred = "all"
		}
		c.Special = rnd.Intn(3) == 0
		c.HostPort = rnd.Intn(4) == 0
		c.DBColls = rnd.Intn(4) == 0 || site.Kind == "later/Connect"
		_ = round
		canary := func(field string) *c18Secret {
			core := fmt.Sprintf("S3CR3T%016x", rnd.Uint64())
			s := &c18Secret{Field: field, Core: core, Value: core}
			if c.Special {
				s.Value = core + `"</&+=%~ é`
			}
			return s
		}
		if strings.Contains(c.Cred, "token") || c.Cred == "all" {
			c.Secrets = append(c.Secrets, canary("milvus.token"))
		}
		if strings.Contains(c.Cred, "userpass") || c.Cred == "all" {
			c.Secrets = append(c.Secrets, canary("milvus.password"))
		}
		if c.Cred == "sasl" || c.Cred == "all" {
			c.Secrets = append(c.Secrets, canary("kafka.sasl.username"), canary("kafka.sasl.password"))
		}
		// credentials in the block of the other downstream kind (accepted by validation: only the addresses decide the kind)
		if site.Target != "both" && (i+int(seed))%3 == 1 {
			c.Cross = true
			if site.Target == "milvus" {
				c.Secrets = append(c.Secrets, canary("kafka.sasl.username"), canary("kafka.sasl.password"))
			} else {
				c.Secrets = append(c.Secrets, canary("milvus.token"), canary("milvus.password"))
			}
		}
		out = append(out, c)
	}
	return out
}

func (c *c18Case) secret(field string) string {
	for _, s := range c.Secrets {
		if s.Field == field {
			return s.Value
		}
	}
	return ""
}

type c18Result struct {
	hits         []c18Hit
	sharedHits   []c18Hit // the same lines found again in /tmp/cdc_log (second sink of the same logger)
	inconclusive string
	sites        []string // failure sites confirmed reached (by response / log line / injected store error)
	getList      int
	responses    int
	logBytes     int64
	sharedBytes  int64
	restarts     int
	notes        []string
	calls        []map[string]any
	dataFlow     bool
}

// c18Exec is the state of one running scenario.
type c18Exec struct {
	c       *c18Case
	s       *super
	res     *c18Result
	needles []c18Needle
	marks   map[uint64]int64
	mu      sync.Mutex
	callMu  sync.Mutex // guards res while two API requests are in flight
	// store fault
	armed    bool
	failAt   int
	seen     int
	injected []string
}

// db is the source database the task replicates ("later/Connect" uses a second database: the SDK client cache is
// keyed by (uri, database), so the first collection of a new database makes the target client dial again).
func (x *c18Exec) db() string {
	if x.c.Kind == "later/Connect" {
		return "c18db"
	}
	return "default"
}

func (x *c18Exec) note(f string, a ...any) { x.res.notes = append(x.res.notes, fmt.Sprintf(f, a...)) }

func (x *c18Exec) site(name string) { x.res.sites = append(x.res.sites, name) }

func (x *c18Exec) decide(ev sysboot.StoreEvent) sysboot.StoreDecision {
	x.mu.Lock()
	defer x.mu.Unlock()
	if !x.armed || ev.Phase != "before" {
		return sysboot.StoreDecision{}
	}
	x.seen++
	if x.seen == x.failAt {
		x.injected = append(x.injected, fmt.Sprintf("#%d %s %s", x.seen, ev.Op, ev.Kind))
		return sysboot.StoreDecision{Fail: fmt.Sprintf("injected store failure at call %d", x.seen)}
	}
	return sysboot.StoreDecision{}
}

func (x *c18Exec) arm(n int) {
	x.mu.Lock()
	x.armed, x.failAt, x.seen = true, n, 0
	x.mu.Unlock()
}

// disarm returns the injected call ("" when the operation made fewer than n store calls) and the calls seen.
func (x *c18Exec) disarm() (string, int) {
	x.mu.Lock()
	defer x.mu.Unlock()
	x.armed = false
	inj := ""
	if len(x.injected) > 0 {
		inj = x.injected[len(x.injected)-1]
		x.injected = nil
	}
	return inj, x.seen
}

// call sends one API request and searches the response body.
func (x *c18Exec) call(t string, data any) sysboot.Response {
	body, _ := json.Marshal(map[string]any{"request_type": t, "request_data": data})
	return x.callRaw(t, body)
}

func (x *c18Exec) callRaw(t string, body []byte) sysboot.Response {
	x.s.log(sevt{Kind: "api", API: t + " call"})
	r := x.s.postRaw(http.MethodPost, body)
	x.s.log(sevt{Kind: "api", API: t + " reply", Code: r.Code, Note: r.Message})
	x.callMu.Lock()
	defer x.callMu.Unlock()
	x.res.responses++
	if (t == "get" || t == "list") && len(r.Raw) > 0 {
		x.res.getList++
	}
	msg := r.Message
	if len(msg) > 300 {
		msg = msg[:300]
	}
	x.res.calls = append(x.res.calls, map[string]any{"type": t, "code": r.Code, "message": msg, "bytes": len(r.Raw)})
	x.res.hits = append(x.res.hits, scanResponse(t, r.Raw, x.needles)...)
	return r
}

// collectShared reads what was appended to /tmp/cdc_log since the last collection (must run while the child lives:
// another run's clean-up may have unlinked the directory).
func (x *c18Exec) collectShared() {
	pid := 0
	if x.s.child != nil && x.s.childAlive() {
		pid = x.s.child.Process.Pid
	}
	chunks, total := readSharedLog(pid, x.marks, 256<<20)
	x.res.sharedBytes += total
	for src, b := range chunks {
		x.res.sharedHits = append(x.res.sharedHits, scanLog(b, x.needles, "shared log "+src)...)
	}
	for ino, p := range sharedLogFiles(pid) {
		if fi, err := os.Stat(p); err == nil {
			x.marks[ino] = fi.Size()
		}
	}
}

func (x *c18Exec) restart() error {
	x.collectShared()
	x.s.killChild("c18 restart")
	x.res.restarts++
	return x.s.startChild(childOpts{DebugLog: true, SrcChannels: 2, PackTimer: 30})
}

// connectParam builds the milvus_connect_param with the scenario's credentials.
func (x *c18Exec) milvusParam(uri string) map[string]any {
	p := map[string]any{"uri": uri, "connect_timeout": 3, "channel_num": 2}
	if x.c.HostPort {
		if h, ps, err := net.SplitHostPort(strings.TrimPrefix(uri, "http://")); err == nil {
			port, _ := strconv.Atoi(ps)
			delete(p, "uri")
			p["host"], p["port"] = h, port
		}
	}
	if t := x.c.secret("milvus.token"); t != "" {
		if x.c.Idx%2 == 0 {
			t = "svc" + fmt.Sprint(x.c.Idx) + ":" + t // "user:password" shaped token
		}
		p["token"] = t
	}
	if pw := x.c.secret("milvus.password"); pw != "" {
		p["username"] = fmt.Sprintf("cdcuser%d", x.c.Idx)
		p["password"] = pw
	}
	return p
}

func (x *c18Exec) kafkaParam(addr string) map[string]any {
	return map[string]any{"address": addr, "topic": "cdc_c18", "enable_sasl": true,
		"sasl": map[string]any{"username": x.c.secret("kafka.sasl.username"), "password": x.c.secret("kafka.sasl.password"),
			"mechanisms": "PLAIN", "security_protocol": "SASL_PLAINTEXT"}}
}

func closedPort() string {
	ln, err := net.Listen("tcp", "127.0.0.1:0")
	if err != nil {
		return "127.0.0.1:1"
	}
	a := ln.Addr().String()
	ln.Close()
	return a
}

// createReq is the correct create request of this scenario.
func (x *c18Exec) createReq() map[string]any { return x.createReqFor(x.s.w.Targets[0].URI()) }

func (x *c18Exec) createReqFor(uri string) map[string]any {
	req := map[string]any{}
	x.setColls(req, []map[string]any{{"name": "*"}})
	switch x.c.Target {
	case "kafka":
		req["kafka_connect_param"] = x.kafkaParam(closedPort())
		if x.c.Cross {
			mp := x.milvusParam("")
			delete(mp, "uri")
			delete(mp, "host")
			delete(mp, "port")
			req["milvus_connect_param"] = mp
		}
	case "both":
		req["milvus_connect_param"] = x.milvusParam(uri)
		req["kafka_connect_param"] = x.kafkaParam(closedPort())
	default:
		req["milvus_connect_param"] = x.milvusParam(uri)
		if x.c.Cross {
			kp := x.kafkaParam("")
			delete(kp, "address")
			delete(kp, "topic")
			req["kafka_connect_param"] = kp
		}
	}
	return req
}

// setColls puts the collection list into the request in the scenario's shape.
func (x *c18Exec) setColls(req map[string]any, infos []map[string]any) {
	if x.c.DBColls {
		req["db_collections"] = map[string]any{x.db(): infos}
	} else {
		req["collection_infos"] = infos
	}
}

func taskIDOf(r sysboot.Response) string {
	if r.Code != 200 {
		return ""
	}
	id, _ := r.Data["task_id"].(string)
	return id
}

func (x *c18Exec) stateOf(id string) (string, string) {
	r := x.call("get", map[string]any{"task_id": id})
	t, _ := r.Data["task"].(map[string]any)
	st, _ := t["state"].(string)
	rsn, _ := t["reason"].(string)
	return st, rsn
}

// look sends get + list.
func (x *c18Exec) look(id string) {
	if id != "" {
		x.call("get", map[string]any{"task_id": id})
	}
	x.call("list", map[string]any{})
}

// followUp drives the rest of the API over a task.
func (x *c18Exec) followUp(id string) {
	x.look(id)
	if id == "" {
		return
	}
	x.call("position", map[string]any{"task_id": id})
	// two requests in flight at the same time: both pass the in-memory check, the loser is refused by the state
	// guard of the store (an error path of its own)
	x.both("pause", id)
	x.look(id)
	x.both("resume", id)
	x.look(id)
	x.call("delete", map[string]any{"task_id": id})
	x.look(id)
}

func (x *c18Exec) both(t, id string) {
	var wg sync.WaitGroup
	codes := make([]int, 2)
	for i := 0; i < 2; i++ {
		wg.Add(1)
		go func(i int) {
			defer wg.Done()
			codes[i] = x.call(t, map[string]any{"task_id": id}).Code
		}(i)
	}
	wg.Wait()
	if (codes[0] == 200) != (codes[1] == 200) {
		x.site("concurrent-" + t + "/one-refused")
	}
}

var c18PCh = []string{"by-dev-rootcoord-dml_0", "by-dev-rootcoord-dml_1"}

// replicate creates a source collection and sends rows + ticks; returns when the downstream acked a data message
// (or the watchdog ended the wait: the caller only counts it).
func (x *c18Exec) replicate(name string, wantAck bool) bool {
	src := x.s.w.Src
	coll, err := src.CreateCollection(context.Background(), x.db(), name, c18PCh[:1])
	if err != nil {
		x.note("create source collection: %v", err)
		return false
	}
	base := int64(x.c.Idx%1000)*100000 + 1
	deadline := time.Now().Add(20 * time.Second)
	sent, rounds := 0, 0
	for time.Now().Before(deadline) {
		if sent < 3 {
			uid := base + int64(sent)
			if _, _, err := src.SendStamped(c18PCh[0], func(ts uint64) msgstream.TsMsg { return src.InsertMsg(coll, 0, coll.Parts[0], uid, ts, 2) }); err != nil {
				x.note("send: %v", err)
				return false
			}
			sent++
		}
		_, _ = src.TickAll(c18PCh)
		time.Sleep(40 * time.Millisecond)
		if !wantAck && sent >= 3 {
			rounds++
			if rounds >= 25 { // no acknowledgement to wait for (kafka / failing downstream): a fixed number of tick rounds
				return true
			}
			continue
		}
		for _, e := range x.s.events() {
			if e.Kind == "ack" {
				for _, u := range e.UIDs {
					if u >= base {
						return true
					}
				}
			}
		}
	}
	return false
}

// waitPaused polls get until the task is paused (every poll is a searched response); watchdog only ends the wait.
func (x *c18Exec) waitPaused(id string, tick bool) (string, bool) {
	deadline := time.Now().Add(40 * time.Second)
	for time.Now().Before(deadline) && x.s.childAlive() {
		st, rsn := x.stateOf(id)
		if st == "Paused" {
			return rsn, true
		}
		if tick {
			_, _ = x.s.w.Src.TickAll(c18PCh)
		}
		time.Sleep(100 * time.Millisecond)
	}
	return "", false
}

func runC18Case(c *c18Case, name string) *c18Result {
	res := &c18Result{}
	dir := scratchDir(name)
	s, err := newSuper(dir, 1)
	if err != nil {
		res.inconclusive = "world: " + err.Error()
		return res
	}
	defer s.close()
	x := &c18Exec{c: c, s: s, res: res, needles: needlesOf(c.Secrets), marks: markSharedLog()}
	s.setStoreDecide(x.decide)
	if err := s.startChild(childOpts{DebugLog: true, SrcChannels: 2, PackTimer: 30}); err != nil {
		res.inconclusive = "child: " + err.Error()
		return res
	}
	x.scenario()
	// ---- collect the logs of every incarnation ----
	x.collectShared()
	s.killChild("c18 done")
	files, _ := filepath.Glob(filepath.Join(dir, "child-*.log"))
	sort.Strings(files)
	for _, f := range files {
		b, err := os.ReadFile(f)
		if err != nil {
			continue
		}
		res.logBytes += int64(len(b))
		res.hits = append(res.hits, scanLog(b, x.needles, filepath.Base(f))...)
		x.confirmSites(b)
	}
	res.hits = append(res.hits, res.sharedHits...)
	return res
}

// confirmSites looks for the log line that proves a failure path was executed.
func (x *c18Exec) confirmSites(log []byte) {
	t := string(log)
	for site, marker := range map[string]string{
		"log:create-failed":           `"fail to create cdc task"`,
		"log:connect-milvus-failed":   `"fail to connect the milvus"`,
		"log:connect-kafka-failed":    `"fail to connect the kafka"`,
		"log:reload-start-failed":     `"fail to start the task"] [task_`,
		"log:resume-start-failed":     `"fail to start the task"] [error`,
		"log:new-target-failed":       `"fail to new target"`,
		"log:pause-task":              `"pause task"`,
		"log:pause-update-failed":     `"fail to update task reason"`,
		"log:replicate-msg-failed":    `"fail to handle the replicate message"`,
		"log:replicate-event-failed":  `"fail to handle replicate event"`,
		"log:request-receive":         `"request receive"`,
		"log:store-put-failed":        `"fail to put the task info to etcd"`,
		"log:store-get-failed":        `"fail to get the task info"`,
		"log:reload-panic":            `"fail to get all task info"`,
		"log:delete-task-failed":      `"fail to delete the task`,
		"log:task-meta-update-failed": `"fail to update the task meta"`,
		"log:position-get-failed":     `"fail to get the task collection position"`,
		"log:debug-level":             `] [DEBUG] [`,
		"log:sdk-client-dial-failed":  `"fail to new the milvus client"`,
		"log:target-client-failed":    `"fail to get collection info"`,
	} {
		if strings.Contains(t, marker) {
			x.site(site)
		}
	}
}

func (x *c18Exec) scenario() {
	c := x.c
	tgt := x.s.w.Targets[0]
	kind := c.Kind
	switch {
	case kind == "happy":
		r := x.call("create", x.createReq())
		id := taskIDOf(r)
		if id == "" {
			x.note("create failed: %d %s", r.Code, r.Message)
			if c.Target == "kafka" {
				x.site("kafka-create-failed")
			}
		} else if c.Target == "kafka" {
			x.site("kafka-create-ok")
		}
		if c.Data && id != "" {
			if x.replicate(fmt.Sprintf("c18_%d", c.Idx), c.Target == "milvus") {
				x.res.dataFlow = true
			}
		}
		x.followUp(id)

	case strings.HasPrefix(kind, "valid/"):
		req := x.createReq()
		var raw []byte
		want := ""
		switch strings.TrimPrefix(kind, "valid/") {
		case "empty-name":
			x.setColls(req, []map[string]any{{"name": ""}})
			want = "collection name that is empty"
		case "long-name":
			x.setColls(req, []map[string]any{{"name": strings.Repeat("n", 300)}})
			want = "length exceeds"
		case "neg-buffer":
			req["buffer_config"] = map[string]any{"period": -1, "size": 1}
			want = "cache period is less zero"
		case "only-password":
			delete(req["milvus_connect_param"].(map[string]any), "username")
			want = "only one of the milvus username and password"
		case "both-targets":
			want = "milvus and kafka at the same time"
		case "decode-fail":
			if mp, ok := req["milvus_connect_param"].(map[string]any); ok {
				mp["port"] = "not-a-number"
			} else {
				req["kafka_connect_param"].(map[string]any)["enable_sasl"] = "not-a-bool"
			}
			want = "fail to decode the create request"
		case "malformed-json":
			b, _ := json.Marshal(map[string]any{"request_type": "create", "request_data": req})
			raw = b[:len(b)-2] // cut the closing braces
			want = "fail to unmarshal the request"
		case "duplicate":
			first := x.call("create", req)
			if taskIDOf(first) == "" {
				x.note("first create failed: %d %s", first.Code, first.Message)
			}
			want = "duplicate"
		case "bad-position":
			x.setColls(req, []map[string]any{{"name": "c18_pos", "positions": map[string]string{"by-dev-rootcoord-dml_0_123v0": "!!!not-base64!!!"}}})
			want = "fail to decode the position data"
		case "bad-rpc-channel":
			req["rpc_channel_info"] = map[string]any{"name": "some-other-channel"}
			want = "the rpc channel is invalid"
		case "empty-topic":
			req["kafka_connect_param"].(map[string]any)["topic"] = ""
			want = "the kafka topic is empty"
		}
		var r sysboot.Response
		if raw != nil {
			r = x.callRaw("create", raw)
		} else {
			r = x.call("create", req)
		}
		if r.Code != 200 && strings.Contains(r.Message, want) {
			x.site(kind)
		} else {
			x.note("expected failure %q, got %d %s", want, r.Code, r.Message)
		}
		x.look("")
		x.call("get", map[string]any{"task_id": "no-such-task"})
		// the same credentials in a correct request afterwards
		if kind != "valid/duplicate" && c.Target != "both" {
			id := taskIDOf(x.call("create", x.createReq()))
			x.look(id)
			if id != "" {
				x.call("delete", map[string]any{"task_id": id})
			}
		} else {
			x.followUp(listFirstID(x.call("list", map[string]any{})))
		}

	case kind == "connect/refused":
		r := x.call("create", x.createReqFor("http://"+closedPort()))
		if r.Code != 200 && strings.Contains(r.Message, "fail to connect the milvus") {
			x.site(kind)
		} else {
			x.note("expected connect failure, got %d %s", r.Code, r.Message)
		}
		x.look("")

	case kind == "connect/rejected":
		tgt.FailNext("Connect", 1000, status.Error(codes.Unauthenticated, "auth check failure, please check api key is correct"))
		r := x.call("create", x.createReq())
		if r.Code != 200 && strings.Contains(r.Message, "fail to connect the milvus") {
			x.site(kind)
		} else {
			x.note("expected connect failure, got %d %s", r.Code, r.Message)
		}
		x.look("")
		tgt.ClearPlan()
		id := taskIDOf(x.call("create", x.createReq()))
		x.followUp(id)

	case strings.HasPrefix(kind, "later/"):
		method := strings.TrimPrefix(kind, "later/")
		r := x.call("create", x.createReq())
		id := taskIDOf(r)
		if id == "" {
			x.res.inconclusive = fmt.Sprintf("create failed: %d %s", r.Code, r.Message)
			return
		}
		tgt.FailNext(method, 100000, status.Error(codes.PermissionDenied, "injected downstream failure: permission denied for this api key"))
		x.replicate(fmt.Sprintf("c18_%d", c.Idx), false)
		rsn, ok := x.waitPaused(id, true)
		if ok {
			x.site(kind)
			x.note("pause reason: %s", rsn)
		} else {
			x.note("task did not pause after %s failures (calls seen: %d)", method, tgt.CallCount(method))
		}
		x.look(id)
		tgt.ClearPlan()
		x.call("resume", map[string]any{"task_id": id})
		x.look(id)
		x.call("delete", map[string]any{"task_id": id})
		x.look(id)

	case kind == "store/corrupt-record":
		// the stored record of the task cannot be decoded by this binary (written by another version, edited by hand):
		// every request that reads it fails - and must not put the record's credentials into the log or the answer
		r := x.call("create", x.createReq())
		id := taskIDOf(r)
		if id == "" {
			x.res.inconclusive = fmt.Sprintf("create failed: %d %s", r.Code, r.Message)
			return
		}
		x.look(id)
		key := x.s.w.MetaRoot + "/task_info/" + id
		ctx, cancel := context.WithTimeout(context.Background(), 10*time.Second)
		got, err := x.s.w.Etcd.Client.Get(ctx, key)
		cancel()
		if err != nil || len(got.Kvs) != 1 {
			x.res.inconclusive = fmt.Sprintf("the task record %s was not found in etcd (%v)", key, err)
			return
		}
		raw := string(got.Kvs[0].Value)
		bad := strings.Replace(raw, `"State":1`, `"State":"Running"`, 1)
		if bad == raw {
			bad = strings.Replace(raw, `"state":1`, `"state":"Running"`, 1)
		}
		if bad == raw {
			x.res.inconclusive = "the task record has no State field to spoil: " + c18Short(raw)
			return
		}
		ctx, cancel = context.WithTimeout(context.Background(), 10*time.Second)
		_, err = x.s.w.Etcd.Client.Put(ctx, key, bad)
		cancel()
		if err != nil {
			x.res.inconclusive = "spoiling the task record: " + err.Error()
			return
		}
		failed := 0
		for _, t := range []string{"get", "list", "pause", "position", "delete"} {
			data := map[string]any{"task_id": id}
			if t == "list" {
				data = map[string]any{}
			}
			if rr := x.call(t, data); rr.Code != 200 {
				failed++
			}
		}
		x.note("undecodable task record: %d of 5 requests refused", failed)
		if failed > 0 {
			x.site(kind)
		}
		if err := x.restart(); err != nil { // ReloadTask reads the same record
			x.note("restart over the undecodable record: %v", err)
		}
		x.call("list", map[string]any{})

	case strings.HasPrefix(kind, "store/"):
		op := strings.TrimPrefix(kind, "store/")
		id := ""
		if op != "create" {
			r := x.call("create", x.createReq())
			if id = taskIDOf(r); id == "" {
				x.res.inconclusive = fmt.Sprintf("create failed: %d %s", r.Code, r.Message)
				return
			}
		}
		if op == "resume" {
			x.call("pause", map[string]any{"task_id": id})
		}
		x.arm(c.N)
		var r sysboot.Response
		switch op {
		case "create":
			r = x.call("create", x.createReq())
		case "get-list":
			r = x.call("get", map[string]any{"task_id": id})
			x.arm(c.N)
			x.call("list", map[string]any{})
			x.arm(c.N)
			x.call("position", map[string]any{"task_id": id})
		default:
			r = x.call(op, map[string]any{"task_id": id})
		}
		inj, seen := x.disarm()
		if inj != "" {
			x.site(fmt.Sprintf("store/%s/%s", op, strings.SplitN(inj, " ", 2)[1]))
			x.site(fmt.Sprintf("store/%s#%d", op, c.N))
			x.note("injected %s -> %d %s", inj, r.Code, r.Message)
		} else {
			x.note("%s made only %d store calls (< %d): no failure injected", op, seen, c.N)
		}
		if op == "create" {
			id = taskIDOf(r)
			x.look(id)
			if id == "" {
				id = taskIDOf(x.call("create", x.createReq()))
			}
		}
		x.followUp(id)
		if op == "delete" {
			x.call("delete", map[string]any{"task_id": id})
			x.look(id)
		}

	case strings.HasPrefix(kind, "reload/"):
		v := strings.TrimPrefix(kind, "reload/")
		req := x.createReq()
		if v == "disable-auto-start" {
			req["disable_auto_start"] = true
		}
		r := x.call("create", req)
		id := taskIDOf(r)
		if id == "" {
			x.res.inconclusive = fmt.Sprintf("create failed: %d %s", r.Code, r.Message)
			return
		}
		x.look(id)
		switch v {
		case "unreachable":
			tgt.Stop()
		case "store":
			if c.N >= 3 { // a paused task makes the reload update the task state (two more store calls)
				x.call("pause", map[string]any{"task_id": id})
				x.look(id)
			}
			x.arm(c.N)
		}
		err := x.restart()
		if v == "store" {
			inj, seen := x.disarm()
			if inj != "" {
				x.site("reload/store/" + strings.SplitN(inj, " ", 2)[1])
				x.site(fmt.Sprintf("reload/store#%d", c.N))
				x.note("injected %s during reload; child up: %v", inj, err == nil)
			} else {
				x.note("reload made only %d store calls (< %d)", seen, c.N)
			}
		}
		if err != nil {
			x.note("restart: %v", err)
			if err2 := x.restart(); err2 != nil {
				x.res.inconclusive = "second restart: " + err2.Error()
				return
			}
		}
		st, rsn := x.stateOf(id)
		x.note("after reload: state=%s reason=%q", st, rsn)
		switch v {
		case "unreachable":
			if st == "Paused" && strings.Contains(rsn, "fail to start task") {
				x.site(kind)
			}
		case "disable-auto-start":
			if st == "Paused" && strings.Contains(rsn, "disabled auto start") {
				x.site(kind)
			}
		case "reachable":
			if st == "Running" {
				x.site(kind + "/" + c.Target)
			}
		}
		x.look(id)
		if st == "Paused" {
			rr := x.call("resume", map[string]any{"task_id": id})
			if v == "unreachable" && rr.Code != 200 {
				x.site("reload/unreachable/resume-failed")
			}
			x.look(id)
		}
		x.followUp(id)
	}
}

func listFirstID(r sysboot.Response) string {
	ts, _ := r.Data["tasks"].([]any)
	for _, t := range ts {
		if m, ok := t.(map[string]any); ok {
			if id, _ := m["task_id"].(string); id != "" {
				return id
			}
		}
	}
	return ""
}

func runC18(tier string) *vf.Run {
	run := vf.NewRun("C18", tier, "fault_enumeration")
	run.Rule = "scenario = one CDC server process (log level debug) + one create request whose every credential field (milvus password / token / username+password, kafka SASL username+password) is a fresh 64-bit canary, " +
		"ONE failure injected at an enumerated site (request validation after parsing, connect refused / rejected, downstream CreateCollection / DescribeCollection / ReplicateMessage failing until the task pauses, " +
		"the n-th store call of create / pause / resume / delete / get / list failing, restart with the task persisted and the target unreachable / reachable / the n-th store call of the reload failing), then get, list, position, pause, resume, delete. " +
		"Non-trivial = the failure site was confirmed reached (its response message, its log line, or the injected store error) or, for fault-free scenarios, a get/list response of a live task was searched; distinct = (site, target kind, credential fields, failing call)."
	run.Assumptions = []string{
		"the log is the child's stdout+stderr (zap's stdout sink plus anything libraries print) and the bytes appended to /tmp/cdc_log/cdc.log* during the scenario; both sinks are fed by the same zap core",
		"canaries are searched verbatim (alphanumeric core, invariant under JSON/URL/zap escaping), as base64 at all three alignments (std and URL alphabets, padding-independent) and as hex; other transformations (hashing, compression, encryption) are not detected",
		"the downstream fake answers like a Milvus that does not echo credentials in its error messages; no Kafka broker exists (the producer is created lazily, sends fail)",
		"secrets kept in the etcd task record are tolerated and not searched",
	}
	n := run.Pick(len(c18Sites), 300)
	// floors: every injected-failure site must have been reached at least once
	for _, st := range []string{
		"valid/empty-name", "valid/long-name", "valid/neg-buffer", "valid/only-password", "valid/both-targets", "valid/decode-fail",
		"valid/malformed-json", "valid/duplicate", "valid/bad-position", "valid/bad-rpc-channel", "valid/empty-topic",
		"connect/refused", "connect/rejected",
		"later/CreateCollection", "later/DescribeCollection", "later/ReplicateMessage", "later/Connect",
		"store/create#1", "store/create#2", "store/create#3", "store/create#4", "store/create#5", "store/create#6",
		"store/pause#1", "store/pause#2", "store/resume#1", "store/resume#2", "store/resume#3",
		"store/delete#1", "store/delete#3", "store/delete#5", "store/get-list#1",
		"reload/unreachable", "reload/unreachable/resume-failed", "reload/reachable/milvus", "reload/reachable/kafka", "reload/disable-auto-start",
		"reload/store#1", "reload/store#2", "reload/store#3", "reload/store#4",
		"kafka-create-ok",
		"log:create-failed", "log:connect-milvus-failed", "log:reload-start-failed", "log:resume-start-failed", "log:pause-task",
		"log:pause-update-failed", "log:replicate-msg-failed", "log:replicate-event-failed", "log:request-receive", "log:reload-panic",
		"log:store-put-failed", "log:store-get-failed", "log:delete-task-failed", "log:task-meta-update-failed", "log:position-get-failed", "log:debug-level",
		"log:sdk-client-dial-failed", "log:target-client-failed",
	} {
		run.Floor("site_"+st, 1)
	}
	if run.Thorough() {
		for _, st := range []string{"store/pause#1", "store/pause#2", "store/resume#3", "store/delete#2", "store/delete#4", "reload/store#3", "reload/store#4"} {
			run.Floor("site_"+st, 2) // reached on both target kinds
		}
	}
	run.Floor("target_kinds", 3)
	run.Floor("secret_fields", 4)
	run.Floor("restart_scenarios", run.Pick(3, 15))
	run.Floor("getlist_responses_scanned", run.Pick(150, 900))
	run.Floor("log_kb_scanned", run.Pick(500, 3000))
	run.Floor("scenarios_with_replicated_rows", run.Pick(1, 6))
	cases := genC18Cases(run.Seed, n, run.Thorough())
	if *fCase >= 0 {
		for _, c := range cases {
			if c.Idx == *fCase {
				cases = []*c18Case{c}
			}
		}
	}
	var mu sync.Mutex
	parallel(len(cases), 8, func(i int) {
		c := cases[i]
		defer func() {
			if p := recover(); p != nil { // a bug of this check must not look like a verdict (a Go panic exits with 2)
				fmt.Printf("C18 harness panic in case %d (%s/%s): %v\n%s\n", c.Idx, c.Kind, c.Target, p, debug.Stack())
				os.Exit(70)
			}
		}()
		res := runC18Case(c, fmt.Sprintf("c18-%d", c.Idx))
		mu.Lock()
		defer mu.Unlock()
		run.Eval(1)
		fields := []string{}
		for _, s := range c.Secrets {
			fields = append(fields, s.Field)
			run.Distinct("secret_fields", s.Field)
		}
		if res.inconclusive != "" {
			run.Inconclusive(fmt.Sprintf("case %d (%s/%s): %s", c.Idx, c.Kind, c.Target, res.inconclusive))
		}
		for _, st := range res.sites {
			run.Distinct("sites", st)
			run.Count("site_"+st, 1)
		}
		reached := len(res.sites) > 0 && (c.Kind == "happy" || !onlyLogSites(res.sites))
		if c.Kind == "happy" && res.getList >= 4 {
			reached = true
		}
		if reached {
			run.Nontrivial(fmt.Sprintf("%s|%s|%s|n=%d|special=%v", c.Kind, c.Target, strings.Join(fields, "+"), c.N, c.Special))
		}
		run.Distinct("target_kinds", c.Target)
		run.Count("getlist_responses_scanned", res.getList)
		run.Count("responses_scanned", res.responses)
		run.Count("log_kb_scanned", int(res.logBytes/1024))
		run.Count("shared_log_kb_scanned", int(res.sharedBytes/1024))
		run.Count("restarts", res.restarts)
		if res.dataFlow {
			run.Count("scenarios_with_replicated_rows", 1)
		}
		if strings.HasPrefix(c.Kind, "reload/") && res.restarts > 0 {
			run.Count("restart_scenarios", 1)
		}
		// violations: one per (key, scenario)
		byKey := map[string][]c18Hit{}
		var keys []string
		for _, h := range res.hits {
			k := h.key()
			if _, ok := byKey[k]; !ok {
				keys = append(keys, k)
			}
			byKey[k] = append(byKey[k], h)
		}
		sort.Strings(keys)
		for _, k := range keys {
			hs := byKey[k]
			h := hs[0]
			desc := fmt.Sprintf("case %d %s/%s n=%d: %s (%s) in %s [%s] x%d: %s",
				c.Idx, c.Kind, c.Target, c.N, h.Secret.Field, h.Form, h.Where, h.Source, len(hs), h.Line)
			run.Violate(k, desc, map[string]any{"case": c, "hit": map[string]any{"field": h.Secret.Field, "form": h.Form, "where": h.Where, "site": h.Site, "source": h.Source, "line": h.Line},
				"api_calls": res.calls, "notes": res.notes, "sites_reached": res.sites})
		}
		run.Sample(map[string]any{"case": c.Idx, "kind": c.Kind, "target": c.Target, "cred": c.Cred, "n": c.N, "sites_reached": res.sites, "notes": res.notes,
			"get_list_responses": res.getList, "log_bytes": res.logBytes, "leaks": keys})
		fmt.Printf("C18 case %d %s/%s cred=%s n=%d: sites=%v getlist=%d log=%dB shared=%dB leaks=%d notes=%v inconclusive=%q\n",
			c.Idx, c.Kind, c.Target, c.Cred, c.N, res.sites, res.getList, res.logBytes, res.sharedBytes, len(keys), res.notes, res.inconclusive)
	})
	return run
}

func onlyLogSites(sites []string) bool {
	for _, s := range sites {
		if !strings.HasPrefix(s, "log:") {
			return false
		}
	}
	return true
}

func c18Short(t string) string {
	if len(t) > 200 {
		return t[:200] + "..."
	}
	return t
}
