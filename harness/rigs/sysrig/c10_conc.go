package main

// C10, concurrent part — "for any set of tasks accepted by the create API for one target, each source
// (database, collection) is selected by at most one task": the duplicate check and the registration of the names
// must be one step also when several create requests for one target are in flight at once.
//
// Per round a fresh target key and 2-4 specifications that select a common collection (the same explicit name
// twice, the name and the wildcard of its database, the database wildcard twice) are put to the real
// checkDuplicateCollection (hook VerifCheckDuplicate: what Create runs before it stores the task) by as many
// goroutines behind a start barrier. Judged on the accepted ones and their exclude lists:
//   an explicit name accepted twice; a wildcard accepted twice; a name and the wildcard of its database both
//   accepted while the wildcard's exclude list does not contain the name.

import (
	"fmt"
	"sort"
	"sync"

	"github.com/zilliztech/milvus-cdc/server/model"

	"verifharness/internal/sysboot"
	"verifharness/internal/vf"
)

func c10Concurrent(run *vf.Run) {
	var w *sysboot.World
	var err error
	for try := 0; try < 6; try++ {
		if w, err = sysboot.NewWorld(sysboot.WorldOptions{Dir: scratchDir(fmt.Sprintf("c10-conc-%d", try)), Targets: 1}); err == nil {
			break
		}
	}
	if err != nil {
		run.Inconclusive("concurrent part: world: " + err.Error())
		return
	}
	defer w.Close()
	w.MetaRoot = "c10-conc"
	cdc, err := w.StartCDC(sysboot.CDCOptions{})
	if err != nil {
		run.Inconclusive("concurrent part: start: " + err.Error())
		return
	}
	rounds := run.Pick(6000, 60000)
	shapes := [][]string{
		{"d1.c", "d1.c"},
		{"d1.c", "d1.*"},
		{"d1.*", "d1.*"},
		{"d1.c", "d1.c", "d1.*"},
		{"d1.c", "d1.*", "d1.c", "d1.*"},
		{"default.a", "default.*", "default.a"},
	}
	type out struct {
		excl []string
		err  error
	}
	for r := 0; r < rounds; r++ {
		specs := shapes[r%len(shapes)]
		key := fmt.Sprintf("conc-target-%d", r)
		res := make([]out, len(specs))
		start := make(chan struct{})
		var wg sync.WaitGroup
		for i, sp := range specs {
			wg.Add(1)
			go func(i int, sp string) {
				defer wg.Done()
				<-start
				e, err := cdc.Svc.VerifCheckDuplicate(key, []string{sp}, model.ExtraInfo{}, nil)
				res[i] = out{e, err}
			}(i, sp)
		}
		close(start)
		wg.Wait()
		run.Eval(1)
		run.Count("concurrent_rounds", 1)
		accepted := map[string]int{}
		exclOf := map[string][]string{}
		for i, sp := range specs {
			if res[i].err == nil {
				accepted[sp]++
				exclOf[sp] = append(exclOf[sp], res[i].excl...)
			} else {
				run.Count("concurrent_requests_rejected", 1)
			}
		}
		word := []string{}
		for sp, n := range accepted {
			word = append(word, fmt.Sprintf("%s x%d", sp, n))
		}
		sort.Strings(word)
		run.Nontrivial(fmt.Sprintf("conc/%v/%v", specs, word))
		desc := func() string {
			var l []string
			for i, sp := range specs {
				l = append(l, fmt.Sprintf("%s -> (exclude %v, err %v)", sp, res[i].excl, res[i].err))
			}
			return fmt.Sprintf("round %d, target key %s, %d requests in flight at once: %v", r, key, len(specs), l)
		}
		replay := map[string]any{"round": r, "specs": specs, "outcomes": desc()}
		for sp, n := range accepted {
			if n > 1 {
				run.Violate("C10/two-concurrent-requests-for-the-same-selection-both-accepted", desc(), replay)
			}
			_ = sp
		}
		for sp := range accepted {
			if len(sp) > 2 && sp[len(sp)-2:] == ".*" {
				continue
			}
			wild := sp[:len(sp)-len(sp[lastDot(sp):])] + ".*"
			if accepted[wild] > 0 {
				has := false
				for _, e := range exclOf[wild] {
					if e == sp {
						has = true
					}
				}
				if !has {
					run.Violate("C10/concurrent-name-and-wildcard-both-accepted-without-exclusion", desc(), replay)
				}
			}
		}
	}
	run.Floor("concurrent_rounds", rounds)
	run.Floor("concurrent_requests_rejected", rounds/2)
	run.Rule += " PLUS the concurrent part (counters concurrent_*): per round a fresh target key and 2-4 specifications that select a common collection (a name twice, a name and its database wildcard, the wildcard twice) put to the real duplicate check + registration step of Create by as many goroutines behind a start barrier; judged: a selection accepted twice, a name and its wildcard both accepted without the exclusion."
}

func lastDot(s string) int {
	for i := len(s) - 1; i >= 0; i-- {
		if s[i] == '.' {
			return i
		}
	}
	return 0
}
