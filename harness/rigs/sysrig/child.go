package main

// CDC child process: the real server (MetaCDC + /cdc handler) attached to the supervisor's etcd, message queue
// directory and downstream servers. It can be SIGKILLed by the supervisor at any moment; every store call is
// announced to the supervisor first (see sysboot.WrapStore), which may answer "fail" or "kill".

import (
	"bytes"
	"encoding/json"
	"flag"
	"fmt"
	"net"
	"net/http"
	"os"
	"runtime"
	"strings"
	"syscall"
	"time"

	"github.com/zilliztech/milvus-cdc/core/log"
	serverapi "github.com/zilliztech/milvus-cdc/server/api"
	"github.com/zilliztech/milvus-cdc/server/msgpacker"
	"go.uber.org/zap/zapcore"

	"verifharness/internal/sysboot"
)

var (
	fChild     = flag.Bool("cdc-child", false, "run as CDC child process")
	fEtcd      = flag.String("etcd", "", "child: etcd endpoint")
	fMQDir     = flag.String("mqdir", "", "child: file broker directory")
	fMetaRoot  = flag.String("metaroot", "cdc-verif", "child: CDC meta root path")
	fParent    = flag.String("parent", "", "child: supervisor event endpoint (host:port)")
	fPackCount = flag.Int("pack-count", 1, "child: packer MaxCount")
	fPackTimer = flag.Int("pack-timer", 50, "child: packer TimerInterval ms")
	fSrcChans  = flag.Int("src-channels", 4, "child: source channel num")
	fDebugLog  = flag.Bool("debug-log", false, "child: log level debug")
	fPackMaxKB = flag.Int("pack-maxkb", 0, "child: packer MaxMsgSize in KB")
	fTTIntv    = flag.Int("tt-interval", 0, "child: source TimeTickInterval in ms (0: default)")
)

func killSelf() {
	_ = syscall.Kill(os.Getpid(), syscall.SIGKILL)
	select {}
}

func childMain() {
	if *fDebugLog {
		log.SetLevel(zapcore.DebugLevel)
	}
	w := sysboot.Attach(*fEtcd, *fMQDir, *fMetaRoot)
	httpc := &http.Client{Timeout: 30 * time.Second}
	observer := func(ev sysboot.StoreEvent) sysboot.StoreDecision {
		if *fParent == "" {
			return sysboot.StoreDecision{}
		}
		b, _ := json.Marshal(ev)
		resp, err := httpc.Post("http://"+*fParent+"/store", "application/json", bytes.NewReader(b))
		if err != nil {
			return sysboot.StoreDecision{}
		}
		defer resp.Body.Close()
		var d sysboot.StoreDecision
		_ = json.NewDecoder(resp.Body).Decode(&d)
		return d
	}
	cdc, err := w.StartCDC(sysboot.CDCOptions{
		WrapStore: func(f serverapi.MetaStoreFactory) serverapi.MetaStoreFactory {
			return sysboot.WrapStore(f, observer, killSelf)
		},
		SourceChannels: *fSrcChans,
		TTIntervalMs:   *fTTIntv,
		Packer:         msgpacker.PackerConfig{MaxCount: *fPackCount, TimerInterval: *fPackTimer, MaxMsgSize: *fPackMaxKB},
	})
	if err != nil {
		fmt.Println("CHILD-FAILED", err)
		os.Exit(3)
	}
	mux := http.NewServeMux()
	mux.Handle("/cdc", cdc.Handler)
	mux.HandleFunc("/verif/snapshot", func(rw http.ResponseWriter, r *http.Request) {
		_ = json.NewEncoder(rw).Encode(cdc.Svc.VerifSnapshot())
	})
	mux.HandleFunc("/verif/mq", func(rw http.ResponseWriter, r *http.Request) {
		_ = json.NewEncoder(rw).Encode(w.Broker.Subscriptions())
	})
	mux.HandleFunc("/verif/busy", func(rw http.ResponseWriter, r *http.Request) {
		_ = json.NewEncoder(rw).Encode(measureBusy(300 * time.Millisecond))
	})
	// /verif/busyall (added for C11): like /verif/busy, but lists goroutines of ANY code that are running/runnable
	// in both samples (first frame outside the runtime), to tell a spin from diffuse work when the cpu time is high
	mux.HandleFunc("/verif/busyall", func(rw http.ResponseWriter, r *http.Request) {
		_ = json.NewEncoder(rw).Encode(measureBusyAll(300 * time.Millisecond))
	})
	// /verif/stacks (added for C11): the full goroutine dump as text, for diagnosing leftover goroutines
	mux.HandleFunc("/verif/stacks", func(rw http.ResponseWriter, r *http.Request) {
		buf := make([]byte, 16<<20)
		_, _ = rw.Write(buf[:runtime.Stack(buf, true)])
	})
	ln, err := net.Listen("tcp", "127.0.0.1:0")
	if err != nil {
		fmt.Println("CHILD-FAILED", err)
		os.Exit(3)
	}
	fmt.Printf("CHILD-READY %s\n", ln.Addr().String())
	os.Stdout.Sync()
	_ = http.Serve(ln, mux)
}

type busyReport struct {
	WallMs       int64    `json:"wall_ms"`
	CPUMs        int64    `json:"cpu_ms"`
	Goroutines   int      `json:"goroutines"`
	SpinningRepo []string `json:"spinning_repo_goroutines"` // /repo goroutines running/runnable in BOTH samples
}

func cpuNow() time.Duration {
	var ru syscall.Rusage
	_ = syscall.Getrusage(syscall.RUSAGE_SELF, &ru)
	return time.Duration(ru.Utime.Nano() + ru.Stime.Nano())
}

// runnableRepo returns, per goroutine id, the first /repo frame of goroutines that are running or runnable.
func runnableRepo() map[string]string {
	buf := make([]byte, 8<<20)
	buf = buf[:runtime.Stack(buf, true)]
	out := map[string]string{}
	for _, blk := range strings.Split(string(buf), "\n\n") {
		lines := strings.Split(blk, "\n")
		if len(lines) < 2 || !strings.HasPrefix(lines[0], "goroutine ") {
			continue
		}
		hdr := lines[0]
		if !strings.Contains(hdr, "[running]") && !strings.Contains(hdr, "[runnable]") {
			continue
		}
		for _, l := range lines[1:] {
			if strings.Contains(l, "github.com/zilliztech/milvus-cdc/") && !strings.Contains(l, "verifharness") {
				id := strings.Fields(hdr)[1]
				out[id] = strings.TrimSpace(l)
				break
			}
		}
	}
	return out
}

func measureBusy(d time.Duration) busyReport {
	a := runnableRepo()
	c0, t0 := cpuNow(), time.Now()
	time.Sleep(d)
	c1, t1 := cpuNow(), time.Now()
	b := runnableRepo()
	rep := busyReport{WallMs: t1.Sub(t0).Milliseconds(), CPUMs: (c1 - c0).Milliseconds(), Goroutines: runtime.NumGoroutine()}
	for id, fr := range a {
		if fr2, ok := b[id]; ok && fr2 == fr {
			rep.SpinningRepo = append(rep.SpinningRepo, "goroutine "+id+": "+fr)
		}
	}
	return rep
}

// runnableAll returns, per goroutine id, the first frame outside the Go runtime of every goroutine that is running
// or runnable (the goroutine taking the dump excluded).
func runnableAll() map[string]string {
	buf := make([]byte, 8<<20)
	buf = buf[:runtime.Stack(buf, true)]
	out := map[string]string{}
	for _, blk := range strings.Split(string(buf), "\n\n") {
		lines := strings.Split(blk, "\n")
		if len(lines) < 2 || !strings.HasPrefix(lines[0], "goroutine ") {
			continue
		}
		hdr := lines[0]
		if !strings.Contains(hdr, "[running]") && !strings.Contains(hdr, "[runnable]") {
			continue
		}
		if strings.Contains(blk, "main.runnableAll") {
			continue
		}
		frame := strings.TrimSpace(lines[1])
		for _, l := range lines[1:] {
			if strings.HasPrefix(l, "\t") || strings.HasPrefix(l, "created by") {
				continue
			}
			if strings.HasPrefix(l, "runtime.") || strings.HasPrefix(l, "runtime/") || strings.HasPrefix(l, "internal/") || strings.HasPrefix(l, "syscall.") {
				continue
			}
			frame = strings.TrimSpace(l)
			break
		}
		out[strings.Fields(hdr)[1]] = frame
	}
	return out
}

func measureBusyAll(d time.Duration) busyReport {
	a := runnableAll()
	c0, t0 := cpuNow(), time.Now()
	time.Sleep(d)
	c1, t1 := cpuNow(), time.Now()
	b := runnableAll()
	rep := busyReport{WallMs: t1.Sub(t0).Milliseconds(), CPUMs: (c1 - c0).Milliseconds(), Goroutines: runtime.NumGoroutine()}
	for id, fr := range a {
		if fr2, ok := b[id]; ok && fr2 == fr {
			rep.SpinningRepo = append(rep.SpinningRepo, "goroutine "+id+": "+fr)
		}
	}
	return rep
}
