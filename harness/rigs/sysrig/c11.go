package main

// C11 — task lifecycle is a consistent state machine with complete cleanup.
//
// A CDC child process runs on the supervisor's etcd, file message queue and two fake downstream Milvus servers.
// The supervisor owns 2-3 source collections (kept ticking, one row per collection after every call) and plays
// ONE sequential API client: generated sequences of <= 12 create / pause / resume / delete / get / list calls
// over 2-3 tasks on 2 targets, legal and illegal (pause a paused task, resume a running one, operate on deleted
// or never created ids, create with an existing task_id), two calls per sequence with a store failure at an
// enumerated store call of the operation, a SIGKILL+restart in the middle of half of the sequences and one at
// the end of every sequence, then everything is paused and deleted through the API.
// See c11_exec.go for the oracles (A: five views against a sequential reference after every call; B: cleanup
// at quiescent points; C: restart).

import (
	"fmt"
	"math/rand"
	"os"
	"sort"
	"strconv"
	"sync"

	"verifharness/internal/vf"
)

// store calls of one legal API operation as observed by the calibration sequence (fallback when it fails)
var c11DefaultStoreCalls = map[string]int{"create": 5, "pause": 2, "resume": 3, "delete": 5, "get": 1, "list": 1}

var c11Ops = []string{"create", "pause", "resume", "delete", "get", "list"}

type c11Fault struct {
	Op string
	K  int
}

func c11FaultList(calls map[string]int) []c11Fault {
	var l []c11Fault
	for _, op := range c11Ops {
		for k := 1; k <= calls[op]; k++ {
			l = append(l, c11Fault{op, k})
		}
	}
	return l
}

// c11Calibration: one fixed legal sequence without faults; it counts the store calls each operation makes.
func c11Calibration() *c11Seq {
	return &c11Seq{Idx: 0, NSrcP: 2,
		Colls: []collDef{{DB: "default", Name: "c11_a", PChannels: []int{0, 1}}, {DB: "default", Name: "c11_b", PChannels: []int{1}}},
		Slots: []c11Slot{{ID: "c11-0-t0", Target: 0, Coll: 0}, {ID: "c11-0-t1", Target: 1, Coll: 0, NoAuto: true}, {ID: "c11-0-t2", Target: 0, Coll: 1}},
		Steps: []c11Step{{Op: "create", Slot: 0}, {Op: "create", Slot: 1}, {Op: "create", Slot: 2}, {Op: "get", Slot: 0}, {Op: "list", Slot: 0}, {Op: "pause", Slot: 0},
			{Op: "pause", Slot: 0}, {Op: "resume", Slot: 0}, {Op: "resume", Slot: 0}, {Op: "pause", Slot: 2}, {Op: "delete", Slot: 0}, {Op: "pause", Slot: 0}},
	}
}

func genC11Seq(seed int64, idx int, faults []c11Fault) *c11Seq {
	rnd := vf.Rand(seed, "c11-seq", idx)
	q := &c11Seq{Idx: idx, NSrcP: 2}
	// collections: 2-3, each with 1-2 shards on the two source channels
	nColl := 2 + rnd.Intn(2)
	for ci := 0; ci < nColl; ci++ {
		var ps []int
		if rnd.Intn(2) == 0 {
			ps = []int{rnd.Intn(2)}
		} else {
			ps = []int{0, 1}
		}
		q.Colls = append(q.Colls, collDef{DB: "default", Name: fmt.Sprintf("c11_%c", 'a'+ci), PChannels: ps})
	}
	// tasks: 2-3 (target, collection) pairs, all different; at least two share a target in most sequences
	nSlot := 2 + rnd.Intn(2)
	used := map[string]bool{}
	for len(q.Slots) < nSlot {
		t, c := rnd.Intn(2), rnd.Intn(nColl)
		if len(q.Slots) == 1 && rnd.Intn(3) > 0 {
			t = q.Slots[0].Target
		}
		k := fmt.Sprintf("%d/%d", t, c)
		if used[k] {
			continue
		}
		used[k] = true
		q.Slots = append(q.Slots, c11Slot{ID: fmt.Sprintf("c11-%d-t%d", idx, len(q.Slots)), Target: t, Coll: c, NoAuto: rnd.Intn(3) == 0})
	}
	// two faults of the enumeration per sequence
	var fl []c11Fault
	if len(faults) > 0 {
		fl = []c11Fault{faults[(2*idx)%len(faults)], faults[(2*idx+1)%len(faults)]}
	}
	gm := make([]string, nSlot) // generator's guess of the states (the executor's reference is authoritative)
	for i := range gm {
		gm[i] = c11Absent
	}
	apply := func(st c11Step) {
		q.Steps = append(q.Steps, st)
		if st.Slot < 0 || st.FailAt > 0 {
			return
		}
		s := gm[st.Slot]
		switch {
		case st.Op == "create" && s == c11Absent:
			gm[st.Slot] = c11Running
		case st.Op == "pause" && s == c11Running:
			gm[st.Slot] = c11Paused
		case st.Op == "resume" && s == c11Paused:
			gm[st.Slot] = c11Running
		case st.Op == "delete":
			gm[st.Slot] = c11Absent
		}
	}
	find := func(state string) int {
		var c []int
		for i, s := range gm {
			if s == state || (state == "existing" && s != c11Absent) {
				c = append(c, i)
			}
		}
		if len(c) == 0 {
			return -1
		}
		return c[rnd.Intn(len(c))]
	}
	// force makes a legal call of op possible (at most two preparatory calls) and emits it with the fault
	force := func(f c11Fault) {
		need := map[string]string{"create": c11Absent, "pause": c11Running, "resume": c11Paused, "delete": "existing", "get": "existing", "list": "existing"}[f.Op]
		for try := 0; try < 3; try++ {
			if si := find(need); si >= 0 {
				apply(c11Step{Op: f.Op, Slot: si, FailAt: f.K})
				return
			}
			prep := c11Step{Slot: -1}
			switch need {
			case c11Absent:
				prep = c11Step{Op: "delete", Slot: find("existing")}
			case c11Running, "existing":
				if si := find(c11Paused); si >= 0 && need == c11Running {
					prep = c11Step{Op: "resume", Slot: si}
				} else {
					prep = c11Step{Op: "create", Slot: find(c11Absent)}
				}
			case c11Paused:
				if si := find(c11Running); si >= 0 {
					prep = c11Step{Op: "pause", Slot: si}
				} else {
					prep = c11Step{Op: "create", Slot: find(c11Absent)}
				}
			}
			if prep.Slot < 0 {
				return
			}
			apply(prep)
		}
	}
	n := 9 + rnd.Intn(4)
	f1, f2 := n/3, (2*n)/3+1
	midRestart := -1
	if rnd.Intn(2) == 0 {
		midRestart = n / 2
	}
	calls := func() int {
		c := 0
		for _, st := range q.Steps {
			if st.Op != "restart" {
				c++
			}
		}
		return c
	}
	pick := func(w map[string]int) string {
		keys := make([]string, 0, len(w))
		tot := 0
		for k, v := range w {
			keys = append(keys, k)
			tot += v
		}
		sort.Strings(keys)
		r := rnd.Intn(tot)
		for _, k := range keys {
			if r < w[k] {
				return k
			}
			r -= w[k]
		}
		return keys[0]
	}
	restarted := false
	for calls() < n {
		c := calls()
		if len(fl) > 0 && c >= f1 {
			force(fl[0])
			fl = fl[1:]
			f1 = f2
			if len(fl) == 0 {
				f1 = 1 << 30
			}
			continue
		}
		if !restarted && midRestart >= 0 && c >= midRestart {
			restarted = true
			q.Steps = append(q.Steps, c11Step{Op: "restart"})
			continue
		}
		if rnd.Intn(14) == 0 { // an id that never existed
			apply(c11Step{Op: []string{"pause", "resume", "delete", "get"}[rnd.Intn(4)], Slot: -1})
			continue
		}
		si := rnd.Intn(nSlot)
		// the first calls build something up
		if c < 2 && find("existing") < 0 {
			apply(c11Step{Op: "create", Slot: si})
			continue
		}
		var op string
		switch gm[si] {
		case c11Absent:
			op = pick(map[string]int{"create": 60, "pause": 8, "resume": 8, "delete": 8, "get": 6, "list": 4})
		case c11Running:
			op = pick(map[string]int{"pause": 42, "delete": 14, "resume": 14, "create": 10, "get": 8, "list": 6})
		default:
			op = pick(map[string]int{"resume": 42, "delete": 14, "pause": 14, "create": 10, "get": 8, "list": 6})
		}
		apply(c11Step{Op: op, Slot: si})
	}
	if len(q.Steps) > 14 {
		q.Steps = q.Steps[:14]
	}
	return q
}

var _ = rand.Int

func runC11(tier string) *vf.Run {
	run := vf.NewRun("C11", tier, "fault_enumeration")
	if os.Getenv("C11_ONLY") == "mq" { // debug: the reader-failure scenario alone
		runC11MQ(run)
		return run
	}
	run.Rule = "case = one API sequence run by a single sequential client against a fresh CDC child process (embedded etcd, file message queue, 2 fake downstream servers, 2-3 source collections with 1-2 shards kept ticking, one row written per collection after every call): 9-12 calls (+ preparatory ones) over 2-3 tasks (distinct (target, collection) pairs, explicit task ids, disable_auto_start on a third of them) drawn from create/pause/resume/delete/get/list with ~1/3 illegal ones (wrong state, deleted id, never created id, create with an existing id); a calibration sequence counts the store calls of each operation, then every (operation, k-th store call) is enumerated cyclically, two per sequence: that call of that operation fails; a SIGKILL+restart in the middle of half of the sequences and at the end of each; finally everything is paused and deleted. After EVERY call: API get == API list == etcd record == in-memory table == gauge set, for all ids, == sequential reference (mismatch must persist over two samplings); per target refCnt / quit-function keys == running tasks; no checkpoint key of an absent task; consumer census rules; rows written while no running task covers (target, collection) are never acked there; after pause/delete with ticks stopped: /verif/busy. Non-trivial = the sequence ran to its end (or to a recorded divergence) without watchdog; distinct by the sequence text."
	run.Assumptions = []string{
		"single sequential client: a sequential reference model suffices; the service may pause a task on its own after an internal failure (reason 'fail…'): accepted as a legal Running->Paused when all five views agree",
		"create with the id of an existing task is answered 200 with that id and no transition (idempotent retry in Create); the check demands only that nothing changes; create makes the task Running also with disable_auto_start (the flag is read by ReloadTask only)",
		"restart expectation taken from the statement: Paused (with a reason) iff disable_auto_start, else Running — a task persisted as Paused without the flag comes back Running (ReloadTask calls startInternal for it); reported as a counter, not as a violation",
		"store failures are injected before the call reaches etcd (a failed commit never reaches the store and the wrapper rolls the real transaction back); only calls of the API operation are counted: task_info calls of that id (or unfiltered), whole-task task_position get/delete, Txn and commit; checkpoint traffic of running tasks is not touched",
		"consumer census: dispatcher consumers are named <client>-8444-<vchannel>-<main?>; one client pair per target; a solo consumer, and a shared (main) consumer of a client that never had a solo consumer on that channel, reads exactly the vchannel in its name: open ones are counted per vchannel against the targets that have a running task owning it; a shared consumer of a client that had solo consumers may be left open by the dispatcher library itself with nothing registered (milvus pkg msgdispatcher manager.Remove tests len(soloDispatchers) before removing the solo dispatcher of the vchannel being removed): third-party pool, only counted (census_open_shared_consumers_not_attributed); the library may block 5 s in a deregistration, so an offending set is judged only after it has been unchanged for 9 s (>= 11 s after the call); a census still changing after 60 s is inconclusive",
		"busy work is judged only by the child's own cpu time and its own goroutine states with source ticks stopped, over three consecutive 300 ms windows; children run with GOMAXPROCS=4 so that a spinning goroutine cannot starve the machine; never by wall-clock slowness",
		"goroutine count: baseline = fresh process without tasks, final = after the last restart, pausing and deleting everything; tolerance 60 (gRPC/etcd/dispatcher pools)",
	}
	// children inherit the environment: bound the damage a spinning goroutine can do to the (shared) machine
	os.Setenv("GOMAXPROCS", "4")
	gorTol := 60
	var mu sync.Mutex
	storeCalls := map[string]int{}
	baseGor, finalGor := []int{}, []int{}
	cpuRatios := []string{}
	allNotes := []string{}
	report := func(q *c11Seq, r *c11Result) {
		run.Eval(1)
		tag := fmt.Sprintf("[sequence %d] ", q.Idx)
		if r.inconclusive != "" {
			run.Inconclusive(tag + r.inconclusive)
		}
		for _, v := range r.vios {
			run.Violate(v.key, v.desc, r.replay)
		}
		for k, n := range r.counts {
			run.Count(k, n)
		}
		for set, vs := range r.distinct {
			for _, v := range vs {
				run.Distinct(set, v)
			}
		}
		if r.decided {
			run.Nontrivial(q.sig())
			run.Count("sequences_decided", 1)
		}
		mu.Lock()
		if r.gorBase > 0 {
			baseGor = append(baseGor, r.gorBase)
		}
		if r.gorFinal > 0 {
			finalGor = append(finalGor, r.gorFinal)
		}
		for _, nt := range r.notes {
			if len(allNotes) < 12 {
				allNotes = append(allNotes, tag+nt)
			}
		}
		for _, b := range r.busy {
			if b.WallMs > 0 && len(cpuRatios) < 400 {
				cpuRatios = append(cpuRatios, fmt.Sprintf("%d/%d", b.CPUMs, b.WallMs))
			}
		}
		mu.Unlock()
		if q.Idx <= 2 {
			run.Sample(map[string]any{"sequence": q, "trace": r.trace, "violations": len(r.vios), "inconclusive": r.inconclusive, "goroutines_fresh_process": r.gorBase, "goroutines_after_deleting_everything": r.gorFinal, "notes": r.notes})
		}
	}
	only := -1
	if v := os.Getenv("C11_ONLY"); v != "" {
		only, _ = strconv.Atoi(v)
	}
	// calibration (sequence 0)
	cal := c11Calibration()
	cr := runC11Seq(cal, "c11-0", gorTol)
	for op, n := range cr.storeCalls {
		storeCalls[op] = n
	}
	for _, op := range c11Ops {
		if storeCalls[op] == 0 {
			storeCalls[op] = c11DefaultStoreCalls[op]
			run.Count("calibration_fallback_"+op, 1)
		}
	}
	report(cal, cr)
	run.Extra("goroutines_left_after_deleting_everything_in_the_calibration_sequence_by_first_frame", cr.finalStacks)
	run.Extra("store_calls_per_operation", storeCalls)
	faults := c11FaultList(storeCalls)
	run.Extra("enumerated_store_failure_points", len(faults))
	n := run.Pick(30, 300)
	var seqs []*c11Seq
	for i := 1; i <= n; i++ {
		if only >= 0 && i != only {
			continue
		}
		seqs = append(seqs, genC11Seq(run.Seed, i, faults))
	}
	if only == 0 {
		seqs = nil
	}
	parallel(len(seqs), 8, func(i int) {
		q := seqs[i]
		r := runC11Seq(q, fmt.Sprintf("c11-%d", q.Idx), gorTol)
		report(q, r)
	})
	sort.Ints(baseGor)
	sort.Ints(finalGor)
	run.Extra("goroutines_fresh_process_sorted", baseGor)
	run.Extra("goroutines_after_deleting_everything_sorted", finalGor)
	run.Extra("busy_windows_cpu_ms_per_wall_ms", cpuRatios)
	run.Extra("notes_first", allNotes)
	// floors: about a third of what an unloaded run observes (quick: 31 sequences, thorough: 301)
	q := run.Pick(1, 10)
	if *fCase < 0 && os.Getenv("C11_ONLY") == "" && run.Thorough() {
		// thorough tier only: Milvus' msgstream retries the refused subscription for about 80 s before it gives up
		runC11MQ(run)
	}
	run.Floor("sequences_decided", run.Pick(10, 100))
	run.Floor("calls_legal", 95*q)
	run.Floor("calls_illegal", 24*q)
	run.Floor("transitions_attempted", 12)
	run.Floor("store_failures_delivered", 17*q)
	run.Floor("store_failure_points", 12)
	for _, op := range c11Ops {
		run.Floor("store_failures_in_"+op, run.Pick(1, 10))
	}
	run.Floor("restarts", 12*q)
	run.Floor("restart_tasks_checked", 20*q)
	run.Floor("restart_checkpoint_keys_checked", 35*q)
	run.Floor("census_checks", 130*q)
	run.Floor("busy_measurements", 40*q)
	run.Floor("entity_checks", 250*q)
	run.Floor("deletes_of_tasks_with_checkpoints", 18*q)
	run.Floor("rows_written", 350*q)
	run.Floor("rows_written_for_a_paused_task", 70*q)
	run.Floor("row_acks_observed", 40*q)
	return run
}
