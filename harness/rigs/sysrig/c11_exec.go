package main

// C11 executor: runs ONE generated API sequence against a CDC child process and decides it.
//
// The supervisor is the single sequential client, so the reference is a plain sequential map
// id -> {absent, Running, Paused}. After every call five views of every task are compared with each other
// and with the reference: API get, API list, the persisted record (etcd dump), the in-memory table and the
// per-state task gauge (both through hook H3, /verif/snapshot). At quiescent points after pause / delete /
// restart the cleanup obligations are checked: per-target reference counts and quit-function table, the
// message-queue consumer census, downstream acks of rows written after the stop, leftover store keys, busy
// goroutines / the child's own CPU time, goroutine count.

import (
	"encoding/base64"
	"encoding/json"
	"fmt"
	"io"
	"sort"
	"strings"
	"sync"
	"time"

	"github.com/zilliztech/milvus-cdc/server"
	"google.golang.org/grpc/codes"

	"verifharness/internal/fakemilvus"
	"verifharness/internal/memq"
	"verifharness/internal/sysboot"
)

const (
	c11Absent  = "absent"
	c11Running = "Running"
	c11Paused  = "Paused"
	c11Ghost   = "c11-never-created"
)

type c11Slot struct {
	ID     string `json:"id"`
	Target int    `json:"target"`
	Coll   int    `json:"coll"`
	NoAuto bool   `json:"disable_auto_start"`
}

type c11Step struct {
	Op     string `json:"op"`                // create | pause | resume | delete | get | list | restart
	Slot   int    `json:"slot"`              // index into Slots; -1 = an id that never existed
	FailAt int    `json:"fail_at,omitempty"` // k > 0: the k-th store call of this API operation fails
}

type c11Seq struct {
	Idx   int       `json:"case"`
	NSrcP int       `json:"source_pchannels"`
	Colls []collDef `json:"collections"`
	Slots []c11Slot `json:"tasks"`
	Steps []c11Step `json:"steps"`
}

func (q *c11Seq) sig() string {
	var b strings.Builder
	for _, sl := range q.Slots {
		fmt.Fprintf(&b, "[t%d c%d %v]", sl.Target, sl.Coll, sl.NoAuto)
	}
	for _, st := range q.Steps {
		fmt.Fprintf(&b, "%s:%d", st.Op, st.Slot)
		if st.FailAt > 0 {
			fmt.Fprintf(&b, "!%d", st.FailAt)
		}
		b.WriteByte(',')
	}
	return b.String()
}

type c11Trace struct {
	Step    int      `json:"step"`
	Op      string   `json:"op"`
	ID      string   `json:"id,omitempty"`
	Before  string   `json:"model_before,omitempty"`
	Legal   bool     `json:"legal"`
	FailAt  int      `json:"fail_at,omitempty"`
	Hit     bool     `json:"store_failure_delivered,omitempty"`
	Calls   []string `json:"store_calls,omitempty"`
	Code    int      `json:"code"`
	Msg     string   `json:"message,omitempty"`
	After   string   `json:"model_after,omitempty"`
	Verdict string   `json:"verdict,omitempty"`
}

type c11Result struct {
	vios         []vio
	inconclusive string
	counts       map[string]int
	distinct     map[string][]string
	trace        []c11Trace
	storeCalls   map[string]int // op -> number of store calls of a legal fault-free call (calibration)
	decided      bool
	notes        []string
	busy         []busyReport
	gorBase      int
	gorFinal     int
	finalStacks  string
	replay       map[string]any
}

func (r *c11Result) count(k string, n int) { r.counts[k] += n }
func (r *c11Result) dist(set, v string)    { r.distinct[set] = append(r.distinct[set], v) }

type c11Msg struct {
	UID    int64
	Coll   int
	SentAt int64
	Uncov  map[int]bool // targets on which no running task covered the collection when the row was written
}

type c11Exec struct {
	seq   *c11Seq
	s     *super
	rs    *runState
	res   *c11Result
	copts childOpts

	model   map[string]string // id -> absent | Running | Paused
	noAuto  map[string]bool   // flag of the existing task (as created)
	idSlot  map[string]int
	stopped bool // the reference diverged (a violation was recorded): stop judging this sequence

	armMu sync.Mutex
	arm   struct {
		on    bool
		id    string
		k, n  int
		hit   bool
		calls []string
	}

	msgs       map[int64]*c11Msg
	coverStart map[string][]int64 // "target/coll" -> clocks at which a create / resume / restart may have started a reader
	ackSeen    int                // events already scanned
	posBefore  map[string]map[string]string
	spinSeen   bool
	lastGood   int64        // clock of the last observation in which all views agreed with the reference
	censusOff  bool         // a consumer leak was reported in this incarnation
	entOff     map[int]bool // targets whose replicate entity was reported in this incarnation
	faultSeen  bool         // a store failure was delivered earlier in this incarnation
	stepNo     int
	flagged    map[string]bool
}

// ---------------- store failure injection ----------------

// c11Match: store calls that belong to the API operation on task id (the data path writes checkpoints of
// running tasks concurrently: task_position puts and per-collection reads are not the operation's).
func c11Match(ev sysboot.StoreEvent, id string) bool {
	switch ev.Kind {
	case "factory":
		return true
	case "task_info":
		return ev.Task == "" || ev.Task == id
	case "task_position":
		return ev.Op != "put" && ev.Coll == 0 && ev.Task == id
	}
	return false
}

func (x *c11Exec) decide(ev sysboot.StoreEvent) sysboot.StoreDecision {
	if ev.Phase != "before" {
		return sysboot.StoreDecision{}
	}
	x.armMu.Lock()
	defer x.armMu.Unlock()
	if !x.arm.on || !c11Match(ev, x.arm.id) {
		return sysboot.StoreDecision{}
	}
	x.arm.n++
	d := fmt.Sprintf("%s %s", ev.Op, ev.Kind)
	if ev.InTxn {
		d += " (txn)"
	}
	x.arm.calls = append(x.arm.calls, d)
	if x.arm.k > 0 && x.arm.n == x.arm.k {
		x.arm.hit = true
		return sysboot.StoreDecision{Fail: "injected store failure (C11)"}
	}
	return sysboot.StoreDecision{}
}

func (x *c11Exec) call(op, id string, data any, failAt int) (sysboot.Response, bool, []string) {
	x.armMu.Lock()
	x.arm.on, x.arm.id, x.arm.k, x.arm.n, x.arm.hit, x.arm.calls = true, id, failAt, 0, false, nil
	x.armMu.Unlock()
	r := x.s.api(op, data)
	x.armMu.Lock()
	hit, calls := x.arm.hit, x.arm.calls
	x.arm.on = false
	x.armMu.Unlock()
	return r, hit, calls
}

// ---------------- observation ----------------

type c11Obs struct {
	get, list, store, mem, gauge map[string]string
	reason                       map[string]string
	ents                         map[string]server.VerifEntity
	pos                          map[string]map[string]string // id -> position key -> value
	err                          string
	clock                        int64
}

func c11StateName(i int) string {
	switch i {
	case 0:
		return "Initial"
	case 1:
		return c11Running
	case 2:
		return c11Paused
	}
	return fmt.Sprintf("state-%d", i)
}

func (x *c11Exec) ids(o *c11Obs) []string {
	set := map[string]bool{c11Ghost: true}
	for _, sl := range x.seq.Slots {
		set[sl.ID] = true
	}
	if o != nil {
		for _, m := range []map[string]string{o.list, o.store, o.mem, o.gauge} {
			for id := range m {
				set[id] = true
			}
		}
	}
	out := make([]string, 0, len(set))
	for id := range set {
		out = append(out, id)
	}
	sort.Strings(out)
	return out
}

func (x *c11Exec) observe() *c11Obs {
	o := &c11Obs{get: map[string]string{}, list: map[string]string{}, store: map[string]string{}, mem: map[string]string{}, gauge: map[string]string{},
		reason: map[string]string{}, pos: map[string]map[string]string{}}
	// persisted
	dump, err := x.s.w.Etcd.Dump(x.s.w.MetaRoot + "/")
	if err != nil {
		o.err = "etcd dump: " + err.Error()
		return o
	}
	ip, pp := x.s.w.MetaRoot+"/task_info/", x.s.w.MetaRoot+"/task_position/"
	for k, v := range dump {
		switch {
		case strings.HasPrefix(k, ip):
			var ti struct {
				TaskID string
				State  int
				Reason string
			}
			if json.Unmarshal([]byte(v), &ti) != nil {
				o.store[strings.TrimPrefix(k, ip)] = "undecodable"
				continue
			}
			o.store[strings.TrimPrefix(k, ip)] = c11StateName(ti.State)
		case strings.HasPrefix(k, pp):
			rest := strings.TrimPrefix(k, pp)
			id := rest
			if i := strings.Index(rest, "/"); i >= 0 {
				id = rest[:i]
			}
			if o.pos[id] == nil {
				o.pos[id] = map[string]string{}
			}
			o.pos[id][k] = v
		}
	}
	// memory + gauge
	var snap server.VerifSnapshot
	if err := x.s.getJSON("/verif/snapshot", &snap); err != nil {
		o.err = "snapshot: " + err.Error()
		return o
	}
	for _, t := range snap.Tasks {
		o.mem[t.TaskID] = c11StateName(t.State)
	}
	for st, ids := range snap.TaskGauge {
		for _, id := range ids {
			if prev, ok := o.gauge[id]; ok {
				o.gauge[id] = prev + "+" + st
			} else {
				o.gauge[id] = st
			}
		}
	}
	o.ents = snap.Entities
	// API list
	lr := x.s.api("list", map[string]any{})
	if lr.Code != 200 {
		o.err = fmt.Sprintf("list: %d %s", lr.Code, lr.Message)
		return o
	}
	if ts, ok := lr.Data["tasks"].([]any); ok {
		for _, t := range ts {
			if m, ok := t.(map[string]any); ok {
				id, _ := m["task_id"].(string)
				st, _ := m["state"].(string)
				o.list[id] = st
			}
		}
	}
	// API get, every id of interest
	for _, id := range x.ids(o) {
		gr := x.s.api("get", map[string]any{"task_id": id})
		switch {
		case gr.Code == 200:
			if t, ok := gr.Data["task"].(map[string]any); ok {
				st, _ := t["state"].(string)
				o.get[id] = st
				if rs, ok := t["reason"].(string); ok {
					o.reason[id] = rs
				}
			} else {
				o.get[id] = "undecodable"
			}
		case strings.Contains(gr.Message, "not found"):
			// absent
		default:
			o.err = fmt.Sprintf("get %s: %d %s", id, gr.Code, gr.Message)
			return o
		}
	}
	o.clock = x.s.tick()
	return o
}

func c11ViewsOf(o *c11Obs, id string) map[string]string {
	g := func(m map[string]string) string {
		if v, ok := m[id]; ok {
			return v
		}
		return c11Absent
	}
	return map[string]string{"get": g(o.get), "list": g(o.list), "store": g(o.store), "memory": g(o.mem), "gauge": g(o.gauge)}
}

var c11ViewOrder = []string{"get", "list", "store", "memory", "gauge"}

// c11Disagree describes how the views of one task differ: "" when all equal, else e.g. "memory=Paused-others=Running".
func c11Disagree(v map[string]string) (sig, agreed string) {
	cnt := map[string]int{}
	for _, n := range c11ViewOrder {
		cnt[v[n]]++
	}
	if len(cnt) == 1 {
		return "", v["get"]
	}
	// majority value (ties: the value of the API get view)
	maj, best := v["get"], cnt[v["get"]]
	for val, c := range cnt {
		if c > best {
			maj, best = val, c
		}
	}
	var parts []string
	for _, n := range c11ViewOrder {
		if v[n] != maj {
			parts = append(parts, n+"="+v[n])
		}
	}
	return strings.Join(parts, "-") + "-others=" + maj, ""
}

func (x *c11Exec) violate(key, desc string) {
	if x.flagged[key] {
		return
	}
	x.flagged[key] = true
	x.res.vios = append(x.res.vios, vio{key, fmt.Sprintf("[sequence %d step %d] %s", x.seq.Idx, x.stepNo, desc)})
}

// ---------------- judgement of the views after a call ----------------

// judge compares the views with the reference (already updated for the call). ctx names the call for keys.
// It returns false when the reference and the system diverged (the sequence is not judged any further).
func (x *c11Exec) judge(ctx, opID string, code int, hit bool, before string, legal bool, o *c11Obs) (ok bool, pend []vio) {
	if o.err != "" {
		time.Sleep(300 * time.Millisecond)
		if !x.crashed(ctx) {
			x.res.inconclusive = "observation failed after " + ctx + ": " + o.err
		}
		return false, nil
	}
	ok = true
	add := func(k, d string) { pend = append(pend, vio{k, d}) }
	suffix := ""
	if hit {
		suffix = "-store-failure"
	}
	op := strings.SplitN(ctx, " ", 2)[0]
	for _, id := range x.ids(o) {
		want := x.model[id]
		if want == "" {
			want = c11Absent
		}
		v := c11ViewsOf(o, id)
		sig, agreed := c11Disagree(v)
		if sig != "" && !(v["store"] == c11Paused && v["memory"] == c11Running && strings.HasPrefix(o.reason[id], "fail")) && v["memory"] != c11Paused {
			// did the service itself persist this task as Paused (internal failure path) since the views last agreed,
			// without pausing it in memory? then a later call only inherited the disagreement
			for _, e := range x.s.events() {
				if e.Clock > x.lastGood && e.Kind == "store" && e.Store != nil && e.Store.Kind == "task_info" && e.Store.Op == "put" && e.Store.Phase == "before" &&
					e.Store.Task == id && e.Store.State == 2 && strings.HasPrefix(e.Store.Reason, "fail") {
					add("C11/task-persisted-as-paused-by-internal-failure-but-running-in-memory",
						fmt.Sprintf("after %s (answered code %d): the views of task %s disagree: get=%s list=%s persisted=%s in-memory=%s gauge=%s; at clock %d, outside any API call on this task, the service wrote its record as Paused (reason %q) while the in-memory table and the gauge kept it Running; the call above inherited that disagreement", ctx, code, id, v["get"], v["list"], v["store"], v["memory"], v["gauge"], e.Clock, e.Store.Reason))
					ok = false
					sig = ""
					break
				}
			}
			if !ok && sig == "" {
				continue
			}
		}
		if sig != "" && v["store"] == c11Paused && v["memory"] == c11Running && strings.HasPrefix(o.reason[id], "fail") {
			add("C11/task-persisted-as-paused-by-internal-failure-but-running-in-memory",
				fmt.Sprintf("after %s (answered code %d): task %s is Paused in the store (reason %q, written by the service itself, not by an API call on this task) while the in-memory table and the gauge say %s/%s: get=%s list=%s persisted=%s", ctx, code, id, o.reason[id], v["memory"], v["gauge"], v["get"], v["list"], v["store"]))
			ok = false
			continue
		}
		if sig != "" && id != opID && op != "restart" {
			add("C11/views-disagree-on-task-not-addressed-by-the-call-"+sig,
				fmt.Sprintf("after %s (answered code %d): the views of task %s, which the call did not address, disagree: get=%s list=%s persisted=%s in-memory=%s gauge=%s (reference: %s; reason reported by get: %q)", ctx, code, id, v["get"], v["list"], v["store"], v["memory"], v["gauge"], want, o.reason[id]))
			ok = false
			continue
		}
		if sig != "" {
			add(fmt.Sprintf("C11/views-disagree-after-%s%s-%s", op, suffix, sig),
				fmt.Sprintf("after %s (answered code %d): the views of task %s disagree: get=%s list=%s persisted=%s in-memory=%s gauge=%s (reference: %s)", ctx, code, id, v["get"], v["list"], v["store"], v["memory"], v["gauge"], want))
			ok = false
			continue
		}
		if agreed == want {
			continue
		}
		// a running task that the service paused on its own after a failure (reason "fail ...") is a legal Running->Paused
		if want == c11Running && agreed == c11Paused && strings.HasPrefix(o.reason[id], "fail") {
			x.res.count("spontaneous_pause_after_internal_failure", 1)
			x.res.notes = append(x.res.notes, fmt.Sprintf("step %d: task %s paused by the service itself: %s", x.stepNo, id, o.reason[id]))
			x.model[id] = c11Paused
			continue
		}
		ok = false
		switch {
		case op == "restart":
			add(fmt.Sprintf("C11/task-after-restart-is-%s-expected-%s", agreed, want), fmt.Sprintf("%s: task %s is %s in every view; by its persisted record and auto-start flag it should be %s", ctx, id, agreed, want))
		case id != opID:
			add(fmt.Sprintf("C11/%s%s-changed-another-task", op, suffix), fmt.Sprintf("after %s: task %s (not addressed by the call) is %s in every view, reference %s", ctx, id, agreed, want))
		case code != 200:
			add(fmt.Sprintf("C11/failed-%s%s-changed-state-%s-to-%s", op, suffix, before, agreed), fmt.Sprintf("%s was answered with code %d but task %s went from %s to %s in every view", ctx, code, id, before, agreed))
		case !legal:
			add(fmt.Sprintf("C11/illegal-%s-on-%s-succeeded", op, before), fmt.Sprintf("%s on a task in state %s was answered with code 200 and the task is now %s", ctx, before, agreed))
		default:
			add(fmt.Sprintf("C11/%s%s-answered-ok-but-state-is-%s", op, suffix, agreed), fmt.Sprintf("%s was answered with code 200, task %s should be %s but every view says %s", ctx, id, want, agreed))
		}
	}
	return ok, pend
}

// observeJudge samples the views and judges them; a mismatch must persist over a second sampling (the views are
// read one after the other, the service may pause a task on its own in between).
func (x *c11Exec) observeJudge(ctx, opID string, code int, hit bool, before string, legal bool) (*c11Obs, bool) {
	o := x.observe()
	ok, pend := x.judge(ctx, opID, code, hit, before, legal, o)
	if !ok && x.res.inconclusive == "" {
		time.Sleep(300 * time.Millisecond)
		o = x.observe()
		ok, pend = x.judge(ctx, opID, code, hit, before, legal, o)
	}
	for _, v := range pend {
		x.violate(v.key, v.desc)
	}
	if ok {
		x.lastGood = o.clock
	}
	return o, ok
}

// ---------------- per-target replication resources ----------------

func (x *c11Exec) runningOn(target int) []string {
	var ids []string
	for _, sl := range x.seq.Slots {
		if sl.Target == target && x.model[sl.ID] == c11Running {
			ids = append(ids, sl.ID)
		}
	}
	sort.Strings(ids)
	return ids
}

func (x *c11Exec) checkEntities(ctx string, hit bool, o *c11Obs) {
	op := strings.SplitN(ctx, " ", 2)[0]
	if hit {
		op += "-store-failure"
	} else if x.faultSeen {
		op += "-after-earlier-store-failure"
	}
	for ti, t := range x.s.w.Targets {
		if x.entOff[ti] {
			continue
		}
		want := x.runningOn(ti)
		e, have := o.ents[t.URI()]
		x.res.count("entity_checks", 1)
		wrong := (len(want) == 0) == have
		if have && (int(e.RefCnt) != len(want) || strings.Join(e.QuitFuncTasks, ",") != strings.Join(want, ",")) {
			wrong = true
		}
		if wrong {
			// the entity stays wrong (and its consumers stay open) until the process is restarted
			x.entOff[ti], x.censusOff = true, true
		}
		if wrong && hit {
			// one defect (no roll-back in the failing operation), one key, whatever else runs on the target
			x.violate("C11/replication-resources-of-target-wrong-after-failed-"+strings.TrimSuffix(op, "-store-failure"),
				fmt.Sprintf("%s was answered with an error (injected store failure): target %d now has entity=%v refCnt=%d quit funcs=%v, running tasks %v", ctx, ti, have, e.RefCnt, e.QuitFuncTasks, want))
			continue
		}
		switch {
		case len(want) == 0 && have:
			x.violate(fmt.Sprintf("C11/replicate-entity-kept-without-running-task-after-%s", op),
				fmt.Sprintf("after %s: target %d has no running task but its replicate entity is still registered (refCnt %d, quit funcs %v)", ctx, ti, e.RefCnt, e.QuitFuncTasks))
		case len(want) > 0 && !have:
			x.violate(fmt.Sprintf("C11/replicate-entity-missing-for-running-task-after-%s", op),
				fmt.Sprintf("after %s: target %d has running tasks %v but no replicate entity", ctx, ti, want))
		case have:
			if int(e.RefCnt) != len(want) {
				x.violate(fmt.Sprintf("C11/refcount-differs-from-running-tasks-after-%s", op),
					fmt.Sprintf("after %s: target %d refCnt %d, running tasks %v", ctx, ti, e.RefCnt, want))
			}
			if strings.Join(e.QuitFuncTasks, ",") != strings.Join(want, ",") {
				x.violate(fmt.Sprintf("C11/quit-funcs-differ-from-running-tasks-after-%s", op),
					fmt.Sprintf("after %s: target %d quit functions registered for %v, running tasks %v", ctx, ti, e.QuitFuncTasks, want))
			}
		}
	}
}

// ---------------- store keys of absent tasks ----------------

func (x *c11Exec) checkStoreKeys(ctx string, o *c11Obs) {
	for id, keys := range o.pos {
		if st := x.model[id]; st != "" && st != c11Absent {
			continue
		}
		if len(keys) == 0 {
			continue
		}
		var ks []string
		for k := range keys {
			ks = append(ks, k)
		}
		sort.Strings(ks)
		// was a checkpoint of this task performed after its delete transaction went to the store? (the Put may have
		// been announced before the commit and performed after it)
		var commitAt, putAt int64
		inDelete := false
		for _, e := range x.s.events() {
			if e.Kind == "api" && e.API == "delete call" {
				inDelete = true
			}
			if e.Kind == "api" && e.API == "delete reply" {
				inDelete = false
			}
			if e.Kind != "store" || e.Store == nil {
				continue
			}
			if inDelete && e.Store.Kind == "task_info" && e.Store.Op == "delete" && e.Store.Task == id && e.Store.Phase == "before" {
				commitAt = 0 // a (new) delete of this task begins
			}
			if inDelete && e.Store.Kind == "factory" && e.Store.Op == "commit" && e.Store.Phase == "before" && commitAt == 0 {
				commitAt = e.Clock
			}
			if e.Store.Kind == "task_position" && e.Store.Op == "put" && e.Store.Task == id && e.Store.Phase == "after" && e.Store.Err == "" && commitAt > 0 && e.Clock > commitAt {
				putAt = e.Clock
			}
		}
		if putAt > 0 {
			x.violate("C11/checkpoint-written-after-delete-leaves-position-key",
				fmt.Sprintf("after %s: task %s is deleted (no task_info record) but %v exist(s): a checkpoint Put of the task completed at clock %d, after its delete transaction was sent to the store at clock %d (the records are removed first, the readers and the writer pipeline are stopped afterwards and nothing keeps a late checkpoint from re-creating the record)", ctx, id, ks, putAt, commitAt))
		} else {
			x.violate("C11/position-keys-left-for-absent-task",
				fmt.Sprintf("after %s: task %s does not exist but its checkpoint keys %v do", ctx, id, ks))
		}
	}
}

// ---------------- consumer census ----------------

type c11Sub struct {
	topic, role, vch string
	main, parsed     bool
	raw              memq.Subscription
}

func c11ParseSub(s memq.Subscription) c11Sub {
	out := c11Sub{topic: s.Topic, raw: s}
	i := strings.Index(s.Name, "-8444-")
	if !strings.HasPrefix(s.Name, "cdc-") || i < 0 {
		return out
	}
	rest := s.Name[i+len("-8444-"):]
	switch {
	case strings.HasSuffix(rest, "-true"):
		out.main, out.vch = true, strings.TrimSuffix(rest, "-true")
	case strings.HasSuffix(rest, "-false"):
		out.vch = strings.TrimSuffix(rest, "-false")
	default:
		return out
	}
	out.role, out.parsed = s.Name[:i], true
	return out
}

// censusProblems applies the census rules to the subscriptions of the child; it returns one line per offence
// and the number of open consumers it could not attribute.
//
// Per target the service owns one dispatcher client (role cdc-<uuid>) for the data channels and one for the
// replicate channel. Per physical channel a client keeps one "main" consumer (named after the first vchannel
// registered) plus one "solo" consumer per vchannel not yet merged into the main one. A solo consumer serves
// exactly the vchannel in its name. A main consumer of a client that never had a solo consumer on that channel
// is closed by the library as soon as its vchannel is deregistered (a second vchannel would have created a solo
// consumer), so while it is open the vchannel in its name is still being read.
// A main consumer of a client that had solo consumers on the channel may be left open by the library itself
// with no vchannel registered (milvus pkg msgdispatcher manager.Remove tests len(soloDispatchers) before it
// removes the solo dispatcher of the vchannel being removed): third-party pool, not attributed, only counted.
// Rule, counted over all clients:
//
//	open consumers attributed to vchannel V <= number of targets with a running task whose collection owns V
//
// (replicate channel: vchannel = <replicate channel>_<task id>v0, owned by that task alone).
func (x *c11Exec) censusProblems(subs []memq.Subscription) (out []string, ambiguous int) {
	needV := map[string]int{} // vchannel -> number of targets needing it
	rc := x.s.w.ReplicateChan()
	for ti := range x.s.w.Targets {
		vset := map[string]bool{}
		for _, sl := range x.seq.Slots {
			if sl.Target != ti || x.model[sl.ID] != c11Running {
				continue
			}
			for _, sh := range x.rs.colls[sl.Coll].Shards {
				vset[sh.VChannel] = true
			}
			vset[fmt.Sprintf("%s_%sv0", rc, sl.ID)] = true
		}
		for v := range vset {
			needV[v]++
		}
	}
	hadSolo := map[string]bool{} // role|topic
	for _, s := range subs {
		ps := c11ParseSub(s)
		if !ps.parsed {
			continue
		}
		k := ps.role + "|" + ps.topic
		if !ps.main {
			hadSolo[k] = true
		}
	}
	open := map[string][]string{}
	for _, s := range subs {
		if !s.Open {
			continue
		}
		ps := c11ParseSub(s)
		if !ps.parsed {
			out = append(out, fmt.Sprintf("open consumer %q on %s (not a dispatcher consumer)", s.Name, s.Topic))
			continue
		}
		k := ps.role + "|" + ps.topic
		if ps.main && hadSolo[k] {
			ambiguous++
			continue
		}
		open[ps.vch] = append(open[ps.vch], s.Name)
	}
	for v, names := range open {
		if len(names) > needV[v] {
			sort.Strings(names)
			out = append(out, fmt.Sprintf("%d open consumer(s) reading vchannel %s but %d target(s) with a running task that owns it: %v", len(names), v, needV[v], names))
		}
	}
	sort.Strings(out)
	return out, ambiguous
}

func c11CensusSig(subs []memq.Subscription) string {
	var l []string
	for _, s := range subs {
		if s.Open {
			l = append(l, s.Topic+"|"+s.Name)
		}
	}
	sort.Strings(l)
	return strings.Join(l, ";")
}

// checkCensus polls the census until the rules hold; when the set of open consumers has not changed for a
// while and still breaks a rule it is a violation; a census that keeps changing until the watchdog is inconclusive.
func (x *c11Exec) checkCensus(ctx string, hit bool) {
	op := strings.SplitN(ctx, " ", 2)[0]
	if hit {
		op += "-store-failure"
	} else if x.faultSeen {
		op += "-after-earlier-store-failure"
	}
	if x.censusOff {
		return // a leaked consumer was already reported in this incarnation: it stays open
	}
	x.res.count("census_checks", 1)
	start := time.Now()
	lastSig, stableSince := "", time.Now()
	for {
		var subs []memq.Subscription
		if err := x.s.getJSON("/verif/mq", &subs); err != nil {
			x.res.inconclusive = "census after " + ctx + ": " + err.Error()
			return
		}
		probs, amb := x.censusProblems(subs)
		if len(probs) == 0 {
			x.res.count("census_open_shared_consumers_not_attributed", amb)
			return
		}
		sig := c11CensusSig(subs)
		if sig != lastSig {
			lastSig, stableSince = sig, time.Now()
		}
		// the dispatcher library may block up to 5 s in a deregistration (send-target timeout) before it closes
		// the consumer: the offending set must have been unchanged for well over that
		if time.Since(stableSince) > 9*time.Second && time.Since(start) > 11*time.Second {
			x.censusOff = true
			x.violate(fmt.Sprintf("C11/open-consumer-without-running-task-after-%s", op),
				fmt.Sprintf("after %s (census unchanged for %.1fs): %s", ctx, time.Since(stableSince).Seconds(), strings.Join(probs, " | ")))
			return
		}
		if time.Since(start) > 60*time.Second {
			x.res.inconclusive = "consumer census kept changing after " + ctx + " (watchdog)"
			return
		}
		time.Sleep(100 * time.Millisecond)
	}
}

// ---------------- rows written after a stop must not reach the downstream ----------------

func (x *c11Exec) cover(id string, clock int64) {
	si, ok := x.idSlot[id]
	if !ok {
		return
	}
	sl := x.seq.Slots[si]
	k := fmt.Sprintf("%d/%d", sl.Target, sl.Coll)
	x.coverStart[k] = append(x.coverStart[k], clock)
}

func (x *c11Exec) covered(target, coll int) bool {
	for _, sl := range x.seq.Slots {
		if sl.Target == target && sl.Coll == coll && x.model[sl.ID] == c11Running {
			return true
		}
	}
	return false
}

// sendData writes one row to every collection; for every target on which no running task covers the collection
// the row must never be acknowledged (until a create / resume / restart concerning that pair begins).
func (x *c11Exec) sendData() {
	for ci, c := range x.rs.colls {
		if c == nil {
			continue
		}
		unc := map[int]bool{}
		for ti := range x.s.w.Targets {
			if !x.covered(ti, ci) {
				unc[ti] = true
			}
		}
		d, err := x.rs.send("insert", ci, 0, 0, 1)
		if err != nil {
			x.res.inconclusive = "send: " + err.Error()
			return
		}
		x.msgs[d.UID] = &c11Msg{UID: d.UID, Coll: ci, SentAt: d.SentAt, Uncov: unc}
		x.res.count("rows_written", 1)
		for _, sl := range x.seq.Slots {
			if sl.Coll == ci && unc[sl.Target] && x.model[sl.ID] == c11Paused {
				x.res.count("rows_written_for_a_paused_task", 1)
			}
			if sl.Coll == ci && unc[sl.Target] && x.model[sl.ID] == c11Absent {
				x.res.count("rows_written_for_a_deleted_or_not_yet_created_task", 1)
			}
		}
	}
}

func (x *c11Exec) checkAcks() {
	evs := x.s.events()
	for ; x.ackSeen < len(evs); x.ackSeen++ {
		e := evs[x.ackSeen]
		if e.Kind != "ack" {
			continue
		}
		for _, u := range e.UIDs {
			m := x.msgs[u]
			if m == nil {
				continue
			}
			x.res.count("row_acks_observed", 1)
			if !m.Uncov[e.Target] {
				continue
			}
			allowedFrom := int64(-1)
			for _, c := range x.coverStart[fmt.Sprintf("%d/%d", e.Target, m.Coll)] {
				if c > m.SentAt {
					allowedFrom = c
					break
				}
			}
			if allowedFrom >= 0 && e.Clock > allowedFrom {
				continue
			}
			x.violate("C11/row-written-after-stop-acked-downstream",
				fmt.Sprintf("row uid=%d of collection %s was written at clock %d, when no running task replicated that collection to target %d (paused / deleted / never created), and no create, resume or restart for that pair began afterwards; yet target %d acknowledged it at clock %d on %s", u, x.seq.Colls[m.Coll].Name, m.SentAt, e.Target, e.Target, e.Clock, e.Chan))
		}
	}
}

// ---------------- busy background work ----------------

func (x *c11Exec) busyOnce() (busyReport, bool) {
	var b busyReport
	if err := x.s.getJSON("/verif/busy", &b); err != nil {
		return b, false
	}
	x.res.busy = append(x.res.busy, b)
	x.res.count("busy_measurements", 1)
	return b, true
}

func c11Suspicious(b busyReport) bool {
	return len(b.SpinningRepo) > 0 || (b.WallMs > 0 && float64(b.CPUMs)/float64(b.WallMs) > 0.5)
}

func c11FrameFunc(entry string) string {
	// "goroutine 123: github.com/zilliztech/milvus-cdc/core/reader.NewBarrier.func1(...)"
	i := strings.Index(entry, ": ")
	if i < 0 {
		return entry
	}
	f := entry[i+2:]
	if j := strings.LastIndex(f, "("); j > 0 {
		f = f[:j]
	}
	if j := strings.LastIndex(f, "/"); j >= 0 {
		f = f[j+1:]
	}
	return f
}

// checkBusy: with the tick pump stopped, a goroutine of the repository that is running/runnable in both samples
// of three consecutive measurements (same goroutine, same frame) is busy background work; so is a child that
// burns more than half a core of its OWN cpu time in three consecutive windows without such a goroutine.
func (x *c11Exec) checkBusy(ctx string) {
	if x.spinSeen {
		return
	}
	x.rs.stopPump()
	defer x.rs.startPump(25 * time.Millisecond)
	time.Sleep(150 * time.Millisecond) // let the packs already read drain
	x.res.count("busy_checks", 1)
	var reps []busyReport
	for i := 0; i < 3; i++ {
		b, ok := x.busyOnce()
		if !ok {
			return
		}
		reps = append(reps, b)
		if !c11Suspicious(b) {
			return
		}
	}
	common := map[string]int{}
	for _, b := range reps {
		for _, g := range b.SpinningRepo {
			common[g]++
		}
	}
	funcs := map[string][]string{}
	for g, n := range common {
		if n == len(reps) {
			f := c11FrameFunc(g)
			funcs[f] = append(funcs[f], g)
		}
	}
	cpu := fmt.Sprintf("own cpu/wall ms of the three windows: %d/%d %d/%d %d/%d", reps[0].CPUMs, reps[0].WallMs, reps[1].CPUMs, reps[1].WallMs, reps[2].CPUMs, reps[2].WallMs)
	if len(funcs) > 0 {
		x.spinSeen = true
		for f, gs := range funcs {
			sort.Strings(gs)
			x.violate("C11/busy-goroutine-after-stop-in-"+f,
				fmt.Sprintf("after %s, source ticks stopped: %d goroutine(s) in %s running/runnable in all 6 samples of 3 consecutive measurements (%v); %s; goroutines %d", ctx, len(gs), f, gs, cpu, reps[2].Goroutines))
		}
		return
	}
	allCPU := true
	for _, b := range reps {
		if b.WallMs == 0 || float64(b.CPUMs)/float64(b.WallMs) <= 0.5 {
			allCPU = false
		}
	}
	if !allCPU {
		return
	}
	// more than half a core in three consecutive windows, but no goroutine of the repository is permanently
	// runnable. A spin needs a goroutine that is always running/runnable, whatever code it executes; diffuse work
	// (the file message queue of this harness polls every 3 ms per open consumer, syscall time grows with the
	// load of the machine) is not one: look at ALL goroutines, three more windows.
	x.res.count("busy_cpu_high_without_repository_goroutine", 1)
	seenAll := map[string]int{}
	var cpu2 []string
	for i := 0; i < 3; i++ {
		var b busyReport
		if err := x.s.getJSON("/verif/busyall", &b); err != nil {
			return
		}
		x.res.count("busy_measurements", 1)
		cpu2 = append(cpu2, fmt.Sprintf("%d/%d", b.CPUMs, b.WallMs))
		if b.WallMs == 0 || float64(b.CPUMs)/float64(b.WallMs) <= 0.5 {
			return
		}
		for _, g := range b.SpinningRepo {
			seenAll[g]++
		}
	}
	any := map[string][]string{}
	for g, n := range seenAll {
		if n == 3 {
			any[c11FrameFunc(g)] = append(any[c11FrameFunc(g)], g)
		}
	}
	if len(any) == 0 {
		x.res.count("busy_cpu_high_but_no_goroutine_permanently_runnable", 1)
		return
	}
	x.spinSeen = true
	for f, gs := range any {
		sort.Strings(gs)
		x.violate("C11/busy-goroutine-after-stop-in-"+f,
			fmt.Sprintf("after %s, source ticks stopped: %s then %v; goroutine(s) running/runnable in all samples of three further measurements: %v", ctx, cpu, cpu2, gs))
	}
}

// ---------------- steps ----------------

func (x *c11Exec) createData(sl c11Slot) map[string]any {
	t := x.s.w.Targets[sl.Target]
	return map[string]any{
		"task_id":              sl.ID,
		"milvus_connect_param": map[string]any{"uri": t.URI(), "token": "root:Milvus", "connect_timeout": 10, "channel_num": x.seq.NSrcP},
		"collection_infos":     []map[string]any{{"name": x.seq.Colls[sl.Coll].Name}},
		"disable_auto_start":   sl.NoAuto,
	}
}

func (x *c11Exec) crashed(ctx string) bool {
	if x.s.childAlive() {
		return false
	}
	tail := x.s.tailChildLog(1500)
	what := "no-panic-message"
	for _, l := range strings.Split(tail, "\n") {
		if strings.HasPrefix(l, "panic: ") || strings.HasPrefix(l, "fatal error: ") {
			what = strings.TrimSpace(l)
			if len(what) > 60 {
				what = what[:60]
			}
			break
		}
	}
	x.violate("C11/process-died-"+strings.ReplaceAll(what, " ", "-"), fmt.Sprintf("the CDC process died during %s: %s", ctx, tail))
	x.stopped = true
	return true
}

// waitCheckpoint waits (bounded, coverage only) until the task has written a checkpoint.
func (x *c11Exec) waitCheckpoint(id string) {
	deadline := time.Now().Add(2 * time.Second)
	prefix := x.s.w.MetaRoot + "/task_position/" + id + "/"
	for time.Now().Before(deadline) {
		if d, err := x.s.w.Etcd.Dump(prefix); err == nil && len(d) > 0 {
			x.res.count("tasks_seen_writing_checkpoints", 1)
			return
		}
		time.Sleep(50 * time.Millisecond)
	}
}

func (x *c11Exec) apiStep(st c11Step) {
	id := c11Ghost
	var sl c11Slot
	if st.Slot >= 0 {
		sl = x.seq.Slots[st.Slot]
		id = sl.ID
	}
	before := x.model[id]
	if before == "" {
		before = c11Absent
	}
	var data any = map[string]any{"task_id": id}
	legal := false
	switch st.Op {
	case "create":
		if st.Slot < 0 {
			return
		}
		data = x.createData(sl)
		legal = before == c11Absent
	case "pause":
		legal = before == c11Running
	case "resume":
		legal = before == c11Paused
	case "delete":
		legal = before != c11Absent
	case "get":
		legal = before != c11Absent
	case "list":
		data, legal, id = map[string]any{}, true, ""
	}
	ctx := fmt.Sprintf("%s %s", st.Op, id)
	if st.Op == "list" {
		ctx = "list"
	}
	if st.Op == "create" || st.Op == "resume" {
		x.cover(id, x.s.tick())
	}
	posBefore := map[string]string{}
	if st.Op == "delete" {
		if d, err := x.s.w.Etcd.Dump(x.s.w.MetaRoot + "/task_position/" + id + "/"); err == nil {
			posBefore = d
		}
	}
	r, hit, calls := x.call(st.Op, id, data, st.FailAt)
	tr := c11Trace{Step: x.stepNo, Op: st.Op, ID: id, Before: before, Legal: legal, FailAt: st.FailAt, Hit: hit, Calls: calls, Code: r.Code, Msg: r.Message}
	defer func() { x.res.trace = append(x.res.trace, tr) }()
	if !r.JSONOK {
		if x.crashed(ctx) {
			tr.Verdict = "process died"
			return
		}
		x.res.inconclusive = fmt.Sprintf("%s: no answer (%s)", ctx, r.Message)
		return
	}
	if hit {
		x.faultSeen = true
		x.res.count("store_failures_delivered", 1)
		x.res.count(fmt.Sprintf("store_failure_%s_call_%d", st.Op, st.FailAt), 1)
		x.res.count("store_failures_in_"+st.Op, 1)
		x.res.dist("store_failure_points", fmt.Sprintf("%s#%d", st.Op, st.FailAt))
	} else if st.FailAt > 0 {
		x.res.count("store_failures_not_reached", 1)
	}
	if legal && st.FailAt == 0 && r.Code == 200 {
		if n, seen := x.res.storeCalls[st.Op]; !seen || len(calls) > n {
			x.res.storeCalls[st.Op] = len(calls)
		}
	}
	kind := "legal"
	if !legal {
		kind = "illegal"
	}
	outcome := "ok"
	if r.Code != 200 {
		outcome = "rejected"
	}
	x.res.count(fmt.Sprintf("call_%s_on_%s_%s_%s", st.Op, before, kind, outcome), 1)
	x.res.count("calls_"+kind, 1)
	x.res.dist("transitions_attempted", fmt.Sprintf("%s@%s", st.Op, before))

	// reference update
	dupCreateOK := false
	switch {
	case r.Code != 200:
		if legal && !hit {
			x.res.count("legal_call_failed_without_injected_failure", 1)
			x.res.notes = append(x.res.notes, fmt.Sprintf("step %d: %s failed without injected failure: %d %s", x.stepNo, ctx, r.Code, r.Message))
		}
	case st.Op == "create" && legal:
		x.model[id], x.noAuto[id] = c11Running, sl.NoAuto
	case st.Op == "create" && !legal:
		// Create with the id of an existing task answers 200 with that id and does nothing (idempotent retry): no transition
		if got, _ := r.Data["task_id"].(string); got == id {
			dupCreateOK = true
			x.res.count("create_with_existing_id_answered_ok_without_transition", 1)
		}
	case st.Op == "pause" && legal:
		x.model[id] = c11Paused
	case st.Op == "resume" && legal:
		x.model[id] = c11Running
	case st.Op == "delete" && legal:
		x.model[id] = c11Absent
		delete(x.noAuto, id)
	}
	tr.After = x.model[id]
	if !legal && r.Code == 200 && !dupCreateOK && st.Op != "list" {
		x.violate(fmt.Sprintf("C11/illegal-%s-on-%s-answered-ok", st.Op, before), fmt.Sprintf("%s on a task in state %s was answered with code 200", ctx, before))
	}

	o, good := x.observeJudge(ctx, id, r.Code, hit, before, legal)
	if x.res.inconclusive != "" {
		return
	}
	if !good {
		tr.Verdict = "reference and system diverged"
		x.stopped = true
		return
	}
	x.checkEntities(ctx, hit, o)
	x.checkStoreKeys(ctx, o)
	if st.Op == "delete" && r.Code != 200 && before != c11Absent {
		// all-or-nothing: the task is still there (judged above), so must be every checkpoint it had
		var lost []string
		for k := range posBefore {
			if _, ok := o.pos[id][k]; !ok {
				lost = append(lost, k)
			}
		}
		if len(lost) > 0 {
			sort.Strings(lost)
			x.violate("C11/failed-delete-removed-checkpoints", fmt.Sprintf("%s was answered with code %d and the task record is still there, but its checkpoint keys %v are gone", ctx, r.Code, lost))
		}
		x.res.count("failed_delete_all_or_nothing_checks", 1)
	}
	if st.Op == "delete" && r.Code == 200 {
		x.res.count("deletes_checked_for_leftover_keys", 1)
		if len(posBefore) > 0 {
			x.res.count("deletes_of_tasks_with_checkpoints", 1)
		}
	}
	stopOp := (st.Op == "pause" || st.Op == "delete") && legal
	x.checkCensus(ctx, hit)
	x.sendData()
	if stopOp && r.Code == 200 {
		x.checkBusy(ctx)
	}
	if (st.Op == "create" || st.Op == "resume") && legal && r.Code == 200 {
		x.waitCheckpoint(id)
	}
	x.checkAcks()
}

// restart: SIGKILL at a quiescent point (no API call in flight, ticks stopped), start a new process on the same
// store, and compare what comes back with what was persisted at the moment of death.
// restart kills the child at a quiescent point and starts a new one on the same store. down >= 0: that downstream
// server answers every call with Unavailable while the new process reloads its tasks (its tasks cannot be started:
// they must come back Paused with a reason in every view, whatever their persisted state was).
func (x *c11Exec) restart(tag string, down int) {
	ctx := "restart " + tag
	if down >= 0 {
		ctx += fmt.Sprintf(" (target %d unreachable)", down)
		x.s.w.Targets[down].SetHook(func(call *fakemilvus.Call) *fakemilvus.Decision {
			return fakemilvus.FailGRPC(codes.Unavailable, "injected: downstream unreachable")
		})
		defer x.s.w.Targets[down].SetHook(nil)
		x.res.count("restarts_with_unreachable_target", 1)
	}
	onDown := func(id string) bool {
		i, ok := x.idSlot[id]
		return ok && down >= 0 && x.seq.Slots[i].Target == down
	}
	x.rs.stopPump()
	time.Sleep(200 * time.Millisecond)
	x.checkAcks()
	x.s.killChild("C11 restart at a quiescent point (" + tag + ")")
	dump, err := x.s.w.Etcd.Dump(x.s.w.MetaRoot + "/")
	if err != nil {
		x.res.inconclusive = "etcd dump at restart: " + err.Error()
		return
	}
	type rec struct {
		State  int
		NoAuto bool `json:"DisableAutoStart"`
	}
	persisted := map[string]rec{}
	posAtDeath := map[string]map[string]string{}
	ip, pp := x.s.w.MetaRoot+"/task_info/", x.s.w.MetaRoot+"/task_position/"
	for k, v := range dump {
		if strings.HasPrefix(k, ip) {
			var r rec
			_ = json.Unmarshal([]byte(v), &r)
			persisted[strings.TrimPrefix(k, ip)] = r
		}
		if strings.HasPrefix(k, pp) {
			rest := strings.TrimPrefix(k, pp)
			id := rest
			if i := strings.Index(rest, "/"); i >= 0 {
				id = rest[:i]
			}
			if posAtDeath[id] == nil {
				posAtDeath[id] = map[string]string{}
			}
			posAtDeath[id][k] = v
		}
	}
	startClock := x.s.tick()
	if err := x.s.startChild(x.copts); err != nil {
		x.res.inconclusive = "restart: " + err.Error()
		return
	}
	x.spinSeen, x.faultSeen, x.censusOff, x.entOff = false, false, false, map[int]bool{}
	x.res.count("restarts", 1)
	// what the code intends (ReloadTask): a task with disable_auto_start comes back Paused (with a reason), every
	// other persisted task is started, whatever its persisted state was
	for id, r := range persisted {
		was := c11StateName(r.State)
		if r.NoAuto {
			x.model[id] = c11Paused
			x.res.count("restart_task_with_auto_start_disabled", 1)
		} else if onDown(id) {
			x.model[id] = c11Paused
			x.res.count("restart_task_cannot_start_target_unreachable", 1)
			x.res.dist("restart_unreachable_shapes", was)
		} else {
			x.model[id] = c11Running
			x.cover(id, startClock)
			if was == c11Paused {
				x.res.count("restart_task_persisted_paused_without_flag_comes_back_running", 1)
			} else {
				x.res.count("restart_task_persisted_running", 1)
			}
		}
		x.res.dist("restart_shapes", fmt.Sprintf("%s/noauto=%v", was, r.NoAuto))
	}
	if pre := x.observe(); pre.err == "" {
		for id, r := range persisted {
			if !r.NoAuto && !onDown(id) && c11ViewsOf(pre, id)["memory"] == c11Paused && strings.HasPrefix(pre.reason[id], "fail to start task") {
				x.res.inconclusive = fmt.Sprintf("%s: task %s could not be started at reload: %s", ctx, id, pre.reason[id])
				return
			}
		}
	}
	o, good := x.observeJudge(ctx, "", 200, false, "", true)
	if !good {
		if x.res.inconclusive == "" {
			x.stopped = true
		}
		return
	}
	for id, r := range persisted {
		if (r.NoAuto || onDown(id)) && o.reason[id] == "" {
			x.violate("C11/task-paused-at-reload-without-reason", fmt.Sprintf("%s: task %s (auto start disabled) is Paused after the restart but carries no reason", ctx, id))
		}
		// checkpoints: every key that existed at the moment of death is still there; a task that stays paused has them untouched
		for k, v := range posAtDeath[id] {
			nv, ok := o.pos[id][k]
			if !ok {
				x.violate("C11/checkpoint-lost-by-restart", fmt.Sprintf("%s: checkpoint key %s of task %s existed when the process died and is gone after the reload", ctx, k, id))
			} else if r.NoAuto && nv != v {
				x.violate("C11/checkpoint-of-paused-task-rewritten-by-restart", fmt.Sprintf("%s: checkpoint %s of task %s (stays paused) changed across the restart", ctx, k, id))
			}
		}
		x.res.count("restart_tasks_checked", 1)
		x.res.count("restart_checkpoint_keys_checked", len(posAtDeath[id]))
	}
	x.checkEntities(ctx, false, o)
	x.checkStoreKeys(ctx, o)
	var pids []string
	for id := range persisted {
		pids = append(pids, id)
	}
	sort.Strings(pids)
	x.checkSeek(ctx, pids, posAtDeath)
	x.checkCensus(ctx, false)
	x.rs.startPump(25 * time.Millisecond)
	x.sendData()
}

// checkSeek: a task that runs after the restart reads each source channel from its persisted checkpoint: the
// census of the new process shows a consumer for the channel's vchannel positioned at the checkpoint's message id.
func (x *c11Exec) checkSeek(ctx string, ids []string, posAtDeath map[string]map[string]string) {
	type want struct {
		id, pch, vch string
		msg          uint64
	}
	var wants []want
	for _, id := range ids {
		si, ok := x.idSlot[id]
		if !ok || x.model[id] != c11Running {
			continue
		}
		c := x.rs.colls[x.seq.Slots[si].Coll]
		raw, ok := posAtDeath[id][fmt.Sprintf("%s/task_position/%s/%d", x.s.w.MetaRoot, id, c.ID)]
		if !ok {
			continue
		}
		var tp struct {
			Positions map[string]struct {
				DataPair struct {
					Data string `json:"data"`
				}
			}
		}
		if json.Unmarshal([]byte(raw), &tp) != nil {
			continue
		}
		for _, sh := range c.Shards {
			p, ok := tp.Positions[sh.PChannel]
			if !ok {
				continue
			}
			b, err := base64.StdEncoding.DecodeString(p.DataPair.Data)
			if err != nil || len(b) != 8 || memq.DecodeID(b) == 0 {
				continue // no position, or the very beginning of the channel (a consumer that never sought also shows 0)
			}
			wants = append(wants, want{id, sh.PChannel, sh.VChannel, memq.DecodeID(b)})
		}
	}
	// a collection that joins an existing channel handler is registered asynchronously: wait (bounded) until a
	// consumer for the vchannel shows up; none at all is not judged here (progress of running tasks is not C11)
	deadline := time.Now().Add(6 * time.Second)
	for _, w := range wants {
		for {
			var subs []memq.Subscription
			if err := x.s.getJSON("/verif/mq", &subs); err != nil {
				return
			}
			found, seen := false, []string{}
			for _, s := range subs {
				ps := c11ParseSub(s)
				if ps.parsed && ps.vch == w.vch {
					seen = append(seen, fmt.Sprintf("%s seek=%d", s.Name, s.SeekID))
					if s.SeekID == w.msg {
						found = true
					}
				}
			}
			if found {
				x.res.count("restart_seek_positions_checked", 1)
				break
			}
			if len(seen) > 0 {
				x.res.count("restart_seek_positions_checked", 1)
				x.violate("C11/reader-after-restart-not-positioned-at-checkpoint",
					fmt.Sprintf("%s: task %s runs again; its checkpoint for %s at the moment of death is message id %d, but the consumer(s) for %s were positioned elsewhere: %v", ctx, w.id, w.pch, w.msg, w.vch, seen))
				break
			}
			if time.Now().After(deadline) {
				x.res.count("restart_seek_no_consumer_for_running_task_seen", 1)
				break
			}
			time.Sleep(100 * time.Millisecond)
		}
	}
}

// finish: stop everything through the API, then nothing of any task may be left.
func (x *c11Exec) finish() {
	for _, op := range []string{"pause", "delete"} {
		for si, sl := range x.seq.Slots {
			if x.stopped || x.res.inconclusive != "" {
				return
			}
			if (op == "pause" && x.model[sl.ID] == c11Running) || (op == "delete" && x.model[sl.ID] != c11Absent && x.model[sl.ID] != "") {
				x.stepNo++
				x.apiStep(c11Step{Op: op, Slot: si})
			}
		}
	}
	if x.stopped || x.res.inconclusive != "" {
		return
	}
	ctx := "final cleanup"
	o := x.observe()
	if o.err != "" {
		x.res.inconclusive = "final observation: " + o.err
		return
	}
	for _, m := range []struct {
		n string
		m map[string]string
	}{{"list", o.list}, {"store", o.store}, {"memory", o.mem}, {"gauge", o.gauge}} {
		if len(m.m) > 0 {
			x.violate("C11/task-left-in-"+m.n+"-after-deleting-everything", fmt.Sprintf("every task was deleted, the %s view still has %v", m.n, m.m))
		}
	}
	if len(o.ents) > 0 {
		x.violate("C11/replicate-entity-left-after-deleting-everything", fmt.Sprintf("every task was deleted, replicate entities left: %v", o.ents))
	}
	x.checkCensus(ctx, false)
	x.checkBusy(ctx)
	x.rs.stopPump()
	time.Sleep(300 * time.Millisecond)
	if b, ok := x.busyOnce(); ok {
		x.res.gorFinal = b.Goroutines
		if x.seq.Idx == 0 {
			x.res.finalStacks = c11TopStacks(x.stacks(), 12)
		}
	}
	x.checkAcks()
}

func (x *c11Exec) stacks() string {
	resp, err := httpc.Get("http://" + x.s.childAddr + "/verif/stacks")
	if err != nil {
		return ""
	}
	defer resp.Body.Close()
	b, _ := io.ReadAll(resp.Body)
	return string(b)
}

func runC11Seq(seq *c11Seq, name string, gorTolerance int) *c11Result {
	res := &c11Result{counts: map[string]int{}, distinct: map[string][]string{}, storeCalls: map[string]int{}}
	s, err := newSuper(scratchDir(name), 2)
	if err != nil {
		res.inconclusive = "world: " + err.Error()
		return res
	}
	defer s.close()
	sc := &scenario{Idx: seq.Idx, NSrcP: seq.NSrcP, Targets: 2, Colls: seq.Colls}
	rs := newRunState(s, sc)
	x := &c11Exec{seq: seq, s: s, rs: rs, res: res, model: map[string]string{}, noAuto: map[string]bool{}, idSlot: map[string]int{},
		msgs: map[int64]*c11Msg{}, coverStart: map[string][]int64{}, flagged: map[string]bool{}, entOff: map[int]bool{},
		copts: childOpts{PackCount: 1, PackTimer: 30, SrcChannels: seq.NSrcP}}
	for i, sl := range seq.Slots {
		x.idSlot[sl.ID] = i
	}
	for ci := range seq.Colls {
		if err := rs.createColl(ci); err != nil {
			res.inconclusive = "create collection: " + err.Error()
			return res
		}
	}
	s.setStoreDecide(x.decide)
	if err := s.startChild(x.copts); err != nil {
		res.inconclusive = "child: " + err.Error()
		return res
	}
	defer func() {
		res.replay = map[string]any{"sequence": seq, "trace": res.trace, "notes": res.notes, "events": c11TailEvents(s.events(), 700), "child_log_tail": s.tailChildLog(1200)}
	}()
	if b, ok := x.busyOnce(); ok {
		res.gorBase = b.Goroutines
	}
	rs.startPump(25 * time.Millisecond)
	defer rs.stopPump()
	for _, st := range seq.Steps {
		if x.stopped || res.inconclusive != "" {
			break
		}
		x.stepNo++
		if st.Op == "restart" {
			x.restart("in the middle", -1)
			continue
		}
		x.apiStep(st)
	}
	if !x.stopped && res.inconclusive == "" {
		x.stepNo++
		down := -1
		if seq.Idx%2 == 0 {
			// preferably the target of a task that is persisted as Paused (and would be started at reload)
			for _, sl := range seq.Slots {
				if x.model[sl.ID] == c11Paused && !sl.NoAuto {
					down = sl.Target
				}
			}
			if down < 0 && seq.Idx%4 == 2 {
				down = 1
			}
		}
		x.restart("at the end", down)
	}
	if !x.stopped && res.inconclusive == "" {
		x.finish()
	}
	if !x.stopped && res.inconclusive == "" && res.gorBase > 0 && res.gorFinal > 0 {
		res.count("goroutine_comparisons", 1)
		if res.gorFinal > res.gorBase+gorTolerance {
			stk := x.stacks()
			x.violate("C11/goroutines-left-after-deleting-everything", fmt.Sprintf("goroutines right after process start (no task): %d; after the last restart, pausing and deleting every task: %d (tolerance %d). Most frequent stacks: %s", res.gorBase, res.gorFinal, gorTolerance, c11TopStacks(stk, 6)))
		}
	}
	res.decided = res.inconclusive == ""
	return res
}

// c11TopStacks summarises a goroutine dump: the most frequent first repository (or, failing that, first) frames.
func c11TopStacks(dump string, n int) string {
	cnt := map[string]int{}
	for _, blk := range strings.Split(dump, "\n\n") {
		lines := strings.Split(blk, "\n")
		if len(lines) < 2 || !strings.HasPrefix(lines[0], "goroutine ") {
			continue
		}
		key := strings.TrimSpace(lines[1])
		for _, l := range lines[1:] {
			if strings.Contains(l, "github.com/zilliztech/milvus-cdc/") {
				key = strings.TrimSpace(l)
				break
			}
		}
		if j := strings.LastIndex(key, "("); j > 0 {
			key = key[:j]
		}
		cnt[key]++
	}
	type kv struct {
		k string
		n int
	}
	var l []kv
	for k, c := range cnt {
		l = append(l, kv{k, c})
	}
	sort.Slice(l, func(i, j int) bool { return l[i].n > l[j].n || (l[i].n == l[j].n && l[i].k < l[j].k) })
	var out []string
	for i := 0; i < len(l) && i < n; i++ {
		out = append(out, fmt.Sprintf("%dx %s", l[i].n, l[i].k))
	}
	return strings.Join(out, "; ")
}

// c11TailEvents keeps API calls, kills, child starts, notes and the store calls that are not checkpoint traffic.
func c11TailEvents(all []sevt, n int) []sevt {
	var e []sevt
	for _, ev := range all {
		if ev.Kind == "ack" {
			continue
		}
		if ev.Kind == "store" && (ev.Store.Phase == "after" && ev.Store.Err == "" || ev.Store.Kind == "task_position" && ev.Store.Coll != 0) {
			continue
		}
		e = append(e, ev)
	}
	if len(e) > n {
		e = e[len(e)-n:]
	}
	return e
}
