package main

// C06, eighth failure class: the downstream goes away while replication runs (its server is stopped: every open
// connection is closed, new ones are refused). Unlike the "write rejected" class the service then has no usable
// client at all for the target: the failing writes come from several channel goroutines at once, one of them drops
// the cached client, the others find none and cannot create one.
//
// Demanded (the statement, "downstream rejects a write"): the process survives, every task that writes to the dead
// target ends Paused with a reason through get and list; a task on another target keeps its state and keeps
// replicating.

import (
	"context"
	"fmt"
	"os"
	"strings"
	"time"

	"verifharness/internal/vf"
)

type c06GoneCase struct {
	Idx      int  `json:"case"`
	TwoTasks bool `json:"two_tasks_on_the_dead_target"`
	Other    bool `json:"a_task_on_another_target"`
	Round    int  `json:"rounds_before_the_downstream_stops"`
	// Idle: nothing is written upstream for 36 s before the downstream stops (no ticks, no rows), so the service's
	// cached client of the target has expired (30 s keep-alive) and the first write after the stop finds no client
	// and cannot create one: the write fails without a single rpc having been attempted
	Idle bool `json:"idle_36s_before_the_stop"`
}

func runC06Gone(run *vf.Run) {
	var cases []c06GoneCase
	n := run.Pick(3, 12)
	for i := 0; i < n; i++ {
		rnd := vf.Rand(run.Seed, "c06-gone", i)
		cases = append(cases, c06GoneCase{Idx: i, TwoTasks: i%3 == 1, Other: i%3 == 2, Round: 1 + rnd.Intn(3)})
	}
	if os.Getenv("C06_GONE_IDLE_ONLY") != "" {
		cases = nil
	}
	for i := 0; i < run.Pick(1, 3); i++ {
		cases = append(cases, c06GoneCase{Idx: n + i, TwoTasks: i == 1, Other: i == 2, Round: 1, Idle: true})
	}
	parallel(len(cases), 4, func(i int) {
		c := cases[i]
		tag := fmt.Sprintf("[downstream-gone case %d two-tasks=%v other-target=%v idle=%v] ", c.Idx, c.TwoTasks, c.Other, c.Idle)
		vios, inconclusive, replay := runC06GoneCase(c, fmt.Sprintf("c06-gone-%d", c.Idx))
		run.Eval(1)
		run.Count("cases_class_downstream-gone", 1)
		if inconclusive != "" {
			run.Inconclusive(tag + inconclusive)
			if replay != nil {
				fmt.Printf("C06-GONE-INCONCLUSIVE %s%s\n---- child log tail ----\n%v\n----\n", tag, inconclusive, replay["child_log_tail"])
			}
			return
		}
		run.Count("delivered_downstream-gone", 1)
		run.Nontrivial(fmt.Sprintf("downstream-gone/%v/%v/%d/%v", c.TwoTasks, c.Other, c.Round, c.Idle))
		if c.Idle {
			run.Count("delivered_downstream-gone-after-idle", 1)
		}
		for _, v := range vios {
			run.Violate(v.key, tag+v.desc, replay)
		}
	})
	run.Floor("delivered_downstream-gone", 1)
}

func runC06GoneCase(c c06GoneCase, name string) (vios []vio, inconclusive string, replay map[string]any) {
	targets := 1
	if c.Other {
		targets = 2
	}
	s, err := newSuper(scratchDir(name), targets)
	if err != nil {
		return nil, "world: " + err.Error(), nil
	}
	defer s.close()
	sc := &scenario{Idx: 900 + c.Idx, NSrcP: 3, Targets: targets, PackCnt: 1}
	sc.Colls = []collDef{{DB: "gonea", Name: "g_a", PChannels: []int{0, 1}}}
	sc.Tasks = []taskDef{{Target: 0, Collections: "*", DB: "gonea"}}
	if c.TwoTasks || c.Other {
		sc.Colls = append(sc.Colls, collDef{DB: "goneb", Name: "g_b", PChannels: []int{2}})
		t := 0
		if c.Other {
			t = 1
		}
		sc.Tasks = append(sc.Tasks, taskDef{Target: t, Collections: "*", DB: "goneb"})
	}
	rs := newRunState(s, sc)
	for _, t := range s.w.Targets {
		for _, db := range []string{"gonea", "goneb"} {
			_ = t.AddDatabase(db)
		}
	}
	for _, db := range []string{"gonea", "goneb"} {
		if _, err := s.w.Src.CreateDatabase(context.Background(), db); err != nil {
			return nil, "create database: " + err.Error(), nil
		}
	}
	if err := s.startChild(childOpts{PackCount: 1, PackTimer: 30, SrcChannels: 3}); err != nil {
		return nil, "child: " + err.Error(), nil
	}
	rs.startPump(30 * time.Millisecond)
	defer rs.stopPump()
	for i := range sc.Tasks {
		if r := rs.createTask(i); r.Code != 200 {
			return nil, fmt.Sprintf("create task %d: %d %s", i, r.Code, r.Message), nil
		}
	}
	for i := range sc.Colls {
		if err := rs.createColl(i); err != nil {
			return nil, "create collection: " + err.Error(), nil
		}
	}
	sendAll := func() []int64 {
		var uids []int64
		for ci, cd := range sc.Colls {
			for si := range cd.PChannels {
				if d, err := rs.send("insert", ci, si, 0, 1); err == nil {
					uids = append(uids, d.UID)
				}
			}
		}
		return uids
	}
	for r := 0; r < c.Round; r++ {
		if miss := rs.waitAcked(sendAll(), 60*time.Second); len(miss) > 0 {
			return nil, fmt.Sprintf("round %d before the fault was not acknowledged (%d rows missing)", r, len(miss)), nil
		}
	}
	// ---- the fault ----
	if c.Idle {
		rs.stopPump()
		s.log(sevt{Kind: "note", Note: "upstream idle for 36 s (no ticks, no rows)"})
		time.Sleep(36 * time.Second)
	}
	stopClock := s.log(sevt{Kind: "note", Note: "downstream 0 stops"})
	s.w.Targets[0].Stop()
	if c.Idle {
		rs.startPump(30 * time.Millisecond)
	}
	for r := 0; r < 3; r++ {
		sendAll()
		time.Sleep(50 * time.Millisecond)
	}
	owners := []int{0}
	if c.TwoTasks {
		owners = append(owners, 1)
	}
	add := func(k, d string) { vios = append(vios, vio{k, d}) }
	mk := func() map[string]any {
		if os.Getenv("C06_GONE_DEBUG") != "" {
			for _, l := range strings.Split(s.tailChildLog(400000), "\n") {
				if strings.Contains(l, "milvus client") || strings.Contains(l, "pause task") || strings.Contains(l, "fail to handle") || strings.Contains(l, "retry") {
					if len(l) > 300 {
						l = l[:300]
					}
					fmt.Println("C06-GONE-DEBUG", l)
				}
			}
		}
		return map[string]any{"case": c, "scenario": sc, "events": tailEvents(s.events(), 400), "child_log_tail": s.tailChildLog(3000)}
	}
	deadline := time.Now().Add(90 * time.Second)
	if c.Idle {
		// without a cached client every attempt is a fresh dial (about 22 s each until the sdk gives up), times the
		// configured retries, per writing channel
		deadline = time.Now().Add(240 * time.Second)
	}
	// nothing is acknowledged once the downstream is gone: a checkpoint that covers a row written after the stop says
	// "delivered" about a row that cannot have been delivered (a write that failed without anybody noticing)
	beyond := func() {
		flagged := map[string]bool{}
		for _, e := range s.events() {
			if e.Clock <= stopClock || e.Kind != "store" || e.Store.Kind != "task_position" || e.Store.Op != "put" || e.Store.Phase != "before" || e.Store.Coll <= 0 {
				continue
			}
			for ch, pe := range e.Store.Positions {
				rs.mu.Lock()
				sent := append([]dataMsg{}, rs.sent...)
				rs.mu.Unlock()
				for _, d := range sent {
					if d.Kind != "insert" && d.Kind != "delete" {
						continue
					}
					if d.Coll == 1 && c.Other {
						continue // replicated to the other, healthy downstream
					}
					col := rs.colls[d.Coll]
					if col == nil || col.ID != e.Store.Coll || d.PChan != ch || d.SentAt <= stopClock || d.MsgID > pe.MsgID {
						continue
					}
					if flagged[ch] {
						continue
					}
					flagged[ch] = true
					add("C06/checkpoint-beyond-last-acknowledged-message-downstream-gone", fmt.Sprintf("the downstream stopped at clock %d; the checkpoint Put announced at clock %d for collection %d channel %s has position id %d, which covers row uid=%d (source id %d) written at clock %d, after the stop: nothing can have acknowledged it", stopClock, e.Clock, e.Store.Coll, ch, pe.MsgID, d.UID, d.MsgID, d.SentAt))
				}
			}
		}
	}
	paused := map[int]bool{}
	for len(paused) < len(owners) && time.Now().Before(deadline) {
		if !s.childAlive() {
			tail := s.tailChildLog(3000)
			if strings.Contains(tail, "panic:") || strings.Contains(tail, "fatal error:") || strings.Contains(tail, "SIGSEGV") {
				add("C06/process-crash-downstream-gone", "the CDC process died after the downstream server of its task(s) stopped: "+c06FirstLines(tail, 12))
				return vios, "", mk()
			}
			return nil, "the child exited without a panic in its log", mk()
		}
		for _, ti := range owners {
			if st, rsn, ok := rs.taskState(rs.taskIDs[ti]); ok && st == "Paused" {
				if !paused[ti] && rsn == "" {
					add("C06/paused-without-reason-downstream-gone", fmt.Sprintf("task %s is Paused after its downstream stopped but carries no reason", rs.taskIDs[ti]))
				}
				paused[ti] = true
			}
		}
		sendAll()
		time.Sleep(200 * time.Millisecond)
	}
	beyond()
	if len(vios) > 0 && len(paused) < len(owners) {
		return vios, "", mk()
	}
	if len(paused) < len(owners) {
		// the service keeps retrying an unreachable downstream (connect timeouts are long): undecided, not a verdict
		return nil, fmt.Sprintf("only %d of %d task(s) of the stopped downstream were Paused within the watchdog", len(paused), len(owners)), mk()
	}
	// list agrees
	if r := s.api("list", map[string]any{}); r.Code == 200 {
		raw := string(r.Raw)
		for _, ti := range owners {
			id := rs.taskIDs[ti]
			i := strings.Index(raw, id)
			if i < 0 || !strings.Contains(raw[i:min(len(raw), i+4000)], "Paused") {
				add("C06/owning-task-not-paused-downstream-gone", fmt.Sprintf("task %s is Paused through get but list does not show it Paused", id))
			}
		}
	}
	if c.Other {
		id := rs.taskIDs[1]
		if st, _, ok := rs.taskState(id); ok && st != "Running" {
			add("C06/other-task-state-changed-downstream-gone", fmt.Sprintf("task %s writes to another, healthy downstream and is %s after downstream 0 stopped", id, st))
		} else {
			var uids []int64
			if d, err := rs.send("insert", 1, 0, 0, 1); err == nil {
				uids = append(uids, d.UID)
			}
			if miss := rs.waitAcked(uids, 60*time.Second); len(miss) > 0 {
				return vios, "the sentinel of the task on the healthy downstream was not acknowledged within the watchdog", mk()
			}
		}
	}
	if !s.childAlive() {
		add("C06/process-crash-downstream-gone", "the CDC process died after its tasks were paused: "+c06FirstLines(s.tailChildLog(3000), 12))
	}
	return vios, "", mk()
}

func c06FirstLines(s string, n int) string {
	l := strings.Split(s, "\n")
	if len(l) > n {
		l = l[:n]
	}
	return strings.Join(l, " | ")
}
