package main

import (
	"context"
	"encoding/json"
	"fmt"
	"testing"
	"time"

	"github.com/sasha-s/go-deadlock"

	"github.com/zilliztech/milvus-cdc/server/msgpacker"

	"verifharness/internal/sysboot"
)

func TestProbe(t *testing.T) {
	deadlock.Opts.Disable = true
	w, err := sysboot.NewWorld(sysboot.WorldOptions{Dir: t.TempDir(), Targets: 1})
	if err != nil {
		t.Fatal(err)
	}
	defer w.Close()
	ctx := context.Background()
	ps := []string{"by-dev-rootcoord-dml_0", "by-dev-rootcoord-dml_1"}
	w.Src.TickAll(ps)
	c, err := w.Src.CreateCollection(ctx, "default", "coll_a", ps)
	if err != nil {
		t.Fatal(err)
	}
	cdc, err := w.StartCDC(sysboot.CDCOptions{Packer: msgpacker.PackerConfig{MaxCount: 2, TimerInterval: 100}})
	if err != nil {
		t.Fatal(err)
	}
	r := cdc.Do("list", map[string]any{})
	fmt.Println("list:", string(r.Raw))
	r = cdc.Do("create", map[string]any{
		"milvus_connect_param": map[string]any{"uri": w.Targets[0].URI(), "token": "root:Milvus", "connect_timeout": 10, "channel_num": 4},
		"collection_infos":     []map[string]any{{"name": "*"}},
	})
	fmt.Println("create:", string(r.Raw))
	uid := int64(1)
	for k := 0; k < 5; k++ {
		for si := range c.Shards {
			ts := w.Src.TS()
			w.Src.Send(c.Shards[si].PChannel, w.Src.InsertMsg(c, si, c.Parts[0], uid, ts, 2))
			uid++
		}
		w.Src.TickAll(ps)
		time.Sleep(50 * time.Millisecond)
	}
	for k := 0; k < 30; k++ {
		w.Src.TickAll(ps)
		time.Sleep(100 * time.Millisecond)
	}
	for _, r := range w.Targets[0].Replicates() {
		fmt.Println("replicate", r.Channel, len(r.Msgs))
	}
	for _, cl := range w.Targets[0].Calls() {
		fmt.Println("call", cl.Method)
	}
	r = cdc.Do("list", map[string]any{})
	fmt.Println("list:", string(r.Raw))
	b, _ := json.Marshal(cdc.Svc.VerifSnapshot())
	fmt.Println(string(b))
	d, _ := w.Etcd.Dump(w.MetaRoot)
	for k, v := range d {
		fmt.Println(k, v[:min(len(v), 300)])
	}
}
