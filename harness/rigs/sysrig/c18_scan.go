package main

// C18 helpers: canary secrets, their encoded forms, and the byte scanner over responses and log files.
//
// A canary is "S3CR3T" + 16 hex digits (64 random bits, unique per field and scenario), optionally followed by a
// tail of characters that JSON / URL / zap's text encoder escape. The scanner looks for
//   - the alphanumeric core (unchanged by JSON-, URL- and zap-escaping, whatever happens to the tail),
//   - the complete value JSON-escaped / URL-escaped (only to name the form in the report),
//   - base64 of the value at each of the three byte alignments (so that base64("user:"+secret), the form in which
//     a password reaches the downstream, is found too), standard and URL alphabet, padding-independent,
//   - lower/upper hex of the value.

import (
	"bytes"
	"encoding/base64"
	"encoding/hex"
	"encoding/json"
	"fmt"
	"net/url"
	"os"
	"path/filepath"
	"regexp"
	"strings"
	"syscall"
)

type c18Secret struct {
	Field string `json:"field"` // milvus.password | milvus.token | kafka.sasl.username | kafka.sasl.password
	Value string `json:"value"`
	Core  string `json:"core"`
}

type c18Needle struct {
	Secret *c18Secret
	Form   string
	Bytes  []byte
}

// b64Cores returns the substrings that any base64 encoding of a byte string containing val must contain,
// one per alignment of val inside the encoded stream.
func b64Cores(val string, enc *base64.Encoding) []string {
	var out []string
	for k := 0; k < 3; k++ {
		buf := append(bytes.Repeat([]byte{0}, k), val...)
		e := strings.TrimRight(enc.EncodeToString(buf), "=")
		if len(buf)%3 != 0 { // the last character also depends on the byte that follows
			e = e[:len(e)-1]
		}
		skip := []int{0, 2, 3}[k] // leading characters that depend on the bytes in front
		if len(e)-skip >= 12 {
			out = append(out, e[skip:])
		}
	}
	return out
}

func needlesOf(secrets []*c18Secret) []c18Needle {
	var ns []c18Needle
	seen := map[string]bool{}
	add := func(s *c18Secret, form, v string) {
		if v == "" || seen[v] {
			return
		}
		seen[v] = true
		ns = append(ns, c18Needle{s, form, []byte(v)})
	}
	for _, s := range secrets {
		if s.Value != s.Core {
			add(s, "plain", s.Value)
			jb, _ := json.Marshal(s.Value)
			add(s, "json-escaped", strings.Trim(string(jb), `"`))
			add(s, "url-escaped", url.QueryEscape(s.Value))
			add(s, "url-path-escaped", url.PathEscape(s.Value))
		}
		add(s, "plain", s.Core) // also matches every escaped rendering: escaping never touches [A-Za-z0-9]
		for _, c := range b64Cores(s.Value, base64.StdEncoding) {
			add(s, "base64", c)
		}
		for _, c := range b64Cores(s.Value, base64.URLEncoding) {
			add(s, "base64url", c)
		}
		if s.Value != s.Core {
			for _, c := range b64Cores(s.Core, base64.StdEncoding) {
				add(s, "base64", c)
			}
		}
		add(s, "hex", hex.EncodeToString([]byte(s.Value)))
		add(s, "hex", strings.ToUpper(hex.EncodeToString([]byte(s.Value))))
	}
	return ns
}

type c18Hit struct {
	Secret *c18Secret
	Form   string
	Where  string // response:<type> | log
	Site   string
	Line   string // the leaking line (trimmed)
	Source string // which file / which API call
}

var (
	reZapHead  = regexp.MustCompile(`^\[\d{4}/\d\d/\d\d [^\]]*\] \[(\w+)\] \[([^\]]*?):(\d+)\] \[("(?:[^"\\]|\\.)*"|[^\]]*)\]`)
	reNonSlug  = regexp.MustCompile(`[^a-z0-9]+`)
	reFieldKey = regexp.MustCompile(`\] \[([A-Za-z_][\w.\-]*)=`)
)

func slug(s string, words int) string {
	s = strings.Trim(reNonSlug.ReplaceAllString(strings.ToLower(s), "-"), "-")
	parts := strings.Split(s, "-")
	if len(parts) > words {
		parts = parts[:words]
	}
	return strings.Join(parts, "-")
}

// logSite names the place a log line came from: "<file>:<message-slug>:<zap field holding the secret>" for a
// zap line (the line number goes to the description only, so that unrelated edits do not rename the key),
// "raw:<first words>" for anything else that reached stdout/stderr.
func logSite(line []byte, at int) string {
	if m := reZapHead.FindSubmatchIndex(line); m != nil {
		file := filepath.Base(string(line[m[4]:m[5]]))
		msg := strings.Trim(string(line[m[8]:m[9]]), `"`)
		site := file + ":" + slug(msg, 6)
		if at < m[9] {
			return site + ":message"
		}
		// last "[key=" that starts before the hit
		field := ""
		for _, fm := range reFieldKey.FindAllSubmatchIndex(line[:at], -1) {
			field = string(line[fm[2]:fm[3]])
		}
		if field != "" {
			site += ":" + field
		}
		return site
	}
	txt := string(line)
	if len(txt) > 200 {
		txt = txt[:200]
	}
	// drop leading timestamps / pids of foreign loggers
	return "raw:" + slug(regexp.MustCompile(`[0-9]+`).ReplaceAllString(txt, ""), 5)
}

// trimLine keeps the head of a zap line (time, level, call site, message) and a window around the hit.
func trimLine(line []byte, at, n int) string {
	if len(line) <= n {
		return string(line)
	}
	lo := at - n/3
	if lo < 0 {
		lo = 0
	}
	hi := lo + n
	if hi > len(line) {
		hi = len(line)
	}
	head := ""
	if m := reZapHead.FindSubmatchIndex(line); m != nil && lo > m[1] {
		head = string(line[m[2]-1:m[1]]) + " … " // from "[LEVEL]" on
	}
	tail := ""
	if hi < len(line) {
		tail = " …"
	}
	return head + string(line[lo:hi]) + tail
}

// scanLog searches data (log bytes) line by line; one hit per (line, secret).
func scanLog(data []byte, needles []c18Needle, source string) []c18Hit {
	var hits []c18Hit
	// cheap pre-check on the whole buffer
	any := false
	for _, n := range needles {
		if bytes.Contains(data, n.Bytes) {
			any = true
			break
		}
	}
	if !any {
		return nil
	}
	for len(data) > 0 {
		var line []byte
		if i := bytes.IndexByte(data, '\n'); i >= 0 {
			line, data = data[:i], data[i+1:]
		} else {
			line, data = data, nil
		}
		done := map[*c18Secret]bool{}
		for _, n := range needles {
			if done[n.Secret] {
				continue
			}
			if at := bytes.Index(line, n.Bytes); at >= 0 {
				done[n.Secret] = true
				hits = append(hits, c18Hit{Secret: n.Secret, Form: n.Form, Where: "log", Site: logSite(line, at), Line: trimLine(line, at, 170), Source: source})
			}
		}
	}
	return hits
}

// scanResponse searches one HTTP response body. The site is the JSON path of the value holding the secret.
func scanResponse(reqType string, raw []byte, needles []c18Needle) []c18Hit {
	var hits []c18Hit
	done := map[*c18Secret]bool{}
	for _, n := range needles {
		if done[n.Secret] {
			continue
		}
		if at := bytes.Index(raw, n.Bytes); at >= 0 {
			done[n.Secret] = true
			site := "body"
			var v any
			if json.Unmarshal(raw, &v) == nil {
				// in the decoded document escapes are gone: look for the core first, then for the needle itself
				if p := jsonPathOf(v, n.Secret.Core, ""); p != "" {
					site = p
				} else if p := jsonPathOf(v, string(n.Bytes), ""); p != "" {
					site = p
				}
			}
			hits = append(hits, c18Hit{Secret: n.Secret, Form: n.Form, Where: "response:" + reqType, Site: site, Line: trimLine(raw, at, 220), Source: reqType + " response"})
		}
	}
	return hits
}

// jsonPathOf finds the first string value (or key) containing needle; array indices are written as [].
func jsonPathOf(v any, needle, path string) string {
	switch x := v.(type) {
	case string:
		if strings.Contains(x, needle) {
			return path
		}
	case map[string]any:
		for k, e := range x {
			if strings.Contains(k, needle) {
				return path + ".<key>"
			}
			p := k
			if path != "" {
				p = path + "." + k
			}
			if r := jsonPathOf(e, needle, p); r != "" {
				return r
			}
		}
	case []any:
		for _, e := range x {
			if r := jsonPathOf(e, needle, path+"[]"); r != "" {
				return r
			}
		}
	}
	return ""
}

func (h c18Hit) key() string {
	return fmt.Sprintf("C18/%s-in-%s-at-%s", h.Secret.Field, h.Where, h.Site)
}

// ---- the shared log file /tmp/cdc_log/cdc.log (core/log/log.go: every process on the box appends to it) ----

type sharedLogMark struct {
	ino  uint64
	size int64
}

// sharedLogFiles lists the log files under /tmp/cdc_log and the files a child holds open there (the directory can
// be removed by another run's clean-up while the child still writes to the unlinked file).
func sharedLogFiles(pid int) map[uint64]string {
	out := map[uint64]string{}
	addPath := func(p string) {
		var st syscall.Stat_t
		if syscall.Stat(p, &st) == nil && st.Mode&syscall.S_IFMT == syscall.S_IFREG {
			if _, ok := out[st.Ino]; !ok {
				out[st.Ino] = p
			}
		}
	}
	if pid > 0 {
		fdDir := fmt.Sprintf("/proc/%d/fd", pid)
		if ents, err := os.ReadDir(fdDir); err == nil {
			for _, e := range ents {
				p := filepath.Join(fdDir, e.Name())
				if t, err := os.Readlink(p); err == nil && strings.HasPrefix(t, "/tmp/cdc_log/") {
					addPath(p)
				}
			}
		}
	}
	if ms, err := filepath.Glob("/tmp/cdc_log/cdc*"); err == nil {
		for _, p := range ms {
			addPath(p)
		}
	}
	return out
}

func markSharedLog() map[uint64]int64 {
	marks := map[uint64]int64{}
	for ino, p := range sharedLogFiles(0) {
		if fi, err := os.Stat(p); err == nil {
			marks[ino] = fi.Size()
		}
	}
	return marks
}

// readSharedLog returns, per file, the bytes appended since the marks were taken (whole file when it is new).
// Other processes write to the same file: the caller searches for its own unique canaries only.
func readSharedLog(pid int, marks map[uint64]int64, maxBytes int64) (chunks map[string][]byte, total int64) {
	chunks = map[string][]byte{}
	for ino, p := range sharedLogFiles(pid) {
		f, err := os.Open(p)
		if err != nil {
			continue
		}
		fi, err := f.Stat()
		if err != nil {
			f.Close()
			continue
		}
		off := marks[ino]
		if off > fi.Size() {
			off = 0
		}
		n := fi.Size() - off
		if n > maxBytes {
			off, n = fi.Size()-maxBytes, maxBytes
		}
		buf := make([]byte, n)
		m, _ := f.ReadAt(buf, off)
		f.Close()
		chunks[fmt.Sprintf("%s(ino %d)+%d", p, ino, off)] = buf[:m]
		total += int64(m)
	}
	return chunks, total
}
