package main

// C06 — one enumerated fault case: world, fault wiring, upstream script, settle conditions, oracle.
// See c06.go for the case list and the wording of the property.

import (
	"context"
	"encoding/base64"
	"encoding/binary"
	"encoding/json"
	"fmt"
	"os"
	"regexp"
	"sort"
	"strings"
	"sync"
	"time"

	"github.com/milvus-io/milvus-proto/go-api/v2/commonpb"
	"github.com/milvus-io/milvus-proto/go-api/v2/milvuspb"
	"github.com/milvus-io/milvus/pkg/mq/msgstream"
	"google.golang.org/grpc/codes"

	"verifharness/internal/fakemilvus"
	"verifharness/internal/memq"
	"verifharness/internal/sysboot"
)

const (
	c06UnknownColl = "unknown-collection"
	c06UnknownPart = "unknown-partition"
	c06WriteRej    = "write-rejected"
	c06DDLRej      = "ddl-rejected"
	c06OpRej       = "op-rejected"
	c06CpRej       = "checkpoint-put-rejected"
	c06StateRej    = "state-put-rejected"
	c06NoFault     = "no-fault" // control: nothing fails, nobody is paused, every sentinel flows

	c06TopoOne    = "one-task"
	c06TopoSame   = "two-tasks-same-target"
	c06TopoShared = "two-tasks-same-target-one-downstream-channel"
	c06TopoDiff   = "two-tasks-different-targets"

	c06Rounds = 5

	// every source channel gets a time tick this often (besides the tick written behind every round): the service
	// turns each tick into a downstream call and a checkpoint write, so a faster pump only builds up a backlog
	c06PumpEvery = 100 * time.Millisecond
)

type c06Case struct {
	Idx      int    `json:"case"`
	Class    string `json:"class"`
	Pos      string `json:"position"` // first | middle | last
	Topo     string `json:"topology"`
	Repeated bool   `json:"repeated"`
	DDL      string `json:"ddl,omitempty"`        // ddl-rejected: CreateCollection | CreatePartition | DropPartition | DropCollection
	Op       string `json:"op,omitempty"`         // op-rejected: LoadCollection | CreateIndex | Flush
	Under    string `json:"underlying,omitempty"` // state-put-rejected: the failure that makes the server pause the task
	PackCnt  int    `json:"packer_max_count"`
	// OwnerSecond: the owning task is created after the other task (the first task of a target owns things shared
	// by every task of that target, e.g. the context of the catalog watcher)
	OwnerSecond bool `json:"owning_task_created_second,omitempty"`
	// drawn from the seed: the round of a "middle" fault (2..4), the shard of the owning collection that is hit
	K          int `json:"fault_round"`
	FaultShard int `json:"fault_shard"`
}

func (c *c06Case) sig() string {
	r := "single"
	if c.Repeated {
		r = "repeated"
	}
	o := ""
	if c.OwnerSecond {
		o = "/owner-created-second"
	}
	variant := strings.Join(strings.FieldsFunc(strings.Join([]string{c.Under, c.DDL, c.Op}, " "), func(r rune) bool { return r == ' ' }), "+")
	return fmt.Sprintf("%s/%s/%s/%s/%s/pack%d%s/round%d/shard%d", c.Class, variant, c.Pos, c.Topo, r, c.PackCnt, o, c.k(), c.FaultShard)
}

// ddlCollection: the collection whose DDL call is rejected.
func (c *c06Case) ddlCollection() string {
	if c.DDL == "CreateCollection" && c.Pos != "first" {
		return "c06_a2"
	}
	return "c06_a"
}

func (c *c06Case) k() int {
	if c.K > 0 {
		return c.K
	}
	switch c.Pos {
	case "first":
		return 1
	case "middle":
		return 3
	}
	return c06Rounds
}

type c06Result struct {
	vios         []vio
	inconclusive string
	delivered    bool // the fault reached the service (fake's / decider's counter, or the poison message was sent)
	final        bool // the fault was final (every retry of the service was answered with the failure)
	hits         int
	pausedSeen   bool
	memPaused    bool
	sentinels    int
	stalled      bool         // a sentinel of the other task was not acknowledged (reported under its own key)
	otherAfter1  *c06TaskView // the other task's state after the owning task's pause and the first sentinel round
	probes       int
	acks, puts   int
	notes        []string
	replay       map[string]any
	sample       map[string]any
}

type c06Run struct {
	c   *c06Case
	s   *super
	rs  *runState
	res *c06Result

	mu        sync.Mutex
	taskA     string
	taskB     string
	collAID   int64
	owner     map[int64]int // uid -> collection index
	armed     bool
	faultUIDs map[int64]bool // write-rejected: packs carrying one of these are rejected
	faultFrom int64          // repeated: every data uid of the owning task >= faultFrom
	faultMsg  uint64         // checkpoint-put-rejected: source message id of the message whose checkpoint is rejected
	faultPCh  string
	cpFailed  int
	stFailed  int
	hookHits  int
	ddlNames  map[string]bool // ddl-rejected: partition names (CreatePartition / DropPartition)
	poison    map[int64]bool  // uids that can never be acknowledged
	probeUID  map[int64]bool
	faultSent []dataMsg // the failing message(s) (data classes)
	later     []dataMsg // messages of the faulted stream(s) sent after the failing message, before the pause was observed
}

func (x *c06Run) note(f string, a ...any) {
	m := fmt.Sprintf(f, a...)
	x.mu.Lock()
	x.res.notes = append(x.res.notes, m)
	x.mu.Unlock()
	x.s.log(sevt{Kind: "note", Note: m})
}

func (x *c06Run) vio(key, desc string) {
	x.res.vios = append(x.res.vios, vio{"C06/" + key + "-" + x.c.Class, desc})
}

// owning target / other target
func (x *c06Run) hasB() bool { return x.c.Topo != c06TopoOne }

const (
	c06DBA = "c06dba" // database of the owning task (task = every collection of this database)
	c06DBB = "c06dbb" // database of the other task
)

func c06Scenario(c *c06Case) *scenario {
	sc := &scenario{Idx: c.Idx, NSrcP: 3, Targets: 1, PackCnt: c.PackCnt}
	// a task names exactly one collection or a wildcard: each task replicates every collection of its own database.
	// collection 0 = the owning task's collection, 1 = the other task's (if any); then the collections created later:
	// c06_a2 (owning task, used by the "CreateCollection in the middle of the history" fault) and c06_b2 (other task,
	// created after the fault as its DDL sentinel)
	sc.Colls = []collDef{{DB: c06DBA, Name: "c06_a", PChannels: []int{0, 1}}}
	sc.Tasks = []taskDef{{Target: 0, DB: c06DBA, Collections: "*"}}
	switch c.Topo {
	case c06TopoSame, c06TopoShared:
		sc.Colls = append(sc.Colls, collDef{DB: c06DBB, Name: "c06_b", PChannels: []int{2}})
		sc.Tasks = append(sc.Tasks, taskDef{Target: 0, DB: c06DBB, Collections: "*"})
		sc.SharedDS = c.Topo == c06TopoShared
	case c06TopoDiff:
		sc.Targets = 2
		sc.Colls = append(sc.Colls, collDef{DB: c06DBB, Name: "c06_b", PChannels: []int{2}})
		sc.Tasks = append(sc.Tasks, taskDef{Target: 1, DB: c06DBB, Collections: "*"})
	}
	sc.Colls = append(sc.Colls, collDef{DB: c06DBA, Name: "c06_a2", PChannels: []int{0}})
	if c.Topo != c06TopoOne {
		sc.Colls = append(sc.Colls, collDef{DB: c06DBB, Name: "c06_b2", PChannels: []int{2}})
	}
	return sc
}

func (x *c06Run) collIndex(name string) int {
	for i, cd := range x.rs.sc.Colls {
		if cd.Name == name {
			return i
		}
	}
	return -1
}

// ---- sending ----

func (x *c06Run) sendMsg(kind string, ci, si int, part *sysboot.SrcPart) (dataMsg, error) {
	rs := x.rs
	src := x.s.w.Src
	c := rs.colls[ci]
	rs.mu.Lock()
	uid := rs.nextUID
	rs.nextUID++
	rs.mu.Unlock()
	x.mu.Lock()
	x.owner[uid] = ci
	x.mu.Unlock()
	if part == nil {
		part = c.Parts[0]
	}
	recKind := kind
	var build func(ts uint64) msgstream.TsMsg
	switch kind {
	case "insert":
		build = func(ts uint64) msgstream.TsMsg { return src.InsertMsg(c, si, part, uid, ts, 1+int(uid%2)) }
	case "delete":
		build = func(ts uint64) msgstream.TsMsg { return src.DeleteMsg(c, si, part, uid, ts, []int64{uid*1000 + 1}) }
	case "poison-collection":
		cp := *c
		cp.ID = 777_000_000_000 + int64(x.c.Idx)*100 + int64(si)
		build = func(ts uint64) msgstream.TsMsg { return src.InsertMsg(&cp, si, part, uid, ts, 1) }
		recKind = "insert"
	case "poison-partition":
		ghost := &sysboot.SrcPart{ID: 888_000_000_000 + int64(x.c.Idx)*100 + int64(si), Name: fmt.Sprintf("c06_ghost_%d", si)}
		build = func(ts uint64) msgstream.TsMsg { return src.InsertMsg(c, si, ghost, uid, ts, 1) }
		recKind = "insert"
	case "droppart":
		build = func(ts uint64) msgstream.TsMsg { return src.DropPartitionMsg(c, part, uid, ts) }
	case "dropcoll":
		build = func(ts uint64) msgstream.TsMsg { return src.DropCollectionMsg(c, uid, ts) }
	default:
		return dataMsg{}, fmt.Errorf("unknown kind %s", kind)
	}
	if strings.HasPrefix(kind, "poison") {
		x.mu.Lock()
		x.poison[uid] = true
		x.mu.Unlock()
	}
	p := c.Shards[si].PChannel
	ids, ts, err := src.SendStamped(p, build)
	if err != nil {
		return dataMsg{}, err
	}
	d := dataMsg{UID: uid, Kind: recKind, Coll: ci, Shard: si, PChan: p, MsgID: ids[0], TS: ts, SentAt: x.s.tick()}
	rs.mu.Lock()
	rs.sent = append(rs.sent, d)
	rs.mu.Unlock()
	return d, nil
}

func (x *c06Run) tick() {
	_, _ = x.s.w.Src.TickAll(x.rs.pch)
	time.Sleep(12 * time.Millisecond)
}

// ---- API helpers ----

type c06TaskView struct {
	State, Reason string
	OK            bool
	Err           string
}

func (x *c06Run) get(id string) c06TaskView {
	st, rsn, ok := x.rs.taskState(id)
	if !ok {
		return c06TaskView{Err: rsn}
	}
	return c06TaskView{State: st, Reason: rsn, OK: true}
}

func (x *c06Run) list() (map[string]c06TaskView, string) {
	r := x.s.api("list", map[string]any{})
	if r.Code != 200 {
		return nil, fmt.Sprintf("list: code %d %s", r.Code, r.Message)
	}
	out := map[string]c06TaskView{}
	ts, _ := r.Data["tasks"].([]any)
	for _, t := range ts {
		m, _ := t.(map[string]any)
		if m == nil {
			continue
		}
		id, _ := m["task_id"].(string)
		st, _ := m["state"].(string)
		rsn, _ := m["reason"].(string)
		out[id] = c06TaskView{State: st, Reason: rsn, OK: true}
	}
	return out, ""
}

// memPaused asks the child's bookkeeping snapshot whether the pause of the task has been carried out completely:
// in-memory state Paused and no quit function registered for it any more (the snapshot takes the same locks as
// pauseTaskWithReason, so it cannot be observed half-way through the reader shutdown).
func (x *c06Run) memPaused(id string) (bool, error) {
	var snap struct {
		Tasks []struct {
			TaskID string
			State  int
		}
		Entities map[string]struct {
			RefCnt        int32
			QuitFuncTasks []string
		}
	}
	if err := x.s.getJSON("/verif/snapshot", &snap); err != nil {
		return false, err
	}
	paused := false
	for _, t := range snap.Tasks {
		if t.TaskID == id && t.State == 2 {
			paused = true
		}
	}
	if !paused {
		return false, nil
	}
	for _, e := range snap.Entities {
		for _, q := range e.QuitFuncTasks {
			if q == id {
				return false, nil
			}
		}
	}
	return true, nil
}

func (x *c06Run) census() ([]memq.Subscription, error) {
	var subs []memq.Subscription
	err := x.s.getJSON("/verif/mq", &subs)
	return subs, err
}

// consumedBeyond reports, for a source topic, whether some open consumer of the child has been handed a message
// with an id >= id, and whether the topic has an open consumer at all.
func (x *c06Run) consumedBeyond(topic string, id uint64) (beyond, open bool, err error) {
	subs, err := x.census()
	if err != nil {
		return false, false, err
	}
	for _, s := range subs {
		if s.Topic != topic || !s.Open {
			continue
		}
		open = true
		if s.Consumed >= id {
			beyond = true
		}
	}
	return beyond, open, nil
}

func (x *c06Run) waitAcked(uids []int64, watchdog time.Duration) []int64 {
	return x.rs.waitAcked(uids, watchdog)
}

// ---- fault wiring ----

func reqCollection(m any) string {
	if g, ok := m.(interface{ GetCollectionName() string }); ok {
		return g.GetCollectionName()
	}
	return ""
}

func reqPartition(m any) string {
	if g, ok := m.(interface{ GetPartitionName() string }); ok {
		return g.GetPartitionName()
	}
	return ""
}

func (x *c06Run) wire() {
	c := x.c
	cls := c.Class
	if cls == c06StateRej {
		cls = c.Under
	}
	owning := x.s.w.Targets[0]
	owning.SetHook(func(call *fakemilvus.Call) *fakemilvus.Decision {
		x.mu.Lock()
		defer x.mu.Unlock()
		if !x.armed {
			return nil
		}
		switch cls {
		case c06WriteRej:
			if call.Method != "ReplicateMessage" || call.Replicate == nil {
				return nil
			}
			for _, m := range call.Replicate.Msgs {
				if m == nil {
					continue
				}
				u := uidOf(m)
				if u < 0 {
					continue
				}
				hit := x.faultUIDs[u]
				if !hit && c.Repeated && x.faultFrom > 0 && u >= x.faultFrom {
					if ci, ok := x.owner[u]; ok && ci == 0 {
						hit = true
					}
				}
				if hit {
					x.hookHits++
					return fakemilvus.FailGRPC(codes.Internal, "injected downstream rejection of the write")
				}
			}
		case c06DDLRej:
			if call.Method != c.DDL || reqCollection(call.Req) != c.ddlCollection() {
				return nil
			}
			if c.DDL == "CreatePartition" || c.DDL == "DropPartition" {
				if !x.ddlNames[reqPartition(call.Req)] {
					return nil
				}
			}
			x.hookHits++
			return fakemilvus.FailGRPC(codes.Internal, "injected downstream rejection of "+c.DDL)
		case c06OpRej:
			if call.Method != c.Op || reqCollection(call.Req) != "c06_a" {
				return nil
			}
			x.hookHits++
			return fakemilvus.FailGRPC(codes.Internal, "injected downstream rejection of "+c.Op)
		}
		return nil
	})
	x.s.setStoreDecide(func(ev sysboot.StoreEvent) sysboot.StoreDecision {
		if ev.Phase != "before" || ev.Op != "put" {
			return sysboot.StoreDecision{}
		}
		x.mu.Lock()
		defer x.mu.Unlock()
		if !x.armed || x.taskA == "" || ev.Task != x.taskA {
			return sysboot.StoreDecision{}
		}
		if ev.Kind == "task_position" && cls == c06CpRej && ev.Coll == x.collAID && x.faultMsg != 0 {
			pe, ok := ev.Positions[x.faultPCh]
			covers := ok && pe.MsgID >= x.faultMsg
			if c.Repeated && x.cpFailed > 0 {
				covers = true // from the first rejection on every checkpoint of the owning task is rejected
			}
			if covers && (c.Repeated || x.cpFailed == 0) {
				x.cpFailed++
				return sysboot.StoreDecision{Fail: "injected: store rejects the checkpoint"}
			}
		}
		if ev.Kind == "task_info" && c.Class == c06StateRej && ev.State == 2 {
			if c.Repeated || x.stFailed == 0 {
				x.stFailed++
				return sysboot.StoreDecision{Fail: "injected: store rejects the task state update"}
			}
		}
		return sysboot.StoreDecision{}
	})
}

func (x *c06Run) counts() (hook, cp, st int) {
	x.mu.Lock()
	defer x.mu.Unlock()
	return x.hookHits, x.cpFailed, x.stFailed
}

var c06ExhaustedRe = regexp.MustCompile(`fail to find the collection info|fail to find the partition id`)

// poisonSeen counts the places in the child's log where the service gave up looking up the unknown collection /
// partition of a poison message (logged once per message after the last retry).
func (x *c06Run) poisonSeen() int {
	return len(c06ExhaustedRe.FindAllStringIndex(x.childLog(), -1))
}

// faultStatus: delivered = the fault reached the service; final = the service has been answered with the failure on
// every retry it makes (downstream calls: 3 attempts, sysboot retry settings), so it has to pause the task now.
func (x *c06Run) faultStatus() (delivered, final bool, hits int) {
	hook, cp, st := x.counts()
	cls := x.c.Class
	under := cls
	if cls == c06StateRej {
		under = x.c.Under
	}
	switch under {
	case c06UnknownColl, c06UnknownPart:
		x.mu.Lock()
		n := len(x.faultSent)
		x.mu.Unlock()
		delivered, hits = n > 0, n
		final = n > 0 && x.poisonSeen() >= n
	case c06WriteRej, c06DDLRej, c06OpRej:
		delivered, final, hits = hook > 0, hook >= 3, hook
	case c06CpRej:
		delivered, final, hits = cp > 0, cp > 0, cp
	}
	if cls == c06StateRej {
		delivered = delivered && st > 0
		final = final && st > 0
		hits = st
	}
	return
}

// ---- the case ----

func runC06Case(c *c06Case, name string) *c06Result {
	res := &c06Result{}
	dir := scratchDir(name)
	sc := c06Scenario(c)
	s, err := newSuper(dir, sc.Targets)
	for try := 1; err != nil && try <= 3; try++ {
		// a port picked for the embedded etcd can be taken by another process between probing and binding
		time.Sleep(time.Duration(try) * 300 * time.Millisecond)
		dir = scratchDir(fmt.Sprintf("%s-retry%d", name, try))
		s, err = newSuper(dir, sc.Targets)
	}
	if err != nil {
		res.inconclusive = "world: " + err.Error()
		return res
	}
	defer s.close()
	rs := newRunState(s, sc)
	x := &c06Run{c: c, s: s, rs: rs, res: res, owner: map[int64]int{}, faultUIDs: map[int64]bool{}, ddlNames: map[string]bool{}, poison: map[int64]bool{}, probeUID: map[int64]bool{}}
	// downstream channel layout: source pchannel i <-> ds-rootcoord-dml_i (or everything on ds-rootcoord-dml_0)
	for _, tgt := range s.w.Targets {
		for _, db := range []string{c06DBA, c06DBB} {
			if err := tgt.AddDatabase(db); err != nil {
				res.inconclusive = "add database: " + err.Error()
				return res
			}
		}
		var mu sync.Mutex
		next := int64(7000)
		tgt.SetIDAssigner(func(db, cname string) (int64, []string, []string) {
			mu.Lock()
			defer mu.Unlock()
			next += 10
			id := next
			pcs := []int{0}
			for _, cd := range sc.Colls {
				if cd.Name == cname {
					pcs = cd.PChannels
				}
			}
			var vs, ps []string
			for i, pi := range pcs {
				if sc.SharedDS {
					pi = 0
				}
				p := fmt.Sprintf("ds-rootcoord-dml_%d", pi)
				ps = append(ps, p)
				vs = append(vs, fmt.Sprintf("%s_%dv%d", p, id, i))
			}
			return id, vs, ps
		})
	}
	x.wire()
	copts := childOpts{PackCount: sc.PackCnt, PackTimer: 30, SrcChannels: sc.NSrcP}
	if err := s.startChild(copts); err != nil {
		res.inconclusive = "child: " + err.Error()
		return res
	}
	rs.startPump(c06PumpEvery)
	defer rs.stopPump()
	x.script()
	rs.stopPump()
	x.oracle()
	if keep := os.Getenv("C06_KEEP"); keep != "" { // debugging aid: keep the child's log
		_ = os.MkdirAll(keep, 0o755)
		_ = os.WriteFile(fmt.Sprintf("%s/%s-child.log", keep, name), []byte(x.childLog()), 0o644)
	}
	evs := s.events()
	res.replay = map[string]any{"case": c, "scenario": sc, "task_owning": x.taskA, "task_other": x.taskB, "sent": rs.sent, "notes": res.notes,
		"events": c06TailEvents(evs, 900), "child_log_key_lines": x.childLogLines(60), "child_log_tail": s.tailChildLog(1500)}
	return res
}

func (x *c06Run) fail(why string) { x.res.inconclusive = why }

func (x *c06Run) armNow() {
	x.mu.Lock()
	x.armed = true
	x.mu.Unlock()
}

// script runs the upstream activity, delivers the fault and waits for the logical settle conditions.
func (x *c06Run) script() {
	c, s, rs := x.c, x.s, x.rs
	ctx := context.Background()
	cls := c.Class
	if cls == c06StateRej {
		cls = c.Under
	}
	// tasks first (as a user would: the task replicates a collection that is created afterwards)
	order := []int{0, 1}
	if c.OwnerSecond {
		order = []int{1, 0}
	}
	for _, i := range order {
		if i >= len(rs.sc.Tasks) {
			continue
		}
		if r := rs.createTask(i); r.Code != 200 {
			x.fail(fmt.Sprintf("create task %d: %d %s", i, r.Code, r.Message))
			return
		}
	}
	x.mu.Lock()
	x.taskA = rs.taskIDs[0]
	if x.hasB() {
		x.taskB = rs.taskIDs[1]
	}
	x.mu.Unlock()
	if x.hasB() {
		if err := rs.createColl(1); err != nil {
			x.fail("create collection b: " + err.Error())
			return
		}
	}
	k := c.k()
	createRejectedFirst := cls == c06DDLRej && c.DDL == "CreateCollection" && c.Pos == "first"
	if createRejectedFirst {
		x.armNow() // position "first" of the owning task's history: its collection cannot be created downstream
	}
	if err := rs.createColl(0); err != nil {
		x.fail("create collection a: " + err.Error())
		return
	}
	x.mu.Lock()
	x.collAID = rs.colls[0].ID
	x.mu.Unlock()
	var partX *sysboot.SrcPart
	if cls == c06DDLRej && c.DDL == "DropPartition" {
		p, err := s.w.Src.CreatePartition(ctx, rs.colls[0], "c06_px")
		if err != nil {
			x.fail("create partition: " + err.Error())
			return
		}
		partX = p
	}
	// wait until the collections exist downstream (except the one whose creation is being rejected)
	if !x.waitDownstream(createRejectedFirst, partX) {
		return
	}
	var all []int64
	round := func(r int, faultRound bool) bool {
		for ci, cd := range rs.sc.Colls {
			for si := range cd.PChannels {
				kind := "insert"
				if r%2 == 0 && si == 1 {
					kind = "delete"
				}
				var part *sysboot.SrcPart
				isFaultStream := ci == 0 && (si == c.FaultShard || (c.Repeated && (cls == c06UnknownColl || cls == c06UnknownPart)))
				if ci == 0 && createRejectedFirst {
					continue // nothing of the owning task can be written before its collection exists
				}
				if rs.colls[ci] == nil || cd.Name == "c06_a2" || cd.Name == "c06_b2" {
					continue // the collections created later carry no rows of the history
				}
				if faultRound && isFaultStream {
					switch cls {
					case c06UnknownColl:
						kind = "poison-collection"
					case c06UnknownPart:
						kind = "poison-partition"
					case c06DDLRej:
						if c.DDL == "CreatePartition" {
							part = x.faultPartition()
						}
					}
				}
				if ci == 0 && partX != nil && si == c.FaultShard && !faultRound && r < x.c.k() {
					part = partX // rows in the partition that is dropped later
				}
				d, err := x.sendMsg(kind, ci, si, part)
				if err != nil {
					x.fail("send: " + err.Error())
					return false
				}
				if faultRound && isFaultStream && ci == 0 {
					x.mu.Lock()
					x.faultSent = append(x.faultSent, d)
					switch cls {
					case c06WriteRej:
						x.faultUIDs[d.UID] = true
						x.faultFrom = d.UID
					case c06CpRej:
						x.faultMsg, x.faultPCh = d.MsgID, d.PChan
					}
					x.mu.Unlock()
				} else if ci == 0 && !faultRound && r > k {
					x.mu.Lock()
					x.later = append(x.later, d)
					x.mu.Unlock()
				}
				if !(faultRound && isFaultStream) {
					all = append(all, d.UID)
				}
			}
		}
		x.tick()
		return true
	}
	// phase 1: the history before the fault flows completely
	for r := 1; r < k; r++ {
		if !round(r, false) {
			return
		}
	}
	if miss := x.waitAcked(all, 60*time.Second); len(miss) > 0 {
		if !s.childAlive() {
			return // judged by the oracle (process crash without any fault is a violation as well)
		}
		x.fail(fmt.Sprintf("the history before the fault did not flow: %d message(s) not acknowledged (watchdog)", len(miss)))
		return
	}
	// phase 2: the fault
	x.note("fault phase begins (round %d)", k)
	x.mu.Lock()
	if cls == c06DDLRej && c.DDL == "CreatePartition" {
		x.ddlNames["c06_pf"] = true
		if c.Repeated {
			x.ddlNames["c06_pf2"] = true
		}
	}
	if cls == c06DDLRej && c.DDL == "DropPartition" {
		x.ddlNames["c06_px"] = true
	}
	x.mu.Unlock()
	x.armNow()
	dropSent := false
	for r := k; r <= c06Rounds; r++ {
		fr := r == k
		if fr && cls == c06DDLRej && c.DDL == "CreatePartition" && c.Repeated {
			if _, err := s.w.Src.CreatePartition(ctx, rs.colls[0], "c06_pf2"); err != nil {
				x.fail("create partition: " + err.Error())
				return
			}
		}
		if fr && cls == c06DDLRej && (c.DDL == "DropPartition" || c.DDL == "DropCollection") {
			if !x.sendDrop(partX) {
				return
			}
			dropSent = true
			x.tick()
		}
		if fr && cls == c06OpRej {
			if !x.sendOp() {
				return
			}
		}
		if fr && cls == c06DDLRej && c.DDL == "CreateCollection" && !createRejectedFirst {
			if err := rs.createColl(x.collIndex("c06_a2")); err != nil {
				x.fail("create collection a2: " + err.Error())
				return
			}
		}
		if dropSent && c.DDL == "DropCollection" {
			// the owning task's collection is gone upstream: only the other task keeps writing
			for ci, cd := range rs.sc.Colls {
				if ci == 0 || rs.colls[ci] == nil || cd.Name == "c06_a2" || cd.Name == "c06_b2" {
					continue
				}
				for si := range cd.PChannels {
					if _, err := x.sendMsg("insert", ci, si, nil); err != nil {
						x.fail("send: " + err.Error())
						return
					}
				}
			}
			x.tick()
			continue
		}
		// in the fault round the message on the faulted stream is the failing one (data classes) or goes into the
		// partition whose creation is rejected; the other DDL / op faults leave the data messages ordinary
		faultMsgRound := fr && cls != c06NoFault && (cls != c06DDLRej && cls != c06OpRej || cls == c06DDLRej && c.DDL == "CreatePartition")
		if !round(r, faultMsgRound) {
			return
		}
	}
	x.settle()
}

func (x *c06Run) faultPartition() *sysboot.SrcPart {
	c := x.rs.colls[0]
	for _, p := range c.Parts {
		if p.Name == "c06_pf" {
			return p
		}
	}
	p, err := x.s.w.Src.CreatePartition(context.Background(), c, "c06_pf")
	if err != nil {
		return nil
	}
	return p
}

// sendDrop plays the upstream drop of the partition c06_px / of the owning task's collection: catalog state first,
// then the drop message on every shard's channel (as rootcoord does).
func (x *c06Run) sendDrop(partX *sysboot.SrcPart) bool {
	ctx := context.Background()
	c := x.rs.colls[0]
	if x.c.DDL == "DropPartition" {
		if err := x.s.w.Src.DropPartitionMeta(ctx, c, partX); err != nil {
			x.fail("drop partition meta: " + err.Error())
			return false
		}
		for si := range c.Shards {
			if err := x.sendOnShard("droppart", si, partX); err != nil {
				x.fail("send drop partition: " + err.Error())
				return false
			}
		}
		return true
	}
	if err := x.s.w.Src.DropCollectionMeta(ctx, c); err != nil {
		x.fail("drop collection meta: " + err.Error())
		return false
	}
	for si := range c.Shards {
		if err := x.sendOnShard("dropcoll", si, nil); err != nil {
			x.fail("send drop collection: " + err.Error())
			return false
		}
	}
	return true
}

// sendOnShard sends a drop message on the physical channel of shard si (the scenario sender uses the shard's channel).
func (x *c06Run) sendOnShard(kind string, si int, part *sysboot.SrcPart) error {
	_, err := x.sendMsg(kind, 0, si, part)
	return err
}

// sendOp writes an op message for the owning task's collection onto the source's replicate channel.
func (x *c06Run) sendOp() bool {
	src := x.s.w.Src
	ts := src.TS()
	rs := x.rs
	rs.mu.Lock()
	uid := rs.nextUID
	rs.nextUID++
	rs.mu.Unlock()
	base := &commonpb.MsgBase{MsgID: uid, Timestamp: ts, SourceID: 7}
	bm := func() msgstream.BaseMsg {
		return msgstream.BaseMsg{BeginTimestamp: ts, EndTimestamp: ts, HashValues: []uint32{0}}
	}
	var m msgstream.TsMsg
	switch x.c.Op {
	case "LoadCollection":
		base.MsgType = commonpb.MsgType_LoadCollection
		m = &msgstream.LoadCollectionMsg{BaseMsg: bm(), LoadCollectionRequest: &milvuspb.LoadCollectionRequest{Base: base, DbName: c06DBA, CollectionName: "c06_a", ReplicaNumber: 1}}
	case "Flush":
		base.MsgType = commonpb.MsgType_Flush
		m = &msgstream.FlushMsg{BaseMsg: bm(), FlushRequest: &milvuspb.FlushRequest{Base: base, DbName: c06DBA, CollectionNames: []string{"c06_a"}}}
	default:
		base.MsgType = commonpb.MsgType_CreateIndex
		m = &msgstream.CreateIndexMsg{BaseMsg: bm(), CreateIndexRequest: &milvuspb.CreateIndexRequest{Base: base, DbName: c06DBA, CollectionName: "c06_a", FieldName: "vec", IndexName: "c06_ix",
			ExtraParams: []*commonpb.KeyValuePair{{Key: "index_type", Value: "FLAT"}, {Key: "metric_type", Value: "L2"}}}}
	}
	topic := x.s.w.ReplicateChan()
	if _, err := src.Send(topic, m); err != nil {
		x.fail("send op message: " + err.Error())
		return false
	}
	x.note("op message %s sent on %s", x.c.Op, topic)
	return true
}

// waitDownstream waits until the collections (and the pre-created partition) exist at the fakes.
func (x *c06Run) waitDownstream(skipA bool, partX *sysboot.SrcPart) bool {
	deadline := time.Now().Add(60 * time.Second)
	for {
		ok := true
		for i, td := range x.rs.sc.Tasks {
			if i == 0 && skipA {
				continue
			}
			col := x.s.w.Targets[td.Target].GetCollection(td.DB, x.rs.sc.Colls[i].Name)
			if col == nil {
				ok = false
				continue
			}
			if i == 0 && partX != nil {
				_, found := col.Partitions[partX.Name]
				ok = ok && found
			}
		}
		if ok {
			return true
		}
		if !x.s.childAlive() {
			return true // judged by the oracle
		}
		if time.Now().After(deadline) {
			x.fail("the collections were not created downstream (watchdog)")
			return false
		}
		time.Sleep(30 * time.Millisecond)
	}
}

// settle: (1) wait until the fault has been delivered and the owning task is observed Paused (or there is logical
// evidence that the service went past the failing message without pausing), (2) wait until the pause has been carried
// out in the service's bookkeeping, (3) send NEW messages of the paused task (they must never be acknowledged) and
// sentinels on every stream of the other task (they must be acknowledged).
func (x *c06Run) settle() {
	c, s := x.c, x.s
	res := x.res
	cls := c.Class
	if cls == c06StateRej {
		cls = c.Under
	}
	blocking := cls == c06UnknownColl || cls == c06UnknownPart || cls == c06WriteRej
	poisonCls := cls == c06UnknownColl || cls == c06UnknownPart
	noVisiblePause := c.Class == c06StateRej && c.Repeated // the store never accepts the Paused state
	skipProof, idleProof := "", ""
	start := time.Now()
	var finalAt time.Time
	lastStatus := time.Time{}
	tailSent := false
	for c.Class != c06NoFault {
		if !s.childAlive() {
			return
		}
		if v := x.get(x.taskA); v.OK && v.State == "Paused" {
			res.pausedSeen = true
			break
		}
		if noVisiblePause {
			if ok, err := x.memPaused(x.taskA); err == nil && ok {
				res.memPaused = true
				break
			}
		}
		if time.Since(lastStatus) > time.Second {
			lastStatus = time.Now()
			res.delivered, res.final, res.hits = x.faultStatus()
			if res.final && finalAt.IsZero() {
				finalAt = time.Now()
				x.note("the fault is final (%d injected failure(s) / poison message(s) given up by the service)", res.hits)
			}
		}
		if blocking {
			// evidence that the stream went on past a message that was never acknowledged (only for the classes in
			// which the failing message blocks its stream until the task is paused)
			x.mu.Lock()
			later := append([]dataMsg{}, x.later...)
			fs := append([]dataMsg{}, x.faultSent...)
			x.mu.Unlock()
			if poisonCls && !tailSent && !finalAt.IsZero() {
				// position "last": nothing was written behind the failing message yet; now that the service has given
				// the message up, write one row per faulted stream
				tailSent = true
				for _, f := range fs {
					has := false
					for _, l := range later {
						if l.Shard == f.Shard && l.MsgID > f.MsgID {
							has = true
						}
					}
					if has {
						continue
					}
					if d, err := x.sendMsg("insert", 0, f.Shard, nil); err == nil {
						x.mu.Lock()
						x.later = append(x.later, d)
						x.mu.Unlock()
					}
				}
				x.tick()
			}
			acked := x.rs.ackedUIDs()
			for _, f := range fs {
				if len(acked[f.UID]) > 0 {
					continue
				}
				for _, l := range later {
					if l.Shard == f.Shard && l.MsgID > f.MsgID && len(acked[l.UID]) > 0 {
						skipProof = fmt.Sprintf("message uid=%d (source id %d) of the same stream, sent after the failing message uid=%d (source id %d), was acknowledged", l.UID, l.MsgID, f.UID, f.MsgID)
					}
				}
			}
			if skipProof != "" {
				break
			}
		}
		// pausing is the very next thing the service has to do after the final failure (same goroutine, or one hop
		// through the event channel): 40 s later, with the API answering, it did not do it
		if !finalAt.IsZero() && time.Since(finalAt) > 40*time.Second {
			if v := x.get(x.taskA); v.OK && v.State != "Paused" {
				idleProof = fmt.Sprintf("%v after the failure had become final the API still answers with state %q", time.Since(finalAt).Round(time.Second), v.State)
				break
			}
		}
		if time.Since(start) > 120*time.Second {
			break
		}
		time.Sleep(80 * time.Millisecond)
	}
	res.delivered, res.final, res.hits = x.faultStatus()
	if c.Class == c06NoFault {
		res.delivered, res.final = true, true
	} else if !res.pausedSeen && !res.memPaused {
		switch {
		case skipProof != "":
			x.note("owning task not Paused; %s", skipProof)
			// the stream went past the failing message; give a pause that is under way a moment to become visible
			// (this only decides which of the clauses are reported, the skipped message is a violation either way)
			for dl := time.Now().Add(6 * time.Second); time.Now().Before(dl) && s.childAlive(); time.Sleep(100 * time.Millisecond) {
				if v := x.get(x.taskA); v.OK && v.State == "Paused" {
					res.pausedSeen = true
					break
				}
			}
		case idleProof != "":
			x.note("owning task not Paused: %s", idleProof)
			if ok, err := x.memPaused(x.taskA); err == nil {
				x.note("the service's own bookkeeping shows the pause carried out: %v", ok)
				res.memPaused = ok
			}
		default:
			x.fail(fmt.Sprintf("neither Paused nor past the fault when the watchdog fired: delivered=%v final=%v hits=%d", res.delivered, res.final, res.hits))
			return
		}
	}
	// (2) pause carried out?
	if res.pausedSeen {
		dl := time.Now().Add(20 * time.Second)
		for {
			ok, err := x.memPaused(x.taskA)
			if err == nil && ok {
				res.memPaused = true
				break
			}
			if time.Now().After(dl) || !s.childAlive() {
				break
			}
			time.Sleep(50 * time.Millisecond)
		}
		if !res.memPaused {
			x.note("get reports the owning task Paused but the service's own bookkeeping never showed the pause as carried out (20 s)")
		}
	}
	// (3) probes of the paused task + sentinels of the other task
	var probes []dataMsg
	if (res.pausedSeen || res.memPaused) && !(cls == c06DDLRej && (c.DDL == "DropCollection" || c.DDL == "CreateCollection" && c.Pos == "first")) {
		for si := range x.rs.colls[0].Shards {
			d, err := x.sendMsg("insert", 0, si, nil)
			if err != nil {
				x.fail("send probe: " + err.Error())
				return
			}
			x.mu.Lock()
			x.probeUID[d.UID] = true
			x.mu.Unlock()
			probes = append(probes, d)
		}
		res.probes = len(probes)
		x.note("probes of the paused task sent: %d", len(probes))
		x.tick()
	}
	if x.hasB() {
		// sentinel 1: plain row on every stream of the other task
		var sent []dataMsg
		for si := range x.rs.colls[1].Shards {
			d, err := x.sendMsg("insert", 1, si, nil)
			if err != nil {
				x.fail("send sentinel: " + err.Error())
				return
			}
			sent = append(sent, d)
		}
		x.tick()
		if !x.waitPlainSentinel(sent) {
			return
		}
		res.sentinels++
		// the other task's state is taken here: after the owning task's failure has been dealt with, before the
		// other task is asked to replicate a DDL of its own
		if v := x.get(x.taskB); v.OK {
			res.otherAfter1 = &v
		}
		// sentinel 2: a row in a collection of the other task created upstream after the fault (needs the other
		// task's catalog watcher and DDL path). Not a partition: at d6fa97d, with two tasks on one target, a partition
		// event was swallowed by whichever task's subscriber was asked first even without any fault (collection_reader.go:
		// the partition subscriber returned true, "consumed", for a partition it does not replicate; repaired by fca49cc)
		// - not C06's subject.
		b2 := x.collIndex("c06_b2")
		if err := x.rs.createColl(b2); err != nil {
			x.fail("create collection b2: " + err.Error())
			return
		}
		d, err := x.sendMsg("insert", b2, 0, nil)
		if err != nil {
			x.fail("send sentinel: " + err.Error())
			return
		}
		x.tick()
		// a marker row on the other task's EXISTING stream, written after the new collection and its row: once it
		// is acknowledged the task's data path has caught up with everything written before
		marker, err := x.sendMsg("insert", 1, 0, nil)
		if err != nil {
			x.fail("send marker: " + err.Error())
			return
		}
		x.tick()
		if !x.waitDDLSentinel(d, marker) {
			return
		}
		res.sentinels++
	} else if len(probes) > 0 {
		// no other task to pace the observation: wait until the service's consumers have been handed the probes (or
		// have gone away), then let 40 more ticks pass through every source channel
		dl := time.Now().Add(20 * time.Second)
		for time.Now().Before(dl) {
			all := true
			for _, d := range probes {
				b, open, err := x.consumedBeyond(d.PChan, d.MsgID)
				if err != nil || (open && !b) {
					all = false
				}
			}
			if all {
				break
			}
			time.Sleep(50 * time.Millisecond)
		}
		base := s.w.Broker.Len(x.rs.pch[0])
		dl = time.Now().Add(20 * time.Second)
		for s.w.Broker.Len(x.rs.pch[0]) < base+40 && time.Now().Before(dl) {
			time.Sleep(25 * time.Millisecond)
		}
	}
	if c.Class == c06NoFault {
		// control: everything written must arrive
		var want []int64
		for _, d := range x.rs.sent {
			if d.Kind == "insert" || d.Kind == "delete" {
				want = append(want, d.UID)
			}
		}
		if miss := x.waitAcked(want, 60*time.Second); len(miss) > 0 {
			x.fail(fmt.Sprintf("control case: %d message(s) not acknowledged (watchdog)", len(miss)))
		}
	}
}

// otherDownstream: target index and downstream channel of the other task's stream.
func (x *c06Run) otherDownstream() (int, string) {
	t := x.rs.sc.Tasks[1].Target
	if x.rs.sc.SharedDS {
		return t, "ds-rootcoord-dml_0"
	}
	return t, "ds-rootcoord-dml_2"
}

// acksOn counts the calls (data or tick-only) accepted on a downstream channel of a target after the given clock.
func (x *c06Run) acksOn(target int, ch string, after int64) int {
	n := 0
	for _, e := range x.s.events() {
		if e.Kind == "ack" && e.Target == target && e.Chan == ch && e.Clock > after {
			n++
		}
	}
	return n
}

// waitPlainSentinel waits until the rows written to the other task's stream(s) are acknowledged. Not acknowledged
// counts as STALLED only when, from the moment they were written until 45 s later, NOTHING at all (no data, no time
// tick) was accepted on that task's downstream channel although the source kept ticking, the service answered its API
// and its consumer of the source channel had been handed the rows (or is gone). A channel on which calls keep arriving
// is lagging, not stalled: the wait goes on (up to 150 s), then the case is inconclusive.
func (x *c06Run) waitPlainSentinel(sent []dataMsg) bool {
	var want []int64
	from := int64(1 << 62)
	for _, d := range sent {
		want = append(want, d.UID)
		if d.SentAt < from {
			from = d.SentAt
		}
	}
	start := time.Now()
	tgt, ch := x.otherDownstream()
	for {
		if miss := x.waitAcked(want, 3*time.Second); len(miss) == 0 {
			return true
		}
		if !x.s.childAlive() {
			return false
		}
		if el := time.Since(start); el > 45*time.Second {
			n := x.acksOn(tgt, ch, from)
			if n == 0 {
				vb := x.get(x.taskB)
				handed := true
				for _, d := range sent {
					b, open, err := x.consumedBeyond(d.PChan, d.MsgID)
					if err != nil || (open && !b) {
						handed = false
					}
				}
				if vb.OK && handed {
					x.res.stalled = true
					x.vio("other-task-stops-replicating", fmt.Sprintf("task %s (other task, %s, API state %q): rows written to its stream after the fault of task %s (sentinel uid(s) %v) were never acknowledged, and in the %v since they were written NOTHING (no data, no time tick) has been accepted on its downstream channel %s although the source channel kept ticking every %v, the service answered the API and its source consumer had been handed the rows (or is gone)", x.taskB, x.c.Topo, vb.State, x.taskA, want, el.Round(time.Second), ch, c06PumpEvery))
					return false
				}
			}
			if el > 150*time.Second {
				x.fail(fmt.Sprintf("sentinel of the other task not acknowledged after %v, but %d call(s) arrived on its downstream channel meanwhile (lagging, not stalled)", el.Round(time.Second), n))
				return false
			}
		}
	}
}

// waitDDLSentinel waits until the row in the collection created after the fault is acknowledged. STALLED only when the
// CreateCollection call for that collection never reached the other task's downstream although (a) the marker row
// written afterwards on the task's existing stream was acknowledged at least 30 s ago (its data path has caught up), or
// (b) the task, which had no fault of its own, is reported Paused. Otherwise the wait goes on (up to 150 s), then the
// case is inconclusive.
func (x *c06Run) waitDDLSentinel(d, marker dataMsg) bool {
	start := time.Now()
	var markerAt time.Time
	tgt, _ := x.otherDownstream()
	for {
		if miss := x.waitAcked([]int64{d.UID}, 3*time.Second); len(miss) == 0 {
			return true
		}
		if !x.s.childAlive() {
			return false
		}
		if markerAt.IsZero() && len(x.rs.ackedUIDs()[marker.UID]) > 0 {
			markerAt = time.Now()
		}
		el := time.Since(start)
		if el > 45*time.Second {
			created := false
			for _, call := range x.s.w.Targets[tgt].CallsOf("CreateCollection") {
				if reqCollection(call.Req) == "c06_b2" {
					created = true
				}
			}
			vb := x.get(x.taskB)
			if !created && vb.OK {
				caughtUp := !markerAt.IsZero() && time.Since(markerAt) > 30*time.Second
				if caughtUp || vb.State == "Paused" {
					why := fmt.Sprintf("a row written afterwards on its existing stream was acknowledged %v ago", time.Since(markerAt).Round(time.Second))
					if !caughtUp {
						why = fmt.Sprintf("the task is now reported %s with reason %q", vb.State, vb.Reason)
					}
					x.res.stalled = true
					x.vio("other-task-stops-replicating-after-ddl", fmt.Sprintf("task %s (other task, %s, API state %q): collection c06_b2 of its database was created upstream after the fault of task %s; %v later no CreateCollection for it has reached its downstream and the row written into it (uid %d) is not acknowledged, while %s", x.taskB, x.c.Topo, vb.State, x.taskA, el.Round(time.Second), d.UID, why))
					return false
				}
			}
			if el > 150*time.Second {
				x.fail(fmt.Sprintf("DDL sentinel of the other task not acknowledged after %v (CreateCollection reached the downstream: %v, marker acknowledged: %v): slow, not provably stalled", el.Round(time.Second), created, !markerAt.IsZero()))
				return false
			}
		}
	}
}

// ---- oracle ----

var c06PanicRe = regexp.MustCompile(`(?m)^(panic: |fatal error: |\[signal SIG)`)

func (x *c06Run) childLog() string {
	var sb strings.Builder
	for inc := 1; inc <= 4; inc++ {
		b, err := os.ReadFile(fmt.Sprintf("%s/child-%d.log", x.s.dir, inc))
		if err != nil {
			break
		}
		sb.Write(b)
	}
	return sb.String()
}

func (x *c06Run) childLogLines(n int) []string {
	var out []string
	for _, l := range strings.Split(x.childLog(), "\n") {
		if strings.Contains(l, "pause task") || strings.Contains(l, "fail to") || strings.Contains(l, "receive the error event") || strings.Contains(l, "not running task") ||
			strings.Contains(l, "panic") || strings.Contains(l, "not found the") {
			if len(l) > 400 {
				l = l[:400]
			}
			out = append(out, l)
		}
	}
	if len(out) > n {
		out = append(out[:n/2], out[len(out)-n/2:]...)
	}
	return out
}

func c06TopRepoFrame(log string) string {
	loc := c06PanicRe.FindStringIndex(log)
	if loc == nil {
		return ""
	}
	lines := strings.Split(log[loc[0]:], "\n")
	head := lines[0]
	for i, l := range lines {
		if strings.Contains(l, "github.com/zilliztech/milvus-cdc/") && !strings.Contains(l, "/core/log.") && i+1 < len(lines) {
			fn := strings.TrimSpace(l)
			if j := strings.LastIndex(fn, "("); j > 0 {
				fn = fn[:j]
			}
			file := strings.TrimSpace(lines[i+1])
			if j := strings.Index(file, " +0x"); j > 0 {
				file = file[:j]
			}
			return head + " at " + fn + " " + file
		}
	}
	return head
}

func (x *c06Run) oracle() {
	c, s, rs, res := x.c, x.s, x.rs, x.res
	// the store is read BEFORE the event log is copied: an acknowledgement is logged before the checkpoint that
	// depends on it is written, so every persisted checkpoint finds its acknowledgements in the copy
	dump, dumpErr := s.w.Etcd.Dump(s.w.MetaRoot)
	evs := s.events()
	for _, e := range evs {
		if e.Kind == "ack" {
			res.acks++
		}
		if e.Kind == "store" && e.Store.Kind == "task_position" && e.Store.Op == "put" && e.Store.Phase == "before" {
			res.puts++
		}
	}
	res.delivered, res.final, res.hits = x.faultStatus()
	// (a) process liveness
	log := x.childLog()
	if !s.childAlive() || c06PanicRe.MatchString(log) {
		exit := ""
		for _, e := range evs {
			if e.Kind == "child-exit" {
				exit = e.Note
			}
		}
		res.inconclusive = ""
		x.vio("process-crash", fmt.Sprintf("the CDC process died (%s) %s; fault %s delivered=%v", exit, c06TopRepoFrame(log), c.sig(), res.delivered))
		return
	}
	if res.inconclusive != "" {
		return
	}
	if c.Class == c06NoFault {
		res.delivered, res.final = true, true
	}
	if !res.delivered {
		res.inconclusive = "fault not delivered"
		return
	}
	// final API views
	ga := x.get(x.taskA)
	la, lerr := x.list()
	if !ga.OK || lerr != "" {
		res.inconclusive = "final get/list failed: " + ga.Err + " " + lerr
		return
	}
	stateUpdateRejectedForGood := c.Class == c06StateRej && c.Repeated
	// (b) owning task Paused with a reason, through get and through list
	lv := la[x.taskA]
	if c.Class == c06NoFault {
		if ga.State != "Running" || lv.State != "Running" {
			res.inconclusive = fmt.Sprintf("control case without any fault: task %s ends with state %q (reason %q)", x.taskA, ga.State, ga.Reason)
			return
		}
	} else if !stateUpdateRejectedForGood {
		if ga.State != "Paused" || lv.State != "Paused" {
			x.vio("owning-task-not-paused", fmt.Sprintf("task %s hit the fault (%s, %d injected failure(s)/poison message(s)) but ends with state get=%q list=%q (reason %q)", x.taskA, c.sig(), res.hits, ga.State, lv.State, ga.Reason))
		} else if strings.TrimSpace(ga.Reason) == "" || strings.TrimSpace(lv.Reason) == "" {
			x.vio("paused-without-reason", fmt.Sprintf("task %s is Paused after the fault but shows no reason (get reason %q, list reason %q)", x.taskA, ga.Reason, lv.Reason))
		}
	}
	// (c) every other task: state unchanged. When the other task could not replicate a DDL of its own after the
	// fault (reported under its own key), its state is judged as it was before that DDL was attempted.
	if x.hasB() {
		gb := x.get(x.taskB)
		lb := la[x.taskB]
		if !gb.OK {
			res.inconclusive = "final get of the other task failed: " + gb.Err
			return
		}
		when := "at the end of the case"
		if res.stalled && res.otherAfter1 != nil {
			gb, lb = *res.otherAfter1, *res.otherAfter1
			when = "after the owning task's failure had been handled and a row of the other task had been replicated"
		} else if res.otherAfter1 != nil && res.otherAfter1.State != "Running" {
			gb = *res.otherAfter1
			when = "after the owning task's failure had been handled and a row of the other task had been replicated"
		}
		if gb.State != "Running" || lb.State != "Running" {
			x.vio("other-task-state-changed", fmt.Sprintf("task %s (%s) had no fault of its own, but %s its state is get=%q list=%q, reason %q (owning task %s)", x.taskB, c.Topo, when, gb.State, lb.State, gb.Reason, x.taskA))
		}
	}
	ackClock := map[int64]int64{}
	for _, e := range evs {
		if e.Kind != "ack" {
			continue
		}
		for _, u := range e.UIDs {
			if u >= 0 {
				if _, ok := ackClock[u]; !ok {
					ackClock[u] = e.Clock
				}
			}
		}
	}
	// (d) nothing the supervisor sent for the paused task after it had observed Paused was acknowledged
	x.mu.Lock()
	var probeAcked []string
	for _, d := range rs.sent {
		if x.probeUID[d.UID] {
			if ac, ok := ackClock[d.UID]; ok {
				probeAcked = append(probeAcked, fmt.Sprintf("uid=%d (%s, sent at clock %d, acknowledged at clock %d)", d.UID, d.PChan, d.SentAt, ac))
			}
		}
	}
	poison := map[int64]bool{}
	for u := range x.poison {
		poison[u] = true
	}
	faultSent := append([]dataMsg{}, x.faultSent...)
	x.mu.Unlock()
	if len(probeAcked) > 0 {
		x.vio("paused-task-still-emits", fmt.Sprintf("task %s was reported Paused by get (pause carried out in the service's bookkeeping: %v); rows written to its collection AFTER that were replicated downstream: %s", x.taskA, res.memPaused, strings.Join(probeAcked, ", ")))
	}
	// a poison message can never be acknowledged
	for u := range poison {
		if ac, ok := ackClock[u]; ok {
			x.vio("unprocessable-message-written-downstream", fmt.Sprintf("message uid=%d (unknown collection / partition) was acknowledged downstream at clock %d", u, ac))
		}
	}
	// (f) the failing message is never silently skipped: a later message of the same stream acknowledged although the
	// failing one never was
	under := c.Class
	if under == c06StateRej {
		under = c.Under
	}
	if under == c06UnknownColl || under == c06UnknownPart || under == c06WriteRej {
		for _, f := range faultSent {
			if _, ok := ackClock[f.UID]; ok {
				continue
			}
			var skipped []string
			for _, d := range rs.sent {
				if d.Coll == f.Coll && d.Shard == f.Shard && d.MsgID > f.MsgID && (d.Kind == "insert" || d.Kind == "delete") {
					if ac, ok := ackClock[d.UID]; ok {
						skipped = append(skipped, fmt.Sprintf("uid=%d(id %d, clock %d)", d.UID, d.MsgID, ac))
					}
				}
			}
			if len(skipped) > 0 {
				if len(skipped) > 5 {
					skipped = append(skipped[:5], "…")
				}
				x.vio("failing-message-skipped", fmt.Sprintf("stream %s of task %s: the failing message uid=%d (source id %d) was never acknowledged, yet later messages of the same stream were: %s; final state of the task: %q", f.PChan, x.taskA, f.UID, f.MsgID, strings.Join(skipped, ", "), ga.State))
			}
		}
	}
	// (e) checkpoints of the owning task never beyond the last acknowledged message of the stream
	collIdx := map[int64]int{}
	for i, cc := range rs.colls {
		if cc != nil {
			collIdx[cc.ID] = i
		}
	}
	flagged := map[string]bool{}
	lastPut := map[string]uint64{}
	checkPos := func(when string, clock int64, task string, coll int64, ch string, p uint64) {
		ci, known := collIdx[coll]
		if !known || task != x.taskA {
			return
		}
		for _, d := range rs.sent {
			if d.Coll != ci || d.PChan != ch || (d.Kind != "insert" && d.Kind != "delete") || d.MsgID >= p {
				continue
			}
			ac, ok := ackClock[d.UID]
			if ok && (clock == 0 || ac < clock) {
				continue
			}
			sig := ch
			if flagged[sig] {
				continue
			}
			flagged[sig] = true
			st := "never acknowledged"
			if ok {
				st = fmt.Sprintf("first acknowledged at clock %d", ac)
			}
			x.vio("checkpoint-beyond-last-acknowledged-message", fmt.Sprintf("task %s collection %d channel %s: checkpoint (%s) at source id %d lies beyond message uid=%d (source id %d), %s", task, coll, ch, when, p, d.UID, d.MsgID, st))
		}
	}
	for _, e := range evs {
		if e.Kind != "store" || e.Store.Kind != "task_position" || e.Store.Op != "put" || e.Store.Phase != "before" || e.Store.Coll <= 0 {
			continue
		}
		for ch, pe := range e.Store.Positions {
			k := fmt.Sprintf("%s/%d/%s", e.Store.Task, e.Store.Coll, ch)
			if lastPut[k] == pe.MsgID {
				continue
			}
			lastPut[k] = pe.MsgID
			checkPos(fmt.Sprintf("Put announced at clock %d", e.Clock), e.Clock, e.Store.Task, e.Store.Coll, ch, pe.MsgID)
		}
	}
	if dumpErr == nil {
		for key, val := range dump {
			if !strings.Contains(key, "/task_position/"+x.taskA+"/") {
				continue
			}
			var tp struct {
				TaskID       string
				CollectionID int64
				Positions    map[string]*struct {
					Time     int64
					DataPair *struct {
						Key  string `json:"key"`
						Data string `json:"data"`
					}
				}
			}
			if json.Unmarshal([]byte(val), &tp) != nil {
				continue
			}
			for ch, p := range tp.Positions {
				if p == nil || p.DataPair == nil {
					continue
				}
				b, err := base64.StdEncoding.DecodeString(p.DataPair.Data)
				if err != nil || len(b) != 8 {
					continue
				}
				checkPos("persisted at the end of the case", 0, tp.TaskID, tp.CollectionID, ch, binary.BigEndian.Uint64(b))
			}
		}
	}
	sort.Slice(res.vios, func(i, j int) bool { return res.vios[i].key < res.vios[j].key })
	res.sample = map[string]any{"case": c, "owning_task": map[string]any{"get": ga, "list": lv}, "fault_hits": res.hits, "paused_observed": res.pausedSeen,
		"pause_carried_out_in_bookkeeping": res.memPaused, "probes_sent_after_pause": res.probes, "sentinels_of_other_task_acked": res.sentinels,
		"acks": res.acks, "checkpoint_puts": res.puts, "violations": len(res.vios)}
}

func c06TailEvents(all []sevt, n int) []sevt {
	var e []sevt
	for _, x := range all {
		if x.Kind == "store" && (x.Store.Op == "get" || x.Store.Phase == "after" && x.Store.Err == "") {
			continue
		}
		if x.Kind == "api" && (strings.HasPrefix(x.API, "get") || strings.HasPrefix(x.API, "list")) && x.Code == 0 {
			continue
		}
		if x.Kind == "ack" && len(x.UIDs) > 0 {
			only := true
			for _, u := range x.UIDs {
				if u >= 0 {
					only = false
				}
			}
			if only {
				continue // tick-only packs
			}
		}
		e = append(e, x)
	}
	if len(e) > n {
		e = e[len(e)-n:]
	}
	return e
}
