package main

// C19 — the HTTP API is total: a well-formed answer always, rejects are side-effect free.
//
// The REAL /cdc handler around the REAL MetaCDC (embedded etcd as meta store and source catalog, memq, one fake
// downstream Milvus over gRPC) is driven with
//   (a) raw byte strings and JSON-grammar mutations of valid requests, non-POST methods, and
//   (b) structurally valid requests whose field values come from a dictionary of adversarial values
//       (see c19_gen.go), on an empty server and after 0-5 accepted creates of an "episode".
//
// The handler is called directly (httptest), so a panic inside it would kill the process: the server under test
// therefore runs in CHILD PROCESSES (one per batch, re-exec of this binary with -c19-child). Every request is
// written to disk BEFORE it is sent; a child that dies is attributed to that request.
//
// Oracle per request:
//   1. the body of the response is exactly one JSON object with an integer "code" in {200,400,500}
//      (405 for a non-POST method) - the HTTP status line is always 200 in this server;
//   2. the handler does not panic (child death with the handler on the panicking stack);
//   3. a create the statement calls semantically invalid is answered with code != 200;
//   4. for EVERY response with code != 200: the task table, the duplicate-detection bookkeeping
//      (data / excludeData / extraInfos; nameMapping informational) and the full etcd dump under the CDC
//      meta root are the same as before the request.

import (
	"bytes"
	"context"
	"encoding/base64"
	"encoding/json"
	"flag"
	"fmt"
	"os"
	"os/exec"
	"path/filepath"
	"regexp"
	"runtime"
	"sort"
	"strconv"
	"strings"
	"sync/atomic"
	"time"
	"unicode/utf8"

	clientv3 "go.etcd.io/etcd/client/v3"
	"go.uber.org/zap/zapcore"

	"github.com/zilliztech/milvus-cdc/core/log"
	"github.com/zilliztech/milvus-cdc/server"
	serverapi "github.com/zilliztech/milvus-cdc/server/api"
	"github.com/zilliztech/milvus-cdc/server/maintenance"

	"verifharness/internal/sysboot"
	"verifharness/internal/vf"
)

var (
	fC19Child = flag.Bool("c19-child", false, "C19: run as the process hosting the server under test")
	fC19Batch = flag.Int("c19-batch", 0, "C19 child: batch number")
	fC19From  = flag.Int("c19-from", 0, "C19 child: first request index")
	fC19To    = flag.Int("c19-to", 0, "C19 child: one past the last request index")
	fC19Dir   = flag.String("c19-dir", "", "C19 child: working directory")
)

const c19RequestWatchdog = 180 * time.Second

func runC19(tier string) *vf.Run {
	if *fC19Child {
		c19ChildMain(tier) // never returns
	}
	run := vf.NewRun("C19", tier, "exploration")
	run.Rule = "case = one HTTP request to the real /cdc handler around the real MetaCDC; the request list is a fixed function of (seed, batch, index): " +
		"per 20 indices 8 dictionary creates (classes cycled so that every class occurs), 4 JSON-grammar mutations of valid requests, 3 raw byte bodies, " +
		"3 other operations with adversarial task ids, 1 valid create, 1 non-POST method; every 25 indices a new episode starts on an EMPTY server with 0-5 valid creates first " +
		"(every 4th episode with a task limit of 6). Signature of a case = kind/class, response code, normalised message, whether the meta store was reached, number of live tasks (bucketed)."
	run.Assumptions = []string{
		"the source Milvus is silent (no collections, no messages): nothing but API requests writes under the CDC meta root, so a difference between the dumps around a request is caused by that request",
		"the handler is called directly (no net/http server): a panic of the handler goroutine kills the child process and is read from its stderr; under net/http the same panic aborts the connection without any response",
		"a changed state/reason of a task the request does not name is attributed to background activity and reported as inconclusive, not as a violation",
		"over-long names are generated over-long in bytes AND characters (limit 256); names with '/', '%', '*', spaces, control or non-ASCII characters, an empty database name and fractional negative numbers are never required to be rejected",
		"username without password, a foreign rpc channel name, two plain collection infos and similar shape errors are counted (soft) but not required to be rejected: the statement does not list them",
	}
	nb, per, conc := run.Pick(16, 64), run.Pick(190, 625), 8
	if runtime.NumCPU() < 12 {
		conc = 4
	}
	parallel(nb, conc, func(b int) { c19RunBatch(run, tier, b, per) })

	// floors: about one third of what an unloaded run observes
	run.Floor("requests", run.Pick(2500, 33000))
	run.Floor("creates_past_validation", run.Pick(300, 4000))
	run.Floor("rejected_after_partial_work", run.Pick(70, 850))
	run.Floor("dict_class", len(c19Dict))
	run.Floor("raw_bytes_bodies", run.Pick(120, 1600))
	run.Floor("json_mutations", run.Pick(130, 1700))
	run.Floor("non200_compared", run.Pick(700, 9000))
	run.Floor("non200_on_nonempty_server", run.Pick(600, 8000))
	run.Floor("non_post_requests", run.Pick(40, 500))
	return run
}

// ---------------------------------------------------------------------------------------------------------
// parent: one batch = a chain of child processes (a new one after every death)

type c19Pending struct {
	Req    c19Req   `json:"req"`
	Body   string   `json:"body"`             // the request body (text when valid UTF-8)
	BodyB6 string   `json:"body_b64,omitempty"` // base64 when it is not
	Prior  []string `json:"prior_accepted"`   // state-changing requests of this episode answered 200, in order
	Tasks  int      `json:"live_tasks"`
}

func c19BodyFields(b []byte) (string, string) {
	if utf8.Valid(b) && len(b) < 4000 {
		return string(b), ""
	}
	if utf8.Valid(b) {
		return string(b[:2000]) + fmt.Sprintf("…(%d bytes)", len(b)), base64.StdEncoding.EncodeToString(b[:c19min(len(b), 30000)])
	}
	return "", base64.StdEncoding.EncodeToString(b[:c19min(len(b), 30000)])
}

var c19DumpRe = regexp.MustCompile(`^dump-(\d+)\.json$`)

func c19LatestDump(dir string) (string, int) {
	ents, _ := os.ReadDir(dir)
	best, bestIdx := "", -1
	for _, e := range ents {
		if m := c19DumpRe.FindStringSubmatch(e.Name()); m != nil {
			n, _ := strconv.Atoi(m[1])
			if n > bestIdx {
				best, bestIdx = filepath.Join(dir, e.Name()), n
			}
		}
	}
	return best, bestIdx
}

// c19PanicSite extracts the panic message, the first frame inside the repository and whether the /cdc handler is
// on the panicking goroutine's stack.
func c19PanicSite(logText string) (msg, site string, inHandler bool, found bool) {
	i := -1
	for _, mark := range []string{"\npanic: ", "\nfatal error: "} {
		if k := strings.Index(logText, mark); k >= 0 && (i < 0 || k < i) {
			i = k
		}
	}
	if i < 0 {
		if strings.HasPrefix(logText, "panic: ") || strings.HasPrefix(logText, "fatal error: ") {
			i = 0
		} else {
			return "", "", false, false
		}
	}
	t := logText[i:]
	t = strings.TrimPrefix(t, "\n")
	lines := strings.Split(t, "\n")
	msg = lines[0]
	// first goroutine block after the message = the panicking goroutine
	start := -1
	for k, l := range lines {
		if strings.HasPrefix(l, "goroutine ") {
			start = k
			break
		}
	}
	if start < 0 {
		return msg, "unknown", false, true
	}
	repo := os.Getenv("VERIF_REPO")
	if repo == "" {
		repo = "/repo"
	}
	repo = strings.TrimSuffix(repo, "/") + "/"
	site = ""
	outside := ""
	for k := start + 1; k+1 < len(lines); k++ {
		l := lines[k]
		if l == "" {
			break
		}
		if strings.HasPrefix(l, "\t") {
			continue
		}
		if strings.Contains(l, "getCDCHandler") || strings.Contains(l, "sysboot.(*CDC).Post") {
			inHandler = true
		}
		fn := l
		if p := strings.LastIndex(fn, "("); p > 0 {
			fn = fn[:p]
		}
		file := strings.TrimSpace(lines[k+1])
		if site == "" && strings.HasPrefix(file, repo) {
			rel := strings.TrimPrefix(file, repo)
			if p := strings.Index(rel, ":"); p > 0 {
				rel = rel[:p]
			}
			site = rel + ":" + c19FuncTail(fn)
		}
		if outside == "" && !strings.HasPrefix(fn, "panic") && !strings.HasPrefix(fn, "runtime.") {
			outside = c19FuncTail(fn)
		}
	}
	if site == "" {
		site = "outside-repo:" + outside
	}
	site += "/" + c19Slug(msg)
	return msg, site, inHandler, true
}

// c19FuncTail: the innermost named function of a (possibly inlined, closure-suffixed) frame name
func c19FuncTail(fn string) string {
	if p := strings.LastIndex(fn, "/"); p >= 0 {
		fn = fn[p+1:]
	}
	parts := strings.Split(fn, ".")
	for len(parts) > 1 {
		last := parts[len(parts)-1]
		if strings.HasPrefix(last, "func") || last == "" || (last[0] >= '0' && last[0] <= '9') {
			parts = parts[:len(parts)-1]
			continue
		}
		break
	}
	return parts[len(parts)-1]
}

// c19Slug: the panic message without its variable parts, usable inside a key
func c19Slug(msg string) string {
	m := strings.TrimPrefix(strings.TrimPrefix(msg, "panic: "), "fatal error: ")
	m = c19ReQuoted.ReplaceAllString(m, "Q")
	m = c19ReDigits.ReplaceAllString(m, "N")
	var sb strings.Builder
	for _, c := range m {
		switch {
		case c >= 'a' && c <= 'z' || c >= 'A' && c <= 'Z' || c >= '0' && c <= '9':
			sb.WriteRune(c)
		default:
			sb.WriteByte('-')
		}
	}
	out := strings.Trim(sb.String(), "-")
	for strings.Contains(out, "--") {
		out = strings.ReplaceAll(out, "--", "-")
	}
	if len(out) > 48 {
		out = out[:48]
	}
	return out
}

func c19ReadTail(path string, n int64) string {
	f, err := os.Open(path)
	if err != nil {
		return ""
	}
	defer f.Close()
	st, _ := f.Stat()
	if st != nil && st.Size() > n {
		_, _ = f.Seek(st.Size()-n, 0)
	}
	b := make([]byte, n)
	k, _ := f.Read(b)
	for k < len(b) {
		m, err := f.Read(b[k:])
		if m == 0 || err != nil {
			break
		}
		k += m
	}
	return string(b[:k])
}

func c19RunBatch(run *vf.Run, tier string, b, per int) {
	from := 0
	const maxRestarts = 80
	noProgress := 0
	for attempt := 0; from < per; attempt++ {
		if attempt > maxRestarts {
			run.Inconclusive(fmt.Sprintf("batch %d: more than %d child restarts, giving up at index %d", b, maxRestarts, from))
			return
		}
		dir := scratchDir(fmt.Sprintf("c19-b%02d-a%02d", b, attempt))
		logPath := filepath.Join(dir, "child.log")
		lf, err := os.Create(logPath)
		if err != nil {
			run.Inconclusive("cannot create child log: " + err.Error())
			return
		}
		cmd := exec.Command(os.Args[0], "-prop", "C19", "-tier", tier, "-c19-child", "-c19-batch", strconv.Itoa(b),
			"-c19-from", strconv.Itoa(from), "-c19-to", strconv.Itoa(per), "-c19-dir", dir)
		cmd.Stdout, cmd.Stderr = lf, lf
		cmd.Env = os.Environ()
		if err := cmd.Start(); err != nil {
			lf.Close()
			run.Inconclusive("cannot start child: " + err.Error())
			return
		}
		done := make(chan error, 1)
		go func() { done <- cmd.Wait() }()
		var werr error
		hung := false
		limit := time.Duration(run.Pick(20, 60)) * time.Minute
		select {
		case werr = <-done:
		case <-time.After(limit):
			hung = true
			_ = cmd.Process.Kill()
			werr = <-done
		}
		lf.Close()
		if attempt > 0 {
			run.Count("child_restarts", 1)
		}
		dump, last := c19LatestDump(dir)
		if dump != "" {
			if err := run.Merge(dump); err != nil {
				run.Inconclusive(fmt.Sprintf("batch %d: unreadable child dump %s: %v", b, dump, err))
			}
		}
		if _, err := os.Stat(filepath.Join(dir, "done")); err == nil && werr == nil {
			return
		}
		// the child died (or was killed by the watchdog)
		var pend c19Pending
		havePend := false
		if pb, err := os.ReadFile(filepath.Join(dir, "pending.json")); err == nil && json.Unmarshal(pb, &pend) == nil {
			havePend = pend.Req.Idx > last
		}
		tail := c19ReadTail(logPath, 1<<20)
		if hung {
			run.Inconclusive(fmt.Sprintf("batch %d: child watchdog (%v) fired at index %d", b, limit, last+1))
			return
		}
		if _, err := os.Stat(filepath.Join(dir, "hung")); err == nil {
			// the child itself gave up on a request that did not return (its Run was dumped with the inconclusive case)
			from = last + 1
			continue
		}
		msg, site, inHandler, isPanic := c19PanicSite(tail)
		if !havePend {
			why := fmt.Sprintf("batch %d: child died outside a request (after index %d): %v", b, last, werr)
			if isPanic {
				why += "; " + msg + " at " + site
			}
			run.Inconclusive(why + "; log tail: " + c19Last(tail, 600))
			if last+1 > from {
				from, noProgress = last+1, 0
			} else if noProgress++; noProgress >= 3 {
				return
			}
			continue
		}
		noProgress = 0
		// attributed to the request on disk
		run.Eval(1)
		run.Count("requests", 1)
		run.Count("requests_killing_the_child", 1)
		run.Distinct("kind_class", pend.Req.Kind+"/"+pend.Req.Class)
		if pend.Req.Kind == "dict" {
			run.Distinct("dict_class", pend.Req.Class)
		}
		run.Nontrivial(fmt.Sprintf("%s/%s|died|%s", pend.Req.Kind, pend.Req.Class, site))
		replay := map[string]any{"batch": b, "index": pend.Req.Idx, "class": pend.Req.Class, "kind": pend.Req.Kind, "method": pend.Req.Method,
			"body": pend.Body, "body_b64": pend.BodyB6, "prior_accepted_requests_of_episode": pend.Prior, "live_tasks": pend.Tasks,
			"how": "start the server, POST the prior requests to /cdc in order, then this body", "panic": msg, "stack": c19PanicStack(tail)}
		switch {
		case isPanic && inHandler:
			run.Violate("C19/handler-panic-"+site,
				fmt.Sprintf("the /cdc handler panicked (%s) at %s while serving a %s request of class %s; %d live task(s); body: %s",
					msg, site, pend.Req.Kind, pend.Req.Class, pend.Tasks, c19Short(pend.Body, 300)), replay)
		case isPanic:
			run.Inconclusive(fmt.Sprintf("batch %d index %d: the process died of a panic outside the handler goroutine (%s at %s) while a %s/%s request was in flight",
				b, pend.Req.Idx, msg, site, pend.Req.Kind, pend.Req.Class))
			run.Count("deaths_outside_handler", 1)
		default:
			run.Inconclusive(fmt.Sprintf("batch %d index %d: the child died without a panic trace (%v) during %s/%s; log tail: %s",
				b, pend.Req.Idx, werr, pend.Req.Kind, pend.Req.Class, c19Last(tail, 600)))
		}
		from = pend.Req.Idx + 1
	}
}

func c19Last(s string, n int) string {
	if len(s) > n {
		return s[len(s)-n:]
	}
	return s
}

func c19Short(s string, n int) string {
	if len(s) > n {
		s = s[:n]
		for len(s) > 0 && !utf8.ValidString(s[len(s)-c19min(len(s), 4):]) && !utf8.ValidString(s) {
			s = s[:len(s)-1]
		}
		return s + "…"
	}
	return s
}

func c19PanicStack(logText string) string {
	i := strings.Index(logText, "panic: ")
	if j := strings.Index(logText, "fatal error: "); j >= 0 && (i < 0 || j < i) {
		i = j
	}
	if i < 0 {
		return ""
	}
	t := logText[i:]
	if k := strings.Index(t, "\n\ngoroutine "); k >= 0 {
		if k2 := strings.Index(t[k+2:], "\n\n"); k2 >= 0 {
			t = t[:k+2+k2]
		}
	}
	return c19Short(t, 3000)
}

// ---------------------------------------------------------------------------------------------------------
// child: hosts the server under test and decides every request that returns

type c19Obs struct {
	snap server.VerifSnapshot
	etcd map[string]string
}

type c19Child struct {
	run      *vf.Run
	dir      string
	batch    int
	w        *sysboot.World
	cdc      *sysboot.CDC
	storeEvs atomic.Int64
	failAt   atomic.Int64 // absolute ordinal of the store call to fail (0: none)
	storePut atomic.Int64
	episode  int
	prior    []string
	names    []c19Name
}

func c19Fatal(format string, a ...any) {
	fmt.Fprintf(os.Stderr, "C19-CHILD-FATAL "+format+"\n", a...)
	os.Exit(4)
}

func c19ChildMain(tier string) {
	log.SetLevel(zapcore.WarnLevel)
	maintenance.InitMsgLog() // as server.Run does
	c := &c19Child{run: vf.NewRun("C19", tier, "exploration"), dir: *fC19Dir, batch: *fC19Batch, episode: -1}
	w, err := sysboot.NewWorld(sysboot.WorldOptions{Dir: filepath.Join(c.dir, "world"), Targets: 1})
	if err != nil {
		c19Fatal("world: %v", err)
	}
	c.w = w
	for idx := *fC19From; idx < *fC19To; idx++ {
		ep := idx / c19EpisodeLen
		if ep != c.episode || c.cdc == nil {
			c.reset(ep)
		}
		c.one(idx)
		c.dump(idx)
	}
	_ = os.WriteFile(filepath.Join(c.dir, "done"), []byte("ok"), 0o644)
	os.Exit(0)
}

// c19HandlerBlockedOnLock looks, in a full goroutine dump, for the goroutine that serves the /cdc request and
// reports its header and first repository frame when it has been waiting on a sync lock for at least a minute.
func c19HandlerBlockedOnLock(dump string) (hdr, frame string) {
	for _, blk := range strings.Split(dump, "\n\n") {
		if !strings.Contains(blk, "getCDCHandler") && !strings.Contains(blk, "(*CDCServer).handleRequest") {
			continue
		}
		lines := strings.Split(blk, "\n")
		h := lines[0]
		if !(strings.Contains(h, "[sync.") || strings.Contains(h, "[semacquire")) || !strings.Contains(h, "minute") {
			continue
		}
		for _, l := range lines[1:] {
			if strings.Contains(l, "github.com/zilliztech/milvus-cdc/") && !strings.HasPrefix(l, "\t") {
				return h, strings.TrimSpace(l)
			}
		}
		return h, "(no repository frame)"
	}
	return "", ""
}

func (c *c19Child) dump(idx int) {
	tmp := filepath.Join(c.dir, "dump.tmp")
	if err := c.run.Dump(tmp); err != nil {
		c19Fatal("dump: %v", err)
	}
	name := fmt.Sprintf("dump-%d.json", idx)
	if err := os.Rename(tmp, filepath.Join(c.dir, name)); err != nil {
		c19Fatal("dump rename: %v", err)
	}
	ents, _ := os.ReadDir(c.dir)
	for _, e := range ents {
		if c19DumpRe.MatchString(e.Name()) && e.Name() != name {
			_ = os.Remove(filepath.Join(c.dir, e.Name()))
		}
	}
}

// episode parameters are a function of (seed, batch, episode)
func (c *c19Child) episodeParams(ep int) (pre int, maxTasks int) {
	r := vf.Rand(c.run.Seed, fmt.Sprintf("c19-episode/%d", c.batch), ep)
	pre = r.Intn(6)
	maxTasks = 100
	if ep%4 == 3 {
		maxTasks = 6
		pre = 5
	}
	return
}

func (c *c19Child) limited(ep int) bool { _, m := c.episodeParams(ep); return m < 100 }

// reset gives the next episode an EMPTY server: the tasks of the old instance are deleted through the API, the
// CDC meta root is wiped and a new MetaCDC + handler are built on the same world.
func (c *c19Child) reset(ep int) {
	if c.cdc != nil {
		for _, t := range c.cdc.Svc.VerifSnapshot().Tasks {
			body := c19envelope("delete", c19obj{{"task_id", t.TaskID}})
			c.writePending(c19Req{Batch: c.batch, Idx: -1, Kind: "cleanup", Class: "cleanup-delete", Method: "POST"}, body)
			c.cdc.Post("POST", body)
		}
		ctx, cancel := context.WithTimeout(context.Background(), 30*time.Second)
		_, err := c.w.Etcd.Client.Delete(ctx, c.w.MetaRoot, clientv3.WithPrefix())
		cancel()
		if err != nil {
			c19Fatal("wipe meta root: %v", err)
		}
	}
	_, maxTasks := c.episodeParams(ep)
	cdc, err := c.w.StartCDC(sysboot.CDCOptions{
		MaxTaskNum: maxTasks,
		WrapStore: func(f serverapi.MetaStoreFactory) serverapi.MetaStoreFactory {
			return sysboot.WrapStore(f, func(ev sysboot.StoreEvent) sysboot.StoreDecision {
				if ev.Phase == "before" {
					n := c.storeEvs.Add(1)
					if ev.Op == "put" || ev.Op == "delete" {
						c.storePut.Add(1)
					}
					if f := c.failAt.Load(); f > 0 && n == f {
						c.run.Count("injected_store_failures", 1)
						c.run.Distinct("failed_store_call", fmt.Sprintf("%s %s", ev.Op, ev.Kind))
						return sysboot.StoreDecision{Fail: "injected store failure"}
					}
				}
				return sysboot.StoreDecision{}
			}, func() {})
		},
	})
	if err != nil {
		c19Fatal("start cdc: %v", err)
	}
	c.cdc, c.episode, c.prior, c.names = cdc, ep, nil, nil
}

func (c *c19Child) writePending(r c19Req, body []byte) {
	p := c19Pending{Req: r, Prior: c.prior}
	p.Body, p.BodyB6 = c19BodyFields(body)
	if c.cdc != nil {
		p.Tasks = len(c.cdc.Svc.VerifSnapshot().Tasks)
	}
	b, _ := json.Marshal(p)
	tmp := filepath.Join(c.dir, "pending.tmp")
	if err := os.WriteFile(tmp, b, 0o644); err != nil {
		c19Fatal("pending: %v", err)
	}
	if err := os.Rename(tmp, filepath.Join(c.dir, "pending.json")); err != nil {
		c19Fatal("pending rename: %v", err)
	}
}

func (c *c19Child) observe() (c19Obs, error) {
	d, err := c.w.Etcd.Dump(c.w.MetaRoot)
	if err != nil {
		return c19Obs{}, err
	}
	return c19Obs{snap: c.cdc.Svc.VerifSnapshot(), etcd: d}, nil
}

var (
	c19ReDigits = regexp.MustCompile(`[0-9]+`)
	c19ReQuoted = regexp.MustCompile(`"[^"]*"|'[^']*'|\[[^\]]*\]`)
)

func c19MsgClass(m string) string {
	m = c19ReQuoted.ReplaceAllString(m, "Q")
	m = c19ReDigits.ReplaceAllString(m, "N")
	if len(m) > 70 {
		m = m[:70]
	}
	return m
}

type c19Body struct {
	kind string // ok | empty | not-json | not-object | no-code | code-not-integer
	code int
	msg  string
	data map[string]any
}

// c19ParseBody: the body must be exactly one JSON object with an integer member "code"
func c19ParseBody(raw []byte) c19Body {
	t := bytes.TrimSpace(raw)
	if len(t) == 0 {
		return c19Body{kind: "empty"}
	}
	if !json.Valid(t) {
		return c19Body{kind: "not-json"}
	}
	dec := json.NewDecoder(bytes.NewReader(t))
	dec.UseNumber()
	var m map[string]any
	if err := dec.Decode(&m); err != nil || m == nil {
		return c19Body{kind: "not-object"}
	}
	cv, ok := m["code"]
	if !ok {
		return c19Body{kind: "no-code"}
	}
	num, ok := cv.(json.Number)
	if !ok {
		return c19Body{kind: "code-not-integer"}
	}
	n, err := strconv.ParseInt(num.String(), 10, 64)
	if err != nil {
		return c19Body{kind: "code-not-integer"}
	}
	out := c19Body{kind: "ok", code: int(n)}
	out.msg, _ = m["message"].(string)
	out.data, _ = m["data"].(map[string]any)
	return out
}

func c19Bucket(n int) string {
	switch {
	case n == 0:
		return "0"
	case n == 1:
		return "1"
	case n <= 3:
		return "2-3"
	case n <= 5:
		return "4-5"
	}
	return "6+"
}

func (c *c19Child) one(idx int) {
	run := c.run
	pre, _ := c.episodeParams(c.episode)
	snap0 := c.cdc.Svc.VerifSnapshot()
	g := &c19Gen{rng: vf.Rand(run.Seed, fmt.Sprintf("c19/%d", c.batch), idx), batch: c.batch, idx: idx, uri: c.w.Targets[0].URI(),
		replChan: c.w.ReplicateChan(), names: c.names}
	addr := c.w.Targets[0].Addr()
	if i := strings.LastIndex(addr, ":"); i > 0 {
		g.host = addr[:i]
		g.port, _ = strconv.Atoi(addr[i+1:])
	}
	for _, t := range snap0.Tasks {
		g.tasks = append(g.tasks, c19Task{ID: t.TaskID, State: t.State})
	}
	req := g.next(pre, c.episode, c.limited(c.episode))
	c.writePending(req, req.Body)

	before, err := c.observe()
	if err != nil {
		run.Inconclusive(fmt.Sprintf("batch %d index %d: cannot dump etcd before the request: %v", c.batch, idx, err))
		return
	}
	ev0, put0 := c.storeEvs.Load(), c.storePut.Load()
	if req.FailAt > 0 {
		c.failAt.Store(ev0 + int64(req.FailAt))
	}
	defer c.failAt.Store(0)
	type answer struct{ r sysboot.Response }
	ch := make(chan answer, 1)
	go func() { ch <- answer{c.cdc.Post(req.Method, req.Body)} }()
	var resp sysboot.Response
	select {
	case a := <-ch:
		resp = a.r
	case <-time.After(c19RequestWatchdog):
		buf := make([]byte, 4<<20)
		buf = buf[:runtime.Stack(buf, true)]
		_ = os.WriteFile(filepath.Join(c.dir, "hung-stacks.txt"), buf, 0o644)
		run.Eval(1)
		run.Count("requests", 1)
		if hdr, frame := c19HandlerBlockedOnLock(string(buf)); hdr != "" {
			// not slowness: the goroutine serving the request has been parked on a mutex of the service for minutes
			// (the service holds its locks for short critical sections only) - the request will never be answered
			run.Violate("C19/request-never-answered-handler-blocked-on-a-lock", fmt.Sprintf("batch %d index %d: %s/%s was not answered within %v; the handler goroutine is %s at %s; %d earlier request(s) of this episode: %s; body: %s",
				c.batch, idx, req.Kind, req.Class, c19RequestWatchdog, hdr, frame, len(c.prior), c19Last(strings.Join(c.prior, " || "), 1500), c19Last(string(req.Body), 600)), map[string]any{"request": req, "prior_requests": c.prior, "stacks": c19Last(string(buf), 20000)})
		} else {
			run.Inconclusive(fmt.Sprintf("batch %d index %d: the handler did not return within %v (%s/%s)", c.batch, idx, c19RequestWatchdog, req.Kind, req.Class))
		}
		c.dump(idx)
		_ = os.WriteFile(filepath.Join(c.dir, "hung"), []byte(strconv.Itoa(idx)), 0o644)
		os.Exit(5)
	}
	evs, puts := c.storeEvs.Load()-ev0, c.storePut.Load()-put0

	run.Eval(1)
	run.Count("requests", 1)
	run.Count("kind_"+req.Kind, 1)
	run.Distinct("kind_class", req.Kind+"/"+req.Class)
	switch req.Kind {
	case "dict":
		run.Distinct("dict_class", req.Class)
	case "raw":
		run.Count("raw_bytes_bodies", 1)
	case "mut":
		run.Count("json_mutations", 1)
	case "method":
		run.Count("non_post_requests", 1)
	}
	if len(before.snap.Tasks) > 0 {
		run.Count("requests_on_nonempty_server", 1)
	}

	bodyText, bodyB64 := c19BodyFields(req.Body)
	replay := func(extra map[string]any) map[string]any {
		m := map[string]any{"batch": c.batch, "index": idx, "kind": req.Kind, "class": req.Class, "method": req.Method, "body": bodyText,
			"prior_accepted_requests_of_episode": append([]string{}, c.prior...), "live_tasks_before": len(before.snap.Tasks),
			"response": c19Short(string(resp.Raw), 1500), "http_status": resp.HTTPStatus,
			"how": "start the server (empty meta store), POST the prior requests to /cdc in order, then send this body with this method"}
		if bodyB64 != "" {
			m["body_b64"] = bodyB64
		}
		for k, v := range extra {
			m[k] = v
		}
		return m
	}

	// ---- 1. well-formed answer
	pb := c19ParseBody(resp.Raw)
	if pb.kind != "ok" {
		run.Count("malformed_responses", 1)
		run.Violate("C19/response-"+pb.kind, fmt.Sprintf("%s request of class %s (%s): the response body is %s: %q", req.Kind, req.Class, req.Method, pb.kind, c19Short(string(resp.Raw), 200)), replay(nil))
		run.Nontrivial(fmt.Sprintf("%s/%s|%s", req.Kind, req.Class, pb.kind))
		c.after(req, pb, before)
		return
	}
	run.Count(fmt.Sprintf("code_%d", pb.code), 1)
	if req.Kind == "dict" || req.Kind == "op" {
		run.Count(fmt.Sprintf("outcome/%s/%d", req.Class, pb.code), 1)
	}
	if req.Method != "POST" {
		if pb.code != 405 {
			run.Violate(fmt.Sprintf("C19/non-post-code-%d", pb.code), fmt.Sprintf("method %s answered with code %d, expected 405: %s", req.Method, pb.code, c19Short(string(resp.Raw), 200)), replay(nil))
		}
	} else if pb.code != 200 && pb.code != 400 && pb.code != 500 {
		run.Violate(fmt.Sprintf("C19/response-code-%d", pb.code), fmt.Sprintf("%s request of class %s answered with code %d (allowed: 200, 400, 500): %s", req.Kind, req.Class, pb.code, c19Short(string(resp.Raw), 200)), replay(nil))
	}
	if resp.HTTPStatus != 200 {
		run.Count("http_status_not_200", 1)
	}

	// ---- coverage of depth
	if req.Create && req.Method == "POST" && (evs > 0 || pb.code == 200) {
		run.Count("creates_past_validation", 1)
	}
	if req.Method == "POST" && pb.code != 200 && evs > 0 && (req.Create || req.Kind == "mut") {
		run.Count("rejected_after_partial_work", 1)
		if puts > 0 {
			run.Count("rejected_after_store_write", 1)
		}
	}
	deep := "shallow"
	if evs > 0 {
		deep = "store"
	}
	run.Nontrivial(fmt.Sprintf("%s/%s|%d|%s|%s|%s", req.Kind, req.Class, pb.code, c19MsgClass(pb.msg), deep, c19Bucket(len(before.snap.Tasks))))
	if req.Kind == "dict" && req.Expect == c19Strict {
		run.Sample(map[string]any{"class": req.Class, "body": c19Short(bodyText, 300), "code": pb.code, "message": c19Short(pb.msg, 160)})
	}

	// ---- 3. semantically invalid requests must be rejected
	if req.Method == "POST" && pb.code == 200 {
		switch req.Expect {
		case c19Strict:
			run.Count("accepted_strict_invalid", 1)
			run.Violate("C19/"+c19StrictKey(req.Class), fmt.Sprintf("a request of class %s was answered with code 200 although the statement demands a rejection; body: %s; response: %s",
				req.Class, c19Short(bodyText, 400), c19Short(string(resp.Raw), 200)), replay(nil))
		case c19Soft:
			run.Count("accepted_soft_invalid", 1)
			run.Distinct("accepted_soft_invalid_class", req.Class)
		}
	}
	if req.Expect != c19Any && pb.code != 200 {
		run.Count("rejected_invalid", 1)
	}
	if req.Class == "db-empty" && pb.code == 200 {
		run.Count("accepted_empty_db_name", 1)
	}

	// ---- 4. a rejected request leaves everything as it was
	if pb.code != 200 {
		after, err := c.observe()
		if err != nil {
			run.Inconclusive(fmt.Sprintf("batch %d index %d: cannot dump etcd after the request: %v", c.batch, idx, err))
		} else {
			run.Count("non200_compared", 1)
			if len(before.snap.Tasks) > 0 {
				run.Count("non200_on_nonempty_server", 1)
			}
			for _, d := range c19Diff(before, after, req) {
				if d.background {
					run.Count("background_changes", 1)
					run.Inconclusive(fmt.Sprintf("batch %d index %d: %s changed around a rejected %s/%s request that does not name it: %s", c.batch, idx, d.key, req.Kind, req.Class, d.desc))
					continue
				}
				if d.info {
					run.Count("info_"+d.key, 1)
					continue
				}
				run.Violate("C19/"+d.key, fmt.Sprintf("%s/%s request answered with code %d (%s) but %s", req.Kind, req.Class, pb.code, c19Short(pb.msg, 200), d.desc),
					replay(map[string]any{"difference": d.desc, "store_calls_during_request": evs, "store_writes_during_request": puts}))
			}
		}
	}
	c.after(req, pb, before)
}

// after: bookkeeping of the episode (what was accepted so far)
func (c *c19Child) after(req c19Req, pb c19Body, before c19Obs) {
	if pb.kind != "ok" || pb.code != 200 || req.Method != "POST" {
		return
	}
	now := c.cdc.Svc.VerifSnapshot()
	changed := len(now.Tasks) != len(before.snap.Tasks)
	if !changed {
		for i := range now.Tasks {
			if now.Tasks[i] != before.snap.Tasks[i] {
				changed = true
			}
		}
	}
	if !changed {
		return
	}
	s, _ := c19BodyFields(req.Body)
	if len(c.prior) < 40 {
		c.prior = append(c.prior, s)
	}
	// names known to the duplicate detection (full names "db.collection" with exactly one separator)
	c.names = c.names[:0]
	for _, list := range now.Data {
		for _, full := range list {
			if p := strings.Split(full, "."); len(p) == 2 && p[1] != "*" && p[0] != "*" {
				c.names = append(c.names, c19Name{p[0], p[1]})
			}
		}
	}
	sort.Slice(c.names, func(i, j int) bool { return c.names[i].DB+"."+c.names[i].Coll < c.names[j].DB+"."+c.names[j].Coll })
}

// ---------------------------------------------------------------------------------------------------------
// comparison of the observations around a rejected request

type c19DiffItem struct {
	key        string
	desc       string
	background bool // not attributable to the request
	info       bool // informational only
}

func c19Multiset(m map[string][]string) map[string]int {
	out := map[string]int{}
	for k, l := range m {
		for _, v := range l {
			out[k+" -> "+v]++
		}
	}
	return out
}

func c19MultisetDiff(a, b map[string]int) (added, lost []string) {
	for k, n := range b {
		if n > a[k] {
			added = append(added, fmt.Sprintf("%s (x%d, was x%d)", k, n, a[k]))
		}
	}
	for k, n := range a {
		if n > b[k] {
			lost = append(lost, fmt.Sprintf("%s (x%d, now x%d)", k, n, b[k]))
		}
	}
	sort.Strings(added)
	sort.Strings(lost)
	return
}

func c19Diff(a, b c19Obs, req c19Req) []c19DiffItem {
	var out []c19DiffItem
	// task table
	ta, tb := map[string]server.VerifTask{}, map[string]server.VerifTask{}
	for _, t := range a.snap.Tasks {
		ta[t.TaskID] = t
	}
	for _, t := range b.snap.Tasks {
		tb[t.TaskID] = t
	}
	for id, t := range tb {
		if o, ok := ta[id]; !ok {
			out = append(out, c19DiffItem{key: "reject-left-task-in-table", desc: fmt.Sprintf("task %q (state %d) is in the task table although the request was rejected", id, t.State)})
		} else if o != t {
			named := req.TaskRef == id || strings.Contains(string(req.Body), id)
			out = append(out, c19DiffItem{key: "reject-changed-task-state", background: !named,
				desc: fmt.Sprintf("task %q changed from state %d (%q) to state %d (%q)", id, o.State, o.Reason, t.State, t.Reason)})
		}
	}
	for id := range ta {
		if _, ok := tb[id]; !ok {
			out = append(out, c19DiffItem{key: "reject-removed-task", desc: fmt.Sprintf("task %q vanished from the task table", id)})
		}
	}
	// duplicate-detection bookkeeping (multisets; a missing key and an empty list are the same thing)
	if add, lost := c19MultisetDiff(c19Multiset(a.snap.Data), c19Multiset(b.snap.Data)); len(add)+len(lost) > 0 {
		if len(add) > 0 {
			out = append(out, c19DiffItem{key: "reject-residue-collection-names", desc: "the collection-name bookkeeping gained " + strings.Join(add, ", ")})
		}
		if len(lost) > 0 {
			out = append(out, c19DiffItem{key: "reject-lost-collection-names", desc: "the collection-name bookkeeping lost " + strings.Join(lost, ", ")})
		}
	}
	if add, lost := c19MultisetDiff(c19Multiset(a.snap.ExcludeData), c19Multiset(b.snap.ExcludeData)); len(add)+len(lost) > 0 {
		if len(add) > 0 {
			out = append(out, c19DiffItem{key: "reject-residue-exclude-names", desc: "the exclude-name bookkeeping gained " + strings.Join(add, ", ")})
		}
		if len(lost) > 0 {
			out = append(out, c19DiffItem{key: "reject-lost-exclude-names", desc: "the exclude-name bookkeeping lost " + strings.Join(lost, ", ")})
		}
	}
	for k, v := range b.snap.ExtraInfos {
		if v && !a.snap.ExtraInfos[k] {
			out = append(out, c19DiffItem{key: "reject-residue-extrainfo", desc: fmt.Sprintf("extraInfos[%s].EnableUserRole became true (a later create with enable_user_role will be refused as duplicate)", k)})
		}
	}
	for k, v := range a.snap.ExtraInfos {
		if v && !b.snap.ExtraInfos[k] {
			out = append(out, c19DiffItem{key: "reject-lost-extrainfo", desc: fmt.Sprintf("extraInfos[%s].EnableUserRole was true and is false now", k)})
		}
	}
	nm := func(m map[string]map[string]string) string {
		var l []string
		for k, mm := range m {
			for s, t := range mm {
				l = append(l, k+"|"+s+"|"+t)
			}
		}
		sort.Strings(l)
		return strings.Join(l, ";")
	}
	if nm(a.snap.NameMapping) != nm(b.snap.NameMapping) {
		out = append(out, c19DiffItem{key: "name_mapping_changed_by_rejected_request", info: true})
	}
	// persisted records
	var keys []string
	for k := range b.etcd {
		keys = append(keys, k)
	}
	for k := range a.etcd {
		if _, ok := b.etcd[k]; !ok {
			keys = append(keys, k)
		}
	}
	sort.Strings(keys)
	kindOf := func(k string) string {
		switch {
		case strings.Contains(k, "/task_position/"):
			return "checkpoint"
		case strings.Contains(k, "/task_info/"):
			return "task-info"
		}
		return "other-key"
	}
	for _, k := range keys {
		va, ina := a.etcd[k]
		vb, inb := b.etcd[k]
		switch {
		case !ina && inb:
			out = append(out, c19DiffItem{key: "reject-left-" + kindOf(k) + "-in-store", desc: fmt.Sprintf("the meta store gained the key %s = %s", k, c19Short(vb, 300))})
		case ina && !inb:
			out = append(out, c19DiffItem{key: "reject-removed-" + kindOf(k) + "-from-store", desc: fmt.Sprintf("the meta store lost the key %s", k)})
		case va != vb:
			named := false
			for id := range ta {
				if strings.Contains(k, "/"+id) && (req.TaskRef == id || strings.Contains(string(req.Body), id)) {
					named = true
				}
			}
			out = append(out, c19DiffItem{key: "reject-changed-" + kindOf(k) + "-in-store", background: !named,
				desc: fmt.Sprintf("the value of the key %s changed from %s to %s", k, c19Short(va, 200), c19Short(vb, 200))})
		}
	}
	return out
}
