package main

import "verifharness/internal/vf"

func runC19(tier string) *vf.Run {
	run := vf.NewRun("C19", tier, "exploration")
	run.Rule = "not built yet"
	run.Inconclusive("check not built yet")
	run.Floor("built", 1)
	return run
}
