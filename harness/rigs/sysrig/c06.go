package main

// C06 — a replication failure pauses exactly the failing task, never crashes the service.
//
// The whole CDC service runs in a child process between the supervisor's embedded etcd, file-backed message queue
// and fake downstream Milvus servers. Per case ONE failure class is placed at ONE position of the owning task's
// history, in one topology (1 task; 2 tasks on the same target with separate / one shared downstream channel; 2 tasks
// on different targets), single or repeated:
//
//	unknown-collection       an insert whose CollectionID is not in the source catalog arrives on a replicated stream
//	unknown-partition        an insert into a partition that never exists downstream (lookup retries exhausted)
//	write-rejected           the downstream rejects every attempt of the ReplicateMessage that carries the k-th row
//	ddl-rejected             the downstream rejects CreateCollection / CreatePartition / DropPartition / DropCollection
//	op-rejected              the downstream rejects the call made for a message of the source's replicate channel
//	checkpoint-put-rejected  the metadata store rejects the checkpoint Put that covers the k-th row
//	state-put-rejected       the store rejects the Put of the Paused state (together with one of the above)
//
// Oracle (after logical settle conditions, see c06_case.go settle()):
//
//	(a) the child process is alive and printed no panic / fatal error;
//	(b) the owning task is Paused with a non-empty reason through get AND list;
//	(c) every other task is still Running through get and list, and rows written to its streams after the fault
//	    (also into a partition created after the fault) are acknowledged downstream
//	    [reported under the separate keys other-task-stops-replicating / -after-ddl];
//	(d) no row written to the owning task's collection AFTER the supervisor observed it Paused (and the service's
//	    bookkeeping showed the pause carried out) is ever acknowledged;
//	(e) no checkpoint of the owning task (announced Put or persisted record) lies beyond a message of its stream that
//	    is not acknowledged (at that moment / at all);
//	(f) no later message of the faulted stream is acknowledged while the failing message never was.

import (
	"fmt"
	"os"
	"path/filepath"
	"strings"
	"sync"

	"verifharness/internal/vf"
)

func c06Cases(run *vf.Run) []*c06Case {
	var cases []*c06Case
	add := func(class, pos, topo string, rep bool, mod func(*c06Case)) {
		c := &c06Case{Class: class, Pos: pos, Topo: topo, Repeated: rep, PackCnt: 1}
		switch class {
		case c06DDLRej:
			// with two tasks on one target partition events are unreliable even without a fault (see c06_case.go,
			// sentinel 2), so the DDL faults of those topologies are collection-level
			sameTarget := topo == c06TopoSame || topo == c06TopoShared
			switch pos {
			case "first":
				c.DDL = "CreateCollection"
			case "middle":
				c.DDL = "CreatePartition"
				if sameTarget {
					c.DDL = "CreateCollection" // the owning task's second collection, created in round 3
				}
			default:
				c.DDL = "DropPartition"
				if rep || sameTarget {
					c.DDL = "DropCollection"
				}
			}
		case c06OpRej:
			c.Op = map[string]string{"first": "LoadCollection", "middle": "CreateIndex", "last": "LoadCollection"}[pos]
		case c06StateRej:
			c.Under = c06WriteRej
		}
		if mod != nil {
			mod(c)
		}
		cases = append(cases, c)
	}
	if !run.Thorough() {
		add(c06UnknownColl, "first", c06TopoOne, false, nil)
		add(c06UnknownColl, "middle", c06TopoSame, false, nil)
		add(c06UnknownColl, "last", c06TopoDiff, false, nil)
		add(c06UnknownPart, "first", c06TopoSame, false, nil)
		add(c06UnknownPart, "middle", c06TopoDiff, true, nil)
		add(c06UnknownPart, "last", c06TopoOne, false, nil)
		add(c06WriteRej, "first", c06TopoDiff, false, nil)
		add(c06WriteRej, "middle", c06TopoShared, false, nil)
		add(c06WriteRej, "middle", c06TopoOne, false, func(c *c06Case) { c.PackCnt = 3 })
		add(c06WriteRej, "last", c06TopoSame, true, nil)
		add(c06DDLRej, "first", c06TopoSame, false, nil)
		add(c06DDLRej, "middle", c06TopoOne, false, nil)
		add(c06DDLRej, "last", c06TopoDiff, false, nil)
		add(c06DDLRej, "last", c06TopoSame, true, nil)
		add(c06OpRej, "first", c06TopoOne, false, nil)
		add(c06OpRej, "middle", c06TopoSame, false, nil)
		add(c06OpRej, "last", c06TopoDiff, false, nil)
		add(c06CpRej, "first", c06TopoOne, false, nil)
		add(c06CpRej, "middle", c06TopoSame, false, nil)
		add(c06CpRej, "last", c06TopoShared, true, nil)
		add(c06StateRej, "first", c06TopoSame, false, nil)
		add(c06StateRej, "middle", c06TopoOne, true, nil)
		add(c06StateRej, "last", c06TopoDiff, false, func(c *c06Case) { c.Under = c06CpRej })
		// the failure paths that pause the task only once (DDL event loop): one rejected state Put
		add(c06StateRej, "middle", c06TopoOne, false, func(c *c06Case) { c.Under, c.DDL = c06DDLRej, "CreatePartition" })
		// the owning task is NOT the first task of the shared target
		add(c06WriteRej, "middle", c06TopoSame, false, func(c *c06Case) { c.OwnerSecond = true })
		add(c06DDLRej, "middle", c06TopoSame, false, func(c *c06Case) { c.OwnerSecond = true })
		// batcher count 3 on a downstream channel shared by both tasks: one flush carries packs of both tasks
		add(c06WriteRej, "last", c06TopoShared, false, func(c *c06Case) { c.PackCnt = 3 })
		// control: no fault at all, same target
		add(c06NoFault, "middle", c06TopoSame, false, nil)
	} else {
		n := 0
		for _, class := range []string{c06UnknownColl, c06UnknownPart, c06WriteRej, c06DDLRej, c06OpRej, c06CpRej, c06StateRej} {
			for _, pos := range []string{"first", "middle", "last"} {
				for _, topo := range []string{c06TopoOne, c06TopoSame, c06TopoDiff} {
					for _, rep := range []bool{false, true} {
						if rep && (class == c06OpRej || class == c06DDLRej && pos == "first") {
							continue // a repeated rejection of the same single call is the single case
						}
						n++
						pc := 1
						if n%3 == 0 {
							pc = 3
						}
						pos, n := pos, n
						add(class, pos, topo, rep, func(c *c06Case) {
							c.PackCnt = pc
							if class == c06StateRej {
								c.Under = []string{c06WriteRej, c06CpRej, c06DDLRej}[n%3]
								if c.Under == c06DDLRej {
									c.DDL = "CreatePartition"
									if topo == c06TopoSame {
										c.DDL = "CreateCollection"
									}
									if pos == "first" {
										c.Under = c06WriteRej
										c.DDL = ""
									}
								}
							}
						})
					}
				}
			}
		}
		for _, class := range []string{c06WriteRej, c06CpRej, c06StateRej, c06UnknownPart} {
			for _, pos := range []string{"first", "last"} {
				add(class, pos, c06TopoShared, pos == "last", nil)
			}
		}
		for _, class := range []string{c06WriteRej, c06DDLRej, c06OpRej, c06CpRej, c06UnknownColl} {
			add(class, "middle", c06TopoSame, false, func(c *c06Case) { c.OwnerSecond = true })
		}
		add(c06NoFault, "middle", c06TopoSame, false, nil)
		add(c06NoFault, "middle", c06TopoShared, false, nil)
		add(c06NoFault, "middle", c06TopoDiff, false, nil)
	}
	for i, c := range cases {
		c.Idx = i
		rnd := vf.Rand(run.Seed, "c06-case", i)
		switch c.Pos {
		case "first":
			c.K = 1
		case "middle":
			c.K = 2 + rnd.Intn(3)
		default:
			c.K = c06Rounds
		}
		c.FaultShard = rnd.Intn(2)
	}
	return cases
}

// c06HarnessRaces counts the race detector reports (supervisor and children) that have a frame in this check's own
// files: the monitor's state must be thread-safe, such a report would be a harness bug.
func c06HarnessRaces() int {
	files, _ := filepath.Glob(filepath.Join(os.Getenv("VERIF_SCRATCH"), "race.*"))
	n := 0
	for _, f := range files {
		b, err := os.ReadFile(f)
		if err != nil {
			continue
		}
		for _, blk := range strings.Split(string(b), "WARNING: DATA RACE")[1:] {
			if strings.Contains(blk, "rigs/sysrig/c06") {
				n++
				fmt.Printf("C06-HARNESS-RACE %s\n", blk[:min(len(blk), 1500)])
			}
		}
	}
	return n
}

func runC06(tier string) *vf.Run {
	run := vf.NewRun("C06", tier, "fault_enumeration")
	run.Rule = "case = failure class x position x topology x {single, repeated}. Every task replicates one database (db.*): the owning task c06dba with collection c06_a (2 shards, source channels 0,1), the other task (if any) c06dbb with c06_b (1 shard, source channel 2) on the same target (one downstream channel per source channel, or all on one) or on a second target; tasks are created before their collections. History: 5 rounds of one insert/delete per stream followed by a time tick. Position first/middle/last = the fault hits the message of round 1/3/5 of shard 0 (DDL: CreateCollection of c06_a before any row / CreatePartition, or CreateCollection of a second collection on a shared target, in round 3 / DropPartition or DropCollection in round 5; op message LoadCollection or CreateIndex on the source's replicate channel in round 1/3/5); the rounds before the fault must be acknowledged completely before the fault is armed, the rounds after it are written immediately behind it. Faults are tied to message identity (the pack carrying row uid X, the checkpoint whose position covers X, the DDL call naming the collection/partition), never to call counts; single = that one message/call fails on every retry, repeated = also every later write / checkpoint / state update of the owning task fails (poison: a second unprocessable message on shard 1; CreatePartition: two partitions; DropCollection instead of DropPartition). Quick: 28 fixed cases: every class at the 3 positions with the topologies rotated, 2 cases with the owning task created second, 1 with batcher count 3 on a shared downstream channel, 1 control case without any fault (nothing may be paused, every sentinel must flow). Thorough: every class x position x {1 task, 2 same target, 2 different targets} x {single, repeated} plus shared-downstream-channel, owner-created-second and control variants, batcher count 1 or 3. Non-trivial = the fault was delivered (fake's / store decider's counter; poison message written) and the case was decided; distinct by (class, variant, position, topology, single/repeated, batcher count, creation order)."
	run.Assumptions = []string{
		"the downstream is fakemilvus (gRPC, accepts any decodable ReplicateMessage; an ack is logged when it ACCEPTS the call); the metadata store is the real EtcdMetaStore behind a wrapper that announces every call to the supervisor and can inject an error; the source is the supervisor (rootcoord-style etcd catalog + messages and ticks on file-backed topics); the databases exist downstream beforehand",
		"the service retries downstream calls and lookups 3 times with 1 s back-off (sysboot retry settings): a downstream rejection is 'final' after 3 failed attempts of the same call",
		"settled means: the fault was delivered AND get reports the owning task Paused (then the supervisor waits until the service's own bookkeeping snapshot shows the pause carried out, and only rows written after that count for 'stops emitting'), OR a later message of the failing stream was acknowledged although the failing one never was. After that one sentinel row on every stream of the other task and one row in a collection of the other task created after the fault must be acknowledged. Watchdogs (45-75 s) only end a wait; a case ended by a watchdog is inconclusive, except: a sentinel not acknowledged within 45 s although the service answered its API and its source consumer had been handed the sentinel (or no consumer is left) is reported as other-task-stops-replicating[-after-ddl]",
		"the other task's state is judged after its first sentinel row; when its DDL sentinel fails (own key) the state it ends in is described there and not reported a second time",
		"no-ack-after-pause is observed over a window (the sentinel round trips of the other task, or 40 further ticks after the service's consumers were handed the probe rows): an ack inside the window is a violation, silence is 'held on what was observed'",
		"state-put-rejected/repeated (the store never accepts the Paused state): visibility of Paused through get/list (which read the store) is not demanded, everything else is (the pause is then taken from the service's bookkeeping snapshot)",
		"partition DDL faults are used only where a task is alone on its target, and the other task's DDL sentinel is a new collection, not a partition: at repository commit d6fa97d a partition event was swallowed by whichever task's subscriber was asked first even without any fault (repaired meanwhile by fca49cc); the control case shows that the sentinels flow when nothing fails",
		"resume after the pause is not part of C06 (C05/C11)",
	}
	cases := c06Cases(run)
	if only := os.Getenv("C06_ONLY"); only != "" {
		var sel []*c06Case
		for _, c := range cases {
			for _, pat := range strings.Split(only, ",") {
				if strings.Contains(c.sig(), pat) {
					sel = append(sel, c)
					break
				}
			}
		}
		cases = sel
	}
	if *fCase >= 0 {
		var sel []*c06Case
		for _, c := range cases {
			if c.Idx == *fCase {
				sel = append(sel, c)
			}
		}
		cases = sel
	}
	classes := map[string]bool{}
	for _, c := range cases {
		classes[c.Class] = true
	}
	var goneWG sync.WaitGroup
	if (os.Getenv("C06_ONLY") == "" || os.Getenv("C06_ONLY") == "gone") && *fCase < 0 {
		// eighth class: the downstream server goes away (see c06_gone.go); runs beside the other classes
		goneWG.Add(1)
		go func() { defer goneWG.Done(); runC06Gone(run) }()
	}
	if (os.Getenv("C06_ONLY") == "" || os.Getenv("C06_ONLY") == "full") && *fCase < 0 {
		// ninth class: an unprocessable message met while the target's event queue is full (see c06_full.go)
		goneWG.Add(1)
		go func() { defer goneWG.Done(); runC06Full(run) }()
	}
	defer goneWG.Wait()
	parallel(len(cases), run.Pick(8, 10), func(i int) {
		c := cases[i]
		r := runC06Case(c, fmt.Sprintf("c06-%d", c.Idx))
		run.Eval(1)
		tag := fmt.Sprintf("[case %d %s] ", c.Idx, c.sig())
		fmt.Printf("C06-CASE %s delivered=%v final=%v hits=%d paused_seen=%v mem_paused=%v sentinels=%d probes=%d inconclusive=%q vios=%d\n", tag, r.delivered, r.final, r.hits, r.pausedSeen, r.memPaused, r.sentinels, r.probes, r.inconclusive, len(r.vios))
		for _, v := range r.vios {
			fmt.Printf("C06-VIO %s%s: %s\n", tag, v.key, v.desc)
		}
		for _, n := range r.notes {
			fmt.Printf("C06-NOTE %s%s\n", tag, n)
		}
		if r.inconclusive != "" {
			run.Inconclusive(tag + r.inconclusive)
			run.Count("inconclusive_"+c.Class, 1)
		}
		for _, v := range r.vios {
			if v.key == "C06/owning-task-not-paused-"+c06StateRej {
				// the statement lists unknown objects, rejected writes / DDL and rejected checkpoints; a store that also
				// rejects the Put of the Paused state is a second, unlisted failure: the task is stopped in the service's
				// bookkeeping, that get/list (which read the store) still say Running is counted, not judged
				run.Count("state_put_rejected_leaves_stored_state_running", 1)
				continue
			}
			run.Violate(v.key, tag+v.desc, r.replay)
		}
		rep := "single"
		if c.Repeated {
			rep = "repeated"
		}
		run.Count("cases_class_"+c.Class, 1)
		run.Count("cases_position_"+c.Pos, 1)
		run.Count("cases_topology_"+c.Topo, 1)
		run.Count("cases_"+rep, 1)
		if r.delivered {
			run.Count("faults_delivered", 1)
			run.Count("delivered_"+c.Class, 1)
			run.Count("injected_failures_or_poison_messages", r.hits)
			if r.inconclusive == "" {
				run.Nontrivial(c.sig())
				run.Count("decided_with_fault_delivered", 1)
			}
		}
		if r.pausedSeen {
			run.Count("owning_task_observed_paused", 1)
		}
		if r.memPaused {
			run.Count("pause_carried_out_in_bookkeeping", 1)
		}
		run.Count("probe_rows_written_after_pause", r.probes)
		run.Count("sentinel_rounds_of_other_task_acknowledged", r.sentinels)
		run.Count("acks_observed", r.acks)
		run.Count("checkpoint_puts_observed", r.puts)
		if r.sample != nil && (c.Idx%7 == 1 || len(r.vios) > 0) {
			run.Sample(r.sample)
		}
	})
	run.Extra("enumerated_cases", len(cases))
	run.Extra("race_reports_touching_the_monitor_itself", c06HarnessRaces())
	run.Floor("faults_delivered", len(cases)*6/10)
	run.Floor("decided_with_fault_delivered", len(cases)/2)
	for cl := range classes {
		run.Floor("delivered_"+cl, 1)
	}
	if len(cases) >= 20 { // a full tier (not a C06_ONLY / -case selection)
		run.Floor("owning_task_observed_paused", len(cases)/3)
		run.Floor("probe_rows_written_after_pause", len(cases)/2)
		run.Floor("sentinel_rounds_of_other_task_acknowledged", len(cases)/4)
	}
	return run
}
