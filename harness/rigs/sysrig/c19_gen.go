package main

// C19 request generator: ordered JSON trees (so duplicated keys, literal tokens and wrong types can be written),
// the dictionary of adversarial field values, JSON-grammar mutations and raw byte bodies.
//
// Everything here is a pure function of (seed, batch, index) and of the live state of the server under test
// (which tasks exist), never of time.

import (
	"encoding/base64"
	"encoding/binary"
	"encoding/json"
	"fmt"
	"math/rand"
	"sort"
	"strconv"
	"strings"

	"github.com/milvus-io/milvus-proto/go-api/v2/msgpb"
	"github.com/zilliztech/milvus-cdc/server/model/meta"
	"google.golang.org/protobuf/proto"
)

// ---------------- ordered JSON ----------------

type c19kv struct {
	K string
	V any
}
type c19obj []c19kv // object with ordered, possibly duplicated members
type c19raw string  // literal JSON text (numbers no Go type can hold, invalid tokens)

func (o c19obj) get(k string) any {
	for _, e := range o {
		if e.K == k {
			return e.V
		}
	}
	return nil
}

func (o c19obj) with(k string, v any) c19obj {
	out := make(c19obj, 0, len(o)+1)
	done := false
	for _, e := range o {
		if e.K == k {
			if !done {
				out = append(out, c19kv{k, v})
				done = true
			}
			continue
		}
		out = append(out, e)
	}
	if !done {
		out = append(out, c19kv{k, v})
	}
	return out
}

func (o c19obj) without(k string) c19obj {
	out := make(c19obj, 0, len(o))
	for _, e := range o {
		if e.K != k {
			out = append(out, e)
		}
	}
	return out
}

func c19encTo(sb *strings.Builder, v any) {
	switch x := v.(type) {
	case nil:
		sb.WriteString("null")
	case bool:
		sb.WriteString(strconv.FormatBool(x))
	case int:
		sb.WriteString(strconv.Itoa(x))
	case int64:
		sb.WriteString(strconv.FormatInt(x, 10))
	case uint64:
		sb.WriteString(strconv.FormatUint(x, 10))
	case float64:
		sb.WriteString(strconv.FormatFloat(x, 'g', -1, 64))
	case string:
		b, _ := json.Marshal(x)
		sb.Write(b)
	case c19raw:
		sb.WriteString(string(x))
	case []any:
		sb.WriteByte('[')
		for i, e := range x {
			if i > 0 {
				sb.WriteByte(',')
			}
			c19encTo(sb, e)
		}
		sb.WriteByte(']')
	case c19obj:
		sb.WriteByte('{')
		for i, e := range x {
			if i > 0 {
				sb.WriteByte(',')
			}
			b, _ := json.Marshal(e.K)
			sb.Write(b)
			sb.WriteByte(':')
			c19encTo(sb, e.V)
		}
		sb.WriteByte('}')
	case map[string]any:
		keys := make([]string, 0, len(x))
		for k := range x {
			keys = append(keys, k)
		}
		sort.Strings(keys)
		o := make(c19obj, 0, len(keys))
		for _, k := range keys {
			o = append(o, c19kv{k, x[k]})
		}
		c19encTo(sb, o)
	default:
		b, _ := json.Marshal(x)
		sb.Write(b)
	}
}

func c19enc(v any) []byte {
	var sb strings.Builder
	c19encTo(&sb, v)
	return []byte(sb.String())
}

func c19envelope(typ any, data any) []byte {
	return c19enc(c19obj{{"request_type", typ}, {"request_data", data}})
}

// ---------------- request record ----------------

const (
	c19Any    = 0 // either outcome is acceptable
	c19Soft   = 1 // the code under test rejects it, the statement does not demand it: counted only
	c19Strict = 2 // the statement demands a rejection (code != 200)
)

type c19Req struct {
	Batch   int    `json:"batch"`
	Idx     int    `json:"idx"`
	Kind    string `json:"kind"`  // pre | valid | dict | raw | mut | op | method | cleanup
	Class   string `json:"class"` // dictionary class / mutation kind
	Method  string `json:"method"`
	Body    []byte `json:"-"`
	Expect  int    `json:"expect"`
	Create  bool   `json:"create"` // a create by intent (store calls during it mean: past validation)
	TaskRef string `json:"task_ref,omitempty"`
	FailAt  int    `json:"fail_at,omitempty"` // the k-th meta-store call made while serving this request is failed
}

// ---------------- generator ----------------

type c19Task struct {
	ID    string
	State int
}

type c19Name struct{ DB, Coll string }

type c19Gen struct {
	rng      *rand.Rand
	batch    int
	idx      int
	uri      string
	host     string
	port     int
	replChan string
	tasks    []c19Task // live task table of the server under test
	names    []c19Name // (db, collection) pairs of creates accepted in this episode
	fresh    int
}

func (g *c19Gen) freshName() string {
	g.fresh++
	return fmt.Sprintf("c%d_%d_%d", g.batch, g.idx, g.fresh)
}

func (g *c19Gen) freshTaskID() string {
	g.fresh++
	return fmt.Sprintf("t%d-%d-%d", g.batch, g.idx, g.fresh)
}

func (g *c19Gen) pick(xs ...string) string { return xs[g.rng.Intn(len(xs))] }

func (g *c19Gen) conn() c19obj {
	return c19obj{{"uri", g.uri}, {"token", "root:Milvus"}, {"connect_timeout", 10}, {"channel_num", 1}}
}

func c19infos(names ...any) []any {
	out := make([]any, 0, len(names))
	for _, n := range names {
		out = append(out, c19obj{{"name", n}})
	}
	return out
}

func (g *c19Gen) base(name any) c19obj {
	return c19obj{{"milvus_connect_param", g.conn()}, {"collection_infos", c19infos(name)}}
}

func (g *c19Gen) baseDB(db string, name any) c19obj {
	return c19obj{{"milvus_connect_param", g.conn()}, {"db_collections", c19obj{{db, c19infos(name)}}}}
}

func c19id8(n uint64) []byte {
	b := make([]byte, 8)
	binary.BigEndian.PutUint64(b, n)
	return b
}

func c19Pos(ch string, msgID []byte, ts uint64) string {
	b, _ := proto.Marshal(&msgpb.MsgPosition{ChannelName: ch, MsgID: msgID, Timestamp: ts})
	return base64.StdEncoding.EncodeToString(b)
}

func c19VChan(p int, coll int64, shard int) string {
	return fmt.Sprintf("by-dev-rootcoord-dml_%d_%dv%d", p, coll, shard)
}

// byte strings that are certainly not a serialized MsgPosition
var c19NotProto = [][]byte{{0xFF}, {0x0A, 0x7F, 0x01}, {0x0F}, {0x08}, {0x12, 0x05, 'a'}, {0x0B}}

func (g *c19Gen) notProto() string {
	return base64.StdEncoding.EncodeToString(c19NotProto[g.rng.Intn(len(c19NotProto))])
}

func (g *c19Gen) notBase64() string {
	return g.pick("!!!not-base64!!!", "*", "a", "====", "Zm9v!", "Zm9", "名", "{}", " CgN4eXo=")
}

func (g *c19Gen) validPositions(shards int) c19obj {
	coll := int64(449100000000000000 + g.rng.Intn(1000000))
	o := c19obj{}
	for s := 0; s < shards; s++ {
		ch := c19VChan(s, coll, s)
		o = append(o, c19kv{ch, c19Pos(ch, c19id8(uint64(1+g.rng.Intn(1000))), uint64(449100000000+g.rng.Intn(1000))<<18)})
	}
	return o
}

func (g *c19Gen) withPositions(data c19obj, pos any) c19obj {
	if infos, ok := data.get("collection_infos").([]any); ok && len(infos) > 0 {
		if first, ok := infos[0].(c19obj); ok {
			n := append([]any{first.with("positions", pos)}, infos[1:]...)
			return data.with("collection_infos", n)
		}
	}
	if dbs, ok := data.get("db_collections").(c19obj); ok && len(dbs) > 0 {
		if infos, ok := dbs[0].V.([]any); ok && len(infos) > 0 {
			if first, ok := infos[0].(c19obj); ok {
				n := append([]any{first.with("positions", pos)}, infos[1:]...)
				nd := append(c19obj{{dbs[0].K, n}}, dbs[1:]...)
				return data.with("db_collections", nd)
			}
		}
	}
	return data
}

func (g *c19Gen) connWith(data c19obj, k string, v any) c19obj {
	c, _ := data.get("milvus_connect_param").(c19obj)
	return data.with("milvus_connect_param", c.with(k, v))
}

func (g *c19Gen) existingName() (c19Name, bool) {
	if len(g.names) == 0 {
		return c19Name{}, false
	}
	return g.names[g.rng.Intn(len(g.names))], true
}

func (g *c19Gen) existingTask() (string, bool) {
	if len(g.tasks) == 0 {
		return "", false
	}
	return g.tasks[g.rng.Intn(len(g.tasks))].ID, true
}

// taskInState returns a live task for which the operation must be refused
func (g *c19Gen) taskInState(op string) (string, bool) {
	want := -1
	switch op {
	case "pause":
		want = int(meta.TaskStatePaused)
	case "resume":
		want = int(meta.TaskStateRunning)
	}
	var ids []string
	for _, t := range g.tasks {
		if t.State == want {
			ids = append(ids, t.ID)
		}
	}
	if len(ids) == 0 {
		return "", false
	}
	return ids[g.rng.Intn(len(ids))], true
}

var c19Dotted = []string{"a.b", ".", "a.", ".a", "a..b", "db.coll", "default.c", "x.y.z", "*.*", "a.*"}

type c19Class struct {
	Name   string
	Expect int
	Key    string // violation key suffix when a strict class is accepted
	Build  func(g *c19Gen) c19obj
}

func c19rep(s string, n int) string { return strings.Repeat(s, n) }

// c19Dict: the dictionary of adversarial create requests. Strict classes are exactly those the property
// statement lists: bad names (empty, over-long in bytes AND characters, containing the '.' separator of the
// internal "db.collection" encoding), wildcard misuse, undecodable positions, positions on foreign channels /
// collections, negative limits, conflicting targets.
var c19Dict = []c19Class{
	// ---- names of collections
	{"name-empty", c19Strict, "accepted-empty-name", func(g *c19Gen) c19obj { return g.base("") }},
	{"name-long-257", c19Strict, "accepted-overlong-name", func(g *c19Gen) c19obj { return g.base(c19rep("a", 257+g.rng.Intn(100))) }},
	{"name-long-10k", c19Strict, "accepted-overlong-name", func(g *c19Gen) c19obj { return g.base(c19rep("n", 10240)) }},
	{"name-long-unicode", c19Strict, "accepted-overlong-name", func(g *c19Gen) c19obj { return g.base(c19rep("名", 300)) }},
	{"name-dot", c19Strict, "accepted-name-with-separator", func(g *c19Gen) c19obj { return g.base(c19Dotted[g.rng.Intn(len(c19Dotted))]) }},
	{"name-256", c19Any, "", func(g *c19Gen) c19obj { n := g.freshName(); return g.base(n + c19rep("x", 256-len(n))) }},
	{"name-unicode-bytes-over", c19Any, "", func(g *c19Gen) c19obj { return g.base(c19rep("名", 100)) }},
	{"name-slash", c19Any, "", func(g *c19Gen) c19obj { return g.base(g.freshName() + g.pick("/b", "/", "//x", "\\b", "/../x")) }},
	{"name-percent", c19Any, "", func(g *c19Gen) c19obj { return g.base(g.freshName() + g.pick("%", "%s%d", "%20", "100%", "%00")) }},
	{"name-star-inside", c19Any, "", func(g *c19Gen) c19obj { return g.base(g.freshName() + g.pick("*", "**", "*x")) }},
	{"name-unicode", c19Any, "", func(g *c19Gen) c19obj { return g.base(g.freshName() + g.pick("名前", "é", "\U0001F600", "‮")) }},
	{"name-ctrl", c19Any, "", func(g *c19Gen) c19obj { return g.base(g.freshName() + g.pick("\n", "\x00", "\t\r", "\x7f", "\"", "'")) }},
	{"name-space", c19Any, "", func(g *c19Gen) c19obj { return g.base(g.pick(" ", "  ", " "+g.freshName(), g.freshName()+" ")) }},
	// ---- names inside db_collections
	{"db-coll-empty", c19Strict, "accepted-empty-name", func(g *c19Gen) c19obj { return g.baseDB(g.pick("default", "db1"), "") }},
	{"db-coll-dot", c19Strict, "accepted-name-with-separator", func(g *c19Gen) c19obj {
		return g.baseDB(g.pick("default", "db1"), c19Dotted[g.rng.Intn(len(c19Dotted))])
	}},
	{"db-coll-long", c19Strict, "accepted-overlong-name", func(g *c19Gen) c19obj { return g.baseDB("db1", c19rep("b", 300)) }},
	{"db-dot", c19Strict, "accepted-name-with-separator", func(g *c19Gen) c19obj {
		return g.baseDB(c19Dotted[g.rng.Intn(len(c19Dotted))], g.freshName())
	}},
	{"db-long", c19Strict, "accepted-overlong-name", func(g *c19Gen) c19obj {
		return g.baseDB(c19rep("d", 257+g.rng.Intn(2000)), g.freshName())
	}},
	{"db-empty", c19Any, "", func(g *c19Gen) c19obj { return g.baseDB("", g.freshName()) }},
	{"db-star-coll", c19Any, "", func(g *c19Gen) c19obj { return g.baseDB("*", g.freshName()) }},
	{"db-odd", c19Any, "", func(g *c19Gen) c19obj {
		return g.baseDB(g.pick("a/b", "%", "d b", "名", "db*", c19rep("d", 256)), g.freshName())
	}},
	// ---- wildcards and shape of the collection lists
	{"star-with-positions", c19Strict, "accepted-wildcard-with-positions", func(g *c19Gen) c19obj {
		if g.rng.Intn(2) == 0 {
			return g.withPositions(g.base("*"), g.validPositions(1))
		}
		return g.withPositions(g.baseDB(g.pick("default", "db1", "*"), "*"), g.validPositions(1))
	}},
	{"star-plus-other-info", c19Strict, "accepted-wildcard-with-other-collections", func(g *c19Gen) c19obj {
		if g.rng.Intn(2) == 0 {
			return g.base("*").with("collection_infos", c19infos("*", g.freshName()))
		}
		return g.base("*").with("collection_infos", c19infos(g.freshName(), "*"))
	}},
	{"two-infos", c19Soft, "", func(g *c19Gen) c19obj {
		return g.base("x").with("collection_infos", c19infos(g.freshName(), g.freshName()))
	}},
	{"infos-and-db", c19Soft, "", func(g *c19Gen) c19obj {
		return g.base(g.freshName()).with("db_collections", c19obj{{"db1", c19infos(g.freshName())}})
	}},
	{"no-collections", c19Soft, "", func(g *c19Gen) c19obj {
		d := g.base("x").without("collection_infos")
		switch g.rng.Intn(3) {
		case 0:
			d = d.with("collection_infos", []any{})
		case 1:
			d = d.with("db_collections", c19obj{})
		}
		return d
	}},
	{"db-empty-list", c19Soft, "", func(g *c19Gen) c19obj {
		return g.baseDB("db1", "x").with("db_collections", c19obj{{"db1", []any{}}})
	}},
	{"two-dbs", c19Soft, "", func(g *c19Gen) c19obj {
		return g.baseDB("db1", "x").with("db_collections", c19obj{{"db1", c19infos(g.freshName())}, {"db2", c19infos(g.freshName())}})
	}},
	{"db-two-infos", c19Soft, "", func(g *c19Gen) c19obj {
		return g.baseDB("db1", "x").with("db_collections", c19obj{{"db1", c19infos(g.freshName(), g.pick("*", g.freshName()))}})
	}},
	// ---- positions
	{"pos-not-base64", c19Strict, "accepted-undecodable-position", func(g *c19Gen) c19obj {
		p := g.validPositions(1 + g.rng.Intn(2))
		p[g.rng.Intn(len(p))].V = g.notBase64()
		return g.withPositions(g.base(g.freshName()), p)
	}},
	{"pos-not-proto", c19Strict, "accepted-undecodable-position", func(g *c19Gen) c19obj {
		p := g.validPositions(1 + g.rng.Intn(2))
		p[g.rng.Intn(len(p))].V = g.notProto()
		return g.withPositions(g.base(g.freshName()), p)
	}},
	{"pos-db-undecodable", c19Strict, "accepted-undecodable-position", func(g *c19Gen) c19obj {
		p := g.validPositions(1)
		p[0].V = g.pick(g.notBase64(), g.notProto())
		return g.withPositions(g.baseDB(g.pick("default", "db1"), g.freshName()), p)
	}},
	{"pos-empty-string", c19Any, "", func(g *c19Gen) c19obj {
		p := g.validPositions(1)
		p[0].V = ""
		return g.withPositions(g.base(g.freshName()), p)
	}},
	{"pos-nonvirtual-channel", c19Strict, "accepted-position-on-non-virtual-channel", func(g *c19Gen) c19obj {
		ch := g.pick("by-dev-rootcoord-dml_0", "nounderscore", "", "by-dev-replicate-msg", "_", "a_b")
		return g.withPositions(g.base(g.freshName()), c19obj{{ch, c19Pos(ch, c19id8(5), 0)}})
	}},
	{"pos-unparseable-vchannel", c19Strict, "accepted-position-on-non-virtual-channel", func(g *c19Gen) c19obj {
		ch := g.pick("x_v", "a_bvc", "p_v0", "p_12vx", "p_99999999999999999999999v0", "_v")
		return g.withPositions(g.base(g.freshName()), c19obj{{ch, c19Pos(ch, c19id8(5), 0)}})
	}},
	{"pos-two-collections", c19Strict, "accepted-positions-of-two-collections", func(g *c19Gen) c19obj {
		a, b := c19VChan(0, 449100000000000001, 0), c19VChan(1, 449100000000000002, 1)
		return g.withPositions(g.base(g.freshName()), c19obj{{a, c19Pos(a, c19id8(3), 0)}, {b, c19Pos(b, c19id8(4), 0)}})
	}},
	{"pos-valid", c19Any, "", func(g *c19Gen) c19obj {
		return g.withPositions(g.base(g.freshName()), g.validPositions(1+g.rng.Intn(3)))
	}},
	{"rpc-pos-not-base64", c19Strict, "accepted-undecodable-position", func(g *c19Gen) c19obj {
		return g.base(g.freshName()).with("rpc_channel_info", c19obj{{"name", g.pick(g.replChan, "")}, {"position", g.notBase64()}})
	}},
	{"rpc-pos-not-proto", c19Strict, "accepted-undecodable-position", func(g *c19Gen) c19obj {
		return g.base(g.freshName()).with("rpc_channel_info", c19obj{{"position", g.notProto()}})
	}},
	{"rpc-pos-bad-msgid", c19Any, "", func(g *c19Gen) c19obj {
		return g.base(g.freshName()).with("rpc_channel_info", c19obj{{"name", g.replChan}, {"position", c19Pos(g.replChan, []byte{1, 2, 3}, 0)}})
	}},
	{"pos-valid-then-rpc-undecodable", c19Strict, "accepted-undecodable-position", func(g *c19Gen) c19obj {
		var d c19obj
		if g.rng.Intn(2) == 0 {
			d = g.base(g.freshName())
		} else {
			d = g.baseDB(g.pick("default", "db1"), g.freshName())
		}
		d = g.withPositions(d, g.validPositions(1+g.rng.Intn(2)))
		d = d.with("rpc_channel_info", c19obj{{"position", g.pick(g.notBase64(), g.notProto())}})
		if g.rng.Intn(2) == 0 {
			d = d.with("task_id", g.freshTaskID())
		}
		return d
	}},
	{"rpc-name-wrong", c19Soft, "", func(g *c19Gen) c19obj {
		return g.base(g.freshName()).with("rpc_channel_info", c19obj{{"name", g.pick("other-chan", g.replChan+"x", "by-dev-rootcoord-dml_0", " ")}})
	}},
	{"rpc-valid", c19Any, "", func(g *c19Gen) c19obj {
		return g.base(g.freshName()).with("rpc_channel_info", c19obj{{"name", g.replChan}, {"position", c19Pos(g.replChan, c19id8(uint64(1+g.rng.Intn(50))), 0)}})
	}},
	// ---- limits
	{"buffer-period-negative", c19Strict, "accepted-negative-limit", func(g *c19Gen) c19obj {
		return g.base(g.freshName()).with("buffer_config", c19obj{{"period", -1 - g.rng.Intn(1000)}, {"size", 10}})
	}},
	{"buffer-size-negative", c19Strict, "accepted-negative-limit", func(g *c19Gen) c19obj {
		return g.base(g.freshName()).with("buffer_config", c19obj{{"period", 1}, {"size", c19raw(g.pick("-1", "-2147483649", "-9223372036854775808"))}})
	}},
	{"connect-timeout-negative", c19Strict, "accepted-negative-limit", func(g *c19Gen) c19obj {
		return g.connWith(g.base(g.freshName()), "connect_timeout", -1-g.rng.Intn(100))
	}},
	{"limits-huge", c19Any, "", func(g *c19Gen) c19obj {
		return g.base(g.freshName()).with("buffer_config", c19obj{{"period", c19raw(g.pick("1e30", "9223372036854775807", "9223372036854775808", "1e308"))}, {"size", c19raw(g.pick("1e18", "4294967296", "1"))}})
	}},
	{"limits-fraction", c19Any, "", func(g *c19Gen) c19obj {
		return g.base(g.freshName()).with("buffer_config", c19obj{{"period", c19raw(g.pick("-0.5", "0.5", "-0", "1.9"))}, {"size", c19raw(g.pick("-0.1", "2.5"))}})
	}},
	{"channel-num-odd", c19Any, "", func(g *c19Gen) c19obj {
		return g.connWith(g.base(g.freshName()), "channel_num", c19raw(g.pick("-1", "0", "1000000", "-2147483648")))
	}},
	// ---- targets
	{"both-targets", c19Strict, "accepted-conflicting-targets", func(g *c19Gen) c19obj {
		return g.base(g.freshName()).with("kafka_connect_param", c19obj{{"address", "127.0.0.1:9"}, {"topic", g.pick("t", "")}})
	}},
	{"no-target", c19Strict, "accepted-conflicting-targets", func(g *c19Gen) c19obj {
		d := g.base(g.freshName())
		switch g.rng.Intn(4) {
		case 0:
			return d.without("milvus_connect_param")
		case 1:
			return d.with("milvus_connect_param", c19obj{})
		case 2:
			return d.with("milvus_connect_param", c19obj{{"token", "root:Milvus"}, {"port", -5}})
		}
		return d.with("milvus_connect_param", c19obj{{"uri", ""}, {"host", ""}, {"port", 0}}).with("kafka_connect_param", c19obj{{"topic", "t"}})
	}},
	{"kafka-no-topic", c19Soft, "", func(g *c19Gen) c19obj {
		return g.base(g.freshName()).without("milvus_connect_param").with("kafka_connect_param", c19obj{{"address", "127.0.0.1:9"}})
	}},
	{"username-no-password", c19Soft, "", func(g *c19Gen) c19obj {
		return g.connWith(g.base(g.freshName()), "username", "root")
	}},
	{"password-no-username", c19Soft, "", func(g *c19Gen) c19obj {
		return g.connWith(g.base(g.freshName()), "password", "Milvus")
	}},
	{"host-port-broken", c19Soft, "", func(g *c19Gen) c19obj {
		if g.rng.Intn(2) == 0 {
			return g.base(g.freshName()).with("milvus_connect_param", c19obj{{"host", g.host}, {"port", c19raw(g.pick("0", "-1"))}, {"connect_timeout", 1}})
		}
		return g.base(g.freshName()).with("milvus_connect_param", c19obj{{"port", g.port}, {"connect_timeout", 1}})
	}},
	{"host-port-form", c19Any, "", func(g *c19Gen) c19obj {
		return g.base(g.freshName()).with("milvus_connect_param", c19obj{{"host", g.host}, {"port", g.port}, {"username", "root"}, {"password", "Milvus"}, {"connect_timeout", 10}, {"channel_num", 1}})
	}},
	{"uri-unreachable", c19Any, "", func(g *c19Gen) c19obj {
		return g.base(g.freshName()).with("milvus_connect_param", c19obj{{"uri", g.pick("http://127.0.0.1:1", "https://127.0.0.1:1", "http://127.0.0.1:1/a.b")}, {"connect_timeout", 1}})
	}},
	{"uri-garbage", c19Any, "", func(g *c19Gen) c19obj {
		return g.base(g.freshName()).with("milvus_connect_param", c19obj{{"uri", g.pick("::::", "http://", "a.b", "http://[::1", "\x00", "unix:///nonexistent")}, {"connect_timeout", 1}})
	}},
	// ---- task ids
	{"taskid-existing", c19Any, "", func(g *c19Gen) c19obj {
		id, ok := g.existingTask()
		if !ok {
			id = g.freshTaskID()
		}
		return g.base(g.freshName()).with("task_id", id)
	}},
	{"taskid-existing-bad-request", c19Strict, "accepted-empty-name", func(g *c19Gen) c19obj {
		id, ok := g.existingTask()
		if !ok {
			id = g.freshTaskID()
		}
		return g.base("").with("task_id", id)
	}},
	{"taskid-odd", c19Any, "", func(g *c19Gen) c19obj {
		return g.base(g.freshName()).with("task_id", g.freshTaskID()+g.pick("/b", " ", "名", "%2F", "*", c19rep("t", 300), "\n"))
	}},
	// ---- duplicates and overlaps with accepted tasks
	{"dup-name", c19Any, "", func(g *c19Gen) c19obj {
		if n, ok := g.existingName(); ok && n.DB == "default" {
			return g.base(n.Coll)
		} else if ok {
			return g.baseDB(n.DB, n.Coll)
		}
		return g.base(g.freshName())
	}},
	{"dup-name-via-db", c19Any, "", func(g *c19Gen) c19obj {
		if n, ok := g.existingName(); ok {
			return g.baseDB(n.DB, n.Coll)
		}
		return g.baseDB("default", g.freshName())
	}},
	{"star-over-existing", c19Any, "", func(g *c19Gen) c19obj {
		if n, ok := g.existingName(); ok && g.rng.Intn(2) == 0 {
			return g.baseDB(n.DB, "*")
		}
		return g.base("*")
	}},
	{"starstar-over-existing", c19Any, "", func(g *c19Gen) c19obj { return g.baseDB("*", "*") }},
	{"wildcard-late-reject", c19Strict, "accepted-undecodable-position", func(g *c19Gen) c19obj {
		var d c19obj
		switch g.rng.Intn(3) {
		case 0:
			d = g.base("*")
		case 1:
			d = g.baseDB("*", "*")
		default:
			if n, ok := g.existingName(); ok {
				d = g.baseDB(n.DB, "*")
			} else {
				d = g.baseDB("db1", "*")
			}
		}
		return d.with("rpc_channel_info", c19obj{{"position", g.pick(g.notBase64(), g.notProto())}})
	}},
	{"userrole-late-reject", c19Strict, "accepted-undecodable-position", func(g *c19Gen) c19obj {
		d := g.base(g.freshName()).with("extra_info", c19obj{{"enable_user_role", true}})
		if g.rng.Intn(2) == 0 {
			p := g.validPositions(1)
			p[0].V = g.pick(g.notBase64(), g.notProto())
			return g.withPositions(d, p)
		}
		return d.with("rpc_channel_info", c19obj{{"position", g.pick(g.notBase64(), g.notProto())}})
	}},
	{"userrole", c19Any, "", func(g *c19Gen) c19obj {
		return g.base(g.freshName()).with("extra_info", c19obj{{"enable_user_role", true}})
	}},
	// ---- name mapping
	{"mapping-valid", c19Any, "", func(g *c19Gen) c19obj {
		n := g.freshName()
		return g.base(n).with("name_mapping", []any{c19obj{{"source_db", "default"}, {"target_db", "tdb"}, {"collection_mapping", c19obj{{n, n + "_t"}}}}})
	}},
	{"mapping-unknown-name", c19Soft, "", func(g *c19Gen) c19obj {
		return g.base(g.freshName()).with("name_mapping", []any{c19obj{{"source_db", "default"}, {"target_db", "tdb"}, {"collection_mapping", c19obj{{"other", "x"}}}}})
	}},
	{"mapping-dot-source", c19Strict, "accepted-name-with-separator", func(g *c19Gen) c19obj {
		n := g.freshName()
		if g.rng.Intn(2) == 0 {
			return g.base(n).with("name_mapping", []any{c19obj{{"source_db", "default"}, {"target_db", "tdb"}, {"collection_mapping", c19obj{{"a.b", "x"}}}}})
		}
		return g.base(n).with("name_mapping", []any{c19obj{{"source_db", "d.e"}, {"target_db", "tdb"}, {"collection_mapping", c19obj{{n, "x"}}}}})
	}},
	{"mapping-dot-target", c19Strict, "accepted-name-with-separator", func(g *c19Gen) c19obj {
		n := g.freshName()
		switch g.rng.Intn(3) {
		case 0: // only the TARGET collection name of a mapping entry carries the separator
			return g.base(n).with("name_mapping", []any{c19obj{{"source_db", "default"}, {"target_db", "tdb"}, {"collection_mapping", c19obj{{n, "archive.v2"}}}}})
		case 1: // only the target database
			return g.base(n).with("name_mapping", []any{c19obj{{"source_db", "default"}, {"target_db", "t.db"}, {"collection_mapping", c19obj{{n, n + "_t"}}}}})
		}
		return g.base(n).with("name_mapping", []any{c19obj{{"source_db", "default"}, {"target_db", "t.db"}}})
	}},
	// a valid create that writes several checkpoint records (collection positions + rpc position); the k-th store
	// call of the request fails (k is drawn by the caller, see c19Req.FailAt)
	{"store-fault", c19Any, "", func(g *c19Gen) c19obj {
		var d c19obj
		if g.rng.Intn(2) == 0 {
			d = g.base(g.freshName())
		} else {
			d = g.baseDB(g.pick("default", "db1"), g.freshName())
		}
		d = g.withPositions(d, g.validPositions(1+g.rng.Intn(3)))
		d = d.with("rpc_channel_info", c19obj{{"name", g.replChan}, {"position", c19Pos(g.replChan, c19id8(uint64(1+g.rng.Intn(50))), 0)}})
		if g.rng.Intn(2) == 0 {
			d = d.with("task_id", g.freshTaskID())
		}
		if g.rng.Intn(3) == 0 {
			d = d.with("extra_info", c19obj{{"enable_user_role", true}})
		}
		return d
	}},
	{"mapping-odd-target", c19Any, "", func(g *c19Gen) c19obj {
		n := g.freshName()
		return g.base(n).with("name_mapping", []any{c19obj{{"source_db", "default"}, {"target_db", g.pick("", "*", "t/d", c19rep("t", 300))}, {"collection_mapping", c19obj{{n, g.pick("", "*", "x y")}}}}})
	}},
	// ---- other flags
	{"flags", c19Any, "", func(g *c19Gen) c19obj {
		return g.base(g.freshName()).with("disable_auto_start", true).with("buffer_config", c19obj{{"period", 1}, {"size", 1}}).with("positions", c19obj{{"x", "y"}})
	}},
	{"kafka-only", c19Any, "", func(g *c19Gen) c19obj {
		return g.base(g.freshName()).without("milvus_connect_param").with("kafka_connect_param", c19obj{{"address", "127.0.0.1:9"}, {"topic", "c19"}})
	}},
}

// valid creates of several flavours (preamble of an episode and the "valid" slots)
// validCreate: wildcards are rare, because a wildcard task turns every later create into a duplicate
func (g *c19Gen) validCreate() (c19obj, string) {
	weights := []int{18, 17, 10, 15, 4, 8, 3, 10, 5, 10} // flavours 0..9 of validCreateOf
	n := g.rng.Intn(100)
	for i, w := range weights {
		if n < w {
			return g.validCreateOf(i)
		}
		n -= w
	}
	return g.validCreateOf(0)
}

func (g *c19Gen) validCreateOf(which int) (c19obj, string) {
	var d c19obj
	flavour := ""
	switch which {
	case 0, 1:
		d, flavour = g.base(g.freshName()), "name"
	case 2:
		d, flavour = g.baseDB("default", g.freshName()), "db-default"
	case 3:
		d, flavour = g.baseDB(g.pick("db1", "db1", "db2"), g.freshName()), "db"
	case 4:
		d, flavour = g.base("*"), "star"
	case 5:
		d, flavour = g.baseDB(g.pick("db1", "db1", "db2"), "*"), "db-star"
	case 6:
		d, flavour = g.baseDB("*", "*"), "star-star"
	case 7:
		d, flavour = g.withPositions(g.base(g.freshName()), g.validPositions(1+g.rng.Intn(2))), "positions"
	case 8:
		d, flavour = g.base(g.freshName()).with("extra_info", c19obj{{"enable_user_role", true}}), "userrole"
	case 10:
		d, flavour = g.baseDB("db1", g.freshName()), "db"
	case 11:
		d, flavour = g.baseDB("db1", "*"), "db-star"
	default:
		n := g.freshName()
		d, flavour = g.base(n).with("name_mapping", []any{c19obj{{"source_db", "default"}, {"target_db", "tdb"}, {"collection_mapping", c19obj{{n, n + "_t"}}}}}), "mapping"
	}
	if g.rng.Intn(2) == 0 {
		d = d.with("task_id", g.freshTaskID())
	}
	return d, flavour
}

// ---- other request types with adversarial task ids
func (g *c19Gen) opRequest() (body []byte, class string, expect int, ref string) {
	typ := g.pick("delete", "pause", "resume", "get", "position", "list", "maintenance", "unknown", "delete", "pause", "resume")
	if _, ok := g.taskInState("pause"); ok && g.rng.Intn(3) == 0 {
		typ = "pause" // a paused task exists: pausing it again must be refused without touching it
	}
	var id any
	idClass := ""
	switch g.rng.Intn(7) {
	case 0, 1, 2:
		if t, ok := g.taskInState(typ); ok {
			// the operation is invalid in the task's current state (pause of a paused task, resume of a running one)
			id, idClass, ref = t, "existing-wrong-state", t
		} else if t, ok := g.existingTask(); ok {
			id, idClass, ref = t, "existing", t
		} else {
			id, idClass = "nope", "unknown"
		}
	case 3:
		id, idClass = g.pick("nope", "00000000000000000000000000000000", "a/b", "..", "*", "%", c19rep("z", 5000)), "unknown"
	case 4:
		id, idClass = "", "empty"
	case 5:
		id, idClass = []any{c19raw("12"), nil, c19obj{}, []any{}, true, c19raw("1e999")}[g.rng.Intn(6)], "wrongtype"
	default:
		idClass = "missing"
	}
	data := c19obj{}
	if idClass != "missing" {
		data = data.with("task_id", id)
	}
	switch typ {
	case "delete":
		if g.rng.Intn(3) == 0 {
			data = data.with("ignore_not_found", []any{true, false, "yes", c19raw("1")}[g.rng.Intn(4)])
		}
	case "list":
		if g.rng.Intn(2) == 0 {
			data = data.with("junk", []any{c19obj{{"a", []any{}}}})
		}
	case "maintenance":
		data = c19obj{{"operation", g.pick("set_force_log_msg", "reset_log_msg", "bogus", "", "set_log_level")}, {"params", []any{
			c19obj{{"force", g.pick("x", "true", "false")}}, c19obj{{"count", "x"}, {"duration", "y"}}, c19obj{{"count", "3"}, {"duration", "1s"}},
			c19obj{{"log_level", g.pick("bogus", "warn")}}, "str", nil, []any{}}[g.rng.Intn(7)]}}
		idClass = "n/a"
	case "unknown":
		t := []any{"", "Create", "CREATE", "drop", "create ", " create", "名", c19rep("q", 4000), "creat", "reload", nil, c19raw("5"), "create\x00",
			c19raw("\"l\xe9st\""), c19raw("\"create\xff\""), c19raw("\"\xc0\xaf\"")}[g.rng.Intn(16)]
		return c19envelope(t, g.base(g.freshName())), "op-unknown-type", c19Strict, ""
	}
	return c19envelope(typ, data), "op-" + typ + "-" + idClass, c19Any, ref
}

// ---------------- mutations ----------------

func (g *c19Gen) wrongValue(depth int) any {
	switch g.rng.Intn(22) {
	case 0:
		return nil
	case 1:
		return true
	case 2:
		return c19raw("0")
	case 3:
		return c19raw("-1")
	case 4:
		return c19raw("1e999")
	case 5:
		return c19raw("99999999999999999999999999")
	case 6:
		return c19raw("1.5")
	case 7:
		return c19raw("-0")
	case 8:
		return "str"
	case 9:
		return c19rep("L", 1000+g.rng.Intn(20000))
	case 10:
		return c19obj{}
	case 11:
		return []any{}
	case 12:
		return []any{c19obj{}}
	case 13:
		return []any{nil, nil}
	case 14:
		return c19obj{{"name", nil}}
	case 15:
		return c19obj{{"", ""}}
	case 16:
		n := 10 + g.rng.Intn(3000)
		return c19raw(strings.Repeat("[", n) + strings.Repeat("]", n))
	case 17:
		n := 10 + g.rng.Intn(2000)
		return c19raw(strings.Repeat(`{"a":`, n) + "1" + strings.Repeat("}", n))
	case 18:
		return "10"
	case 19:
		return []any{"a", c19raw("1"), c19obj{{"positions", "x"}}}
	case 20:
		return c19obj{{"name", c19obj{{"name", "x"}}}, {"positions", []any{"x"}}}
	default:
		return c19raw("-9223372036854775809")
	}
}

func c19countNodes(v any) int {
	n := 1
	switch x := v.(type) {
	case c19obj:
		for _, e := range x {
			n += c19countNodes(e.V)
		}
	case []any:
		for _, e := range x {
			n += c19countNodes(e)
		}
	}
	return n
}

// c19replaceNth replaces the n-th node (pre-order) of the tree by f(node)
func c19replaceNth(v any, n *int, f func(any) any) any {
	if *n == 0 {
		*n = -1
		return f(v)
	}
	*n--
	switch x := v.(type) {
	case c19obj:
		out := make(c19obj, len(x))
		for i, e := range x {
			if *n >= 0 {
				out[i] = c19kv{e.K, c19replaceNth(e.V, n, f)}
			} else {
				out[i] = e
			}
		}
		return out
	case []any:
		out := make([]any, len(x))
		for i, e := range x {
			if *n >= 0 {
				out[i] = c19replaceNth(e, n, f)
			} else {
				out[i] = e
			}
		}
		return out
	}
	return v
}

func c19nullLeaves(v any) any {
	switch x := v.(type) {
	case c19obj:
		out := make(c19obj, len(x))
		for i, e := range x {
			out[i] = c19kv{e.K, c19nullLeaves(e.V)}
		}
		return out
	case []any:
		out := make([]any, len(x))
		for i, e := range x {
			out[i] = c19nullLeaves(e)
		}
		return out
	}
	return nil
}

func c19mapKeys(v any, f func(string) string) any {
	switch x := v.(type) {
	case c19obj:
		out := make(c19obj, len(x))
		for i, e := range x {
			out[i] = c19kv{f(e.K), c19mapKeys(e.V, f)}
		}
		return out
	case []any:
		out := make([]any, len(x))
		for i, e := range x {
			out[i] = c19mapKeys(e, f)
		}
		return out
	}
	return v
}

// c19dupKey duplicates one member of a randomly chosen object with another value
func (g *c19Gen) dupKey(v any) any {
	total := c19countNodes(v)
	for try := 0; try < 20; try++ {
		n := g.rng.Intn(total)
		hit := false
		out := c19replaceNth(v, &n, func(x any) any {
			o, ok := x.(c19obj)
			if !ok || len(o) == 0 {
				return x
			}
			hit = true
			e := o[g.rng.Intn(len(o))]
			var nv any
			if g.rng.Intn(2) == 0 {
				nv = g.wrongValue(0)
			} else {
				nv = e.V
			}
			if g.rng.Intn(2) == 0 {
				return append(append(c19obj{}, o...), c19kv{e.K, nv})
			}
			return append(c19obj{{e.K, nv}}, o...)
		})
		if hit {
			return out
		}
	}
	return v
}

// mutation returns a body derived from a valid request (tree level or text level)
func (g *c19Gen) mutation() ([]byte, string) {
	var tree c19obj
	if g.rng.Intn(10) < 7 {
		var d c19obj
		switch g.rng.Intn(4) {
		case 0:
			d, _ = g.validCreate()
		case 1:
			d = g.withPositions(g.base(g.freshName()), g.validPositions(2)).with("rpc_channel_info", c19obj{{"name", g.replChan}, {"position", c19Pos(g.replChan, c19id8(3), 0)}}).
				with("buffer_config", c19obj{{"period", 1}, {"size", 2}}).with("extra_info", c19obj{{"enable_user_role", false}}).with("task_id", g.freshTaskID())
		case 2:
			n := g.freshName()
			d = g.baseDB("db1", n).with("name_mapping", []any{c19obj{{"source_db", "db1"}, {"target_db", "tdb"}, {"collection_mapping", c19obj{{n, n + "_t"}}}}})
		default:
			d = g.base(g.freshName()).with("milvus_connect_param", c19obj{{"host", g.host}, {"port", g.port}, {"username", "root"}, {"password", "Milvus"}, {"enable_tls", false},
				{"connect_timeout", 1}, {"channel_num", 1}, {"ignore_partition", false}, {"dial_config", c19obj{{"server_name", ""}}}})
		}
		// keep junk uris cheap: the connect timeout of the base request is one second
		if c, ok := d.get("milvus_connect_param").(c19obj); ok {
			d = d.with("milvus_connect_param", c.with("connect_timeout", 1))
		}
		tree = c19obj{{"request_type", "create"}, {"request_data", d}}
	} else {
		id, ok := g.existingTask()
		if !ok {
			id = "nope"
		}
		tree = c19obj{{"request_type", g.pick("delete", "pause", "resume", "get", "position", "list")}, {"request_data", c19obj{{"task_id", id}}}}
	}
	kind := []string{"type-swap", "type-swap", "type-swap", "two-swaps", "dup-key", "null-leaves", "key-case", "drop-member", "wrap",
		"text-truncate", "text-flip", "text-insert", "text-delete", "text-trailing", "text-quotes", "text-prefix", "text-badutf8", "text-escape"}[g.rng.Intn(18)]
	var mutated any = tree
	switch kind {
	case "type-swap", "two-swaps":
		times := 1
		if kind == "two-swaps" {
			times = 2
		}
		for i := 0; i < times; i++ {
			n := 1 + g.rng.Intn(c19countNodes(mutated)-1)
			mutated = c19replaceNth(mutated, &n, func(any) any { return g.wrongValue(0) })
		}
	case "dup-key":
		mutated = g.dupKey(mutated)
	case "null-leaves":
		mutated = c19nullLeaves(mutated)
		if g.rng.Intn(2) == 0 { // keep the dispatch alive so the nulls reach the decoder of the request model
			mutated = mutated.(c19obj).with("request_type", tree.get("request_type"))
		}
	case "key-case":
		up := g.rng.Intn(2) == 0
		mutated = c19mapKeys(mutated, func(k string) string {
			if k == "request_type" || k == "request_data" {
				return k
			}
			if up {
				return strings.ToUpper(k)
			}
			return strings.ReplaceAll(k, "_", "")
		})
	case "drop-member":
		n := 1 + g.rng.Intn(c19countNodes(mutated)-1)
		mutated = c19replaceNth(mutated, &n, func(x any) any {
			if o, ok := x.(c19obj); ok && len(o) > 0 {
				return o.without(o[g.rng.Intn(len(o))].K)
			}
			if a, ok := x.([]any); ok && len(a) > 0 {
				return a[1:]
			}
			return nil
		})
	case "wrap":
		n := 1 + g.rng.Intn(c19countNodes(mutated)-1)
		mutated = c19replaceNth(mutated, &n, func(x any) any {
			if g.rng.Intn(2) == 0 {
				return []any{x}
			}
			return c19obj{{"x", x}}
		})
	}
	b := c19enc(mutated)
	switch kind {
	case "text-truncate":
		b = b[:g.rng.Intn(len(b))]
	case "text-flip":
		for i := 0; i < 1+g.rng.Intn(3); i++ {
			b[g.rng.Intn(len(b))] ^= byte(1 << uint(g.rng.Intn(8)))
		}
	case "text-insert":
		p := g.rng.Intn(len(b) + 1)
		ins := []string{",", ":", "{", "}", "[", "]", "\"", "\\", "\x00", "null", "-", "e", "\n", ",,", "\xff", "/*x*/", "//"}[g.rng.Intn(17)]
		b = append(append(append([]byte{}, b[:p]...), ins...), b[p:]...)
	case "text-delete":
		p := g.rng.Intn(len(b))
		q := p + 1 + g.rng.Intn(8)
		if q > len(b) {
			q = len(b)
		}
		b = append(append([]byte{}, b[:p]...), b[q:]...)
	case "text-trailing":
		b = append(b, []string{"x", "{}", "null", "]", "\x00", " 1", ",", string(b)}[g.rng.Intn(8)]...)
	case "text-quotes":
		b = []byte(strings.ReplaceAll(string(b), "\"", "'"))
	case "text-prefix":
		b = append([]byte([]string{"\xef\xbb\xbf", " \n\t", "\x00", ")]}'\n", "\xfe\xff"}[g.rng.Intn(5)]), b...)
	case "text-badutf8":
		b = []byte(strings.Replace(string(b), "root", g.pick("\xff\xfe", "\xc0\xaf", "\xed\xa0\x80", "\x80"), 1))
		b = []byte(strings.Replace(string(b), "_", g.pick("\xff", "\xc3"), 1+g.rng.Intn(3)))
	case "text-escape":
		b = []byte(strings.Replace(string(b), "c", g.pick(`\u0000`, `\ud800`, `\udc00\ud800`, `\u00`, `\x41`, `😀`, `\/`), 1+g.rng.Intn(3)))
	}
	return b, "mut-" + kind
}

// ---------------- raw bodies ----------------

var c19Literals = []string{
	"", " ", "null", "[]", "{}", "0", "-", "\"x\"", "true", "nul", "{", "}", "[", "]", "\"", "{\"", "{\"request_type\"", "{\"request_type\":",
	`{"request_type":null}`, `{"request_type":"create"}`, `{"request_type":"create","request_data":null}`, `{"request_type":"create","request_data":{}}`,
	`{"request_type":"list"}`, `{"request_type":"list","request_data":[]}`, `{"request_type":"get","request_data":"x"}`, `{"request_type":["create"]}`,
	`{"request_type":"delete","request_data":{"task_id":{"a":1}}}`, `{"request_data":{"task_id":"x"}}`, `{"REQUEST_TYPE":"list"}`,
	`{"request_type":"create","request_data":{"collection_infos":"x"}}`, `{"request_type":"create","request_data":{"collection_infos":[1,2]}}`,
	`{"request_type":"create","request_data":{"collection_infos":{"name":"a"}}}`, `{"request_type":"create","request_data":{"milvus_connect_param":"x"}}`,
	`{"request_type":"create","request_data":{"db_collections":["a"]}}`, `{"request_type":"create","request_data":{"db_collections":{"a":"b"}}}`,
	`{"request_type":"create","request_data":{"db_collections":{"a":[["b"]]}}}`, `{"request_type":"create","request_data":{"name_mapping":{"a":"b"}}}`,
	`{"request_type":"create","request_data":{"collection_infos":[{"name":"a","positions":"x"}]}}`, `{"request_type":"create","request_data":{"collection_infos":[{"name":"a","positions":{"c":5}}]}}`,
	`{"request_type":"create","request_data":{"buffer_config":{"period":"1"}}}`, `{"request_type":"create","request_data":{"extra_info":{"enable_user_role":"true"}}}`,
	`{"request_type":"create","request_data":{"task_id":5}}`, `{"request_type":"maintenance","request_data":{"operation":5}}`,
	`{"request_type":"maintenance","request_data":{"operation":"set_force_log_msg","params":{"force":null}}}`,
	`{"request_type":"maintenance","request_data":{"operation":"reset_log_msg","params":{"count":1,"duration":"x"}}}`,
	"\xef\xbb\xbf{}", "NaN", "Infinity", "-Infinity", "0x10", "1e999", "'a'", "{'a':1}", "{\"a\":1,}", "[1,]", "\x00", "\xff\xff\xff\xff", "<xml/>",
	"request_type=list", "{\"request_type\":\"l\xe9st\",\"request_data\":{}}", "{\"request_type\":\"\xff\"}", "{\"request_type\":\"list\"}{\"request_type\":\"list\"}", "{\"request_type\":\"list\"}\n\n\n",
}

func (g *c19Gen) rawBody() ([]byte, string) {
	switch g.rng.Intn(9) {
	case 0, 1:
		b := make([]byte, g.rng.Intn(300))
		g.rng.Read(b)
		return b, "raw-random"
	case 2:
		n := g.rng.Intn(200)
		b := make([]byte, n)
		for i := range b {
			b[i] = byte(32 + g.rng.Intn(95))
		}
		return b, "raw-ascii"
	case 3, 4:
		toks := []string{"{", "}", "[", "]", ":", ",", "\"", "\\", "null", "true", "false", "0", "-1", "1e5", "\"request_type\"", "\"request_data\"", "\"create\"", "\"list\"",
			"\"task_id\"", " ", "\n", "\"a\"", "\"collection_infos\"", "\"name\"", "\"*\"", "\"positions\"", "\\u0000", "e", "."}
		var sb strings.Builder
		for i := 0; i < 1+g.rng.Intn(60); i++ {
			sb.WriteString(toks[g.rng.Intn(len(toks))])
		}
		return []byte(sb.String()), "raw-token-soup"
	case 5:
		n := []int{50, 500, 5000, 20000, 100000}[g.rng.Intn(5)]
		switch g.rng.Intn(4) {
		case 0:
			return []byte(strings.Repeat("[", n)), "raw-deep-open"
		case 1:
			return []byte(strings.Repeat("[", n) + strings.Repeat("]", n)), "raw-deep-array"
		case 2:
			return []byte(`{"request_type":"list","request_data":{"a":` + strings.Repeat("[", n) + strings.Repeat("]", n) + "}}"), "raw-deep-in-data"
		default:
			return []byte(`{"request_type":"list","request_data":` + strings.Repeat(`{"a":`, n) + "1" + strings.Repeat("}", n) + "}"), "raw-deep-objects"
		}
	case 6:
		n := []int{1000, 100000, 2000000}[g.rng.Intn(3)]
		return []byte(`{"request_type":"` + strings.Repeat("A", n) + `","request_data":{}}`), "raw-long-string"
	default:
		return []byte(c19Literals[g.rng.Intn(len(c19Literals))]), "raw-literal"
	}
}

// ---------------- the plan: which kind of request sits at which index ----------------

// 20 slots: D dictionary create (8), M mutation (4), R raw bytes (3), O other operation (3), V valid create (1), X non-POST method (1)
const c19Pattern = "DMRDODMDVDRMDODXDMRO"

const c19EpisodeLen = 25

// c19DictOrdinal: number of dictionary slots among the indices below idx
func c19DictOrdinal(idx int) int {
	full := idx / len(c19Pattern)
	n := full * strings.Count(c19Pattern, "D")
	for i := 0; i < idx%len(c19Pattern); i++ {
		if c19Pattern[i] == 'D' {
			n++
		}
	}
	return n
}

func c19MethodFor(rng *rand.Rand) string {
	return []string{"GET", "PUT", "DELETE", "PATCH", "HEAD", "OPTIONS", "get", "post", "TRACE", "FOO"}[rng.Intn(10)]
}

// next builds the request for index idx. pre = number of leading valid creates of this episode.
//
// Every 5th episode (ep%5 == 1) starts with a named collection followed by the wildcard of its database, so that the
// exclude-name bookkeeping is populated; an episode with a task limit ("limited") spends its mutation slots on valid
// creates, which are then refused AFTER the bookkeeping was updated.
func (g *c19Gen) next(pre int, ep int, limited bool) c19Req {
	r := c19Req{Batch: g.batch, Idx: g.idx, Method: "POST"}
	j := g.idx % c19EpisodeLen
	slot := c19Pattern[g.idx%len(c19Pattern)]
	if limited && slot == 'M' {
		slot = 'V'
	}
	forced := -1
	if ep%5 == 1 && j < 2 {
		slot = 'P'
		forced = []int{0, 4}[j]
		if ep%2 == 0 {
			forced = []int{10, 11}[j]
		}
	} else if ep%5 == 1 && j == 2 {
		slot = 'W'
	} else if j < pre {
		slot = 'P'
	}
	switch slot {
	case 'P', 'V':
		var d c19obj
		var fl string
		if forced >= 0 {
			d, fl = g.validCreateOf(forced)
		} else {
			d, fl = g.validCreate()
		}
		r.Kind, r.Class, r.Create = "valid", "valid-"+fl, true
		if slot == 'P' {
			r.Kind = "pre"
		}
		r.Body = c19envelope("create", d)
	case 'W': // every database wildcard over a state with a populated exclude list, refused late
		r.Kind, r.Class, r.Expect, r.Create = "dict", "wildcard-late-reject", c19Strict, true
		r.Body = c19envelope("create", g.baseDB("*", "*").with("rpc_channel_info", c19obj{{"position", g.pick(g.notBase64(), g.notProto())}}))
	case 'D':
		c := c19Dict[(c19DictOrdinal(g.idx)+g.batch*17)%len(c19Dict)]
		if c19DictOrdinal(g.idx)%7 == 3 {
			// every 7th dictionary slot: a multi-record create with a store failure at a drawn call
			for _, x := range c19Dict {
				if x.Name == "store-fault" {
					c = x
				}
			}
		}
		r.Kind, r.Class, r.Expect, r.Create = "dict", c.Name, c.Expect, true
		r.Body = c19envelope("create", c.Build(g))
		if c.Name == "store-fault" {
			r.FailAt = 1 + g.rng.Intn(8)
		}
	case 'M':
		r.Kind = "mut"
		r.Body, r.Class = g.mutation()
		r.Create = strings.Contains(string(r.Body[:c19min(len(r.Body), 40)]), "create")
	case 'R':
		r.Kind = "raw"
		r.Body, r.Class = g.rawBody()
	case 'O':
		r.Kind = "op"
		r.Body, r.Class, r.Expect, r.TaskRef = g.opRequest()
		if r.Class == "op-delete-existing" && g.idx%3 != 0 {
			// the meta store fails while the delete of an existing task is being served: the request is refused and
			// the task, its checkpoints and the names it owns stay as they were
			r.Class = "op-delete-existing-store-fault"
			r.FailAt = 1 + g.idx%3
		}
	case 'X':
		r.Kind, r.Method = "method", c19MethodFor(g.rng)
		r.Class = "method-" + strings.ToUpper(r.Method)
		if g.rng.Intn(2) == 0 {
			d, _ := g.validCreate()
			r.Body = c19envelope("create", d)
		} else {
			r.Body, _ = g.rawBody()
		}
	}
	return r
}

func c19min(a, b int) int {
	if a < b {
		return a
	}
	return b
}

// c19StrictKey: violation key for an accepted request of a strict class
func c19StrictKey(class string) string {
	if class == "op-unknown-type" {
		return "accepted-unknown-request-type"
	}
	for _, c := range c19Dict {
		if c.Name == class && c.Key != "" {
			return c.Key
		}
	}
	return "accepted-" + class
}
