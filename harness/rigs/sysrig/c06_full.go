package main

// C06, ninth failure class: a message that cannot be processed (unknown collection / unknown partition) is met
// while the target's api-event queue is FULL. The reader reports such a message through the same queue (capacity
// 10) that carries the create / drop requests of every task of the target; the report must not get lost when the
// queue has no room.
//
//	task A replicates database fulla (collection f_a, one shard); it runs and has acknowledged rows;
//	database fullc holds collection f_c with 30 partitions; the next CreatePartition reply of the downstream is
//	held, then task C (database fullc) is created: its start-up scan registers the partitions one after the other,
//	the event loop sits in the held CreatePartition call, ten more requests fill the queue, the scan hangs;
//	now a poison row (unknown collection or unknown partition) is written to f_a's stream; once the service's log
//	shows that it gave up looking the object up, the report is on its way into the full queue;
//	the held reply is released; the queue drains (all 30 partitions appear downstream, the create of task C is
//	answered); a marker collection created in fullc afterwards passes the same queue: when it appears downstream,
//	everything queued before it has been handled.
//
// Demanded: task A is Paused with a reason (get and list), the process is alive, task C is Running, the poison row's
// pack was not skipped (no later row of f_a acknowledged).

import (
	"context"
	"fmt"
	"os"
	"strings"
	"sync"
	"time"

	"github.com/milvus-io/milvus/pkg/mq/msgstream"

	"verifharness/internal/fakemilvus"
	"verifharness/internal/sysboot"
	"verifharness/internal/vf"
)

type c06FullCase struct {
	Idx     int    `json:"case"`
	Poison  string `json:"poison"` // collection | partition
	WaitMs  int    `json:"ms_between_giving_up_and_release"`
	Partsss int    `json:"partitions_of_the_scanned_collection"`
}

func runC06Full(run *vf.Run) {
	var cases []c06FullCase
	n := run.Pick(2, 8)
	for i := 0; i < n; i++ {
		rnd := vf.Rand(run.Seed, "c06-full", i)
		cases = append(cases, c06FullCase{Idx: i, Poison: []string{"partition", "collection"}[i%2], WaitMs: 300 + rnd.Intn(1200), Partsss: 24 + rnd.Intn(10)})
	}
	parallel(len(cases), 4, func(i int) {
		c := cases[i]
		tag := fmt.Sprintf("[event-queue-full case %d poison=%s] ", c.Idx, c.Poison)
		vios, inconclusive, replay := runC06FullCase(c, fmt.Sprintf("c06-full-%d", c.Idx))
		run.Eval(1)
		run.Count("cases_class_event-queue-full", 1)
		if inconclusive != "" {
			run.Inconclusive(tag + inconclusive)
			if replay != nil && os.Getenv("C06_GONE_DEBUG") != "" {
				fmt.Printf("C06-FULL-INCONCLUSIVE %s%s\n%v\n", tag, inconclusive, replay["child_log_tail"])
			}
			return
		}
		run.Count("delivered_event-queue-full", 1)
		run.Nontrivial(fmt.Sprintf("event-queue-full/%s/%d", c.Poison, c.Partsss))
		for _, v := range vios {
			run.Violate(v.key, tag+v.desc, replay)
		}
	})
	run.Floor("delivered_event-queue-full", 1)
}

func runC06FullCase(c c06FullCase, name string) (vios []vio, inconclusive string, replay map[string]any) {
	s, err := newSuper(scratchDir(name), 1)
	if err != nil {
		return nil, "world: " + err.Error(), nil
	}
	defer s.close()
	sc := &scenario{Idx: 950 + c.Idx, NSrcP: 3, Targets: 1, PackCnt: 1}
	fc := collDef{DB: "fullc", Name: "f_c", PChannels: []int{2}}
	for k := 1; k <= c.Partsss; k++ {
		fc.Parts = append(fc.Parts, fmt.Sprintf("q%d", k))
	}
	sc.Colls = []collDef{{DB: "fulla", Name: "f_a", PChannels: []int{0}}, fc, {DB: "fullc", Name: "f_marker", PChannels: []int{1}}}
	sc.Tasks = []taskDef{{Target: 0, Collections: "*", DB: "fulla"}, {Target: 0, Collections: "*", DB: "fullc"}}
	rs := newRunState(s, sc)
	tgt := s.w.Targets[0]
	for _, db := range []string{"fulla", "fullc"} {
		_ = tgt.AddDatabase(db)
		if _, err := s.w.Src.CreateDatabase(context.Background(), db); err != nil {
			return nil, "create database: " + err.Error(), nil
		}
	}
	var mu sync.Mutex
	hold := fakemilvus.NewHold()
	armed, held := false, false
	createdParts := map[string]bool{}
	createdColls := map[string]bool{}
	tgt.SetHook(func(call *fakemilvus.Call) *fakemilvus.Decision {
		mu.Lock()
		defer mu.Unlock()
		switch call.Method {
		case "CreatePartition":
			createdParts[fmt.Sprint(call.Req)] = true
			if armed && !held {
				held = true
				return fakemilvus.HoldReply(hold)
			}
		case "CreateCollection":
			createdColls[fmt.Sprint(call.Req)] = true
		}
		return nil
	})
	count := func() (int, bool) {
		mu.Lock()
		defer mu.Unlock()
		marker := false
		for k := range createdColls {
			if strings.Contains(k, "f_marker") {
				marker = true
			}
		}
		return len(createdParts), marker
	}
	mk := func() map[string]any {
		return map[string]any{"case": c, "scenario": sc, "events": tailEvents(s.events(), 400), "child_log_tail": s.tailChildLog(4000)}
	}
	if err := s.startChild(childOpts{PackCount: 1, PackTimer: 30, SrcChannels: 3}); err != nil {
		return nil, "child: " + err.Error(), nil
	}
	rs.startPump(50 * time.Millisecond)
	defer rs.stopPump()
	if r := rs.createTask(0); r.Code != 200 {
		return nil, fmt.Sprintf("create task A: %d %s", r.Code, r.Message), nil
	}
	if err := rs.createColl(0); err != nil {
		return nil, "create collection: " + err.Error(), nil
	}
	var first []int64
	for i := 0; i < 2; i++ {
		if d, err := rs.send("insert", 0, 0, 0, 1); err == nil {
			first = append(first, d.UID)
		}
	}
	if miss := rs.waitAcked(first, 60*time.Second); len(miss) > 0 {
		return nil, "the rows before the fault were not acknowledged", mk()
	}
	// the collection whose start-up scan fills the queue
	if err := rs.createColl(1); err != nil {
		return nil, "create collection: " + err.Error(), nil
	}
	mu.Lock()
	armed = true
	mu.Unlock()
	createC := make(chan sysboot.Response, 1)
	go func() { createC <- rs.createTask(1) }()
	select {
	case <-hold.Applied():
	case <-time.After(60 * time.Second):
		hold.Release()
		return nil, "the held CreatePartition call did not arrive (watchdog)", mk()
	}
	// the scan goes on until the queue is full: give it time (how full the queue is is not observable from outside;
	// a queue that is not full only makes the case easier for the service, never a false alarm)
	time.Sleep(1500 * time.Millisecond)
	// ---- the poison row ----
	src := s.w.Src
	col := rs.colls[0]
	rs.mu.Lock()
	uid := rs.nextUID
	rs.nextUID++
	rs.mu.Unlock()
	build := func(ts uint64) msgstream.TsMsg {
		if c.Poison == "collection" {
			cp := *col
			cp.ID = 777_100_000_000 + int64(c.Idx)
			return src.InsertMsg(&cp, 0, col.Parts[0], uid, ts, 1)
		}
		ghost := &sysboot.SrcPart{ID: 888_100_000_000 + int64(c.Idx), Name: fmt.Sprintf("c06_full_ghost_%d", c.Idx)}
		return src.InsertMsg(col, 0, ghost, uid, ts, 1)
	}
	if _, _, err := src.SendStamped(col.Shards[0].PChannel, build); err != nil {
		hold.Release()
		return nil, "send poison: " + err.Error(), mk()
	}
	s.log(sevt{Kind: "note", Note: fmt.Sprintf("poison row uid=%d (%s)", uid, c.Poison)})
	// the service gives up looking the object up (its log says so): from now on its report is on the way
	gaveUp := false
	for deadline := time.Now().Add(90 * time.Second); time.Now().Before(deadline); time.Sleep(100 * time.Millisecond) {
		if c06ExhaustedRe.MatchString(s.tailChildLog(2_000_000)) {
			gaveUp = true
			break
		}
		if !s.childAlive() {
			break
		}
	}
	add := func(k, d string) { vios = append(vios, vio{k, d}) }
	if !s.childAlive() {
		hold.Release()
		add("C06/process-crash-event-queue-full", "the CDC process died: "+c06FirstLines(s.tailChildLog(3000), 12))
		return vios, "", mk()
	}
	if !gaveUp {
		hold.Release()
		return nil, "the service never logged that it gave up on the poison row (watchdog)", mk()
	}
	time.Sleep(time.Duration(c.WaitMs) * time.Millisecond)
	nBefore, _ := count()
	hold.Release()
	s.log(sevt{Kind: "note", Note: fmt.Sprintf("held reply released (%d CreatePartition calls seen so far)", nBefore)})
	// ---- drain: task C's create answered, every partition created, then the marker ----
	select {
	case r := <-createC:
		if r.Code != 200 {
			return nil, fmt.Sprintf("create task C: %d %s", r.Code, r.Message), mk()
		}
	case <-time.After(120 * time.Second):
		return nil, "the create of task C was not answered after the release (watchdog)", mk()
	}
	for deadline := time.Now().Add(120 * time.Second); ; time.Sleep(50 * time.Millisecond) {
		if n, _ := count(); n >= c.Partsss {
			break
		}
		if time.Now().After(deadline) {
			n, _ := count()
			return nil, fmt.Sprintf("only %d of %d partitions were created downstream after the release (watchdog)", n, c.Partsss), mk()
		}
	}
	if err := rs.createColl(2); err != nil {
		return nil, "create marker collection: " + err.Error(), mk()
	}
	for deadline := time.Now().Add(120 * time.Second); ; time.Sleep(50 * time.Millisecond) {
		if _, m := count(); m {
			break
		}
		if time.Now().After(deadline) {
			return nil, "the marker collection was not created downstream (watchdog)", mk()
		}
	}
	// everything that was queued (or waiting for room) before the marker has been handled by the one event loop
	time.Sleep(300 * time.Millisecond)
	if !s.childAlive() {
		add("C06/process-crash-event-queue-full", "the CDC process died: "+c06FirstLines(s.tailChildLog(3000), 12))
		return vios, "", mk()
	}
	idA, idC := rs.taskIDs[0], rs.taskIDs[1]
	st, rsn, ok := rs.taskState(idA)
	if !ok {
		return nil, "get of task A failed", mk()
	}
	if st != "Paused" {
		add("C06/owning-task-not-paused-event-queue-full", fmt.Sprintf("task %s read a row for an unknown %s while the target's event queue was full (start-up scan of another task, event loop held in a downstream call); the queue has drained since (all %d partitions and a later marker collection were created downstream) and the task is still %s: the report was lost, the stream has stopped and nobody knows", idA, c.Poison, c.Partsss, st))
	} else if rsn == "" {
		add("C06/paused-without-reason-event-queue-full", fmt.Sprintf("task %s is Paused but carries no reason", idA))
	}
	if r := s.api("list", map[string]any{}); r.Code == 200 && st == "Paused" {
		raw := string(r.Raw)
		if i := strings.Index(raw, idA); i < 0 || !strings.Contains(raw[i:min(len(raw), i+4000)], "Paused") {
			add("C06/owning-task-not-paused-event-queue-full", fmt.Sprintf("task %s is Paused through get but list does not show it Paused", idA))
		}
	}
	if stC, _, ok := rs.taskState(idC); ok && stC != "Running" {
		add("C06/other-task-state-changed-event-queue-full", fmt.Sprintf("task %s (the one whose start-up scan filled the queue) is %s", idC, stC))
	}
	// the failing message must not be skipped: rows written behind it are never acknowledged
	var later []int64
	for i := 0; i < 2; i++ {
		if d, err := rs.send("insert", 0, 0, 0, 1); err == nil {
			later = append(later, d.UID)
		}
	}
	time.Sleep(1500 * time.Millisecond)
	acked := rs.ackedUIDs()
	for _, u := range later {
		if len(acked[u]) > 0 {
			add("C06/failing-message-skipped-event-queue-full", fmt.Sprintf("row uid=%d written behind the poison row on the same stream was acknowledged downstream: the stream went on past the failing message", u))
			break
		}
	}
	return vios, "", mk()
}
