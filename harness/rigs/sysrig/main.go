// sysrig: the whole CDC service (real server, store, readers, msgstream, dispatcher, packer, writer, SDK) in a
// killable child process between an embedded etcd, a file-backed message queue and fake downstream Milvus
// servers owned by the supervisor. Decides C05, C06, C10, C11, C18, C19.
package main

import (
	"flag"
	"fmt"
	"os"
	"path/filepath"
	"sync"

	"github.com/sasha-s/go-deadlock"

	"verifharness/internal/sysboot"
	"verifharness/internal/vf"
)

var (
	fProp = flag.String("prop", "", "property id")
	fTier = flag.String("tier", "quick", "quick|thorough")
	fCase = flag.Int("case", -1, "run one case (debug)")
)

func scratchDir(name string) string {
	base := os.Getenv("VERIF_SCRATCH")
	if base == "" {
		base = os.TempDir()
	}
	d := filepath.Join(base, name)
	_ = os.MkdirAll(d, 0o755)
	return d
}

// parallel runs f(i) for i in [0,n) with at most conc at a time.
func parallel(n, conc int, f func(i int)) {
	sem := make(chan struct{}, conc)
	var wg sync.WaitGroup
	for i := 0; i < n; i++ {
		wg.Add(1)
		sem <- struct{}{}
		go func(i int) {
			defer wg.Done()
			defer func() { <-sem }()
			f(i)
		}(i)
	}
	wg.Wait()
}

func main() {
	flag.Parse()
	deadlock.Opts.Disable = true
	if *fChild {
		childMain()
		return
	}
	sysboot.InitProcess()
	var run *vf.Run
	switch *fProp {
	case "C05":
		run = runC05(*fTier)
	case "C06":
		run = runC06(*fTier)
	case "C10":
		run = runC10(*fTier)
	case "C11":
		run = runC11(*fTier)
	case "C18":
		run = runC18(*fTier)
	case "C19":
		run = runC19(*fTier)
	case "C04S":
		run = runC04S(*fTier)
	case "C03S":
		run = runC03S(*fTier)
	default:
		fmt.Fprintln(os.Stderr, "sysrig: unknown property", *fProp)
		os.Exit(64)
	}
	vf.CollectRaces(run)
	os.Exit(run.Finish(vf.Out()))
}
